From C4E Require Import Base Validate.
From Coq Require Import Permutation Lia ZifyBool.
Open Scope Z_scope.

(* strictly increasing keys *)
Fixpoint kstrict (l : list (Z * bool)) : Prop :=
  match l with [] => True | x :: t => Forall (fun y => fst x < fst y) t /\ kstrict t end.

Lemma insert_sorted_perm e l : Permutation (insert_sorted e l) (e :: l).
Proof.
  induction l as [|x t IH]; cbn [insert_sorted]; [apply Permutation_refl|].
  destruct (fst e <=? fst x); [apply Permutation_refl|]. eapply perm_trans; [apply perm_skip; exact IH | apply perm_swap].
Qed.
Lemma sort_entries_perm l : Permutation (sort_entries l) l.
Proof.
  induction l as [|x t IH]; cbn [sort_entries fold_right]; [apply Permutation_refl|]. fold (sort_entries t).
  eapply perm_trans; [apply insert_sorted_perm | apply perm_skip; exact IH].
Qed.

Lemma insert_sorted_strict e l : kstrict l -> ~ In (fst e) (map fst l) -> kstrict (insert_sorted e l).
Proof.
  induction l as [|x t IH]; intros Hs Hn; cbn [insert_sorted]; [cbn; split; [constructor | exact I]|].
  destruct Hs as [H1 H2]. cbn [map In] in Hn.
  destruct (fst e <=? fst x) eqn:E.
  - cbn [kstrict]. split; [|split; assumption]. assert (fst e <> fst x) by (intros Eq; apply Hn; left; symmetry; exact Eq).
    constructor; [lia|]. eapply Forall_impl; [|exact H1]. cbn. intros; lia.
  - cbn [kstrict]. split.
    + eapply Permutation_Forall; [apply Permutation_sym; apply insert_sorted_perm|]. constructor; [lia | exact H1].
    + apply IH; [exact H2 | intros Hin; apply Hn; right; exact Hin].
Qed.

Lemma sort_entries_strict l : NoDup (map fst l) -> kstrict (sort_entries l).
Proof.
  induction l as [|x t IH]; intros Hn; cbn [sort_entries fold_right]; [exact I|]. fold (sort_entries t).
  cbn [map] in Hn. inversion Hn as [|? ? Hx Ht]; subst. apply insert_sorted_strict; [apply IH; exact Ht|].
  intros Hin. apply Hx. eapply Permutation_in; [apply Permutation_map; apply sort_entries_perm | exact Hin].
Qed.

Lemma kstrict_perm_eq l : forall l', kstrict l -> kstrict l' -> Permutation l l' -> l = l'.
Proof.
  induction l as [|x t IH]; intros l' Hs Hs' Hp.
  - apply Permutation_nil in Hp. subst. reflexivity.
  - destruct l' as [|y t']; [apply Permutation_sym, Permutation_nil in Hp; discriminate|].
    destruct Hs as [H1 H2]. destruct Hs' as [H1' H2'].
    assert (Hxy : x = y).
    { assert (Hx : In x (y :: t')) by (eapply Permutation_in; [exact Hp | left; reflexivity]).
      assert (Hy : In y (x :: t)) by (eapply Permutation_in; [apply Permutation_sym; exact Hp | left; reflexivity]).
      destruct Hx as [Hx|Hx]; [symmetry; exact Hx|]. destruct Hy as [Hy|Hy]; [exact Hy|].
      pose proof (proj1 (Forall_forall _ _) H1' x Hx) as A. pose proof (proj1 (Forall_forall _ _) H1 y Hy) as B. cbn beta in A, B. lia. }
    subst y. f_equal. apply IH; [exact H2 | exact H2' | eapply Permutation_cons_inv; exact Hp].
Qed.

(* after the repair (iterate the account ids in sorted order): whatever order the Go map is ranged in,
   the same account id is reported *)
Theorem reported_id_after_fix_independent_of_map_order l l' :
  NoDup (map fst l) -> Permutation l l' -> first_bad (sort_entries l) = first_bad (sort_entries l').
Proof.
  intros Hn Hp. f_equal. apply kstrict_perm_eq.
  - apply sort_entries_strict; exact Hn.
  - apply sort_entries_strict. eapply Permutation_NoDup; [apply Permutation_map; exact Hp | exact Hn].
  - eapply perm_trans; [apply sort_entries_perm|]. eapply perm_trans; [exact Hp | apply Permutation_sym; apply sort_entries_perm].
Qed.
