package main

// params.go — governance parameter updates: sequences of the seven update messages of cfeminter,
// cfedistributor and cfevesting through the real message servers (authority = gov module address or
// something else), printed for C4E.Params.check_pops, with the implementation-side predicates of C13.

import (
	"fmt"
	cfedistributor "github.com/chain4energy/c4e-chain/x/cfedistributor"
	cfeminter "github.com/chain4energy/c4e-chain/x/cfeminter"
	"math/big"
	"sort"
	"strings"
	"time"

	appparams "github.com/chain4energy/c4e-chain/app/params"
	distrkeeper "github.com/chain4energy/c4e-chain/x/cfedistributor/keeper"
	distrtypes "github.com/chain4energy/c4e-chain/x/cfedistributor/types"
	minterkeeper "github.com/chain4energy/c4e-chain/x/cfeminter/keeper"
	mintertypes "github.com/chain4energy/c4e-chain/x/cfeminter/types"
	vestkeeper "github.com/chain4energy/c4e-chain/x/cfevesting/keeper"
	vesttypes "github.com/chain4energy/c4e-chain/x/cfevesting/types"
	sdk "github.com/cosmos/cosmos-sdk/types"
	authtypes "github.com/cosmos/cosmos-sdk/x/auth/types"
)

type paramsEnv struct {
	de     *distrEnv
	names  map[string]int // sub-distributor, share and primary-share names
	accIds map[string]int
	keys   map[string]int
}

func (pe *paramsEnv) name(s string) int {
	if s == "" {
		return 0
	}
	if v, ok := pe.names[s]; ok {
		return v
	}
	pe.names[s] = len(pe.names) + 1
	return pe.names[s]
}

func (pe *paramsEnv) accTerm(a distrtypes.Account) string {
	t, ok := map[string]int{distrtypes.Main: 0, distrtypes.InternalAccount: 1, distrtypes.ModuleAccount: 2, distrtypes.BaseAccount: 3}[a.Type]
	if !ok {
		t = 4
	}
	id := 0
	if a.Id != "" {
		if v, ok := pe.accIds[a.Id]; ok {
			id = v
		} else {
			pe.accIds[a.Id] = len(pe.accIds) + 1
			id = pe.accIds[a.Id]
		}
	}
	k := a.Type + "-" + a.Id
	key, ok := pe.keys[k]
	if !ok {
		pe.keys[k] = len(pe.keys) + 1
		key = pe.keys[k]
	}
	addr := -1
	switch a.Type {
	case distrtypes.BaseAccount:
		if _, err := sdk.AccAddressFromBech32(a.Id); err != nil {
			addr = -2
		} else {
			addr = 1
		}
	case distrtypes.ModuleAccount:
		if a.Validate() != nil {
			addr = -2
		} else {
			addr = 1
		}
	}
	return fmt.Sprintf("{| da_type := %d; da_id := %d; da_key := %d; da_addr := %s |}", t, id, key, zI(int64(addr)))
}

func (pe *paramsEnv) subTerm(sd distrtypes.SubDistributor) string {
	var srcs, shs []string
	for _, a := range sd.Sources {
		srcs = append(srcs, pe.accTerm(*a))
	}
	for _, sh := range sd.Destinations.Shares {
		nm := pe.name(sh.Name)
		shs = append(shs, fmt.Sprintf("{| sh_name := %d; sh_share := %s; sh_dest := %s |}", nm, zB(sh.Share.BigInt()), pe.accTerm(sh.Destination)))
	}
	return fmt.Sprintf("{| ps_sd := {| sd_name := %d; sd_sources := %s; sd_primary := %s; sd_burn := %s; sd_shares := %s |}; ps_pname := %d |}",
		pe.name(sd.Name), zList(srcs), pe.accTerm(sd.Destinations.PrimaryShare), zB(sd.Destinations.BurnShare.BigInt()), zList(shs), pe.name(sd.GetPrimaryShareName()))
}

func (pe *paramsEnv) subsTerm(sds []distrtypes.SubDistributor) string {
	var xs []string
	for _, sd := range sds {
		xs = append(xs, pe.subTerm(sd))
	}
	return zList(xs)
}

func (pe *paramsEnv) accCode(a distrtypes.Account) []*big.Int {
	// must agree with accTerm: parse it back from the term (single source of truth)
	var t, id, key, addr int64
	s := pe.accTerm(a)
	s = strings.NewReplacer("(", "", ")", "").Replace(s)
	fmt.Sscanf(s, "{| da_type := %d; da_id := %d; da_key := %d; da_addr := %d |}", &t, &id, &key, &addr)
	return []*big.Int{bi(t), bi(id), bi(key), bi(addr)}
}

func (pe *paramsEnv) distrCode(sds []distrtypes.SubDistributor) []*big.Int {
	out := []*big.Int{bi(int64(len(sds)))}
	for _, sd := range sds {
		out = append(out, bi(int64(pe.name(sd.Name))), bi(int64(pe.name(sd.GetPrimaryShareName()))), sd.Destinations.BurnShare.BigInt(), bi(int64(len(sd.Sources))))
		for _, a := range sd.Sources {
			out = append(out, pe.accCode(*a)...)
		}
		out = append(out, pe.accCode(sd.Destinations.PrimaryShare)...)
		out = append(out, bi(int64(len(sd.Destinations.Shares))))
		for _, sh := range sd.Destinations.Shares {
			out = append(out, bi(int64(pe.name(sh.Name))), sh.Share.BigInt())
			out = append(out, pe.accCode(sh.Destination)...)
		}
	}
	return out
}

func minterParamsTerm(p mintertypes.Params) (string, minterCfg) {
	c := minterCfg{start: p.StartTime, denom: p.MintDenom, denomOK: p.MintDenom != ""}
	ms := append([]*mintertypes.Minter{}, p.Minters...)
	sort.SliceStable(ms, func(i, j int) bool { return ms[i].SequenceId < ms[j].SequenceId })
	for _, m := range ms {
		g := genMinter{seq: m.SequenceId, end: m.EndTime}
		cfg, err := m.GetMinterConfig()
		if err != nil {
			g.kind = 0
		} else {
			switch v := cfg.(type) {
			case *mintertypes.NoMinting:
				g.kind = 0
			case *mintertypes.LinearMinting:
				g.kind, g.amt = 1, v.Amount.BigInt()
			case *mintertypes.ExponentialStepMinting:
				g.kind, g.amt, g.step, g.mult = 2, v.Amount.BigInt(), v.StepDuration, v.AmountMultiplier
			}
		}
		c.minters = append(c.minters, g)
	}
	return c.paramsTerm(), c
}

func runParamsCase(ta *TestApp, seed uint64, idx int, rep *Report, profile string) string {
	rng := NewRng(seed, uint64(idx)+53000000)
	app := ta.App
	base, _ := ta.Ctx().CacheContext()
	t0 := time.Unix(1700000000+rng.I64n(10000000), 0).UTC()
	ctx := base.WithBlockTime(t0)
	de := &distrEnv{ta: ta, rng: rng, rep: rep}
	for i := 0; i < 5; i++ {
		de.baseAdr = append(de.baseAdr, sdk.AccAddress(rng.Bytes(20)))
	}
	de.blocked = app.AccountKeeper.GetModuleAddress(authtypes.FeeCollectorName)
	de.addrTab = []sdk.AccAddress{app.AccountKeeper.GetModuleAddress(distrtypes.DistributorMainAccount)}
	pe := &paramsEnv{de: de, names: map[string]int{}, accIds: map[string]int{}, keys: map[string]int{}}
	gov := appparams.GetAuthority()
	other := sdk.AccAddress(rng.Bytes(20)).String()
	dms := distrkeeper.NewMsgServerImpl(app.CfedistributorKeeper)
	mms := minterkeeper.NewMsgServerImpl(app.CfeminterKeeper)
	vms := vestkeeper.NewMsgServerImpl(app.CfevestingKeeper)

	// ---- initial, validated parameters
	var dcfg distrCfg
	for {
		dcfg = de.genDistrCfg(0)
		if dcfg.params().Validate() == nil {
			break
		}
	}
	if err := app.CfedistributorKeeper.SetParams(ctx, dcfg.params()); err != nil {
		panic(err)
	}
	mc := genMinterCfg(rng, t0)
	if err := app.CfeminterKeeper.SetParams(ctx, mc.params()); err != nil {
		panic(err)
	}
	mstate := mintertypes.MinterState{SequenceId: mc.minters[rng.Intn(len(mc.minters))].seq, AmountMinted: sdk.ZeroInt(), RemainderToMint: sdk.ZeroDec(),
		RemainderFromPreviousMinter: sdk.ZeroDec(), LastMintBlockTime: t0}
	app.CfeminterKeeper.SetMinterState(ctx, mstate)
	// 0-3 owner entries in the pool store, each with 0-2 pools (entries without pools come from a genesis or an upgrade;
	// the store is ordered by owner address, so which entry comes first is random)
	nEntries := 0
	if rng.Chance(50) {
		nEntries = 1 + rng.Intn(3)
	}
	anyPool := false
	for e := 0; e < nEntries; e++ {
		avp := vesttypes.AccountVestingPools{Owner: sdk.AccAddress(rng.Bytes(20)).String()}
		for j := 0; j < rng.Intn(3); j++ {
			avp.VestingPools = append(avp.VestingPools, &vesttypes.VestingPool{Name: fmt.Sprintf("p%d", j), VestingType: "vt", LockStart: t0, LockEnd: t0.Add(time.Hour),
				InitiallyLocked: sdk.NewInt(5), Withdrawn: sdk.ZeroInt(), Sent: sdk.ZeroInt()})
			anyPool = true
		}
		app.CfevestingKeeper.SetAccountVestingPools(ctx, avp)
		rep.Count(fmt.Sprintf("pool_store.entry_with_%d_pools", len(avp.VestingPools)))
	}
	if nEntries > 0 && anyPool {
		if first := app.CfevestingKeeper.GetAllAccountVestingPools(ctx)[0]; len(first.VestingPools) == 0 {
			rep.Count("pool_store.first_entry_empty_later_entry_with_pools")
		}
	}
	poolsExist := false
	poolsExist = len(app.CfevestingKeeper.GetAllAccountVestingPools(ctx)) > 0
	if err := app.CfevestingKeeper.SetParams(ctx, vesttypes.Params{Denom: BondDenom}); err != nil {
		panic(err)
	}

	stored := func() []distrtypes.SubDistributor { return app.CfedistributorKeeper.GetParams(ctx).SubDistributors }
	mterm0, _ := minterParamsTerm(app.CfeminterKeeper.GetParams(ctx))
	world := fmt.Sprintf("{| pw_distr := %s; pw_minter := %s; pw_mstate := %s; pw_vdenom_ok := true; pw_pools_exist := %s |}",
		pe.subsTerm(stored()), mterm0, stateTerm(mstate), zBool(poolsExist))

	perturbSub := func(sd distrtypes.SubDistributor) distrtypes.SubDistributor {
		switch rng.Intn(9) {
		case 7, 8:
			// a share named like a share (or the reserved primary share name) of ANOTHER sub-distributor:
			// fine inside this sub-distributor, not in the configuration as a whole
			var cands []string
			for _, o := range stored() {
				if o.Name == sd.Name {
					continue
				}
				cands = append(cands, o.Name+"_primary")
				for _, sh := range o.Destinations.Shares {
					cands = append(cands, sh.Name)
				}
			}
			if len(cands) == 0 {
				sd.Destinations.BurnShare = shareDec(rng)
				break
			}
			nm := cands[rng.Intn(len(cands))]
			if len(sd.Destinations.Shares) > 0 && rng.Bool() {
				sd.Destinations.Shares[0].Name = nm
			} else {
				sd.Destinations.Shares = append(sd.Destinations.Shares, &distrtypes.DestinationShare{Name: nm, Share: sdk.NewDecWithPrec(1, 3),
					Destination: distrtypes.Account{Type: distrtypes.ModuleAccount, Id: distrModules[rng.Intn(len(distrModules))]}})
			}
			rep.Count("perturb.share_name_of_other_subdistributor")
		case 0:
			sd.Destinations.BurnShare = shareDec(rng)
		case 1:
			sd.Destinations.BurnShare = sdk.NewDecWithPrec(99, 2)
		case 2:
			sd.Destinations.PrimaryShare = distrtypes.Account{Type: distrtypes.BaseAccount, Id: "not-bech32"}
		case 3:
			sd.Destinations.Shares = append(sd.Destinations.Shares, &distrtypes.DestinationShare{Name: fmt.Sprintf("extra%d", rng.Intn(3)), Share: shareDec(rng).QuoInt64(4),
				Destination: distrtypes.Account{Type: distrtypes.ModuleAccount, Id: distrModules[rng.Intn(len(distrModules))]}})
		case 4:
			sd.Destinations.Shares = append(sd.Destinations.Shares, &distrtypes.DestinationShare{Name: sd.Name + "_primary", Share: sdk.NewDecWithPrec(1, 2),
				Destination: distrtypes.Account{Type: distrtypes.ModuleAccount, Id: distrModules[0]}})
		case 5:
			sd.Sources = nil
		default:
			sd.Destinations.PrimaryShare = distrtypes.Account{Type: distrtypes.InternalAccount, Id: "dangling"}
		}
		return sd
	}

	var ops []string
	nOps := 2 + rng.Intn(10)
	anyAccepted := false
	for s := 0; s < nOps; s++ {
		authOK := rng.Chance(75)
		auth := gov
		if !authOK {
			auth = []string{other, "", "c4e1malformed"}[rng.Intn(3)]
		}
		before := app.CfedistributorKeeper.GetParams(ctx)
		beforeM := app.CfeminterKeeper.GetParams(ctx)
		beforeV := app.CfevestingKeeper.GetParams(ctx)
		beforeD, _ := before.Marshal()
		beforeMb, _ := beforeM.Marshal()
		var term string
		var err error
		// some messages run on a branch of the state that is dropped although the message itself succeeded: what a proposal or a
		// multi-message transaction whose later message fails, or a simulation, leaves behind. For the chain (and the model) such a
		// message has no effect.
		discard := rng.Chance(12)
		exec := func(f func(c sdk.Context) error) {
			defer func() {
				if r := recover(); r != nil {
					rep.Panics = append(rep.Panics, fmt.Sprintf("case %d step %d: %v", idx, s, r))
					err = fmt.Errorf("panic")
				}
			}()
			c, write := ctx.CacheContext()
			err = f(c)
			if err == nil && !discard {
				write()
			}
		}
		switch rng.Intn(7) {
		case 0: // whole distributor parameter set
			var nd []distrtypes.SubDistributor
			if rng.Chance(60) {
				for {
					c2 := de.genDistrCfg(0)
					if c2.params().Validate() == nil || rng.Chance(20) {
						nd = c2.params().SubDistributors
						break
					}
				}
			} else {
				nd = append(nd, stored()...)
				if len(nd) > 0 {
					i := rng.Intn(len(nd))
					nd[i] = perturbSub(nd[i])
				}
			}
			term = fmt.Sprintf("PDistrAll %s %s", zBool(authOK), pe.subsTerm(nd))
			exec(func(c sdk.Context) error {
				_, e := dms.UpdateParams(sdk.WrapSDKContext(c), &distrtypes.MsgUpdateParams{Authority: auth, SubDistributors: nd})
				return e
			})
		case 1: // one sub-distributor
			cur := stored()
			sd := cur[rng.Intn(len(cur))]
			// deep copy of the shares slice so that the perturbation does not alias the stored object
			cp := sd
			cp.Destinations.Shares = nil
			for _, sh := range sd.Destinations.Shares {
				c := *sh
				cp.Destinations.Shares = append(cp.Destinations.Shares, &c)
			}
			cp = perturbSub(cp)
			if rng.Chance(15) {
				cp.Name = "unknown-sd"
			}
			term = fmt.Sprintf("PDistrSub %s %s", zBool(authOK), pe.subTerm(cp))
			exec(func(c sdk.Context) error {
				_, e := dms.UpdateSubDistributorParam(sdk.WrapSDKContext(c), &distrtypes.MsgUpdateSubDistributorParam{Authority: auth, SubDistributor: &cp})
				return e
			})
		case 2, 3: // one share
			cur := stored()
			name := "nosuchshare"
			var all []string
			for _, sd := range cur {
				for _, sh := range sd.Destinations.Shares {
					all = append(all, sh.Name)
				}
			}
			if len(all) > 0 && rng.Chance(85) {
				name = all[rng.Intn(len(all))]
			}
			share := shareDec(rng)
			switch rng.Intn(6) {
			case 0:
				share = sdk.NewDecWithPrec(999, 3)
			case 1:
				share = sdk.NewDec(-1)
			case 2:
				share = sdk.OneDec()
			}
			term = fmt.Sprintf("PDistrShare %s %d %s", zBool(authOK), pe.name(name), zB(share.BigInt()))
			exec(func(c sdk.Context) error {
				_, e := dms.UpdateSubDistributorDestinationShareParam(sdk.WrapSDKContext(c), &distrtypes.MsgUpdateSubDistributorDestinationShareParam{Authority: auth, SubDistributorName: "", DestinationName: name, Share: share})
				return e
			})
		case 4: // burn share
			cur := stored()
			name := cur[rng.Intn(len(cur))].Name
			if rng.Chance(15) {
				name = "unknown-sd"
			}
			burn := shareDec(rng)
			if rng.Chance(20) {
				burn = sdk.NewDecWithPrec(97, 2)
			}
			term = fmt.Sprintf("PDistrBurn %s %d %s", zBool(authOK), pe.name(name), zB(burn.BigInt()))
			exec(func(c sdk.Context) error {
				_, e := dms.UpdateSubDistributorBurnShareParam(sdk.WrapSDKContext(c), &distrtypes.MsgUpdateSubDistributorBurnShareParam{Authority: auth, SubDistributorName: name, BurnShare: burn})
				return e
			})
		case 5: // minter parameters
			nc := genMinterCfg(rng, t0)
			switch rng.Intn(5) {
			case 0: // keep the current period in
				for i := range nc.minters {
					nc.minters[i].seq = mstate.SequenceId + uint32(i)
				}
			case 1: // drop it: ids above the current one
				for i := range nc.minters {
					nc.minters[i].seq = mstate.SequenceId + 1 + uint32(i)
				}
			case 2: // invalid: gap
				if len(nc.minters) > 1 {
					nc.minters[len(nc.minters)-1].seq += 2
				}
			case 3: // the current period kept, one period's own configuration on or beyond a boundary of the rules
				for i := range nc.minters {
					nc.minters[i].seq = mstate.SequenceId + uint32(i)
				}
				i := rng.Intn(len(nc.minters))
				sel := rng.Intn(8)
				if sel >= 5 && len(nc.minters) >= 3 {
					// an otherwise valid schedule in which a period ends centuries before the one in front of it (further apart than
					// an int64 of nanoseconds holds)
					j := len(nc.minters) - 2 // the last period that has an end: nothing after it is compared with it
					if nc.minters[j-1].end != nil && nc.minters[j].end != nil && nc.minters[j+1].end == nil {
						e := nc.minters[j-1].end.AddDate(-(293 + rng.Intn(40)), 0, 0) // (stays inside what UnixNano can express)
						nc.minters[j].end = &e
						rep.Count("minter_candidate.period_ends_centuries_before_the_previous_one")
					}
				}
				switch sel {
				case 5, 6, 7:
				case 0: // exponential steps of length zero
					nc.minters[i].kind, nc.minters[i].amt, nc.minters[i].step, nc.minters[i].mult = 2, bi(1+rng.I64n(1000)), 0, sdk.NewDecWithPrec(5, 1)
				case 1: // ... of negative length
					nc.minters[i].kind, nc.minters[i].amt, nc.minters[i].step, nc.minters[i].mult = 2, bi(1+rng.I64n(1000)), -time.Duration(1+rng.I64n(1000)), sdk.NewDecWithPrec(5, 1)
				case 2: // exponential amount zero (refused) / one (accepted), steps of one or two seconds
					nc.minters[i].kind, nc.minters[i].amt, nc.minters[i].step, nc.minters[i].mult = 2, bi(rng.I64n(2)), time.Duration(1+rng.I64n(2))*time.Second, sdk.NewDecWithPrec(5, 1)
				case 3: // multiplier zero / negative
					nc.minters[i].kind, nc.minters[i].amt, nc.minters[i].step, nc.minters[i].mult = 2, bi(7), time.Hour, sdk.NewDec(int64(-rng.Intn(2)))
				default: // linear amount negative / zero
					if nc.minters[i].end != nil {
						nc.minters[i].kind, nc.minters[i].amt = 1, bi(-rng.I64n(2))
					}
				}
				rep.Count("minter_candidate.period_configuration_on_a_boundary")
			}
			np := nc.params()
			full := rng.Bool()
			if full && rng.Chance(15) {
				np.MintDenom = ""
			}
			denomOK := np.MintDenom != ""
			termP := nc.paramsTerm()
			if !denomOK {
				termP = strings.Replace(termP, "mp_denom_ok := true", "mp_denom_ok := false", 1)
			}
			term = fmt.Sprintf("PMinter %s %s %s", zBool(authOK), termP, zBool(!full))
			exec(func(c sdk.Context) error {
				if full {
					_, e := mms.UpdateParams(sdk.WrapSDKContext(c), &mintertypes.MsgUpdateParams{Authority: auth, MintDenom: np.MintDenom, StartTime: np.StartTime, Minters: np.Minters})
					return e
				}
				_, e := mms.UpdateMintersParams(sdk.WrapSDKContext(c), &mintertypes.MsgUpdateMintersParams{Authority: auth, StartTime: np.StartTime, Minters: np.Minters})
				return e
			})
		default: // vesting denomination
			denom := []string{"uother", "", "uc4e2"}[rng.Intn(3)]
			term = fmt.Sprintf("PVestDenom %s %s", zBool(authOK), zBool(denom != ""))
			exec(func(c sdk.Context) error {
				_, e := vms.UpdateDenomParam(sdk.WrapSDKContext(c), &vesttypes.MsgUpdateDenomParam{Authority: auth, Denom: denom})
				return e
			})
		}
		ok := err == nil
		if discard {
			if ok {
				rep.Count("discarded_after_success")
			}
			ok = false
			term = strings.Replace(term, " true ", " false ", 1) // the model sees a message without effect
		}
		if ok {
			anyAccepted = true
		}
		after := app.CfedistributorKeeper.GetParams(ctx)
		afterM := app.CfeminterKeeper.GetParams(ctx)
		afterV := app.CfevestingKeeper.GetParams(ctx)
		afterD, _ := after.Marshal()
		afterMb, _ := afterM.Marshal()
		// ---- C13 predicates on the implementation
		rep.Eval("C13.only_authority_changes_parameters", authOK || (!ok && string(afterD) == string(beforeD) && string(afterMb) == string(beforeMb) && afterV.Denom == beforeV.Denom), idx, s, term)
		rep.Eval("C13.rejected_update_changes_nothing", ok || (string(afterD) == string(beforeD) && string(afterMb) == string(beforeMb) && afterV.Denom == beforeV.Denom), idx, s, term)
		rep.Eval("C13.stored_distributor_params_validate", after.Validate() == nil, idx, s, fmt.Sprintf("%s: stored distributor parameters: %v", term, after.Validate()))
		// the rule itself, evaluated here independently of the module's Validate: share names (incl. the reserved
		// "<name>_primary") are unique across the whole configuration
		seenNames, dupName := map[string]bool{}, ""
		for _, sd := range after.SubDistributors {
			names := []string{sd.Name + "_primary"}
			for _, sh := range sd.Destinations.Shares {
				names = append(names, sh.Name)
			}
			for _, n := range names {
				if seenNames[n] {
					dupName = n
				}
				seenNames[n] = true
			}
		}
		rep.Eval("C13.stored_share_names_unique", dupName == "", idx, s, fmt.Sprintf("%s: share name %q occurs twice in the stored configuration", term, dupName))
		rep.Eval("C13.stored_minter_params_validate", afterM.Validate() == nil, idx, s, fmt.Sprintf("%s: stored minter parameters: %v", term, afterM.Validate()))
		hasCur := false
		for _, m := range afterM.Minters {
			if m.SequenceId == mstate.SequenceId {
				hasCur = true
			}
		}
		rep.Eval("C13.current_minter_period_exists", hasCur, idx, s, fmt.Sprintf("%s: stored minters no longer contain the current period %d", term, mstate.SequenceId))
		// the per-period rules, judged here independently of the module's own Validate: linear amounts are not negative; exponential
		// amounts and step lengths are positive, multipliers not negative
		okCfg, badCfg := true, ""
		for _, m := range afterM.Minters {
			cfg, err := m.GetMinterConfig()
			if err != nil {
				okCfg, badCfg = false, fmt.Sprintf("period %d: %v", m.SequenceId, err)
				continue
			}
			switch c := cfg.(type) {
			case *mintertypes.LinearMinting:
				if c.Amount.IsNil() || c.Amount.IsNegative() {
					okCfg, badCfg = false, fmt.Sprintf("period %d: linear amount %v", m.SequenceId, c.Amount)
				}
			case *mintertypes.ExponentialStepMinting:
				if c.Amount.IsNil() || !c.Amount.IsPositive() || c.AmountMultiplier.IsNil() || c.AmountMultiplier.IsNegative() || c.StepDuration <= 0 {
					okCfg, badCfg = false, fmt.Sprintf("period %d: exponential amount %v multiplier %v step %v", m.SequenceId, c.Amount, c.AmountMultiplier, c.StepDuration)
				}
			}
		}
		// ... and the timeline: every period but the last has an end, the ends increase strictly from the start time on
		prevEnd := afterM.StartTime
		for i, m := range afterM.Minters {
			if m.EndTime == nil {
				if i != len(afterM.Minters)-1 {
					okCfg, badCfg = false, fmt.Sprintf("period %d has no end but is not the last", m.SequenceId)
				}
				continue
			}
			if !m.EndTime.After(prevEnd) {
				okCfg, badCfg = false, fmt.Sprintf("period %d ends at %s, not after %s", m.SequenceId, m.EndTime.UTC(), prevEnd.UTC())
			}
			prevEnd = *m.EndTime
		}
		rep.Eval("C13.stored_minter_periods_obey_the_configuration_rules", okCfg, idx, s, term+": "+badCfg)
		rep.Eval("C13.vesting_denom_fixed_while_pools_exist", !poolsExist || afterV.Denom == beforeV.Denom, idx, s, term)
		// evaluated on the pools themselves, not on the number of owner entries
		rep.Eval("C13.vesting_denom_fixed_while_any_pool_is_stored", !anyPool || afterV.Denom == beforeV.Denom, idx, s, term)
		mterm, mcfg := minterParamsTerm(afterM)
		_ = mterm
		obs := []*big.Int{bi(b2i(ok)), bi(b2i(afterM.MintDenom != "")), bi(afterM.StartTime.UnixNano()), bi(int64(len(mcfg.minters))), bi(b2i(afterV.Denom != ""))}
		obs = append(obs, pe.distrCode(after.SubDistributors)...)
		ops = append(ops, fmt.Sprintf("(%s, %s)", term, zListB(obs)))
		rep.Ops++
		rep.Count("op." + strings.Fields(term)[0])
		if ok {
			rep.Count("accepted." + strings.Fields(term)[0])
		}
	}
	// ---- C10: whatever the governance messages left in the stores, begin-block processing of the next blocks completes
	{
		bctx, _ := ctx.CacheContext()
		panicMsg := ""
		mainAddr := app.AccountKeeper.GetModuleAddress(distrtypes.DistributorMainAccount)
		app.AccountKeeper.GetModuleAccount(bctx, distrtypes.DistributorMainAccount)
		for _, m := range distrModules {
			app.AccountKeeper.GetModuleAccount(bctx, m)
		}
		for bk := 0; bk < 3 && panicMsg == ""; bk++ {
			fundAddr(bctx, ta, mainAddr, sdk.NewCoins(sdk.NewCoin(BondDenom, sdk.NewInt(1000003+rng.I64n(1000000000)))))
			for _, sd := range app.CfedistributorKeeper.GetParams(bctx).SubDistributors {
				for _, src := range sd.Sources {
					if src.Type == distrtypes.ModuleAccount && src.Id != distrtypes.DistributorMainAccount {
						if a := app.AccountKeeper.GetModuleAddress(src.Id); a != nil {
							app.AccountKeeper.GetModuleAccount(bctx, src.Id) // create it as a module account before coins arrive at its address
							fundAddr(bctx, ta, a, sdk.NewCoins(sdk.NewCoin(BondDenom, sdk.NewInt(1+rng.I64n(100000)))))
						}
					}
				}
			}
			c2 := bctx.WithBlockTime(t0.Add(time.Duration(bk+1) * 36 * time.Hour)).WithEventManager(sdk.NewEventManager())
			func() {
				defer func() {
					if r := recover(); r != nil {
						panicMsg = fmt.Sprintf("block %d after the updates: %v", bk+1, r)
					}
				}()
				cfeminter.BeginBlocker(c2, app.CfeminterKeeper)
				cfedistributor.BeginBlocker(c2, app.CfedistributorKeeper)
			}()
		}
		rep.Eval("C10.blocks_after_parameter_updates_do_not_panic", panicMsg == "", idx, nOps, panicMsg)
	}
	rep.NoteCase(strings.Join(ops, ";"), anyAccepted)
	if len(rep.Samples) < 2 {
		sm := strings.Join(ops, " ; ")
		if len(sm) > 1500 {
			sm = sm[:1500] + " ..."
		}
		rep.Samples = append(rep.Samples, fmt.Sprintf("params case %d: %s", idx, sm))
	}
	// the world term must be printed after all names / ids were interned consistently: re-render is not needed because
	// interning is append-only (ids never change once assigned)
	return fmt.Sprintf("{| pc_id := %d; pc_world := %s; pc_valid0 := true;\n pc_ops := [\n  %s] |}", idx, world, strings.Join(ops, ";\n  "))
}
