//go:build verifcover

package main

// Statement coverage of the repository's packages reached by the harness: the harness built as a test binary
// (go test -c -cover -coverpkg=<repo packages> -tags "verif verifcover"), arguments passed in VERIF_ARGS.

import (
	"os"
	"strings"
	"testing"
)

func TestHarness(t *testing.T) {
	os.Args = append([]string{"harness"}, strings.Fields(os.Getenv("VERIF_ARGS"))...)
	main()
}
