package main

// sig.go — signature registry: publishes payload links, stores signatures made with real ECDSA-P256 and
// RSA-2048 keys under self-signed certificates, verifies with every single-field mutation, and prints
// the sequences for C4E.Sig.check_scase.  The model's oracles (sha256+hex, X.509 check) are given as
// finite tables computed here with Go's standard library, independently of the module's code.

import (
	"crypto"
	"crypto/ecdsa"
	"crypto/elliptic"
	"crypto/rand"
	"crypto/rsa"
	"crypto/sha256"
	"crypto/x509"
	"crypto/x509/pkix"
	"encoding/base64"
	"encoding/hex"
	"encoding/json"
	"encoding/pem"
	"fmt"
	"math/big"
	"strings"
	"time"

	sigkeeper "github.com/chain4energy/c4e-chain/x/cfesignature/keeper"
	sigtypes "github.com/chain4energy/c4e-chain/x/cfesignature/types"
	sdk "github.com/cosmos/cosmos-sdk/types"
)

type sigIdentity struct {
	alg     string
	certPEM string
	sign    func(payload []byte) []byte
}

var sigIdentities []sigIdentity

func initSigIdentities() {
	if sigIdentities != nil {
		return
	}
	mkCert := func(pub, priv interface{}, serial int64) string {
		// validity windows: around the block times of the cases, ended long before them, beginning long after them (the registry
		// verifies a stored signature under the stored certificate; it is no certificate authority and the property knows no clock)
		nb, na := int64(1600000000), int64(2600000000)
		switch serial % 3 {
		case 1:
			nb, na = 1500000000, 1600000000
		case 2:
			nb, na = 2500000000, 2600000000
		}
		tmpl := &x509.Certificate{SerialNumber: big.NewInt(serial), Subject: pkix.Name{CommonName: fmt.Sprintf("verif-%d", serial)},
			NotBefore: time.Unix(nb, 0), NotAfter: time.Unix(na, 0), KeyUsage: x509.KeyUsageDigitalSignature}
		der, err := x509.CreateCertificate(rand.Reader, tmpl, tmpl, pub, priv)
		if err != nil {
			panic(err)
		}
		return string(pem.EncodeToMemory(&pem.Block{Type: "CERTIFICATE", Bytes: der}))
	}
	for i := 0; i < 4; i++ {
		k, err := ecdsa.GenerateKey(elliptic.P256(), rand.Reader)
		if err != nil {
			panic(err)
		}
		key := k
		sigIdentities = append(sigIdentities, sigIdentity{alg: "ecdsaWithSha256", certPEM: mkCert(&key.PublicKey, key, int64(100+i)),
			sign: func(p []byte) []byte {
				h := sha256.Sum256(p)
				s, err := ecdsa.SignASN1(rand.Reader, key, h[:])
				if err != nil {
					panic(err)
				}
				return s
			}})
	}
	for i := 0; i < 2; i++ {
		k, err := rsa.GenerateKey(rand.Reader, 2048)
		if err != nil {
			panic(err)
		}
		key := k
		sigIdentities = append(sigIdentities, sigIdentity{alg: "sha256WithRsaEncryption", certPEM: mkCert(&key.PublicKey, key, int64(200+i)),
			sign: func(p []byte) []byte {
				h := sha256.Sum256(p)
				s, err := rsa.SignPKCS1v15(rand.Reader, key, crypto.SHA256, h[:])
				if err != nil {
					panic(err)
				}
				return s
			}})
	}
}

func hashHex(s string) string {
	h := sha256.Sum256([]byte(s))
	return hex.EncodeToString(h[:])
}

// independent X.509 oracle: same inputs as the module's isValidSignature, Go stdlib only
func x509Oracle(cert, alg, payload, sig string) bool {
	sb, err := base64.StdEncoding.DecodeString(sig)
	if err != nil {
		return false
	}
	var a x509.SignatureAlgorithm
	switch alg {
	case "dsaWithSha256":
		a = x509.DSAWithSHA256
	case "ecdsaWithSha256":
		a = x509.ECDSAWithSHA256
	case "sha256WithRsaEncryption":
		a = x509.SHA256WithRSA
	default:
		return false
	}
	block, _ := pem.Decode([]byte(cert))
	if block == nil {
		return false
	}
	c, err := x509.ParseCertificate(block.Bytes)
	if err != nil {
		return false
	}
	return c.CheckSignature(a, []byte(payload), sb) == nil
}

func coqStr(s string) string { return "\"" + strings.ReplaceAll(s, "\"", "\"\"") + "\"" }

func optStrs(xs []string, ok bool) string {
	if !ok {
		return "None"
	}
	q := make([]string, len(xs))
	for i, x := range xs {
		q[i] = coqStr(x)
	}
	return "(Some " + zList(q) + ")"
}

func runSigCase(ta *TestApp, seed uint64, idx int, rep *Report, profile string) string {
	initSigIdentities()
	rng := NewRng(seed, uint64(idx)+29000000)
	app := ta.App
	base, _ := ta.Ctx().CacheContext()
	bt := time.Unix(1700000000+rng.I64n(1000000), 0).UTC()
	ctx := base.WithBlockTime(bt)
	ms := sigkeeper.NewMsgServerImpl(app.CfesignatureKeeper)
	k := app.CfesignatureKeeper

	randHex := func(n int) string { return hex.EncodeToString(rng.Bytes(n / 2)) }
	addrs := []string{sdk.AccAddress(rng.Bytes(20)).String(), sdk.AccAddress(rng.Bytes(20)).String(), "not-an-address"}
	refs := []string{randHex(64), randHex(64)}
	links := []string{"https://example.org/doc/" + randHex(8), "ipfs://" + randHex(32), "", "x"}

	// the client-side helper queries name the same storage keys that the handlers and the verification use
	// (sha256 over the colon-joined parts, computed here independently)
	for _, a := range addrs[:2] {
		for _, r := range refs {
			sk, err := k.CreateStorageKey(sdk.WrapSDKContext(ctx), &sigtypes.QueryCreateStorageKeyRequest{TargetAccAddress: a, ReferenceId: r})
			rep.Eval("C15.helper_queries_name_the_keys_verification_uses", err == nil && sk != nil && sk.StorageKey == hashHex(a+":"+r), idx, -1,
				fmt.Sprintf("CreateStorageKey(%s,%s) does not give sha256(address:reference)", a, r))
		}
	}
	for _, r := range refs {
		ph := randHex(16)
		pl, err := k.CreateReferencePayloadLink(sdk.WrapSDKContext(ctx), &sigtypes.QueryCreateReferencePayloadLinkRequest{ReferenceId: r, PayloadHash: ph})
		rep.Eval("C15.helper_queries_name_the_keys_verification_uses", err == nil && pl != nil && pl.ReferenceKey == hashHex(r) && pl.ReferenceValue == hashHex(r+":"+ph), idx, -1,
			fmt.Sprintf("CreateReferencePayloadLink(%s,%s) does not give sha256(reference) / sha256(reference:payload hash)", r, ph))
	}

	// the harness's own view of the registry (independent of the keeper)
	myLinks := map[string]string{}
	type stored struct{ sig, alg, cert, ts string }
	mySigs := map[string]stored{}
	hashes := map[string]string{}
	H := func(s string) string { h := hashHex(s); hashes[s] = h; return h }
	type xrow struct {
		c, a, p, s string
		r          bool
	}
	var xtab []xrow

	var ops []string
	nOps := 5 + rng.Intn(9)
	creator := addrs[0]
	anyValid := false
	scripted := rng.Chance(65) // publish, sign, verify on the same (address, reference) first; mutations follow
	probeAddr, probeRef := "", ""
	for s := 0; s < nOps; s++ {
		choice := rng.Pick(30, 30, 40)
		forced := scripted && s < 3
		if forced {
			choice = s
		}
		// after a store that ran on a dropped branch the next operation is often the verification of that very record: whatever the
		// dropped message left outside the store (a cache of decoded records) would answer it
		probe := !forced && probeAddr != "" && rng.Chance(70)
		if probe {
			choice = 2
		}
		switch choice {
		case 0: // publish
			ref := refs[rng.Intn(len(refs))]
			if forced {
				ref = refs[0]
			}
			key := H(ref)
			if rng.Chance(15) && !forced {
				key = randHex(16)
			} else if rng.Chance(15) && !forced {
				key = strings.ToUpper(key) // the same digest spelled with upper-case hex digits: another key of the registry
				rep.Count("publish.key_spelled_in_upper_case")
			}
			val := links[rng.Intn(len(links))]
			var ok bool
			func() {
				defer func() {
					if r := recover(); r != nil {
						rep.Panics = append(rep.Panics, fmt.Sprintf("case %d step %d publish: %v", idx, s, r))
					}
				}()
				c, write := ctx.CacheContext()
				_, err := ms.PublishReferencePayloadLink(sdk.WrapSDKContext(c), &sigtypes.MsgPublishReferencePayloadLink{Creator: creator, Key: key, Value: val})
				if err == nil {
					write()
					ok = true
				}
			}()
			_, had := myLinks[key]
			rep.Eval("C15.link_write_once", ok == !had, idx, s, fmt.Sprintf("publish key %s: accepted=%v although present=%v", key, ok, had))
			if ok && !had {
				myLinks[key] = val
			}
			ops = append(ops, fmt.Sprintf("(SPublish %s %s, %s)", coqStr(key), coqStr(val), optStrs(nil, ok)))
			rep.Count("op.publish")
		case 1: // store signature
			id := sigIdentities[rng.Intn(len(sigIdentities))]
			addr := addrs[rng.Intn(2)]
			ref := refs[rng.Intn(len(refs))]
			if rng.Chance(60) { // mostly records whose payload link is published: only those reach the cryptographic check
				for _, r := range refs {
					if _, pub := myLinks[hashHex(r)]; pub {
						ref = r
						break
					}
				}
			}
			if forced {
				addr, ref = addrs[0], refs[0]
			}
			skey := H(addr + ":" + ref)
			if !forced && rng.Chance(12) { // a storage key chosen by the sender: the key of a (possibly published) link
				skey = H(ref)
			}
			link, hasLink := myLinks[H(ref)]
			if !hasLink {
				link = links[0]
				if rng.Bool() {
					link = "" // no link is published for the reference: a signature over the payload with an empty link must not verify either
					rep.Count("store.signature_over_an_empty_link_while_none_is_published")
				}
			}
			payload := H(addr + ":" + ref + ":" + link)
			sig := base64.StdEncoding.EncodeToString(id.sign([]byte(payload)))
			alg, cert := id.alg, id.certPEM
			fieldsOK := true
			var jsonStr string
			mut := rng.Intn(12)
			if forced {
				mut = 9
			}
			switch mut {
			case 0: // tampered signature
				raw, _ := base64.StdEncoding.DecodeString(sig)
				raw[len(raw)/2] ^= 0x40
				sig = base64.StdEncoding.EncodeToString(raw)
			case 1: // other certificate
				cert = sigIdentities[(rng.Intn(len(sigIdentities)))].certPEM
			case 2: // wrong algorithm name
				alg = []string{"dsaWithSha256", "sha256WithRsaEncryption", "ecdsaWithSha256", "none"}[rng.Intn(4)]
			case 3: // not base64 / not PEM
				if rng.Bool() {
					sig = "***not base64***"
				} else {
					cert = "-----BEGIN CERTIFICATE-----\nAAAA\n-----END CERTIFICATE-----\n"
				}
			case 5: // a bundle: the signer's certificate followed by another one (e.g. the issuing CA's): the first block is the signer's
				cert = cert + sigIdentities[rng.Intn(len(sigIdentities))].certPEM
				rep.Count("store.certificate_bundle")
			case 10, 11: // a certificate field that is no certificate, under a valid signature and a supported algorithm name
				cert = []string{"", "certificate", "-----BEGIN CERTIFICATE-----\nAAAA\n-----END CERTIFICATE-----\n",
					"-----BEGIN PUBLIC KEY-----\nAAAA\n-----END PUBLIC KEY-----\n"}[rng.Intn(4)]
				rep.Count("store.certificate_field_is_no_certificate")
			case 6: // the signature as `openssl base64` prints it: wrapped at 64 columns (the decoder skips line breaks; the record is valid)
				if len(sig) > 64 {
					var wrapped []string
					for i := 0; i < len(sig); i += 64 {
						j := i + 64
						if j > len(sig) {
							j = len(sig)
						}
						wrapped = append(wrapped, sig[i:j])
					}
					sig = strings.Join(wrapped, "\n")
					rep.Count("store.signature_wrapped_at_64_columns")
				}
			case 4: // malformed JSON
				fieldsOK = false
				jsonStr = "{\"signature\": \"abc\", "
			}
			if fieldsOK {
				b, _ := json.Marshal(map[string]string{"signature": sig, "algorithm": alg, "certificate": cert})
				jsonStr = string(b)
			}
			// some messages run on a branch of the state that is dropped although the handler succeeded (a later message of the same
			// transaction failed, or the transaction was only simulated): for the chain, and the model, nothing was stored
			discard := !forced && rng.Chance(12)
			if discard {
				fieldsOK = false // the model sees a message without effect
			}
			var ok bool
			func() {
				defer func() {
					if r := recover(); r != nil {
						rep.Panics = append(rep.Panics, fmt.Sprintf("case %d step %d store: %v", idx, s, r))
					}
				}()
				c, write := ctx.CacheContext()
				_, err := ms.StoreSignature(sdk.WrapSDKContext(c), &sigtypes.MsgStoreSignature{Creator: creator, StorageKey: skey, SignatureJSON: jsonStr})
				if err == nil && discard {
					rep.Count("store.discarded_after_success")
					if skey == hashHex(addr+":"+ref) {
						probeAddr, probeRef = addr, ref
					}
				}
				if err == nil && !discard {
					write()
					ok = true
					if !forced && skey == hashHex(addr+":"+ref) && rng.Chance(50) {
						probeAddr, probeRef = addr, ref // ... and often the record just stored (tampered, foreign or malformed certificate, ...)
					}
				}
			}()
			ts := bt.String()
			if ok {
				mySigs[skey] = stored{sig, alg, cert, ts}
			}
			fields := "None"
			if fieldsOK {
				fields = fmt.Sprintf("(Some (%s, %s, %s))", coqStr(sig), coqStr(alg), coqStr(cert))
			}
			ops = append(ops, fmt.Sprintf("(SStore %s %s %s, %s)", coqStr(skey), fields, coqStr(ts), optStrs(nil, ok)))
			rep.Count("op.store")
		default: // verify
			addr := addrs[rng.Intn(len(addrs))]
			ref := refs[rng.Intn(len(refs))]
			vm := rng.Intn(12)
			if forced {
				addr, ref, vm = addrs[0], refs[0], 11
			}
			if probe {
				addr, ref, vm = probeAddr, probeRef, 11
				rep.Count("verify.right_after_a_dropped_store")
			}
			probeAddr, probeRef = "", ""
			switch vm {
			case 0:
				ref = ref[:63]
			case 1:
				addr = ""
			case 2:
				ref = randHex(64)
			}
			H(addr + ":" + ref)
			H(ref)
			var resp *sigtypes.QueryVerifySignatureResponse
			var err error
			verifyPanic := ""
			func() {
				defer func() {
					if r := recover(); r != nil {
						rep.Panics = append(rep.Panics, fmt.Sprintf("case %d step %d verify: %v", idx, s, r))
						err = fmt.Errorf("panic")
						verifyPanic = fmt.Sprint(r)
					}
				}()
				resp, err = k.VerifySignature(sdk.WrapSDKContext(ctx), &sigtypes.QueryVerifySignatureRequest{TargetAccAddress: addr, ReferenceId: ref})
			}()
			// C20: the query answers (valid or an error) whatever record is stored under the key
			rep.Eval("C20.verify_signature_query_does_not_panic", verifyPanic == "", idx, s, fmt.Sprintf("VerifySignature(%s,%s) panicked: %s", addr, ref, verifyPanic))
			// independent expectation
			want := false
			var st stored
			if len(ref) == 64 && len(addr) > 0 {
				if so, ok := mySigs[hashHex(addr+":"+ref)]; ok {
					if link, ok := myLinks[hashHex(ref)]; ok {
						payload := H(addr + ":" + ref + ":" + link)
						r := x509Oracle(so.cert, so.alg, payload, so.sig)
						xtab = append(xtab, xrow{so.cert, so.alg, payload, so.sig, r})
						want, st = r, so
					}
				}
			}
			got := err == nil && resp != nil
			rep.Eval("C15.valid_iff_stored_signature_verifies", got == want, idx, s, fmt.Sprintf("verify(%s,%s): reported valid=%v, stored record verifies=%v", addr, ref, got, want))
			if got {
				anyValid = true
				same := resp.Signature == st.sig && resp.Algorithm == st.alg && resp.Certificate == st.cert && resp.Timestamp == st.ts
				rep.Eval("C15.returns_stored_fields_unchanged", same, idx, s,
					fmt.Sprintf("verify(%s,%s) returned fields differ from the stored record (certificate field equals stored certificate: %v)", addr, ref, resp.Certificate == st.cert))
				ops = append(ops, fmt.Sprintf("(SVerify %s %s, %s)", coqStr(addr), coqStr(ref), optStrs([]string{resp.Signature, resp.Algorithm, resp.Certificate, resp.Timestamp}, true)))
			} else {
				ops = append(ops, fmt.Sprintf("(SVerify %s %s, None)", coqStr(addr), coqStr(ref)))
			}
			// C15: the verdict is a function of the stored record: the same query at other block times (before the certificate's
			// validity, long after it, the zero time of a context without a header) gives the same answer
			if verifyPanic == "" {
				for _, ot := range []time.Time{{}, time.Unix(1400000000, 0).UTC(), time.Unix(1650000000, 0).UTC(), bt.Add(24 * time.Hour), time.Unix(2700000000, 0).UTC()} {
					var r2 *sigtypes.QueryVerifySignatureResponse
					var e2 error
					func() {
						defer func() {
							if r := recover(); r != nil {
								e2 = fmt.Errorf("panic: %v", r)
							}
						}()
						r2, e2 = k.VerifySignature(sdk.WrapSDKContext(ctx.WithBlockTime(ot)), &sigtypes.QueryVerifySignatureRequest{TargetAccAddress: addr, ReferenceId: ref})
					}()
					got2 := e2 == nil && r2 != nil
					rep.Eval("C15.verdict_does_not_depend_on_the_block_time", got2 == got, idx, s,
						fmt.Sprintf("verify(%s,%s): valid=%v at block time %s, valid=%v at block time %s (%v)", addr, ref, got, bt.Format(time.RFC3339), got2, ot.Format(time.RFC3339), e2))
				}
			}
			rep.Count("op.verify")
			if want {
				rep.Count("verify.valid")
			}
		}
		rep.Ops++
	}
	// the links as the keeper itself reads them back (no dependence on store prefixes)
	var finals []string
	n := 0
	for _, ref := range refs {
		key := hashHex(ref)
		mine, published := myLinks[key]
		var val string
		var err error
		func() {
			defer func() {
				if r := recover(); r != nil {
					err = fmt.Errorf("panic: %v", r)
				}
			}()
			val, err = k.GetPayloadLink(ctx, ref)
		}()
		if err == nil {
			n++
			finals = append(finals, zPair(coqStr(key), coqStr(val)))
			rep.Eval("C15.raw_link_is_first_published_value", published && mine == val, idx, -1, fmt.Sprintf("registry holds %q at %s, first published %q", val, key, mine))
		} else {
			rep.Eval("C15.no_link_removed", !published, idx, -1, fmt.Sprintf("link published under %s (%q) can no longer be read: %v", key, mine, err))
		}
	}
	var hs, xs []string
	for s, h := range hashes {
		hs = append(hs, zPair(coqStr(s), coqStr(h)))
	}
	sortStrings(hs)
	for _, r := range xtab {
		xs = append(xs, fmt.Sprintf("(%s, %s, %s, %s, %s)", coqStr(r.c), coqStr(r.a), coqStr(r.p), coqStr(r.s), zBool(r.r)))
	}
	rep.NoteCase(strings.Join(ops, ";"), anyValid)
	if len(rep.Samples) < 2 {
		s := strings.Join(ops, " ; ")
		if len(s) > 1200 {
			s = s[:1200] + " ..."
		}
		rep.Samples = append(rep.Samples, fmt.Sprintf("sig case %d: %s", idx, s))
	}
	return fmt.Sprintf("{| sc_id := %d; sc_H := %s;\n sc_X := %s;\n sc_ops := [\n  %s];\n sc_final_links := %s |}",
		idx, zList(hs), zList(xs), strings.Join(ops, ";\n  "), zList(finals))
}

func sortStrings(xs []string) {
	for i := 1; i < len(xs); i++ {
		for j := i; j > 0 && xs[j] < xs[j-1]; j-- {
			xs[j], xs[j-1] = xs[j-1], xs[j]
		}
	}
}
