package main

// clock.go — C11: what a message does must not depend on when a node executes it.  The only absolute times a custom message
// carries are the start and end of MsgCreateVestingAccount; the profile builds such messages with times at round distances
// from this process's wall clock (seconds ... calendar years ahead and back, plus a margin), runs ValidateBasic and the handler
// on a branch of the prepared state, waits until the wall clock has passed the margin, runs the same messages again on a fresh
// branch of the same state, and compares the outcomes.  The first outcomes also go to the front-door model (HandlersSweep).

import (
	"fmt"
	"time"

	vestkeeper "github.com/chain4energy/c4e-chain/x/cfevesting/keeper"
	vesttypes "github.com/chain4energy/c4e-chain/x/cfevesting/types"
	sdk "github.com/cosmos/cosmos-sdk/types"
)

func runSweepClock(ta *TestApp, rep *Report) []string {
	app := ta.App
	e, _ := newSweepEnv(ta)
	vms := vestkeeper.NewMsgServerImpl(app.CfevestingKeeper)
	wall := time.Now().UTC()
	const margin = 2 // seconds
	type probe struct {
		m    *vesttypes.MsgCreateVestingAccount
		term string
		what string
	}
	var probes []probe
	add := func(st, en int64, what string) {
		m := &vesttypes.MsgCreateVestingAccount{FromAddress: e.addrs[3], ToAddress: e.addrs[2], Amount: sdk.NewCoins(sdk.NewInt64Coin("uc4e", 5)), StartTime: st, EndTime: en}
		probes = append(probes, probe{m, fmt.Sprintf("MCreateVestingAccount (AOk 3) (AOk 2) (CL [((DOk 1), (IV 5))]) %s %s", zI(st), zI(en)), what})
	}
	counts := []int{1, 2, 3, 5, 7, 10, 12, 15, 20, 24, 25, 30, 50, 60, 90, 100, 120, 150, 180, 200, 250, 365, 500, 1000}
	units := []struct {
		name string
		at   func(n int) time.Time
	}{
		{"minutes", func(n int) time.Time { return wall.Add(time.Duration(n) * time.Minute) }},
		{"hours", func(n int) time.Time { return wall.Add(time.Duration(n) * time.Hour) }},
		{"days", func(n int) time.Time { return wall.AddDate(0, 0, n) }},
		{"months", func(n int) time.Time { return wall.AddDate(0, n, 0) }},
		{"years of 365 days", func(n int) time.Time { return wall.Add(time.Duration(n) * 365 * 24 * time.Hour) }},
		{"calendar years", func(n int) time.Time { return wall.AddDate(n, 0, 0) }},
	}
	for _, u := range units {
		for _, n := range counts {
			if u.name == "calendar years" && n > 250 || u.name == "years of 365 days" && n > 250 {
				continue // beyond the range of time.Duration / of what fits the account's int64 seconds comfortably
			}
			for _, sign := range []int{1, -1} {
				t := u.at(sign * n).Unix()
				// the end (start) a margin beyond the round distance: before the wait it lies on one side of "now + distance", after it on the other
				add(e.now.Unix()-1000000000, t+margin, fmt.Sprintf("end %d %s from the wall clock", sign*n, u.name))
				add(t+margin, t+margin+1000, fmt.Sprintf("start %d %s from the wall clock", sign*n, u.name))
			}
		}
	}
	exec := func(p probe) (int64, int64) {
		vb, h := int64(0), int64(0)
		func() {
			defer func() {
				if r := recover(); r != nil {
					vb = -1
				}
			}()
			if p.m.ValidateBasic() == nil {
				vb = 1
			}
		}()
		func() {
			defer func() {
				if r := recover(); r != nil {
					h = -1
				}
			}()
			c, _ := e.ctx.CacheContext()
			if _, err := vms.CreateVestingAccount(sdk.WrapSDKContext(c), p.m); err == nil {
				h = 1
			}
		}()
		return vb, h
	}
	type res struct{ vb, h int64 }
	first := make([]res, len(probes))
	for i, p := range probes {
		vb, h := exec(p)
		first[i] = res{vb, h}
	}
	time.Sleep(time.Until(wall.Add((2*margin + 1) * time.Second)))
	var terms []string
	for i, p := range probes {
		vb, h := exec(p)
		rep.Eval("C11.message_outcome_independent_of_wall_clock", vb == first[i].vb && h == first[i].h, i, 0,
			fmt.Sprintf("%s (%s): ValidateBasic/handler gave %d/%d, and %d/%d when the same message ran on the same state a few seconds later",
				p.term, p.what, first[i].vb, first[i].h, vb, h))
		rep.Count(fmt.Sprintf("clock.outcome.vb=%d.handler=%d", first[i].vb, first[i].h))
		rep.Ops++
		rep.Cases++
		rep.NoteCase(p.term, true)
		terms = append(terms, fmt.Sprintf("(%s, %s, %s)", p.term, zI(first[i].vb), zI(first[i].h)))
	}
	if len(rep.Samples) < 2 && len(terms) > 0 {
		rep.Samples = append(rep.Samples, terms[0], terms[len(terms)-1])
	}
	return terms
}
