package main

// sweepvalues.go — C20, second stream: random representatives instead of one fixed value per class.  Messages of
// the seven cfevesting handlers with randomly drawn integers (nil, negative, zero, small, around the balances and
// pool amounts of the prepared state, around 2^63 and 2^64, up to 2^200), coin lists of 0-3 entries mixing valid,
// zero, negative, nil amounts and valid / unknown / malformed / empty denominations, denomination lists, durations
// and times; each is printed as a Coq term of type Handlers.msg together with the observed outcome of ValidateBasic
// and of the handler, and C4E.HandlersSweep.vmismatches compares them with the front-door model.

import (
	"fmt"
	"math/big"
	"strings"
	"time"

	vestkeeper "github.com/chain4energy/c4e-chain/x/cfevesting/keeper"
	vesttypes "github.com/chain4energy/c4e-chain/x/cfevesting/types"
	sdk "github.com/cosmos/cosmos-sdk/types"
)

type valGen struct {
	rng *Rng
	e   *sweepEnv
}

func (g *valGen) addr() (string, string) {
	c := g.rng.Pick(1, 1, 3, 3, 4, 3, 2, 3)
	if c < 2 {
		return g.e.addrs[c], fmt.Sprintf("(ABad %d)", c)
	}
	return g.e.addrs[c], fmt.Sprintf("(AOk %d)", c)
}

func (g *valGen) bigVal() *big.Int {
	r := g.rng
	switch r.Pick(2, 3, 4, 4, 3, 2) {
	case 0:
		return new(big.Int).Neg(r.LogUniform(30))
	case 1:
		return bi(0)
	case 2:
		return bi(1 + r.I64n(2000))
	case 3: // around the balances, pool amounts and locked coins of the prepared state
		base := []int64{999, 1000, 1001, 4001, 5000, 1000000, 72, 5000000000000000000}[r.Intn(8)]
		return new(big.Int).Add(bi(base), bi(r.I64n(5)-2))
	case 4: // around 2^63 and 2^64
		p := new(big.Int).Lsh(bi(1), uint(63+r.Intn(2)))
		return p.Add(p, bi(r.I64n(5)-2))
	default:
		return r.LogUniform(60)
	}
}

func (g *valGen) intVal() (sdk.Int, string) {
	if g.rng.Chance(10) {
		return sdk.Int{}, "INil"
	}
	v := g.bigVal()
	return sdk.NewIntFromBigInt(v), "(IV " + zB(v) + ")"
}

var valDenoms = []struct{ s, term string }{{"uc4e", "(DOk 1)"}, {"zzz", "(DOk 3)"}, {"uother", "(DOk 2)"}, {"!", "DBad"}, {"a", "DBad"}, {"", "DEmpty"}}

func (g *valGen) denom() (string, string) {
	d := valDenoms[g.rng.Pick(8, 3, 2, 1, 1, 1)]
	return d.s, d.term
}

func (g *valGen) coins() (sdk.Coins, string) {
	r := g.rng
	switch r.Pick(1, 1, 8) {
	case 0:
		return nil, "CNil"
	case 1:
		return sdk.Coins{}, "(CL [])"
	}
	n := 1 + r.Intn(3)
	var cs sdk.Coins
	var ts []string
	for i := 0; i < n; i++ {
		ds, dt := g.denom()
		var amt sdk.Int
		var at string
		switch r.Pick(1, 6, 1) {
		case 0:
			amt, at = sdk.Int{}, "INil"
		case 1:
			v := bi(1 + r.I64n(3000))
			if r.Chance(25) {
				v = g.bigVal()
			}
			amt, at = sdk.NewIntFromBigInt(v), "(IV "+zB(v)+")"
		default:
			amt, at = sdk.ZeroInt(), "(IV 0)"
		}
		cs = append(cs, sdk.Coin{Denom: ds, Amount: amt})
		ts = append(ts, "("+dt+", "+at+")")
	}
	return cs, "(CL " + zList(ts) + ")"
}

func runSweepValues(ta *TestApp, rep *Report, seed uint64, lo, hi int) []string {
	app := ta.App
	e, _ := newSweepEnv(ta)
	ctx := e.ctx
	now := e.now
	vms := vestkeeper.NewMsgServerImpl(app.CfevestingKeeper)
	w := sdk.WrapSDKContext
	var terms []string
	for i := lo; i < hi; i++ {
		g := &valGen{rng: NewRng(seed, uint64(i)+7_000_000), e: e}
		r := g.rng
		var msg sdk.Msg
		var run func(c sdk.Context) error
		var term string
		h := 1 + r.Intn(7)
		switch h {
		case 1:
			oa, ot := g.addr()
			nm := r.Intn(3)
			amt, at := g.intVal()
			dur := []time.Duration{0, -time.Duration(1 + r.I64n(1e12)), time.Duration(1 + r.I64n(1e15))}[r.Pick(1, 1, 6)]
			vt := r.Pick(1, 6, 1)
			m := &vesttypes.MsgCreateVestingPool{Owner: oa, Name: []string{"", "pool", "unknown-name"}[nm], Amount: amt, Duration: dur, VestingType: []string{"", "vt", "unknown-name"}[vt]}
			msg, run = m, func(c sdk.Context) error { _, err := vms.CreateVestingPool(w(c), m); return err }
			term = fmt.Sprintf("MCreatePool %s %d %s %s %d", ot, nm, at, zI(int64(dur)), vt)
		case 2:
			oa, ot := g.addr()
			m := &vesttypes.MsgWithdrawAllAvailable{Owner: oa}
			msg, run = m, func(c sdk.Context) error { _, err := vms.WithdrawAllAvailable(w(c), m); return err }
			term = "MWithdraw " + ot
		case 3:
			oa, ot := g.addr()
			ta2, tt := g.addr()
			nm := r.Pick(1, 6, 1)
			amt, at := g.intVal()
			restart := r.Bool()
			m := &vesttypes.MsgSendToVestingAccount{Owner: oa, ToAddress: ta2, VestingPoolName: []string{"", "pool", "unknown-name"}[nm], Amount: amt, RestartVesting: restart}
			msg, run = m, func(c sdk.Context) error { _, err := vms.SendToVestingAccount(w(c), m); return err }
			term = fmt.Sprintf("MSendToVesting %s %s %d %s %s", ot, tt, nm, at, zBool(restart))
		case 4:
			fa, ft := g.addr()
			ta2, tt := g.addr()
			// bech32 accepts an address in all-upper-case letters as well: the same account under another spelling
			if strings.HasPrefix(ft, "(AOk") && r.Chance(15) {
				fa = strings.ToUpper(fa)
				rep.Count("values.create_va.address_in_upper_case")
			}
			if strings.HasPrefix(tt, "(AOk") && r.Chance(15) {
				ta2 = strings.ToUpper(ta2)
				rep.Count("values.create_va.address_in_upper_case")
			}
			cs, ct := g.coins()
			st := now.Unix() - r.I64n(10)
			en := st + []int64{-1 - r.I64n(100), 0, 1 + r.I64n(1000000)}[r.Pick(1, 1, 6)]
			m := &vesttypes.MsgCreateVestingAccount{FromAddress: fa, ToAddress: ta2, Amount: cs, StartTime: st, EndTime: en}
			msg, run = m, func(c sdk.Context) error { _, err := vms.CreateVestingAccount(w(c), m); return err }
			term = fmt.Sprintf("MCreateVestingAccount %s %s %s %s %s", ft, tt, ct, zI(st), zI(en))
		case 5:
			fa, ft := g.addr()
			ta2, tt := g.addr()
			cs, ct := g.coins()
			m := &vesttypes.MsgSplitVesting{FromAddress: fa, ToAddress: ta2, Amount: cs}
			msg, run = m, func(c sdk.Context) error { _, err := vms.SplitVesting(w(c), m); return err }
			term = fmt.Sprintf("MSplit %s %s %s", ft, tt, ct)
		case 6:
			fa, ft := g.addr()
			ta2, tt := g.addr()
			m := &vesttypes.MsgMoveAvailableVesting{FromAddress: fa, ToAddress: ta2}
			msg, run = m, func(c sdk.Context) error { _, err := vms.MoveAvailableVesting(w(c), m); return err }
			term = fmt.Sprintf("MMove %s %s", ft, tt)
		default:
			fa, ft := g.addr()
			ta2, tt := g.addr()
			var ds, dts []string
			for k := 0; k < r.Pick(1, 5, 3, 2); k++ {
				d, dt := g.denom()
				ds, dts = append(ds, d), append(dts, dt)
			}
			m := &vesttypes.MsgMoveAvailableVestingByDenoms{FromAddress: fa, ToAddress: ta2, Denoms: ds}
			msg, run = m, func(c sdk.Context) error { _, err := vms.MoveAvailableVestingByDenoms(w(c), m); return err }
			term = fmt.Sprintf("MMoveByDenoms %s %s %s", ft, tt, zList(dts))
		}
		vbRes, hRes, panicMsg := int64(0), int64(0), ""
		func() {
			defer func() {
				if rec := recover(); rec != nil {
					vbRes = -1
				}
			}()
			if err := msg.ValidateBasic(); err == nil {
				vbRes = 1
			}
		}()
		func() {
			defer func() {
				if rec := recover(); rec != nil {
					hRes, panicMsg = -1, fmt.Sprint(rec)
				}
			}()
			c, _ := ctx.CacheContext()
			if err := run(c); err == nil {
				hRes = 1
			}
		}()
		if len(panicMsg) > 120 {
			panicMsg = panicMsg[:120]
		}
		detail := fmt.Sprintf("%s: %s", term, panicMsg)
		rep.Eval("C20.handler_does_not_panic", hRes != -1, i, 0, detail)
		rep.Eval("C20.validate_basic_does_not_panic", vbRes != -1, i, 0, term)
		if vbRes == 1 {
			rep.Eval("C20.accepted_message_does_not_panic", hRes != -1, i, 0, detail)
		}
		rep.Count(fmt.Sprintf("values.handler.%02d", h))
		rep.Count(fmt.Sprintf("values.outcome.vb=%d.handler=%d", vbRes, hRes))
		rep.Ops++
		rep.Cases++
		rep.NoteCase(term, true)
		terms = append(terms, fmt.Sprintf("(%s, %s, %s)", term, zI(vbRes), zI(hRes)))
		if len(rep.Samples) < 3 {
			rep.Samples = append(rep.Samples, strings.TrimSpace(terms[len(terms)-1]))
		}
	}
	return terms
}
