package main

// migrate.go — the parameter migrations the v1.2.0 upgrade runs (module consensus version 2 -> 3) on generated
// pre-upgrade parameter stores: the legacy values are written into the x/params subspaces exactly as a v1.1.0 chain holds
// them, the module's own Migrator.Migrate2to3 is executed, and the parameters the keeper then reads are compared with
// C4E.Migrate (gmismatches) and with predicates evaluated on the implementation alone (C16: the migrated parameters
// validate and describe the same schedule / shares as before; the minter state written by the legacy type is read
// back unchanged; blocks minted under the migrated parameters follow the legacy schedule).
// Also the percent -> fraction conversion and the periodic-reduction conversion of the v1.1.0 (1 -> 2) migrations.

import (
	"fmt"
	"math/big"
	"sort"
	"time"

	distrkeeper "github.com/chain4energy/c4e-chain/x/cfedistributor/keeper"
	distrv1 "github.com/chain4energy/c4e-chain/x/cfedistributor/migrations/v1"
	distrv2 "github.com/chain4energy/c4e-chain/x/cfedistributor/migrations/v2"
	distrtypes "github.com/chain4energy/c4e-chain/x/cfedistributor/types"
	minterkeeper "github.com/chain4energy/c4e-chain/x/cfeminter/keeper"
	minterv1 "github.com/chain4energy/c4e-chain/x/cfeminter/migrations/v1"
	minterv2 "github.com/chain4energy/c4e-chain/x/cfeminter/migrations/v2"
	mintertypes "github.com/chain4energy/c4e-chain/x/cfeminter/types"
	vestv1 "github.com/chain4energy/c4e-chain/x/cfevesting/migrations/v1"
	vestv2 "github.com/chain4energy/c4e-chain/x/cfevesting/migrations/v2"
	vestv3 "github.com/chain4energy/c4e-chain/x/cfevesting/migrations/v3"
	vesttypes "github.com/chain4energy/c4e-chain/x/cfevesting/types"
	"github.com/cosmos/cosmos-sdk/codec"
	"github.com/cosmos/cosmos-sdk/store/prefix"
	sdk "github.com/cosmos/cosmos-sdk/types"
	authtypes "github.com/cosmos/cosmos-sdk/x/auth/types"
	paramstypes "github.com/cosmos/cosmos-sdk/x/params/types"
)

type legacyGen struct {
	seq uint32
	end *time.Time
	typ string
	lin *mintertypes.LinearMinting
	exp *mintertypes.ExponentialStepMinting
}

func typeCode(s string) int {
	switch s {
	case mintertypes.NoMintingType:
		return 0
	case mintertypes.LinearMintingType:
		return 1
	case mintertypes.ExponentialStepMintingType:
		return 2
	}
	return 3
}

func (g legacyGen) term() string {
	lin, exp := "None", "None"
	if g.lin != nil {
		lin = "(Some " + zB(g.lin.Amount.BigInt()) + ")"
	}
	if g.exp != nil {
		exp = fmt.Sprintf("(Some (%s, %s, %s))", zB(g.exp.Amount.BigInt()), zI(int64(g.exp.StepDuration)), zB(g.exp.AmountMultiplier.BigInt()))
	}
	return fmt.Sprintf("{| lm_seq := %d; lm_end := %s; lm_type := %d; lm_lin := %s; lm_exp := %s |}", g.seq, optZ(g.end), typeCode(g.typ), lin, exp)
}

func minterCode(p mintertypes.Params) []*big.Int {
	out := []*big.Int{bi(p.StartTime.UnixNano()), bi(int64(len(p.Minters)))}
	for _, m := range p.Minters {
		e := int64(-1)
		if m.EndTime != nil {
			e = m.EndTime.UnixNano()
		}
		out = append(out, bi(int64(m.SequenceId)), bi(e))
		cfg, err := m.GetMinterConfig()
		if err != nil {
			out = append(out, bi(-9))
			continue
		}
		switch v := cfg.(type) {
		case *mintertypes.NoMinting:
			out = append(out, bi(0))
		case *mintertypes.LinearMinting:
			out = append(out, bi(1), v.Amount.BigInt())
		case *mintertypes.ExponentialStepMinting:
			out = append(out, bi(2), v.Amount.BigInt(), bi(int64(v.StepDuration)), v.AmountMultiplier.BigInt())
		}
	}
	return out
}

func withKeyTable(sub paramstypes.Subspace, kt paramstypes.KeyTable) paramstypes.Subspace {
	if !sub.HasKeyTable() {
		sub.WithKeyTable(kt)
	}
	return sub
}

func runMigrateCase(ta *TestApp, seed uint64, idx int, rep *Report, profile string) string {
	rng := NewRng(seed, uint64(idx)+91000000)
	app := ta.App
	base, _ := ta.Ctx().CacheContext()
	t0 := time.Unix(1680000000+rng.I64n(20000000), 0).UTC()
	if rng.Chance(40) {
		t0 = t0.Add(time.Duration(rng.I64n(1000000000)))
	}
	ctx := base.WithBlockTime(t0)
	var body string
	var expected []*big.Int
	ok := func(b bool) []*big.Int {
		if b {
			return []*big.Int{bi(1)}
		}
		return []*big.Int{bi(0)}
	}
	guard := func(f func() error) (err error, panicked bool) {
		defer func() {
			if r := recover(); r != nil {
				rep.Panics = append(rep.Panics, fmt.Sprintf("case %d: %v", idx, r))
				panicked = true
				err = fmt.Errorf("panic: %v", r)
			}
		}()
		return f(), false
	}
	rep.Ops++
	switch rng.Pick(50, 20, 5, 8, 8, 5, 4, 9) {
	case 7: // ---------------------------------------------------------------- v1.1.0: distributor state store 1 -> 2
		clearStore(ctx, ta, distrtypes.StoreKey)
		st := prefix.NewStore(ctx.KVStore(app.GetKey(distrtypes.StoreKey)), distrv1.RemainsKeyPrefix)
		type oldSt struct {
			key string
			v   distrv1.State
		}
		accts := []distrv1.Account{{Id: "green_energy_booster_collector", Type: distrtypes.ModuleAccount}, {Id: "int0", Type: distrtypes.InternalAccount},
			{Id: "c4e1w4u2hm6w0d3p0x7v7vj0v9m3n5f8a8q6s7k9xq", Type: distrtypes.BaseAccount}, {Id: "int0", Type: distrtypes.ModuleAccount},
			{Id: "", Type: distrtypes.Main}, {Id: "x", Type: ""}}
		n := 1 + rng.Intn(6)
		var olds []oldSt
		multi := rng.Chance(50)
		for i := 0; i < n; i++ {
			var v distrv1.State
			switch rng.Pick(60, 25, 4, 11) {
			case 0:
				a := accts[rng.Intn(4)]
				if rng.Chance(12) {
					a = accts[4+rng.Intn(2)] // an account without id or without type: the new state is keyed like the burn state
				}
				v.Account = &a
			case 1:
				v.Burn = true
				if rng.Bool() { // v1.0.1 stored the burn state with an (empty) account
					v.Account = &distrv1.Account{}
				}
			case 2: // not a state the old chain wrote: neither burn nor an account
			default:
				a := accts[rng.Intn(4)]
				v.Account, v.Burn = &a, true // burn with a named account: the account is dropped
			}
			for d := 0; d < 3; d++ {
				if d == 0 || (multi && rng.Bool()) {
					amt := sdk.NewDecFromBigIntWithPrec(rng.LogUniform(30), 18)
					if rng.Chance(5) {
						amt = amt.Neg()
					}
					v.CoinsStates = append(v.CoinsStates, sdk.DecCoin{Denom: denomNames[d], Amount: amt})
				}
			}
			olds = append(olds, oldSt{fmt.Sprintf("old%02d", rng.Intn(90)), v})
		}
		sort.SliceStable(olds, func(i, j int) bool { return olds[i].key < olds[j].key })
		var kept []oldSt // one state per old key (a later Set replaces an earlier one), in store order
		for _, o := range olds {
			if len(kept) > 0 && kept[len(kept)-1].key == o.key {
				kept[len(kept)-1] = o
			} else {
				kept = append(kept, o)
			}
		}
		keyStr := func(burn bool, a *distrv1.Account) string {
			if !burn && a != nil && a.Id != "" && a.Type != "" {
				return a.Type + "-" + a.Id
			}
			return distrtypes.BurnStateKey
		}
		keys := []string{distrtypes.BurnStateKey}
		for _, o := range kept {
			if o.v.Account != nil {
				keys = append(keys, o.v.Account.Type+"-"+o.v.Account.Id)
			}
		}
		rank := rankOf(keys)
		var ts []string
		totalBefore := sdk.DecCoins{}
		clean := true
		seenNew := map[string]bool{}
		for _, o := range kept {
			bz, err0 := app.AppCodec().Marshal(&o.v)
			if err0 != nil {
				panic(err0)
			}
			st.Set([]byte(o.key), bz)
			acct := "None"
			keyable := false
			if o.v.Account != nil {
				acct = fmt.Sprintf("(Some %d)", rank[o.v.Account.Type+"-"+o.v.Account.Id])
				keyable = o.v.Account.Id != "" && o.v.Account.Type != ""
			}
			var cs []string
			for _, c := range o.v.CoinsStates {
				cs = append(cs, zPair(zI(int64(denomIdx(c.Denom))), zB(c.Amount.BigInt())))
				if c.Amount.IsNegative() {
					clean = false
				}
			}
			if !o.v.Burn && o.v.Account == nil {
				clean = false
			}
			nk := keyStr(o.v.Burn, o.v.Account)
			if seenNew[nk] {
				clean = false
			}
			seenNew[nk] = true
			if clean {
				totalBefore = totalBefore.Add(o.v.CoinsStates...)
			}
			ts = append(ts, fmt.Sprintf("{| vd_burn := %s; vd_acct := %s; vd_keyable := %s; vd_coins := %s |}", zBool(o.v.Burn), acct, zBool(keyable), zList(cs)))
		}
		err, panicked := guard(func() error { return distrv2.MigrateStore(ctx, app.GetKey(distrtypes.StoreKey), app.AppCodec()) })
		if panicked {
			rep.Panics = rep.Panics[:len(rep.Panics)-1] // judged by the comparison with the model below
		}
		body = fmt.Sprintf("GV1DStates %d [0; 1; 2] %s", rank[distrtypes.BurnStateKey], zList(ts))
		switch {
		case panicked:
			expected = []*big.Int{bi(-1)}
		case err != nil:
			expected = ok(false)
		default:
			states := app.CfedistributorKeeper.GetAllStates(ctx)
			expected = []*big.Int{bi(1), bi(int64(len(states)))}
			totalAfter := sdk.DecCoins{}
			for _, s := range states {
				expected = append(expected, bi(int64(rank[s.GetStateKey()])), bi(b2i(s.Burn)), bi(b2i(s.Account != nil)))
				for d := 0; d < 3; d++ {
					expected = append(expected, s.Remains.AmountOf(denomNames[d]).BigInt())
				}
				totalAfter = totalAfter.Add(s.Remains...)
			}
			if clean {
				// what the states hold together is what they held before (no two old states share a new key, nothing is negative)
				rep.Eval("C16.v110_distributor_states_keep_their_remains", totalAfter.IsEqual(totalBefore) && len(states) == len(kept), idx, 0,
					fmt.Sprintf("%d states holding %s before, %d states holding %s after", len(kept), totalBefore, len(states), totalAfter))
			}
		}
		rep.NoteCase(body, err == nil)

	case 0: // ---------------------------------------------------------------- minter 2 -> 3
		c := genMinterCfg(rng, t0)
		var lms []legacyGen
		for _, g := range c.minters {
			l := legacyGen{seq: g.seq, end: g.end}
			switch g.kind {
			case 0:
				l.typ = mintertypes.NoMintingType
			case 1:
				l.typ = mintertypes.LinearMintingType
				l.lin = &mintertypes.LinearMinting{Amount: sdk.NewIntFromBigInt(g.amt)}
			default:
				l.typ = mintertypes.ExponentialStepMintingType
				l.exp = &mintertypes.ExponentialStepMinting{Amount: sdk.NewIntFromBigInt(g.amt), StepDuration: g.step, AmountMultiplier: g.mult}
			}
			lms = append(lms, l)
		}
		denom := BondDenom
		pert := "none"
		if rng.Chance(45) {
			i := rng.Intn(len(lms))
			switch rng.Intn(12) {
			case 0: // accepted by the legacy rules, refused by the new ones
				if lms[i].exp != nil {
					lms[i].exp.Amount = sdk.ZeroInt()
					pert = "exp_amount_zero"
				}
			case 1: // type string and configuration disagree
				lms[i].typ = []string{mintertypes.NoMintingType, mintertypes.LinearMintingType, mintertypes.ExponentialStepMintingType}[rng.Intn(3)]
				pert = "type_string_changed"
			case 2:
				lms[i].typ = "TIME_LINEAR_MINTER"
				pert = "unknown_type"
			case 3: // both configurations present
				lms[i].lin = &mintertypes.LinearMinting{Amount: sdk.NewInt(7)}
				lms[i].exp = &mintertypes.ExponentialStepMinting{Amount: sdk.NewInt(5), StepDuration: time.Hour, AmountMultiplier: sdk.NewDecWithPrec(5, 1)}
				pert = "both_configs"
			case 4:
				lms[i].end = nil
				pert = "end_removed"
			case 5:
				e := c.start.Add(-time.Second)
				lms[i].end = &e
				pert = "end_before_start"
			case 6:
				lms[i].seq += uint32(1 + rng.Intn(2))
				pert = "id_gap"
			case 7:
				denom = []string{"", "1", "a", "u c4e"}[rng.Intn(4)]
				pert = "denom"
			case 8:
				if lms[i].exp != nil {
					lms[i].exp.StepDuration = time.Duration(-rng.I64n(2))
					pert = "step_nonpositive"
				}
			case 9:
				if lms[i].exp != nil {
					lms[i].exp.AmountMultiplier = sdk.NewDecWithPrec(-1, 1)
					pert = "negative_multiplier"
				}
			case 10:
				if lms[i].lin != nil {
					lms[i].lin.Amount = sdk.NewInt(-1)
					pert = "negative_linear_amount"
				}
			default:
				lms[0].seq = 0
				pert = "first_id_zero"
			}
		}
		rep.Count("minter.perturbation." + pert)
		rep.Count(fmt.Sprintf("minter.first_id.%d", lms[0].seq))
		// stored order: sorted or shuffled (the code sorts in place before converting)
		stored := append([]legacyGen{}, lms...)
		if rng.Chance(35) {
			for i := len(stored) - 1; i > 0; i-- {
				j := rng.Intn(i + 1)
				stored[i], stored[j] = stored[j], stored[i]
			}
			rep.Count("minter.stored_unsorted")
		}
		sorted := append([]legacyGen{}, stored...)
		sort.SliceStable(sorted, func(i, j int) bool { return sorted[i].seq < sorted[j].seq })
		dupIds := false
		for i := 1; i < len(sorted); i++ {
			if sorted[i].seq == sorted[i-1].seq {
				dupIds = true // the order sort.Sort leaves equal ids in is unspecified; the configuration is invalid either way
			}
		}
		var legacyMinters []*mintertypes.LegacyMinter
		for _, l := range stored {
			legacyMinters = append(legacyMinters, &mintertypes.LegacyMinter{SequenceId: l.seq, EndTime: l.end, Type: l.typ, LinearMinting: l.lin, ExponentialStepMinting: l.exp})
		}
		sub := withKeyTable(app.GetSubspace(mintertypes.ModuleName), mintertypes.ParamKeyTable())
		sub.Set(ctx, mintertypes.KeyMintDenom, denom)
		sub.Set(ctx, mintertypes.KeyMinterConfig, mintertypes.MinterConfig{StartTime: c.start, Minters: legacyMinters})
		st := ctx.KVStore(app.GetKey(mintertypes.StoreKey))
		st.Delete(mintertypes.ParamsKey)
		// the minter state as the v1.1.0 binary wrote it
		stSeq := lms[rng.Intn(len(lms))].seq
		legacyState := mintertypes.LegacyMinterState{SequenceId: stSeq, AmountMinted: sdk.NewIntFromBigInt(rng.LogUniform(20)),
			RemainderToMint: sdk.NewDecFromBigIntWithPrec(rng.BigBelow(new(big.Int).Exp(bi(10), bi(18), nil)), 18), LastMintBlockTime: t0,
			RemainderFromPreviousPeriod: sdk.NewDecFromBigIntWithPrec(rng.BigBelow(new(big.Int).Exp(bi(10), bi(18), nil)), 18)}
		bz, err0 := legacyState.Marshal()
		if err0 != nil {
			panic(err0)
		}
		st.Set(mintertypes.MinterStateKey, bz)

		err, _ := guard(func() error { return minterkeeper.NewMigrator(app.CfeminterKeeper, sub).Migrate2to3(ctx) })
		var ts []string
		for _, l := range sorted {
			ts = append(ts, l.term())
		}
		body = fmt.Sprintf("GMinter {| lc_denom_nonempty := %s; lc_denom_ok := %s; lc_start := %s; lc_minters := %s |}",
			zBool(denom != ""), zBool(denom != "" && sdk.ValidateDenom(denom) == nil), zI(c.start.UnixNano()), zList(ts))
		if pert == "none" && !dupIds {
			// a configuration the generator built valid under the legacy rules and the new ones alike: the upgrade must not abort on it
			rep.Eval("C16.valid_legacy_minter_configuration_is_migrated", err == nil, idx, 0, fmt.Sprintf("Migrate2to3 refused an unperturbed valid configuration: %v", err))
		}
		if err != nil {
			expected = ok(false)
			rep.Count("minter.result.refused")
		} else {
			rep.Count("minter.result.migrated")
			np := app.CfeminterKeeper.GetParams(ctx)
			expected = append(ok(true), minterCode(np)...)
			// ---- predicates on the implementation
			rep.Eval("C16.migrated_minter_params_validate", np.Validate() == nil, idx, 0, fmt.Sprint(np.Validate()))
			same := np.MintDenom == denom && np.StartTime.Equal(c.start) && len(np.Minters) == len(lms)
			detail := ""
			if same {
				for _, l := range lms {
					var nm *mintertypes.Minter
					for _, m := range np.Minters {
						if m.SequenceId == l.seq {
							nm = m
						}
					}
					if nm == nil {
						same, detail = false, fmt.Sprintf("no migrated minter with sequence id %d", l.seq)
						break
					}
					if (nm.EndTime == nil) != (l.end == nil) || (l.end != nil && !nm.EndTime.Equal(*l.end)) {
						same, detail = false, fmt.Sprintf("minter %d: end time %v, before %v", l.seq, nm.EndTime, l.end)
						break
					}
					cfg, _ := nm.GetMinterConfig()
					switch v := cfg.(type) {
					case *mintertypes.NoMinting:
						if l.lin != nil || l.exp != nil {
							same, detail = false, fmt.Sprintf("minter %d: became no-minting", l.seq)
						}
					case *mintertypes.LinearMinting:
						if l.lin == nil || l.exp != nil || !v.Amount.Equal(l.lin.Amount) {
							same, detail = false, fmt.Sprintf("minter %d: linear amount %v", l.seq, v.Amount)
						}
					case *mintertypes.ExponentialStepMinting:
						if l.exp == nil || l.lin != nil || !v.Amount.Equal(l.exp.Amount) || v.StepDuration != l.exp.StepDuration || !v.AmountMultiplier.Equal(l.exp.AmountMultiplier) {
							same, detail = false, fmt.Sprintf("minter %d: exponential configuration %v", l.seq, v)
						}
					default:
						same, detail = false, fmt.Sprintf("minter %d: no configuration", l.seq)
					}
					if !same {
						break
					}
				}
			} else {
				detail = fmt.Sprintf("denom %q/%q start %v/%v minters %d/%d", np.MintDenom, denom, np.StartTime, c.start, len(np.Minters), len(lms))
			}
			rep.Eval("C16.migrated_minter_same_schedule", same, idx, 0, detail)
			// the state the legacy binary wrote still points at the same minter
			ms := app.CfeminterKeeper.GetMinterState(ctx)
			stOK := ms.SequenceId == legacyState.SequenceId && ms.AmountMinted.Equal(legacyState.AmountMinted) && ms.RemainderToMint.Equal(legacyState.RemainderToMint) &&
				ms.RemainderFromPreviousMinter.Equal(legacyState.RemainderFromPreviousPeriod) && ms.LastMintBlockTime.Equal(legacyState.LastMintBlockTime) && np.ContainsMinter(ms.SequenceId)
			rep.Eval("C16.minter_state_survives_migration", stOK, idx, 0, fmt.Sprintf("state %v, legacy %v", ms, legacyState))
			// blocks under the migrated parameters follow the schedule the legacy parameters describe (exact-rational oracle on the legacy values)
			if pert == "none" {
				st0 := mintertypes.MinterState{SequenceId: lms[0].seq, AmountMinted: sdk.ZeroInt(), RemainderToMint: sdk.ZeroDec(), RemainderFromPreviousMinter: sdk.ZeroDec(), LastMintBlockTime: t0}
				lastEnd := c.start
				for _, g := range c.minters {
					if g.end != nil {
						lastEnd = *g.end
					}
				}
				span := lastEnd.Sub(t0)
				if span < time.Hour {
					span = time.Hour
				}
				T := t0.Add(time.Duration(1 + rng.I64n(int64(span)+int64(20*24*time.Hour))))
				times := []time.Time{t0.Add(T.Sub(t0) / 3), t0.Add(T.Sub(t0) / 3 * 2), T}
				obs, _, _ := runMinterBlocks(ta, np, st0, times, denom)
				tot, pan := bi(0), false
				for _, o := range obs {
					if o.panicked {
						pan = true
					}
					tot.Add(tot, o.minted)
				}
				// from a state with zero counters the first block mints everything due since the schedule's start
				want := scheduleCumulative(c, T)
				rep.Eval("C16.migrated_minter_mints_legacy_schedule", !pan && want != nil && tot.Cmp(want) == 0, idx, 0,
					fmt.Sprintf("minted %s up to %v under the migrated parameters, the legacy schedule gives %s", tot, T, want))
				rep.Ops += len(times)
			}
		}
		if dupIds {
			// order of equal ids unspecified: only the refusal is compared
			body = "GVestParams false false"
			expected = ok(false)
			rep.Eval("C16.duplicate_ids_refused", err != nil, idx, 0, "a legacy configuration with two equal sequence ids was migrated")
		}
		rep.NoteCase(body, err == nil)

	case 1: // ---------------------------------------------------------------- distributor 2 -> 3
		de := &distrEnv{ta: ta, rng: rng, rep: rep}
		for i := 0; i < 5; i++ {
			de.baseAdr = append(de.baseAdr, sdk.AccAddress(rng.Bytes(20)))
		}
		de.blocked = app.AccountKeeper.GetModuleAddress(authtypes.FeeCollectorName)
		de.addrTab = []sdk.AccAddress{app.AccountKeeper.GetModuleAddress(distrtypes.DistributorMainAccount)}
		pe := &paramsEnv{de: de, names: map[string]int{}, accIds: map[string]int{}, keys: map[string]int{}}
		var subs []distrtypes.SubDistributor
		for {
			c2 := de.genDistrCfg(0)
			if c2.params().Validate() == nil || rng.Chance(25) {
				subs = c2.params().SubDistributors
				break
			}
		}
		if rng.Chance(25) && len(subs) > 0 {
			i := rng.Intn(len(subs))
			switch rng.Intn(4) {
			case 0:
				subs[i].Destinations.BurnShare = sdk.NewDecWithPrec(101, 2)
			case 1:
				subs[i].Sources = nil
			case 2:
				subs[i].Name = subs[0].Name
				if i == 0 && len(subs) > 1 {
					subs[1].Name = subs[0].Name
				}
			default:
				subs[i].Destinations.PrimaryShare = distrtypes.Account{Type: distrtypes.BaseAccount, Id: "not-bech32"}
			}
			rep.Count("distr.perturbed")
		}
		sub := withKeyTable(app.GetSubspace(distrtypes.ModuleName), distrtypes.ParamKeyTable())
		sub.Set(ctx, distrtypes.KeySubDistributors, subs)
		st := ctx.KVStore(app.GetKey(distrtypes.StoreKey))
		st.Delete(distrtypes.ParamsKey)
		before, _ := (&distrtypes.Params{SubDistributors: subs}).Marshal()
		err, _ := guard(func() error { return distrkeeper.NewMigrator(app.CfedistributorKeeper, sub).Migrate2to3(ctx) })
		body = "GDistr " + pe.subsTerm(subs)
		if err != nil {
			expected = ok(false)
			rep.Count("distr.result.refused")
		} else {
			rep.Count("distr.result.migrated")
			np := app.CfedistributorKeeper.GetParams(ctx)
			expected = append(ok(true), pe.distrCode(np.SubDistributors)...)
			rep.Eval("C16.migrated_distr_params_validate", np.Validate() == nil, idx, 0, fmt.Sprint(np.Validate()))
			after, _ := np.Marshal()
			rep.Eval("C16.migrated_distr_same_shares", string(before) == string(after), idx, 0, fmt.Sprintf("stored %v, before %v", np.SubDistributors, subs))
		}
		rep.NoteCase(body, err == nil)

	case 2: // ---------------------------------------------------------------- vesting parameters 2 -> 3
		denom := []string{BondDenom, "", "1", "uatom", "a"}[rng.Intn(5)]
		sub := withKeyTable(app.GetSubspace(vesttypes.ModuleName), vesttypes.ParamKeyTable())
		sub.Set(ctx, vesttypes.KeyDenom, denom)
		st := ctx.KVStore(app.GetKey(vesttypes.StoreKey))
		st.Delete(vesttypes.ParamsKey)
		err, _ := guard(func() error {
			return vestv3.MigrateParams(ctx, app.GetKey(vesttypes.StoreKey), sub, app.AppCodec())
		})
		body = fmt.Sprintf("GVestParams %s %s", zBool(denom != ""), zBool(denom != "" && sdk.ValidateDenom(denom) == nil))
		expected = ok(err == nil)
		if err == nil {
			np := app.CfevestingKeeper.GetParams(ctx)
			rep.Eval("C16.migrated_vesting_params_same", np.Denom == denom && np.Validate() == nil, idx, 0, fmt.Sprintf("%q -> %q", denom, np.Denom))
		}
		rep.NoteCase(body, err == nil)

	case 3: // ---------------------------------------------------------------- v1.1.0: percent -> fraction
		var pct sdk.Dec
		switch rng.Intn(5) {
		case 0:
			pct = sdk.NewDec(rng.I64n(101))
		case 1:
			pct = sdk.NewDecWithPrec(rng.I64n(100001), 3)
		case 2: // rounding ties at the 18th digit: ...50 in the last two digits
			pct = sdk.NewDecFromBigIntWithPrec(new(big.Int).Add(new(big.Int).Mul(rng.BigBelow(new(big.Int).Exp(bi(10), bi(17), nil)), bi(100)), bi(50)), 18)
		default:
			pct = sdk.NewDecFromBigIntWithPrec(rng.BigBelow(new(big.Int).Exp(bi(10), bi(20), nil)), 18)
		}
		burn := sdk.ZeroDec()
		old := []distrv1.SubDistributor{{Name: "sd", Sources: []*distrv1.Account{{Id: "", Type: distrtypes.Main}},
			Destination: distrv1.Destination{Account: distrv1.Account{Id: "acc", Type: distrtypes.InternalAccount},
				Share:     []*distrv1.Share{{Name: "s1", Percent: pct, Account: distrv1.Account{Id: authtypes.FeeCollectorName, Type: distrtypes.ModuleAccount}}},
				BurnShare: &distrv1.BurnShare{Percent: burn}}}}
		raw, err0 := codec.NewLegacyAmino().MarshalJSON(old)
		if err0 != nil {
			panic(err0)
		}
		pst := ctx.KVStore(app.GetKey(paramstypes.StoreKey))
		pst.Set(append([]byte(distrtypes.ModuleName+"/"), distrtypes.KeySubDistributors...), raw)
		sub := withKeyTable(app.GetSubspace(distrtypes.ModuleName), distrtypes.ParamKeyTable())
		err, _ := guard(func() error { return distrv2.MigrateParams(ctx, &sub) })
		body = "GPercent " + zB(pct.BigInt())
		want := pct.Quo(sdk.NewDec(100))
		if err != nil {
			// refused by the new validation (share >= 1 ...): compare the arithmetic only
			expected = []*big.Int{want.BigInt()}
			rep.Count("percent.refused")
		} else {
			var got []distrtypes.SubDistributor
			sub.Get(ctx, distrtypes.KeySubDistributors, &got)
			expected = []*big.Int{got[0].Destinations.Shares[0].Share.BigInt()}
			rep.Count("percent.migrated")
			// |share*100 - percent| <= 50 * 10^-18
			d := new(big.Int).Sub(new(big.Int).Mul(got[0].Destinations.Shares[0].Share.BigInt(), bi(100)), pct.BigInt())
			rep.Eval("C16.v110_share_is_percent_over_100", d.CmpAbs(bi(50)) <= 0, idx, 0, fmt.Sprintf("percent %v -> share %v", pct, got[0].Destinations.Shares[0].Share))
		}
		rep.NoteCase(body, true)

	case 4: // ---------------------------------------------------------------- v1.1.0: periodic reduction -> exponential step
		mp := int32(1 + rng.I64n(40000000))
		rpl := int32(1 + rng.I64n(8))
		if rng.Chance(15) {
			rpl = int32(1 + rng.I64n(400)) // products beyond int32
		}
		ma := rng.LogUniform(24)
		f := sdk.NewDecWithPrec(rng.I64n(101), 2)
		end := t0.Add(1000 * time.Hour)
		old := minterv1.Minter{Start: t0, Periods: []*minterv1.MintingPeriod{
			{Position: 1, PeriodEnd: &end, Type: "TIME_LINEAR_MINTER", TimeLinearMinter: &minterv1.TimeLinearMinter{Amount: sdk.NewInt(1000)}},
			{Position: 2, Type: "PERIODIC_REDUCTION_MINTER", PeriodicReductionMinter: &minterv1.PeriodicReductionMinter{MintPeriod: mp, MintAmount: sdk.NewIntFromBigInt(ma), ReductionPeriodLength: rpl, ReductionFactor: f}}}}
		raw, err0 := codec.NewLegacyAmino().MarshalJSON(old)
		if err0 != nil {
			panic(err0)
		}
		pst := ctx.KVStore(app.GetKey(paramstypes.StoreKey))
		pst.Set(append([]byte(mintertypes.ModuleName+"/"), minterv1.KeyMinter...), raw)
		sub := withKeyTable(app.GetSubspace(mintertypes.ModuleName), mintertypes.ParamKeyTable())
		err, _ := guard(func() error { return minterv2.MigrateParams(ctx, &sub) })
		body = fmt.Sprintf("GPeriodic %d %s %d %s", mp, zB(ma), rpl, zB(f.BigInt()))
		prod := int64(mp) * int64(rpl)
		wrapped := int64(int32(prod))
		if err != nil {
			// refused (a wrapped product that is not positive): compare the arithmetic only
			expected = []*big.Int{new(big.Int).Mul(ma, bi(int64(rpl))), new(big.Int).Mul(bi(wrapped), bi(int64(time.Second))), f.BigInt()}
			rep.Count("periodic.refused")
		} else {
			var got mintertypes.MinterConfig
			sub.Get(ctx, mintertypes.KeyMinterConfig, &got)
			e := got.Minters[1].ExponentialStepMinting
			expected = []*big.Int{e.Amount.BigInt(), bi(int64(e.StepDuration)), e.AmountMultiplier.BigInt()}
			rep.Count("periodic.migrated")
		}
		if prod != wrapped {
			rep.Count("periodic.product_beyond_int32")
		}
		rep.NoteCase(body, true)

	case 5: // ---------------------------------------------------------------- v1.1.0: vesting pool store 1 -> 2
		clearStore(ctx, ta, vesttypes.StoreKey)
		st := ctx.KVStore(app.GetKey(vesttypes.StoreKey))
		pst := prefix.NewStore(st, vestv1.AccountVestingPoolsKeyPrefix)
		type old struct{ v, w, lmv, lmw *big.Int }
		var all []old
		var ts []string
		nOwners := 1 + rng.Intn(3)
		ownerPools := map[string][]old{}
		var ownerOrder []string
		for o := 0; o < nOwners; o++ {
			addr := sdk.AccAddress(rng.Bytes(20)).String()
			avp := vestv1.AccountVestingPools{Address: addr}
			for j := 0; j < 1+rng.Intn(3); j++ {
				v := rng.LogUniform(18)
				lmv := rng.BigBelow(new(big.Int).Add(v, bi(1)))   // locked at the last modification
				lmw := rng.BigBelow(new(big.Int).Add(lmv, bi(1))) // withdrawn since
				w := new(big.Int).Add(lmw, rng.BigBelow(new(big.Int).Add(new(big.Int).Sub(v, lmv), bi(1))))
				if rng.Chance(30) {
					lmv, lmw, w = new(big.Int).Set(v), bi(0), bi(0) // untouched pool
				}
				ls := t0.Add(-time.Duration(rng.I64n(int64(100 * 24 * time.Hour))))
				avp.VestingPools = append(avp.VestingPools, &vestv1.VestingPool{Id: int32(j), Name: fmt.Sprintf("p%d", j), VestingType: "Validators", LockStart: ls, LockEnd: ls.Add(1000 * time.Hour),
					Vested: sdk.NewIntFromBigInt(v), Withdrawn: sdk.NewIntFromBigInt(w), Sent: sdk.ZeroInt(), LastModification: ls,
					LastModificationVested: sdk.NewIntFromBigInt(lmv), LastModificationWithdrawn: sdk.NewIntFromBigInt(lmw)})
				ownerPools[addr] = append(ownerPools[addr], old{v, w, lmv, lmw})
			}
			bz, err0 := app.AppCodec().Marshal(&avp)
			if err0 != nil {
				panic(err0)
			}
			pst.Set([]byte(addr), bz)
			ownerOrder = append(ownerOrder, addr)
		}
		vts := vestv1.VestingTypes{VestingTypes: []*vestv1.VestingType{{Name: "Validators", LockupPeriod: time.Hour, VestingPeriod: 2 * time.Hour}, {Name: "Other", LockupPeriod: time.Minute, VestingPeriod: time.Minute}}}
		bz, _ := app.AppCodec().Marshal(&vts)
		st.Set(vestv1.VestingTypesKey, bz)
		err, _ := guard(func() error { return vestv2.MigrateStore(ctx, app.GetKey(vesttypes.StoreKey), app.AppCodec()) })
		sort.Strings(ownerOrder)
		for _, a := range ownerOrder {
			all = append(all, ownerPools[a]...)
		}
		for _, o := range all {
			ts = append(ts, fmt.Sprintf("{| v1_vested := %s; v1_withdrawn := %s; v1_lmv := %s; v1_lmw := %s |}", zB(o.v), zB(o.w), zB(o.lmv), zB(o.lmw)))
		}
		body = "GV1Pools " + zList(ts)
		lockedBefore, lockedAfter := bi(0), bi(0)
		for _, o := range all {
			lockedBefore.Add(lockedBefore, new(big.Int).Sub(o.lmv, o.lmw))
		}
		if err == nil {
			for _, avp := range app.CfevestingKeeper.GetAllAccountVestingPools(ctx) {
				for _, p := range avp.VestingPools {
					cur := p.GetCurrentlyLocked().BigInt()
					expected = append(expected, p.InitiallyLocked.BigInt(), p.Withdrawn.BigInt(), p.Sent.BigInt(), cur)
					lockedAfter.Add(lockedAfter, cur)
				}
			}
			vt, verr := app.CfevestingKeeper.GetVestingType(ctx, "Validators")
			vo, verr2 := app.CfevestingKeeper.GetVestingType(ctx, "Other")
			rep.Eval("C16.v110_vesting_types_migrated", verr == nil && verr2 == nil && vt.Free.Equal(sdk.NewDecWithPrec(5, 2)) && vo.Free.IsZero() && vt.LockupPeriod == time.Hour && vo.VestingPeriod == time.Minute, idx, 0, fmt.Sprintf("%v %v", vt, vo))
		}
		rep.Eval("C16.v110_pool_migration_preserves_locked", err == nil && lockedBefore.Cmp(lockedAfter) == 0, idx, 0, fmt.Sprintf("locked before %s after %s err %v", lockedBefore, lockedAfter, err))
		rep.NoteCase(body, true)

	default: // ---------------------------------------------------------------- v1.1.0: minter state 1 -> 2
		clearStore(ctx, ta, mintertypes.StoreKey)
		st := ctx.KVStore(app.GetKey(mintertypes.StoreKey))
		pos := int32(1 + rng.Intn(5))
		minted := rng.LogUniform(20)
		rem := rng.BigBelow(new(big.Int).Exp(bi(10), bi(18), nil))
		remPrev := rng.BigBelow(new(big.Int).Exp(bi(10), bi(18), nil))
		if rng.Chance(15) {
			minted = new(big.Int).Neg(minted)
		}
		old := minterv1.MinterState{Position: pos, AmountMinted: sdk.NewIntFromBigInt(minted), RemainderToMint: sdk.NewDecFromBigIntWithPrec(rem, 18),
			LastMintBlockTime: t0, RemainderFromPreviousPeriod: sdk.NewDecFromBigIntWithPrec(remPrev, 18)}
		bz, err0 := app.AppCodec().Marshal(&old)
		if err0 != nil {
			panic(err0)
		}
		st.Set(minterv1.MinterStateKey, bz)
		err, _ := guard(func() error { return minterv2.MigrateStore(ctx, app.GetKey(mintertypes.StoreKey), app.AppCodec()) })
		body = fmt.Sprintf("GV1MState %d %s %s %s", pos, zB(minted), zB(rem), zB(remPrev))
		if err != nil {
			expected = ok(false)
		} else {
			ms := app.CfeminterKeeper.GetMinterState(ctx)
			expected = []*big.Int{bi(1), bi(int64(ms.SequenceId)), ms.AmountMinted.BigInt(), ms.RemainderToMint.BigInt(), ms.RemainderFromPreviousMinter.BigInt()}
			rep.Eval("C16.v110_minter_state_migrated", ms.LastMintBlockTime.Equal(t0), idx, 0, "last mint block time changed")
		}
		rep.NoteCase(body, err == nil)
	}
	return fmt.Sprintf("{| gc_id := %d; gc_body := %s; gc_expected := %s |}", idx, body, zListB(expected))
}
