package main

// minter.go — emission schedule: generates validated (and a stream of invalid) minter
// configurations, runs the real cfeminter.BeginBlocker over several partitions of the same time
// span, prints every block's observation as a Gallina term for C4E.Minter.check_mcase and
// evaluates the implementation-side predicates of C02, C19 and the mint part of C18.

import (
	"fmt"
	"math/big"
	"sort"
	"strings"
	"time"

	appparams "github.com/chain4energy/c4e-chain/app/params"
	cfeminter "github.com/chain4energy/c4e-chain/x/cfeminter"
	minterkeeper "github.com/chain4energy/c4e-chain/x/cfeminter/keeper"
	mintertypes "github.com/chain4energy/c4e-chain/x/cfeminter/types"
	codectypes "github.com/cosmos/cosmos-sdk/codec/types"
	sdk "github.com/cosmos/cosmos-sdk/types"
)

type genMinter struct {
	seq   uint32
	end   *time.Time
	kind  int // 0 none 1 linear 2 exp
	amt   *big.Int
	step  time.Duration
	mult  sdk.Dec
	nilCf bool
}

func (g genMinter) toMinter() *mintertypes.Minter {
	m := &mintertypes.Minter{SequenceId: g.seq, EndTime: g.end}
	if g.nilCf {
		return m
	}
	var cfg mintertypes.MinterConfigI
	switch g.kind {
	case 0:
		cfg = &mintertypes.NoMinting{}
	case 1:
		cfg = &mintertypes.LinearMinting{Amount: sdk.NewIntFromBigInt(g.amt)}
	default:
		cfg = &mintertypes.ExponentialStepMinting{Amount: sdk.NewIntFromBigInt(g.amt), StepDuration: g.step, AmountMultiplier: g.mult}
	}
	any, err := codectypes.NewAnyWithValue(cfg)
	if err != nil {
		panic(err)
	}
	m.Config = any
	return m
}

func optZ(t *time.Time) string {
	if t == nil {
		return "None"
	}
	return "(Some " + zI(t.UnixNano()) + ")"
}

func (g genMinter) term() string {
	cfg := "CNone"
	switch g.kind {
	case 1:
		cfg = fmt.Sprintf("(CLinear %s)", zB(g.amt))
	case 2:
		cfg = fmt.Sprintf("(CExp %s %s %s)", zB(g.amt), zI(int64(g.step)), zB(g.mult.BigInt()))
	}
	return fmt.Sprintf("{| m_seq := %d; m_end := %s; m_cfg := %s |}", g.seq, optZ(g.end), cfg)
}

func stateTerm(s mintertypes.MinterState) string {
	return fmt.Sprintf("{| s_seq := %d; s_minted := %s; s_rem := %s; s_rem_prev := %s; s_last := %s |}",
		s.SequenceId, zB(s.AmountMinted.BigInt()), zB(s.RemainderToMint.BigInt()), zB(s.RemainderFromPreviousMinter.BigInt()), zI(s.LastMintBlockTime.UnixNano()))
}

type minterBlockObs struct {
	panicked bool
	minted   *big.Int
	obs      []*big.Int
	evInfl   string // the Mint event's inflation attribute ("" = no Mint event)
	qInfl    string // the Inflation query right after the block ("undefined" when it errs)
}

// runMinterBlocks executes BeginBlocker at each time on a fresh cache context and returns observations.
func runMinterBlocks(ta *TestApp, params mintertypes.Params, st mintertypes.MinterState, times []time.Time, denom string) (obs []minterBlockObs, supply0 *big.Int, hist []mintertypes.MinterState) {
	app := ta.App
	ctx, _ := ta.Ctx().CacheContext()
	k := app.CfeminterKeeper
	if err := k.SetParams(ctx, params); err != nil {
		panic("SetParams of a validated configuration failed: " + err.Error())
	}
	k.SetMinterState(ctx, st)
	supply0 = app.BankKeeper.GetSupply(ctx, denom).Amount.BigInt()
	obs, hist = stepMinterBlocks(ta, ctx, times, denom)
	return
}

// stepMinterBlocks runs BeginBlocker at each time on the given context (which keeps the state between calls).
func stepMinterBlocks(ta *TestApp, ctx sdk.Context, times []time.Time, denom string) (obs []minterBlockObs, hist []mintertypes.MinterState) {
	app := ta.App
	k := app.CfeminterKeeper
	for _, t := range times {
		bctx := ctx.WithBlockTime(t).WithEventManager(sdk.NewEventManager())
		o := minterBlockObs{minted: bi(0)}
		before := app.BankKeeper.GetSupply(ctx, denom).Amount
		func() {
			defer func() {
				if r := recover(); r != nil {
					o.panicked = true
				}
			}()
			cfeminter.BeginBlocker(bctx, k)
		}()
		if o.panicked {
			obs = append(obs, o)
			break
		}
		// Mint event amount
		evAmt := bi(-1)
		for _, ev := range bctx.EventManager().Events() {
			if strings.HasSuffix(ev.Type, "cfeminter.Mint") {
				for _, at := range ev.Attributes {
					if string(at.Key) == "amount" {
						a, _ := new(big.Int).SetString(strings.Trim(string(at.Value), "\""), 10)
						evAmt = a
					}
					if string(at.Key) == "inflation" {
						o.evInfl = strings.Trim(string(at.Value), "\"")
					}
				}
			}
		}
		after := app.BankKeeper.GetSupply(bctx, denom).Amount
		delta := after.Sub(before).BigInt()
		o.minted = delta
		s := k.GetMinterState(bctx)
		inflClass, infl := bi(1), bi(0)
		func() {
			defer func() {
				if r := recover(); r != nil {
					inflClass = bi(-1)
				}
			}()
			r, err := k.Inflation(sdk.WrapSDKContext(bctx), &mintertypes.QueryInflationRequest{})
			if err != nil {
				inflClass = bi(0)
				o.qInfl = mintertypes.UndefinedInflation
			} else {
				infl = r.Inflation.BigInt()
				o.qInfl = r.Inflation.String()
			}
		}()
		h := k.GetAllMinterStateHistory(bctx)
		sort.Slice(h, func(i, j int) bool { return h[i].SequenceId < h[j].SequenceId })
		o.obs = []*big.Int{bi(1), delta, bi(int64(s.SequenceId)), s.AmountMinted.BigInt(), s.RemainderToMint.BigInt(),
			s.RemainderFromPreviousMinter.BigInt(), bi(s.LastMintBlockTime.UnixNano()), after.BigInt(), inflClass, infl, bi(int64(len(h)))}
		for _, e := range h {
			o.obs = append(o.obs, bi(int64(e.SequenceId)), e.AmountMinted.BigInt())
		}
		o.obs = append(o.obs, evAmt) // not part of the model comparison: stripped by the caller
		// probe (a query, no block): the inflation reported at the very instant the current exponential-step period ends
		// (-2: not applicable, -1: panic / error, otherwise the reported value)
		probe := bi(-2)
		for _, m := range k.GetParams(bctx).Minters {
			if m.SequenceId != s.SequenceId || m.EndTime == nil || !m.EndTime.After(t) {
				continue
			}
			if cfg, err := m.GetMinterConfig(); err == nil {
				if _, isExp := cfg.(*mintertypes.ExponentialStepMinting); isExp {
					probe = bi(-1)
					func() {
						defer func() { _ = recover() }()
						if r, err := k.Inflation(sdk.WrapSDKContext(bctx.WithBlockTime(*m.EndTime)), &mintertypes.QueryInflationRequest{}); err == nil {
							probe = r.Inflation.BigInt()
						}
					}()
				}
			}
		}
		o.obs = append(o.obs, probe)
		obs = append(obs, o)
		hist = nil
		for _, e := range h {
			hist = append(hist, *e)
		}
	}
	return
}

// ---------------------------------------------------------------- generator ----------------
type minterCfg struct {
	start   time.Time
	minters []genMinter
	denom   string
	denomOK bool
}

func genMinterCfg(rng *Rng, t0 time.Time) minterCfg {
	c := minterCfg{denom: BondDenom, denomOK: true}
	// start around t0, ns-precise or aligned
	switch rng.Intn(4) {
	case 0:
		c.start = t0.Add(-time.Duration(rng.I64n(int64(40 * 24 * time.Hour))))
	case 1:
		c.start = t0.Add(time.Duration(rng.I64n(int64(10 * time.Hour))))
	default:
		c.start = t0.Add(-time.Duration(rng.I64n(int64(1000 * time.Hour)))).Truncate(time.Second)
	}
	n := 1 + rng.Intn(5)
	if rng.Chance(20) {
		n = 6 + rng.Intn(4) // long schedules: a late first block (or a long pause) hands over across many period ends at once
	}
	prevEnd := c.start
	firstId := uint32(1 + rng.Intn(3))
	for i := 0; i < n; i++ {
		g := genMinter{seq: firstId + uint32(i)}
		last := i == n-1
		var dur time.Duration
		switch rng.Intn(5) {
		case 0:
			dur = time.Duration(1+rng.I64n(3600)) * time.Second
		case 1:
			dur = time.Duration(1+rng.I64n(400)) * 24 * time.Hour
		case 2:
			dur = time.Second + time.Duration(rng.I64n(int64(30*24*time.Hour))) // ns precise
		default:
			dur = time.Duration(1+rng.I64n(2000)) * time.Minute
		}
		if !last {
			e := prevEnd.Add(dur)
			g.end = &e
		}
		g.kind = rng.Pick(2, 5, 5)
		if last && g.kind == 1 { // linear needs an end
			g.kind = []int{0, 2}[rng.Intn(2)]
		}
		switch rng.Intn(6) {
		case 0:
			g.amt = bi(int64(rng.Intn(3)))
		case 1:
			g.amt = bi(1 + rng.I64n(1000))
		default:
			g.amt = rng.LogUniform(30)
		}
		if g.kind == 2 {
			if g.amt.Sign() == 0 {
				g.amt = bi(1)
			}
			// steps: keep the number of steps in the period small enough (<= ~2000)
			minStep := dur / 1500
			if last {
				minStep = time.Duration(int64(400*24*time.Hour) / 1500)
			}
			if minStep < time.Second {
				minStep = time.Second
			}
			g.step = minStep + time.Duration(rng.I64n(int64(minStep)*20+1))
			manySteps := rng.Chance(12)
			if manySteps {
				// a long period of short steps: 1100 to 3000 of them (the amounts below stay sizeable throughout)
				span := dur
				if last {
					span = 400 * 24 * time.Hour
				}
				if st := span / time.Duration(1100+rng.I64n(1900)); st >= time.Second {
					g.step = st
				} else {
					manySteps = false
				}
			}
			if rng.Chance(40) {
				g.step = g.step.Truncate(time.Second)
				if g.step < time.Second {
					g.step = time.Second
				}
			}
			switch rng.Intn(5) {
			case 0:
				g.mult = sdk.OneDec()
			case 1:
				g.mult = sdk.ZeroDec()
			case 2:
				g.mult = sdk.NewDecWithPrec(5, 1)
			case 3: // just below one: the amounts stay sizeable for hundreds of steps
				g.mult = sdk.NewDecWithPrec(990+rng.I64n(10), 3)
			default:
				g.mult = sdk.NewDecFromBigIntWithPrec(rng.BigBelow(new(big.Int).Exp(bi(10), bi(18), nil)), 18)
			}
			if manySteps {
				g.mult = []sdk.Dec{sdk.OneDec(), sdk.NewDecWithPrec(9990+rng.I64n(10), 4), sdk.NewDecWithPrec(930+rng.I64n(70), 3)}[rng.Intn(3)]
			}
		}
		if g.end != nil {
			prevEnd = *g.end
		}
		c.minters = append(c.minters, g)
	}
	return c
}

func (c minterCfg) params() mintertypes.Params {
	var ms []*mintertypes.Minter
	for _, g := range c.minters {
		ms = append(ms, g.toMinter())
	}
	return mintertypes.Params{MintDenom: c.denom, StartTime: c.start, Minters: ms}
}

func (c minterCfg) paramsTerm() string {
	var ms []string
	for _, g := range c.minters {
		ms = append(ms, g.term())
	}
	return fmt.Sprintf("{| mp_denom_ok := %s; mp_start := %s; mp_minters := %s |}", zBool(c.denomOK), zI(c.start.UnixNano()), zList(ms))
}

// interesting instants of a configuration: start, every period end, a few step boundaries
func (c minterCfg) boundaries() []time.Time {
	bs := []time.Time{c.start}
	prev := c.start
	for _, g := range c.minters {
		if g.kind == 2 {
			for k := int64(1); k <= 3; k++ {
				bs = append(bs, prev.Add(time.Duration(k)*g.step))
			}
		}
		if g.end != nil {
			bs = append(bs, *g.end)
			prev = *g.end
		}
	}
	return bs
}

func genPartition(rng *Rng, c minterCfg, t0, T time.Time, style int) []time.Time {
	var ts []time.Time
	span := T.Sub(t0)
	switch style {
	case 0: // regular
		n := 2 + rng.Intn(12)
		for i := 1; i < n; i++ {
			ts = append(ts, t0.Add(time.Duration(int64(span)/int64(n)*int64(i))))
		}
	case 1: // random
		n := 1 + rng.Intn(14)
		for i := 0; i < n; i++ {
			ts = append(ts, t0.Add(time.Duration(1+rng.I64n(int64(span)))))
		}
	case 2: // on / around boundaries
		for _, b := range c.boundaries() {
			if b.After(t0) && b.Before(T) {
				switch rng.Intn(4) {
				case 0:
					ts = append(ts, b)
				case 1:
					ts = append(ts, b.Add(-1), b)
				case 2:
					ts = append(ts, b.Add(1))
				default:
					ts = append(ts, b.Add(-1), b, b.Add(1))
				}
			}
		}
	default: // single jump
	}
	// two blocks inside one late step of an exponential period (the reported rate is judged on intervals inside one step)
	if rng.Chance(50) {
		start := c.start
		for _, m := range c.minters {
			if m.kind == 2 && m.step > 0 {
				end := T
				if m.end != nil && m.end.Before(T) {
					end = *m.end
				}
				if n := int64(end.Sub(start) / m.step); n >= 2 && end.After(start) {
					k := n/2 + rng.I64n(n-n/2)
					b := start.Add(time.Duration(k) * m.step)
					ts = append(ts, b.Add(m.step/4), b.Add(m.step/2))
				}
			}
			if m.end != nil {
				start = *m.end
			}
		}
	}
	ts = append(ts, T)
	sort.Slice(ts, func(i, j int) bool { return ts[i].Before(ts[j]) })
	var out []time.Time
	for _, t := range ts {
		if !t.After(t0) || t.After(T) {
			continue
		}
		if len(out) > 0 && !t.After(out[len(out)-1]) {
			continue
		}
		out = append(out, t)
	}
	return out
}

func runMinterCase(ta *TestApp, seed uint64, idx int, rep *Report, profile string) []string {
	rng := NewRng(seed, uint64(idx)+7000000)
	t0 := time.Unix(1700000000+rng.I64n(100000000), rng.I64n(1000000000)).UTC()
	if rng.Chance(30) {
		t0 = t0.Truncate(time.Second)
	}
	c := genMinterCfg(rng, t0)
	// ---- malformed stream: perturb a valid configuration and compare only the validation decision
	if rng.Chance(12) {
		return []string{runMinterInvalid(ta, rng, c, idx, rep)}
	}
	st := mintertypes.MinterState{SequenceId: c.minters[0].seq, AmountMinted: sdk.ZeroInt(), RemainderToMint: sdk.ZeroDec(),
		RemainderFromPreviousMinter: sdk.ZeroDec(), LastMintBlockTime: t0}
	// a share of the cases mints a denomination nobody holds yet (total supply exactly zero until the first coin is minted)
	freshDenom := rng.Chance(18)
	if freshDenom {
		c.denom = "ufresh"
		rep.Count("mint_denom.zero_initial_supply")
	}
	// final time: somewhere in the schedule, often beyond several periods
	var horizon time.Duration
	lastEnd := c.start
	for _, g := range c.minters {
		if g.end != nil {
			lastEnd = *g.end
		}
	}
	total := lastEnd.Sub(t0)
	if total < time.Hour {
		total = time.Hour
	}
	switch rng.Intn(4) {
	case 0:
		horizon = time.Duration(1 + rng.I64n(int64(total)))
	case 1:
		horizon = total + time.Duration(rng.I64n(int64(200*24*time.Hour)))
	default:
		horizon = time.Duration(1 + rng.I64n(int64(total)+int64(30*24*time.Hour)))
	}
	T := t0.Add(horizon)
	k10 := false
	if c.minters[0].kind == 1 && rng.Chance(8) {
		// finding K10: genesis state whose last-mint time lies beyond the first (linear) period's end
		k10 = true
		st.LastMintBlockTime = c.minters[0].end.Add(time.Duration(1 + rng.I64n(int64(1000*time.Hour))))
		T = c.minters[0].end.Add(time.Duration(rng.I64n(int64(st.LastMintBlockTime.Sub(*c.minters[0].end)))))
		if !T.After(t0) {
			T = t0.Add(1)
		}
		rep.Count("probe.K10")
	}
	if bs := c.boundaries(); rng.Chance(25) {
		b := bs[rng.Intn(len(bs))]
		if b.After(t0) {
			T = b
		}
	}
	params := c.params()
	if err := params.Validate(); err != nil {
		panic(fmt.Sprintf("generator produced an invalid configuration: %v", err))
	}
	rep.Count(fmt.Sprintf("periods.%d", len(c.minters)))
	for _, g := range c.minters {
		rep.Count([]string{"kind.none", "kind.linear", "kind.exp"}[g.kind])
	}
	nPart := 2 + rng.Intn(2)
	var terms []string
	var totals []*big.Int
	for pi := 0; pi < nPart; pi++ {
		style := pi
		if pi >= 2 {
			style = rng.Intn(4)
		}
		if pi == 1 {
			style = 2
		}
		times := genPartition(rng, c, t0, T, style)
		if freshDenom && !k10 {
			// blocks right at and after the start of the schedule, where the amount due is still below one unit
			var early []time.Time
			for _, e := range []time.Time{c.start, c.start.Add(1), c.start.Add(time.Millisecond)} {
				if e.After(t0) && len(times) > 0 && e.Before(times[0]) && (len(early) == 0 || e.After(early[len(early)-1])) {
					early = append(early, e)
				}
			}
			if len(early) == 0 && len(times) > 0 && t0.Add(1).Before(times[0]) {
				early = append(early, t0.Add(1))
			}
			times = append(early, times...)
		}
		obs, supply0, hist := runMinterBlocks(ta, params, st, times, c.denom)
		rep.Count(fmt.Sprintf("partition.style%d", style))
		cid := idx*10 + pi
		blocks, tot := minterBlockTerms(rep, c, cid, times, obs, k10, st)
		_ = supply0
		totals = append(totals, tot)
		// C02: a finished linear period has minted exactly its configured amount
		for _, h := range hist {
			for _, g := range c.minters {
				if g.seq == h.SequenceId && g.kind == 1 {
					rep.Eval("C02.linear_history_exact", h.AmountMinted.BigInt().Cmp(g.amt) == 0 || h.RemainderFromPreviousMinter.IsPositive(), cid, -1,
						fmt.Sprintf("period %d minted %v configured %v", g.seq, h.AmountMinted, g.amt))
					// with a carried remainder the period may mint amount or amount+1 (floor of amount + carry)
					d := new(big.Int).Sub(h.AmountMinted.BigInt(), g.amt)
					rep.Eval("C02.linear_history_within_carry", d.Sign() >= 0 && d.Cmp(bi(1)) <= 0, cid, -1,
						fmt.Sprintf("period %d minted %v configured %v", g.seq, h.AmountMinted, g.amt))
				}
			}
		}
		terms = append(terms, fmt.Sprintf("{| mc_id := %d; mc_world := {| mw_params := %s; mw_state := %s; mw_hist := []; mw_supply := %s |};\n mc_valid := true; mc_blocks := [\n  %s] |}",
			cid, c.paramsTerm(), stateTerm(st), zB(supply0), strings.Join(blocks, ";\n  ")))
		if len(rep.Samples) < 3 {
			rep.Samples = append(rep.Samples, fmt.Sprintf("minter case %d: %s ; %d blocks up to %d ; total %v", cid, c.paramsTerm(), len(times), T.UnixNano(), tot))
		}
	}
	if !k10 && rng.Chance(40) {
		terms = append(terms, runMinterUpdateLeg(ta, rng, c, st, t0, T, idx, rep)...)
	}
	same := true
	for _, t := range totals[1:] {
		if t.Cmp(totals[0]) != 0 {
			same = false
		}
	}
	rep.Eval("C02.partition_independent", same, idx*10, -1, fmt.Sprintf("totals of the partitions up to %d: %v", T.UnixNano(), totals))
	// C02: cumulative = integer part of the schedule's cumulative emission, computed independently in exact rationals
	want := scheduleCumulative(c, T)
	if want != nil && !k10 {
		rep.Eval("C02.cumulative_equals_schedule", totals[0].Cmp(want) == 0, idx*10, -1, fmt.Sprintf("minted %v schedule floor %v at %d", totals[0], want, T.UnixNano()))
		// C01, minter side: the supply grew by what the configured schedule emits up to T, nothing else
		rep.Eval("C01.supply_grows_by_what_the_schedule_emits", totals[0].Cmp(want) == 0, idx*10, -1, fmt.Sprintf("supply grew by %v, the schedule emits %v up to %d", totals[0], want, T.UnixNano()))
	}
	if want != nil && !k10 && rng.Chance(45) {
		runMinterFaultLeg(ta, rng, c, st, t0, T, idx, rep, want)
	}
	rep.NoteCase(c.paramsTerm()+T.String(), totals[0].Sign() > 0)
	return terms
}

// the known-finding class a stuck minter state belongs to: K10 (genesis last-mint time in the future) or K13 (a governance
// update lowered the running period's amount below what the period already minted)
var stuckClass = "K10"

// minterBlockTerms prints the observations of a run of blocks for the model comparison and evaluates the per-block predicates
// (C02 amounts, C18 mint event, C19 inflation against what the next block mints) under configuration c.
func minterBlockTerms(rep *Report, c minterCfg, cid int, times []time.Time, obs []minterBlockObs, k10 bool, st mintertypes.MinterState) (blocks []string, tot *big.Int) {
	tot = bi(0)
	prevInfl, prevSupply := (*big.Int)(nil), (*big.Int)(nil)
	var prevT time.Time
	prevSeq := int64(-1)
	for bi_, o := range obs {
		rep.Ops++
		if o.panicked {
			rep.Panics = append(rep.Panics, fmt.Sprintf("case %d block %d at %d: BeginBlocker panicked", cid, bi_, times[bi_].UnixNano()))
			blocks = append(blocks, zPair(zI(times[bi_].UnixNano()), "[(-1)]"))
			break
		}
		ev := o.obs[len(o.obs)-2]
		probe := o.obs[len(o.obs)-1]
		mo := o.obs[:len(o.obs)-2]
		if probe.Cmp(bi(-2)) != 0 {
			rep.Eval("C19.zero_at_the_end_instant_of_an_exponential_period", probe.Sign() == 0, cid, bi_,
				fmt.Sprintf("inflation %v reported at the instant the current exponential-step period ends (nothing is emitted from then on)", probe))
		}
		blocks = append(blocks, zPair(zI(times[bi_].UnixNano()), zListB(mo)))
		tot.Add(tot, o.minted)
		rep.Eval("C02.amount_nonnegative", o.minted.Sign() >= 0, cid, bi_, fmt.Sprintf("minted %v", o.minted))
		rep.Eval("C18.mint_event_amount", ev.Cmp(o.minted) == 0, cid, bi_, fmt.Sprintf("event %v supply delta %v", ev, o.minted))
		if o.evInfl != "" && o.qInfl != "" {
			// C19: the block's Mint event reports the inflation of the state the block leaves (what the query answers right after it)
			rep.Eval("C19.mint_event_reports_current_inflation", o.evInfl == o.qInfl, cid, bi_,
				fmt.Sprintf("the Mint event of the block at %d reports inflation %s, the Inflation query after the block %s", times[bi_].UnixNano(), o.evInfl, o.qInfl))
		}
		rep.Eval("C20.inflation_query_no_panic", mo[8].Sign() >= 0, cid, bi_, fmt.Sprintf("the Inflation query panicked at block time %d (supply of the mint denomination: %v)", times[bi_].UnixNano(), mo[7]))
		// C19: inflation reported after the previous block vs what this block minted
		seq := mo[2].Int64()
		if prevInfl != nil && seq == prevSeq {
			checkInflation(rep, c, cid, bi_, prevInfl, prevSupply, prevT, times[bi_], o.minted, seq, k10 && !prevT.After(st.LastMintBlockTime))
		}
		prevInfl, prevSupply, prevT, prevSeq = mo[9], mo[7], times[bi_], seq
		if mo[8].Sign() <= 0 {
			prevInfl = nil
		}
		checkInflationZero(rep, c, cid, bi_, times[bi_], seq, mo[8], mo[9], k10 && !times[bi_].After(st.LastMintBlockTime))
		if !(k10 && !times[bi_].After(st.LastMintBlockTime)) {
			checkInflationValue(rep, c, cid, bi_, times[bi_], seq, mo[8], mo[9], mo[7])
		}
	}
	return
}

// C19: the reported value itself against the configured schedule, in exact rationals: inside a linear period
// amount / period * year / supply, inside step k of an exponential period amount * multiplier^k / step * year / supply
// (tolerance: the 18-digit rounding of each of the k multiplications propagated through the formula, three units of the last digit, 10^-12 relative)
func checkInflationValue(rep *Report, c minterCfg, cid, step int, now time.Time, seq int64, class, infl, supply *big.Int) {
	g, start, ok := periodOf(c, seq)
	if !ok || class.Sign() <= 0 || g.kind == 0 || supply.Sign() <= 0 || now.Before(start) {
		return
	}
	if g.end != nil && !now.Before(*g.end) {
		return
	}
	year := new(big.Rat).SetInt64(int64(365 * 24 * time.Hour))
	var rate *big.Rat
	amtErr := new(big.Rat) // absolute error of the step amount from the 18-digit rounding of each multiplication
	switch g.kind {
	case 1:
		if g.end == nil {
			return
		}
		period := g.end.Sub(start)
		if period <= 0 {
			return
		}
		rate = new(big.Rat).SetFrac(g.amt, bi(int64(period)))
	default:
		if g.step <= 0 {
			return
		}
		k := int64(now.Sub(start)) / int64(g.step)
		if k > 4000 {
			return
		}
		amt := new(big.Rat).SetInt(g.amt)
		m := decRat(g.mult)
		grow := big.NewRat(1, 1)
		for i := int64(0); i < k; i++ {
			amt.Mul(amt, m)
			if m.Cmp(big.NewRat(1, 1)) > 0 {
				grow.Mul(grow, m)
			}
		}
		amtErr.Mul(grow, big.NewRat(k+1, 1000000000000000000))
		amtErr.Quo(amtErr, new(big.Rat).SetInt64(int64(g.step)))
		amtErr.Mul(amtErr, year)
		amtErr.Quo(amtErr, new(big.Rat).SetInt(supply))
		rate = amt.Quo(amt, new(big.Rat).SetInt64(int64(g.step)))
	}
	rate.Mul(rate, year)
	rate.Quo(rate, new(big.Rat).SetInt(supply))
	got := new(big.Rat).SetFrac(infl, new(big.Int).Exp(bi(10), bi(18), nil))
	diff := new(big.Rat).Sub(got, rate)
	diff.Abs(diff)
	tol := new(big.Rat).Mul(rate, big.NewRat(1, 1000000000000))
	tol.Add(tol, big.NewRat(3, 1000000000000000000))
	tol.Add(tol, amtErr)
	rep.Eval("C19.reported_rate_is_schedule_rate_over_supply", diff.Cmp(tol) <= 0, cid, step,
		fmt.Sprintf("reported %s, schedule rate over supply %s (period %d kind %d supply %v)", got.FloatString(18), rate.FloatString(18), seq, g.kind, supply))
}

// runMinterUpdateLeg: a governance update in the middle of a history, in one context (one process, as on a node): the blocks
// up to a random point run under configuration c, then Keeper.UpdateParams replaces the amounts of the running and all later
// periods (ids, times, kinds, steps and multipliers stay), and the remaining blocks run under the new configuration. The
// second part is compared with the model started from the state the implementation held right after the update.
func runMinterUpdateLeg(ta *TestApp, rng *Rng, c minterCfg, st mintertypes.MinterState, t0, T time.Time, idx int, rep *Report) []string {
	// in a third of the legs the update runs on a branch of the state that is dropped (a proposal or transaction whose later
	// message fails, a simulation): the schedule in force must stay the configured one
	discard := rng.Chance(33)
	times := genPartition(rng, c, t0, T, 0)
	if len(times) < 3 {
		return nil
	}
	cut := 1 + rng.Intn(len(times)-1)
	app := ta.App
	ctx, _ := ta.Ctx().CacheContext()
	mk := app.CfeminterKeeper
	if err := mk.SetParams(ctx, c.params()); err != nil {
		panic(err)
	}
	mk.SetMinterState(ctx, st)
	obs1, _ := stepMinterBlocks(ta, ctx, times[:cut], c.denom)
	for _, o := range obs1 {
		if o.panicked {
			return nil // reported by the ordinary partitions
		}
	}
	cur := mk.GetMinterState(ctx).SequenceId
	c2 := c
	c2.minters = append([]genMinter{}, c.minters...)
	changed, lowered := false, false
	// in a quarter of the legs governance re-submits the configuration in force (a proposal that changes something else, or
	// nothing): the update is accepted, the schedule is the same, and so must be what the whole history mints
	same := rng.Chance(25)
	if same {
		changed = true
		rep.Count("update_leg.same_configuration_resubmitted")
	}
	for i := range c2.minters {
		g := &c2.minters[i]
		if !same && g.seq >= cur && g.kind != 0 {
			switch rng.Pick(3, 1, 3) {
			case 0:
				g.amt = new(big.Int).Add(new(big.Int).Mul(g.amt, bi(4)), bi(1))
			case 1:
				// lowering the running period's amount can leave it below what the period already minted: Mint then returns
				// early on every block (negative amount), the period never hands over and the schedule is frozen (finding K13)
				if g.amt.Cmp(bi(3)) > 0 {
					lowered = lowered || g.seq == cur
				}
				g.amt = new(big.Int).Add(new(big.Int).Quo(g.amt, bi(3)), bi(1))
			default:
				g.amt = new(big.Int).Add(g.amt, bi(1+rng.I64n(1000)))
			}
			changed = true
		}
	}
	if !changed {
		return nil
	}
	uctx := ctx
	if discard {
		uctx, _ = ctx.CacheContext()
	}
	if err := mk.UpdateParams(uctx, appparams.GetAuthority(), c2.params()); err != nil {
		rep.Eval("C13.minter_update_keeping_the_current_period_is_accepted", false, idx*10+5, cut, err.Error())
		return nil
	}
	if discard {
		c2, lowered = c, false
		rep.Count("update_leg.discarded")
	}
	rep.Count("update_leg")
	s1 := mk.GetMinterState(ctx)
	h1 := mk.GetAllMinterStateHistory(ctx)
	sort.Slice(h1, func(i, j int) bool { return h1[i].SequenceId < h1[j].SequenceId })
	var hs []string
	for _, e := range h1 {
		hs = append(hs, zPair(fmt.Sprint(e.SequenceId), stateTerm(*e)))
	}
	supply1 := app.BankKeeper.GetSupply(ctx, c.denom).Amount.BigInt()
	obs2, _ := stepMinterBlocks(ta, ctx, times[cut:], c.denom)
	cid := idx*10 + 5
	if lowered {
		stuckClass = "K13"
		rep.Count("update_leg.running_amount_lowered")
	}
	// a lowered running amount: every block of the rest of the history is in the class (the state may be frozen for good)
	s1k := s1
	if lowered {
		s1k.LastMintBlockTime = times[len(times)-1]
	}
	blocks, tot2 := minterBlockTerms(rep, c2, cid, times[cut:], obs2, lowered, s1k)
	stuckClass = "K10"
	if discard || same {
		tot := new(big.Int).Set(tot2)
		for _, o := range obs1 {
			tot.Add(tot, o.minted)
		}
		if want := scheduleCumulative(c, times[len(times)-1]); want != nil {
			rep.Eval("C02.cumulative_equals_schedule", tot.Cmp(want) == 0, cid, len(times)-1,
				fmt.Sprintf("minted %v up to %d, the configured schedule gives %v (in between a parameter update %s)", tot, times[len(times)-1].UnixNano(), want,
					map[bool]string{true: "was executed on a dropped branch of the state", false: "re-submitted the configuration in force and was accepted"}[discard]))
		}
	}
	return []string{fmt.Sprintf("{| mc_id := %d; mc_world := {| mw_params := %s; mw_state := %s; mw_hist := %s; mw_supply := %s |};\n mc_valid := true; mc_blocks := [\n  %s] |}",
		cid, c2.paramsTerm(), stateTerm(s1), zList(hs), zB(supply1), strings.Join(blocks, ";\n  "))}
}

// scheduleCumulative: floor of the cumulative emission at T, with the SDK's 18-digit arithmetic for the
// per-period amounts (as documented by the module) but computed here without any carry logic.
func scheduleCumulative(c minterCfg, T time.Time) *big.Int {
	if T.Before(c.start) {
		return bi(0)
	}
	P := new(big.Int).Exp(bi(10), bi(18), nil)
	cum := bi(0) // scaled by 10^18
	start := c.start
	for _, g := range c.minters {
		end := T
		done := false
		if g.end != nil && !T.Before(*g.end) {
			end = *g.end
		} else {
			done = true
		}
		switch g.kind {
		case 1:
			passed := end.UnixMilli() - start.UnixMilli()
			period := g.end.UnixMilli() - start.UnixMilli()
			x := new(big.Int).Mul(new(big.Int).Mul(g.amt, P), bi(passed))
			cum.Add(cum, x.Quo(x, bi(period)))
		case 2:
			passed := int64(end.Sub(start))
			n := passed / int64(g.step)
			a := new(big.Int).Mul(g.amt, P)
			for i := int64(0); i < n; i++ {
				cum.Add(cum, a)
				a = sdk.NewDecFromBigIntWithPrec(a, 18).Mul(g.mult).BigInt()
			}
			r := passed - n*int64(g.step)
			x := new(big.Int).Mul(a, bi(r))
			cum.Add(cum, x.Quo(x, bi(int64(g.step))))
		}
		if done {
			break
		}
		start = *g.end
	}
	return cum.Quo(cum, P)
}

func periodOf(c minterCfg, seq int64) (g genMinter, start time.Time, ok bool) {
	start = c.start
	for _, m := range c.minters {
		if int64(m.seq) == seq {
			return m, start, true
		}
		if m.end != nil {
			start = *m.end
		}
	}
	return genMinter{}, start, false
}

// C19: minted over (t1,t2] inside one period/step vs inflation(t1) * supply(t1) * (t2-t1) / year
func checkInflation(rep *Report, c minterCfg, cid, step int, infl, supply *big.Int, t1, t2 time.Time, minted *big.Int, seq int64, stuck bool) {
	g, start, ok := periodOf(c, seq)
	if !ok || g.kind == 0 {
		return
	}
	if supply.Sign() <= 0 {
		// "emission rate divided by the current supply" is undefined for an empty supply (the module reports 0)
		rep.Count("inflation.supply_zero_rate_undefined")
		return
	}
	if g.end != nil && t2.After(*g.end) {
		return
	}
	if t1.Before(start) {
		return // the interval must lie inside the period: before its start the reported rate is zero by definition
	}
	dt := t2.Sub(t1)
	if dt <= 0 || dt > 30*24*time.Hour {
		return
	}
	if g.kind == 2 {
		// same step?
		if int64(t1.Sub(start))/int64(g.step) != int64(t2.Sub(start))/int64(g.step) {
			return
		}
	}
	P := new(big.Int).Exp(bi(10), bi(18), nil)
	year := bi(int64(365 * 24 * time.Hour))
	// predicted = infl * supply * dt / (year * P)
	num := new(big.Int).Mul(new(big.Int).Mul(infl, supply), bi(int64(dt)))
	den := new(big.Int).Mul(year, P)
	pred := new(big.Int).Quo(num, den)
	diff := new(big.Int).Sub(minted, pred)
	diff.Abs(diff)
	// tolerance: truncation of the minted integer (1), the 18-digit resolution of the reported rate times supply
	// ((supply+1)*dt/year/10^18 + 1), carried fractions (1), and for linear periods the millisecond granularity of
	// the schedule (two milliseconds' worth of emission)
	tol := bi(4)
	rt := new(big.Int).Mul(new(big.Int).Add(supply, bi(1)), bi(int64(dt)))
	rt.Quo(rt, den)
	tol.Add(tol, rt)
	if g.kind == 1 {
		period := g.end.UnixMilli() - start.UnixMilli()
		ms := new(big.Int).Quo(new(big.Int).Mul(g.amt, bi(2)), bi(period))
		tol.Add(tol, ms)
	}
	predName := "C19.rate_matches_emission"
	if stuck {
		predName = "C19.rate_matches_emission." + stuckClass
	}
	rep.Eval(predName, diff.Cmp(tol) <= 0, cid, step,
		fmt.Sprintf("minted %v predicted %v tol %v (inflation %v supply %v dt %v period %d)", minted, pred, tol, infl, supply, dt, seq))
}

// C19: zero before start, for no-minting periods, and for a period whose end has passed
func checkInflationZero(rep *Report, c minterCfg, cid, step int, now time.Time, seq int64, class, infl *big.Int, stuck bool) {
	g, start, ok := periodOf(c, seq)
	if !ok || class.Sign() <= 0 {
		return
	}
	if now.Before(start) || g.kind == 0 {
		rep.Eval("C19.zero_when_not_minting", infl.Sign() == 0, cid, step, fmt.Sprintf("inflation %v period %d kind %d", infl, seq, g.kind))
	}
	if g.end != nil && !now.Before(*g.end) {
		pred := "C19.zero_after_end"
		if stuck {
			pred = "C19.zero_after_end." + stuckClass
		}
		rep.Eval(pred, infl.Sign() == 0, cid, step, fmt.Sprintf("inflation %v although period %d ended", infl, seq))
	}
}

// runMinterInvalid: a perturbed configuration; only the validation decision is compared.
func runMinterInvalid(ta *TestApp, rng *Rng, c minterCfg, idx int, rep *Report) string {
	n := len(c.minters)
	switch rng.Intn(8) {
	case 0: // gap in ids
		c.minters[n-1].seq += 1 + uint32(rng.Intn(2))
	case 1: // first id zero
		for i := range c.minters {
			c.minters[i].seq = uint32(i)
		}
	case 2: // last has end
		e := c.start.Add(100 * time.Hour * 24 * 365)
		c.minters[n-1].end = &e
	case 3: // non-last without end
		if n > 1 {
			c.minters[0].end = nil
		} else {
			c.minters[0].kind = 1
			c.minters[0].amt = bi(5)
		}
	case 4: // end not increasing
		if n > 2 {
			e := *c.minters[0].end
			c.minters[1].end = &e
		} else if n == 2 {
			e := c.start
			c.minters[0].end = &e
		} else {
			c.minters[0].kind = 2
			c.minters[0].amt = bi(0)
			c.minters[0].step = time.Second
			c.minters[0].mult = sdk.OneDec()
		}
	case 5: // negative amount / multiplier / zero step
		i := rng.Intn(n)
		c.minters[i].kind = 2
		c.minters[i].amt = bi(5)
		c.minters[i].step = time.Duration(rng.Intn(2)) * time.Second
		c.minters[i].mult = sdk.NewDec(int64(rng.Intn(3) - 1))
		if c.minters[i].step > 0 && !c.minters[i].mult.IsNegative() {
			c.minters[i].amt = bi(-3)
		}
	case 6: // duplicate id
		if n > 1 {
			c.minters[1].seq = c.minters[0].seq
		} else {
			c.minters[0].seq = 0
		}
	default: // empty list
		c.minters = nil
	}
	params := c.params()
	// shuffle, then let the implementation sort (Validate sorts in place)
	for i := len(params.Minters) - 1; i > 0; i-- {
		j := rng.Intn(i + 1)
		params.Minters[i], params.Minters[j] = params.Minters[j], params.Minters[i]
	}
	var valid bool
	func() {
		defer func() {
			if r := recover(); r != nil {
				rep.Panics = append(rep.Panics, fmt.Sprintf("case %d: Params.Validate panicked: %v", idx*10, r))
			}
		}()
		valid = params.Validate() == nil
	}()
	// the model receives the list in the order the implementation left it
	sort.SliceStable(c.minters, func(i, j int) bool { return c.minters[i].seq < c.minters[j].seq })
	rep.Count("invalid_stream")
	if valid {
		rep.Count("invalid_stream.accepted")
	}
	rep.Ops++
	return fmt.Sprintf("{| mc_id := %d; mc_world := {| mw_params := %s; mw_state := {| s_seq := 1; s_minted := 0; s_rem := 0; s_rem_prev := 0; s_last := 0 |}; mw_hist := []; mw_supply := 0 |};\n mc_valid := %s; mc_blocks := [] |}",
		idx*10, c.paramsTerm(), zBool(valid))
}

// ---- fault leg: bank calls of the minter fail in chosen blocks

// mintFaultBank is the minter's bank with a switch: while on, the chosen call fails (0: MintCoins before anything happened,
// 1: the transfer to the collector, after the coins were minted).
type mintFaultBank struct {
	mintertypes.BankKeeper
	on   *bool
	kind *int
	hits *int
}

func (b mintFaultBank) MintCoins(ctx sdk.Context, name string, amt sdk.Coins) error {
	if *b.on && *b.kind == 0 {
		*b.hits++
		return fmt.Errorf("verif: injected MintCoins failure")
	}
	return b.BankKeeper.MintCoins(ctx, name, amt)
}

func (b mintFaultBank) SendCoinsFromModuleToModule(ctx sdk.Context, from, to string, amt sdk.Coins) error {
	if *b.on && *b.kind == 1 {
		*b.hits++
		return fmt.Errorf("verif: injected transfer failure")
	}
	return b.BankKeeper.SendCoinsFromModuleToModule(ctx, from, to, amt)
}

// runMinterFaultLeg runs one more partition of [t0, T] in which the bank refuses the minter's calls in some blocks. A block
// whose BeginBlocker panics is not committed (the node halts and the block is processed again after the restart; here: the
// next block time); every block that returns is committed whatever it did. C02 over the committed history: the supply grew by
// exactly the integer part of the schedule's cumulative emission at T — a refused call neither loses an amount nor has it
// emitted twice. Not part of the model comparison (the model has no failing bank).
func runMinterFaultLeg(ta *TestApp, rng *Rng, c minterCfg, st mintertypes.MinterState, t0, T time.Time, idx int, rep *Report, want *big.Int) {
	app := ta.App
	on, kind, hits := false, 0, 0
	fb := mintFaultBank{BankKeeper: app.BankKeeper, on: &on, kind: &kind, hits: &hits}
	fk := minterkeeper.NewKeeper(app.AppCodec(), app.GetKey(mintertypes.StoreKey), app.GetMemKey(mintertypes.MemStoreKey),
		app.GetSubspace(mintertypes.ModuleName), fb, app.StakingKeeper, app.CfeminterKeeper.GetCollectorName(), appparams.GetAuthority())
	ctx, _ := ta.Ctx().CacheContext()
	if err := fk.SetParams(ctx, c.params()); err != nil {
		panic("SetParams of a validated configuration failed: " + err.Error())
	}
	fk.SetMinterState(ctx, st)
	supply0 := app.BankKeeper.GetSupply(ctx, c.denom).Amount
	times := genPartition(rng, c, t0, T, rng.Intn(4))
	if len(times) < 2 {
		return
	}
	rep.Count("fault_leg.cases")
	var log []string
	halted, committedFaults := 0, 0
	for i, t := range times {
		on = i < len(times)-1 && rng.Chance(35)
		if rng.Chance(33) { // one third MintCoins, two thirds the transfer
			kind = 0
		} else {
			kind = 1
		}
		before := hits
		bctx, write := ctx.WithBlockTime(t).WithEventManager(sdk.NewEventManager()).CacheContext()
		panicked := false
		func() {
			defer func() {
				if r := recover(); r != nil {
					panicked = true
				}
			}()
			cfeminter.BeginBlocker(bctx, *fk)
		}()
		hit := hits > before
		switch {
		case panicked && !hit:
			rep.Panics = append(rep.Panics, fmt.Sprintf("case %d fault leg block %d at %d: BeginBlocker panicked although no bank call was refused", idx*10, i, t.UnixNano()))
			return
		case panicked:
			halted++
			log = append(log, fmt.Sprintf("block %d at %d: %s refused, BeginBlocker panicked, block not committed", i, t.UnixNano(), []string{"MintCoins", "transfer to the collector"}[kind]))
		default:
			write()
			if hit {
				committedFaults++
				log = append(log, fmt.Sprintf("block %d at %d: %s refused, BeginBlocker returned, block committed", i, t.UnixNano(), []string{"MintCoins", "transfer to the collector"}[kind]))
			}
		}
		on = false
	}
	rep.Count(fmt.Sprintf("fault_leg.halted_blocks.%d", 3-max0(3-halted)))
	if committedFaults > 0 {
		rep.Count("fault_leg.committed_blocks_with_refused_call")
	}
	got := app.BankKeeper.GetSupply(ctx, c.denom).Amount.Sub(supply0).BigInt()
	if want != nil {
		rep.Eval("C02.cumulative_equals_schedule_when_bank_calls_are_refused", got.Cmp(want) == 0, idx*10, -1,
			fmt.Sprintf("supply grew by %v, schedule floor %v at %d; %s", got, want, T.UnixNano(), strings.Join(log, "; ")))
	}
}
