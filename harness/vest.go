package main

// vest.go — vesting world: generates histories of cfevesting messages, executes them on the real
// keepers / message server (cache-wrapped, as baseapp does), prints the initial world, the
// operations and the observed projections as Gallina terms for C4E.Vest.check_case, and
// evaluates the implementation-side predicates of C05–C09, C17, C18.

import (
	"fmt"
	appparams "github.com/chain4energy/c4e-chain/app/params"
	"math/big"
	"sort"
	"strings"
	"time"

	mintertypes "github.com/chain4energy/c4e-chain/x/cfeminter/types"
	"github.com/chain4energy/c4e-chain/x/cfevesting"
	vestkeeper "github.com/chain4energy/c4e-chain/x/cfevesting/keeper"
	vesttypes "github.com/chain4energy/c4e-chain/x/cfevesting/types"
	sdk "github.com/cosmos/cosmos-sdk/types"
	authtypes "github.com/cosmos/cosmos-sdk/x/auth/types"
	vestingtypes "github.com/cosmos/cosmos-sdk/x/auth/vesting/types"
	banktypes "github.com/cosmos/cosmos-sdk/x/bank/types"
	stakingtypes "github.com/cosmos/cosmos-sdk/x/staking/types"
)

var denomNames = []string{"uc4e", "uother", "zzz"}

type vestEnv struct {
	ta     *TestApp
	ctx    sdk.Context
	rng    *Rng
	rep    *Report
	cid    int
	addrs  []sdk.AccAddress // index = id; id 0 = module account
	astr   []string
	denoms []int // tracked denom ids
	poolNm map[string]int64
	vtNm   map[string]int64
	ms     vesttypes.MsgServer
	// independent lineage oracle for C17
	derived     map[int]bool
	genesisAcct map[int]bool
	step        int
	blockedId   int
}

func (e *vestEnv) addrStr(id int) string {
	if id < 0 {
		return "c4e1notavalidaddress"
	}
	return e.astr[id]
}

// addrSpelled: bech32 allows the all-upper-case spelling of the same address; a share of the messages uses it for the
// owner field of MsgCreateVestingPool (the account, and therefore the model's operation, is the same). Only there: the handlers
// of MsgWithdrawAllAvailable and MsgSendToVestingAccount look the pools up under the string as given, so the upper-case spelling
// of an owner is answered with "no vesting pools found" (a rejected message; recorded in DESIGN.md as an observation)
func (e *vestEnv) addrSpelled(id int) string {
	s := e.addrStr(id)
	if id >= 0 && e.rng.Chance(12) {
		e.rep.Count("address.upper_case_spelling")
		return strings.ToUpper(s)
	}
	return s
}

func (e *vestEnv) poolName(id int64) string {
	if id == 0 {
		return ""
	}
	return fmt.Sprintf("pool%02d", id)
}
func (e *vestEnv) vtName(id int64) string {
	if id == 0 {
		return ""
	}
	return fmt.Sprintf("vt%02d", id)
}
func parseName(s string, prefix string) int64 {
	if s == "" {
		return 0
	}
	var n int64
	fmt.Sscanf(strings.TrimPrefix(s, prefix), "%d", &n)
	return n
}

func fund(ctx sdk.Context, ta *TestApp, to sdk.AccAddress, coins sdk.Coins) {
	if coins.IsZero() {
		return
	}
	if err := ta.App.BankKeeper.MintCoins(ctx, mintertypes.ModuleName, coins); err != nil {
		panic(err)
	}
	if err := ta.App.BankKeeper.SendCoinsFromModuleToAccount(ctx, mintertypes.ModuleName, to, coins); err != nil {
		panic(err)
	}
}
func fundModule(ctx sdk.Context, ta *TestApp, module string, coins sdk.Coins) {
	if coins.IsZero() {
		return
	}
	if err := ta.App.BankKeeper.MintCoins(ctx, mintertypes.ModuleName, coins); err != nil {
		panic(err)
	}
	if err := ta.App.BankKeeper.SendCoinsFromModuleToModule(ctx, mintertypes.ModuleName, module, coins); err != nil {
		panic(err)
	}
}

// ---------------------------------------------------------------- observation --------------
func (e *vestEnv) acctKind(acc authtypes.AccountI) int64 {
	switch acc.(type) {
	case nil:
		return 0
	case *authtypes.BaseAccount:
		return 1
	case *vestingtypes.ContinuousVestingAccount:
		return 2
	case *authtypes.ModuleAccount:
		return 3
	default:
		return 4
	}
}

func (e *vestEnv) observe(ctx sdk.Context) []*big.Int {
	var out []*big.Int
	app := e.ta.App
	for id, a := range e.addrs {
		_ = id
		for _, d := range e.denoms {
			out = append(out, app.BankKeeper.GetBalance(ctx, a, denomNames[d]).Amount.BigInt())
		}
		lc := app.BankKeeper.LockedCoins(ctx, a)
		for _, d := range e.denoms {
			out = append(out, lc.AmountOf(denomNames[d]).BigInt())
		}
		acc := app.AccountKeeper.GetAccount(ctx, a)
		k := e.acctKind(acc)
		out = append(out, bi(k))
		if cva, ok := acc.(*vestingtypes.ContinuousVestingAccount); ok {
			for _, d := range e.denoms {
				out = append(out, cva.OriginalVesting.AmountOf(denomNames[d]).BigInt())
			}
			for _, d := range e.denoms {
				out = append(out, cva.DelegatedVesting.AmountOf(denomNames[d]).BigInt())
			}
			out = append(out, bi(cva.StartTime), bi(cva.EndTime))
		} else {
			for range e.denoms {
				out = append(out, bi(0), bi(0))
			}
			out = append(out, bi(0), bi(0))
		}
		avp, found := app.CfevestingKeeper.GetAccountVestingPools(ctx, a.String())
		if !found {
			out = append(out, bi(-1))
		} else {
			out = append(out, bi(int64(len(avp.VestingPools))))
			q, qerr := app.CfevestingKeeper.VestingPools(sdk.WrapSDKContext(ctx), &vesttypes.QueryVestingPoolsRequest{Owner: a.String()})
			for i, p := range avp.VestingPools {
				qw := bi(-999)
				if qerr == nil && i < len(q.VestingPools) && q.VestingPools[i].Name == p.Name {
					if w, ok := new(big.Int).SetString(q.VestingPools[i].Withdrawable, 10); ok {
						qw = w
					}
				}
				out = append(out, bi(parseName(p.Name, "pool")), bi(parseName(p.VestingType, "vt")),
					nanosB(p.LockStart), nanosB(p.LockEnd),
					p.InitiallyLocked.BigInt(), p.Withdrawn.BigInt(), p.Sent.BigInt(), bi(b2i(p.GenesisPool)), qw)
			}
		}
		tr, found := app.CfevestingKeeper.GetVestingAccountTrace(ctx, a.String())
		if !found {
			out = append(out, bi(0), bi(0), bi(0), bi(0))
		} else {
			out = append(out, bi(1), bi(b2i(tr.Genesis)), bi(b2i(tr.FromGenesisPool)), bi(b2i(tr.FromGenesisAccount)))
		}
	}
	// the two summary queries
	if r, err := app.CfevestingKeeper.VestingsSummary(sdk.WrapSDKContext(ctx), &vesttypes.QueryVestingsSummaryRequest{}); err == nil {
		out = append(out, r.VestingAllAmount.BigInt(), r.VestingInPoolsAmount.BigInt(), r.VestingInAccountsAmount.BigInt(), r.DelegatedVestingAmount.BigInt())
	} else {
		out = append(out, bi(-999), bi(-999), bi(-999), bi(-999))
	}
	if r, err := app.CfevestingKeeper.GenesisVestingsSummary(sdk.WrapSDKContext(ctx), &vesttypes.QueryGenesisVestingsSummaryRequest{}); err == nil {
		out = append(out, r.VestingAllAmount.BigInt(), r.VestingInPoolsAmount.BigInt(), r.VestingInAccountsAmount.BigInt(), r.DelegatedVestingAmount.BigInt())
	} else {
		out = append(out, bi(-999), bi(-999), bi(-999), bi(-999))
	}
	return out
}

func b2i(b bool) int64 {
	if b {
		return 1
	}
	return 0
}

// ---------------------------------------------------------------- world printer ------------
// nanosB: nanoseconds since the epoch without the int64 overflow of time.Time.UnixNano (instants after 2262-04-11)
func nanosB(t time.Time) *big.Int {
	r := new(big.Int).Mul(bi(t.Unix()), bi(1000000000))
	return r.Add(r, bi(int64(t.Nanosecond())))
}

func coinsTerm(c sdk.Coins) string {
	var xs []string
	for _, coin := range c {
		di := -1
		for i, n := range denomNames {
			if n == coin.Denom {
				di = i
			}
		}
		xs = append(xs, zPair(zI(int64(di)), zB(coin.Amount.BigInt())))
	}
	return zList(xs)
}

func (e *vestEnv) worldTerm(ctx sdk.Context, blocked []int) string {
	app := e.ta.App
	var bals, accs, pools, traces []string
	for id, a := range e.addrs {
		var cs []string
		for _, d := range e.denoms {
			amt := app.BankKeeper.GetBalance(ctx, a, denomNames[d]).Amount
			if !amt.IsZero() {
				cs = append(cs, zPair(zI(int64(d)), zB(amt.BigInt())))
			}
		}
		if len(cs) > 0 {
			bals = append(bals, zPair(zI(int64(id)), zList(cs)))
		}
		acc := app.AccountKeeper.GetAccount(ctx, a)
		k := e.acctKind(acc)
		if k != 0 {
			ov, dv, df, st, en := "[]", "[]", "[]", int64(0), int64(0)
			if cva, ok := acc.(*vestingtypes.ContinuousVestingAccount); ok {
				ov, dv, df = coinsTerm(cva.OriginalVesting), coinsTerm(cva.DelegatedVesting), coinsTerm(cva.DelegatedFree)
				st, en = cva.StartTime, cva.EndTime
			}
			accs = append(accs, zPair(zI(int64(id)), fmt.Sprintf(
				"{| a_kind := %d; a_ov := %s; a_dv := %s; a_df := %s; a_start := %s; a_end := %s |}", k, ov, dv, df, zI(st), zI(en))))
		}
		if avp, found := app.CfevestingKeeper.GetAccountVestingPools(ctx, a.String()); found {
			var ps []string
			for _, p := range avp.VestingPools {
				ps = append(ps, fmt.Sprintf("{| p_name := %d; p_vtype := %d; p_lock_start := %s; p_lock_end := %s; p_locked := %s; p_withdrawn := %s; p_sent := %s; p_genesis := %s |}",
					parseName(p.Name, "pool"), parseName(p.VestingType, "vt"), zB(nanosB(p.LockStart)), zB(nanosB(p.LockEnd)),
					zB(p.InitiallyLocked.BigInt()), zB(p.Withdrawn.BigInt()), zB(p.Sent.BigInt()), zBool(p.GenesisPool)))
			}
			pools = append(pools, zPair(zI(int64(id)), zList(ps)))
		}
		if tr, found := app.CfevestingKeeper.GetVestingAccountTrace(ctx, a.String()); found {
			traces = append(traces, zPair(zI(int64(id)), fmt.Sprintf("{| t_genesis := %s; t_from_pool := %s; t_from_acct := %s |}",
				zBool(tr.Genesis), zBool(tr.FromGenesisPool), zBool(tr.FromGenesisAccount))))
		}
	}
	var vts []string
	for _, vt := range app.CfevestingKeeper.GetAllVestingTypes(ctx).VestingTypes {
		vts = append(vts, zPair(zI(parseName(vt.Name, "vt")), fmt.Sprintf("{| vt_lockup := %s; vt_vesting := %s; vt_free := %s |}",
			zI(int64(vt.LockupPeriod)), zI(int64(vt.VestingPeriod)), zB(vt.Free.BigInt()))))
	}
	var bl []string
	for _, b := range blocked {
		bl = append(bl, zI(int64(b)))
	}
	return fmt.Sprintf("{| w_now := %s; w_denom := 0; w_bal := %s; w_acc := %s; w_pools := %s; w_vtypes := %s; w_traces := %s; w_blocked := %s |}",
		zI(ctx.BlockTime().UnixNano()), zList(bals), zList(accs), zList(pools), zList(vts), zList(traces), zList(bl))
}

// ---------------------------------------------------------------- execution ----------------
type opResult struct {
	ok     bool
	panic_ string
	amount *big.Int
	events [][2]*big.Int // withdraw events (pool id, amount)
	allEv  sdk.Events
	err    string
}

func (e *vestEnv) deliver(ctx sdk.Context, f func(c sdk.Context) (*big.Int, error)) (res opResult) {
	cctx, write := ctx.CacheContext()
	cctx = cctx.WithEventManager(sdk.NewEventManager())
	res.amount = bi(0)
	func() {
		defer func() {
			if r := recover(); r != nil {
				res.panic_ = fmt.Sprint(r)
			}
		}()
		amt, err := f(cctx)
		if err != nil {
			res.err = err.Error()
		}
		if err == nil {
			res.ok = true
			if amt != nil {
				res.amount = amt
			}
		}
	}()
	if res.ok {
		write()
		res.allEv = cctx.EventManager().Events()
		for _, ev := range res.allEv {
			if ev.Type == "chain4energy.c4echain.cfevesting.WithdrawAvailable" {
				var name, amount string
				for _, at := range ev.Attributes {
					switch string(at.Key) {
					case "vesting_pool_name":
						name = strings.Trim(string(at.Value), "\"")
					case "amount":
						amount = strings.Trim(string(at.Value), "\"")
					}
				}
				amount = strings.TrimSuffix(amount, BondDenom)
				a, _ := new(big.Int).SetString(amount, 10)
				res.events = append(res.events, [2]*big.Int{bi(parseName(name, "pool")), a})
			}
		}
	}
	return
}

func (r opResult) outTerm() []*big.Int {
	out := []*big.Int{bi(b2i(r.ok)), r.amount, bi(int64(len(r.events)))}
	for _, ev := range r.events {
		out = append(out, ev[0], ev[1])
	}
	return out
}

// ---------------------------------------------------------------- the case -----------------
type vestOp struct {
	term string
	kind string
	run  func(c sdk.Context) (*big.Int, error)
	// for predicates
	owner, to  int
	name       int64
	amount     *big.Int
	restart    bool
	coins      sdk.Coins
	newTime    time.Time
	start, end int64         // create_va: the given schedule
	denoms     []int         // move_denoms: the selected denominations (as listed in the message)
	dur        time.Duration // create_pool: the lock duration of the message
	vtName     string        // create_pool: the vesting type named by the message
}

func runVestCase(ta *TestApp, seed uint64, idx int, rep *Report, profile string) string {
	rng := NewRng(seed, uint64(idx))
	base, _ := ta.Ctx().CacheContext()
	t0 := time.Unix(1700000000+rng.I64n(100000000), rng.I64n(1000000000)).UTC()
	ctx := base.WithBlockTime(t0)
	app := ta.App
	e := &vestEnv{ta: ta, rng: rng, rep: rep, cid: idx, poolNm: map[string]int64{}, vtNm: map[string]int64{},
		derived: map[int]bool{}, genesisAcct: map[int]bool{}}
	e.ms = vestkeeper.NewMsgServerImpl(app.CfevestingKeeper)
	multi := profile == "split" && rng.Chance(50)
	if multi {
		e.denoms = []int{0, 1, 2}
	} else {
		e.denoms = []int{0}
	}
	modAddr := app.AccountKeeper.GetModuleAddress(vesttypes.ModuleName)
	e.addrs = []sdk.AccAddress{modAddr}
	newAddr := func() int {
		a := sdk.AccAddress(rng.Bytes(20))
		e.addrs = append(e.addrs, a)
		return len(e.addrs) - 1
	}
	amountMax := 12 + rng.Intn(19) // digits
	// funded base accounts
	nBase := 2 + rng.Intn(3)
	var baseIds, absentIds, vestIds []int
	for i := 0; i < nBase; i++ {
		id := newAddr()
		baseIds = append(baseIds, id)
		coins := sdk.NewCoins(sdk.NewCoin(denomNames[0], sdk.NewIntFromBigInt(rng.LogUniform(amountMax))))
		if multi {
			coins = coins.Add(sdk.NewCoin(denomNames[1], sdk.NewIntFromBigInt(rng.LogUniform(amountMax))))
		}
		fund(ctx, ta, e.addrs[id], coins)
	}
	// existing continuous vesting accounts
	nVest := 1 + rng.Intn(2)
	if profile == "pools" {
		nVest = rng.Intn(2)
	}
	tieAcct := -1 // split profile: a huge odd original vesting exactly half way through its schedule, then small splits (rounding ties)
	for i := 0; i < nVest; i++ {
		id := newAddr()
		vestIds = append(vestIds, id)
		if i == 0 && profile == "split" && rng.Chance(22) {
			tieAcct = id
		}
		ov := sdk.NewCoins()
		for _, d := range e.denoms {
			if d == 0 || rng.Chance(70) {
				var amt *big.Int
				switch rng.Intn(6) {
				case 0:
					amt = bi(1 + rng.I64n(5))
				case 1: // rounding-tie prone: odd amounts
					amt = new(big.Int).Add(new(big.Int).Mul(rng.LogUniform(amountMax), bi(2)), bi(1))
				default:
					amt = rng.LogUniform(amountMax)
				}
				ov = ov.Add(sdk.NewCoin(denomNames[d], sdk.NewIntFromBigInt(amt)))
			}
		}
		var start, end int64
		switch rng.Intn(5) {
		case 0: // not yet started
			start = t0.Unix() + 1 + rng.I64n(100000)
			end = start + 1 + rng.I64n(10000000)
		case 1: // exactly half way (ties)
			half := 1 + rng.I64n(5000000)
			start = t0.Unix() - half
			end = t0.Unix() + half
		default:
			start = t0.Unix() - rng.I64n(1000000)
			end = t0.Unix() + 1 + rng.I64n(10000000)
		}
		if tieAcct == id {
			big1 := new(big.Int).Add(new(big.Int).Mul(new(big.Int).Add(rng.LogUniform(6), new(big.Int).Exp(bi(10), bi(int64(19+rng.Intn(8))), nil)), bi(2)), bi(1))
			ov = sdk.NewCoins(sdk.NewCoin(denomNames[0], sdk.NewIntFromBigInt(big1)))
			half := 1 + rng.I64n(5000000)
			start, end = t0.Unix()-half, t0.Unix()+half
			rep.Count("setup.huge_odd_vesting_half_way")
		}
		bacc := app.AccountKeeper.NewAccountWithAddress(ctx, e.addrs[id]).(*authtypes.BaseAccount)
		if rng.Chance(15) {
			// the chain's first account: its account number is 0 — a number like any other, not "unset" — and it has signed before
			bacc.AccountNumber = 0
			bacc.Sequence = 1 + uint64(rng.Intn(50))
			rep.Count("setup.vesting_account_with_account_number_zero")
		}
		cva := vestingtypes.NewContinuousVestingAccount(bacc, ov, start, end)
		app.AccountKeeper.SetAccount(ctx, cva)
		extra := sdk.NewCoins()
		if rng.Chance(60) {
			extra = sdk.NewCoins(sdk.NewCoin(denomNames[0], sdk.NewIntFromBigInt(rng.LogUniform(amountMax))))
		}
		fund(ctx, ta, e.addrs[id], ov.Add(extra...))
		if rng.Chance(50) {
			app.CfevestingKeeper.AppendVestingAccountTrace(ctx, vesttypes.VestingAccountTrace{Address: e.addrs[id].String(), Genesis: true})
			e.derived[id] = true
			e.genesisAcct[id] = true
		}
	}
	// existing accounts of other types (delayed / periodic / permanent-locked vesting, with key and sequence):
	// targets that account-creating messages must never replace
	var otherIds []int
	for i := 0; i < rng.Intn(3); i++ {
		id := newAddr()
		otherIds = append(otherIds, id)
		bacc := app.AccountKeeper.NewAccountWithAddress(ctx, e.addrs[id]).(*authtypes.BaseAccount)
		if rng.Chance(70) {
			bacc.SetPubKey(valKey.PubKey())            //nolint:errcheck
			bacc.SetSequence(uint64(1 + rng.Intn(50))) //nolint:errcheck
		}
		var acc authtypes.AccountI
		switch rng.Intn(3) {
		case 0:
			acc = vestingtypes.NewDelayedVestingAccount(bacc, sdk.NewCoins(), t0.Unix()+1000000)
		case 1:
			acc = vestingtypes.NewPeriodicVestingAccount(bacc, sdk.NewCoins(), t0.Unix(), vestingtypes.Periods{})
		default:
			acc = vestingtypes.NewPermanentLockedAccount(bacc, sdk.NewCoins())
		}
		app.AccountKeeper.SetAccount(ctx, acc)
		if rng.Chance(50) {
			fund(ctx, ta, e.addrs[id], sdk.NewCoins(sdk.NewCoin(denomNames[0], sdk.NewIntFromBigInt(rng.LogUniform(amountMax)))))
		}
	}
	nAbsent := 3 + rng.Intn(4)
	for i := 0; i < nAbsent; i++ {
		id := newAddr()
		absentIds = append(absentIds, id)
		// a lineage entry for an address that has no account (yet): a genesis may list one (Validate and InitGenesis accept it);
		// it says "not genesis-derived", and whatever is later created at the address must be recorded for what it is
		if rng.Chance(12) {
			app.CfevestingKeeper.AppendVestingAccountTrace(ctx, vesttypes.VestingAccountTrace{Address: e.addrs[id].String()})
			rep.Count("trace.stale_entry_on_absent_address")
		}
	}
	// a blocked module account: the fee collector (its account exists), or in a third of the cases a collector of the distributor
	// whose account does not exist yet (it is created by its first payout) — blocked all the same
	blockedAddr := app.AccountKeeper.GetModuleAddress(authtypes.FeeCollectorName)
	app.AccountKeeper.GetModuleAccount(ctx, authtypes.FeeCollectorName)
	if rng.Chance(33) {
		for _, m := range []string{"governance_booster_collector", "green_energy_booster_collector"} {
			if a := app.AccountKeeper.GetModuleAddress(m); a != nil && app.AccountKeeper.GetAccount(ctx, a) == nil {
				blockedAddr = a
				rep.Count("setup.blocked_address_without_account")
				break
			}
		}
	}
	e.addrs = append(e.addrs, blockedAddr)
	blockedId := len(e.addrs) - 1
	e.blockedId = blockedId
	for _, a := range e.addrs {
		e.astr = append(e.astr, a.String())
	}
	// vesting types
	nVt := 1 + rng.Intn(3)
	for i := 1; i <= nVt; i++ {
		var free sdk.Dec
		switch rng.Intn(5) {
		case 0:
			free = sdk.ZeroDec()
		case 1:
			free = sdk.OneDec()
		case 2:
			free = sdk.NewDecWithPrec(rng.I64n(101), 2)
		default:
			free = sdk.NewDecFromBigIntWithPrec(rng.BigBelow(new(big.Int).Exp(bi(10), bi(18), nil)), 18)
		}
		lock := time.Duration(rng.I64n(3)) * time.Duration(rng.I64n(int64(400*24*time.Hour)))
		vest := time.Duration(rng.I64n(3)) * time.Duration(rng.I64n(int64(800*24*time.Hour)))
		if rng.Chance(50) {
			lock = lock.Truncate(time.Second)
			vest = vest.Truncate(time.Second)
		}
		if rng.Chance(8) {
			// periods of a century or two (genesis validation sets no upper bound): each fits a time.Duration, their sum does not
			lock = time.Duration(50000+rng.I64n(40000)) * 24 * time.Hour
			vest = time.Duration(30000+rng.I64n(40000)) * 24 * time.Hour
			rep.Count("setup.vesting_type_with_periods_of_centuries")
		}
		app.CfevestingKeeper.SetVestingType(ctx, vesttypes.VestingType{Name: e.vtName(int64(i)), LockupPeriod: lock, VestingPeriod: vest, Free: free})
	}
	// genesis pools
	nextPool := int64(1)
	if rng.Chance(60) {
		owner := baseIds[rng.Intn(len(baseIds))]
		avp := vesttypes.AccountVestingPools{Owner: e.astr[owner]}
		tot := sdk.ZeroInt()
		for i := 0; i < 1+rng.Intn(3); i++ {
			locked := sdk.NewIntFromBigInt(rng.LogUniform(amountMax))
			sent := sdk.NewIntFromBigInt(rng.BigBelow(new(big.Int).Add(locked.BigInt(), bi(1))))
			if rng.Chance(50) {
				sent = sdk.ZeroInt()
			}
			wd := sdk.NewIntFromBigInt(rng.BigBelow(new(big.Int).Add(locked.Sub(sent).BigInt(), bi(1))))
			if rng.Chance(60) {
				wd = sdk.ZeroInt()
			}
			le := t0.Add(time.Duration(rng.I64n(int64(200*time.Hour))) - time.Duration(50*time.Hour))
			p := &vesttypes.VestingPool{Name: e.poolName(nextPool), VestingType: e.vtName(int64(1 + rng.Intn(nVt))),
				LockStart: le.Add(-time.Duration(rng.I64n(int64(1000 * time.Hour)))), LockEnd: le,
				InitiallyLocked: locked, Withdrawn: wd, Sent: sent, GenesisPool: rng.Chance(70)}
			nextPool++
			avp.VestingPools = append(avp.VestingPools, p)
			tot = tot.Add(p.GetCurrentlyLocked())
		}
		app.CfevestingKeeper.SetAccountVestingPools(ctx, avp)
		fundModule(ctx, ta, vesttypes.ModuleName, sdk.NewCoins(sdk.NewCoin(BondDenom, tot)))
	}

	world := e.worldTerm(ctx, []int{blockedId})
	initObs := e.observe(ctx)
	tracked := make([]string, len(e.addrs))
	for i := range e.addrs {
		tracked[i] = zI(int64(i))
	}
	dn := make([]string, len(e.denoms))
	for i, d := range e.denoms {
		dn[i] = zI(int64(d))
	}

	pickAddr := func(ws ...[]int) int {
		var all []int
		for _, w := range ws {
			all = append(all, w...)
		}
		return all[rng.Intn(len(all))]
	}
	owners := func() []int { // addresses that currently have pools
		var o []int
		for id, a := range e.addrs {
			if _, found := app.CfevestingKeeper.GetAccountVestingPools(ctx, a.String()); found {
				o = append(o, id)
			}
		}
		return o
	}
	cvas := func() []int {
		var o []int
		for id, a := range e.addrs {
			if _, ok := app.AccountKeeper.GetAccount(ctx, a).(*vestingtypes.ContinuousVestingAccount); ok {
				o = append(o, id)
			}
		}
		return o
	}
	absent := func() []int {
		var o []int
		for id, a := range e.addrs {
			if app.AccountKeeper.GetAccount(ctx, a) == nil {
				o = append(o, id)
			}
		}
		return o
	}
	amountChoice := func(limit *big.Int) *big.Int {
		switch rng.Intn(8) {
		case 0:
			return bi(0)
		case 1:
			return bi(1)
		case 2:
			return new(big.Int).Set(limit)
		case 3:
			return new(big.Int).Add(limit, bi(1))
		case 4:
			return bi(-1 - rng.I64n(5))
		default:
			return rng.BigBelow(new(big.Int).Add(limit, bi(1)))
		}
	}

	nOps := 6 + rng.Intn(18)
	// a scripted opening in part of the split-profile cases: one vesting account delegates most of what it holds, time passes until
	// more is delegated than is still vesting, then it splits / moves — the bookkeeping of delegated coins must not be touched
	script, scriptStep := -1, 0
	if profile == "split" && rng.Chance(35) {
		if cs := cvas(); len(cs) > 0 {
			script = cs[rng.Intn(len(cs))]
			rep.Count("script.delegate_wait_then_move")
		}
	}
	var opTerms []string
	var wantSecondWithdraw int = -1
	nontrivial := false
	for s := 0; s < nOps; s++ {
		e.step = s
		var op vestOp
		now := ctx.BlockTime()
		var wts []int
		switch profile {
		case "split":
			wts = []int{15, 3, 3, 8, 8, 30, 10, 10, 13}
		case "pools":
			wts = []int{20, 18, 20, 25, 5, 4, 2, 2, 4}
		default:
			wts = []int{16, 12, 14, 20, 8, 12, 5, 5, 8}
		}
		choice := rng.Pick(wts...)
		if wantSecondWithdraw >= 0 {
			choice = 2
		}
		tieStep := tieAcct >= 0 && script < 0 && s < 3
		if tieStep {
			choice = 5
		}
		scripted := -1
		if script >= 0 && scriptStep < 3 {
			scripted = scriptStep
			choice = []int{8, 0, 5 + rng.Intn(3)}[scriptStep]
			scriptStep++
		}
		switch choice {
		case 0: // time
			var nt time.Time
			var ends []time.Time
			for _, o := range owners() {
				avp, _ := app.CfevestingKeeper.GetAccountVestingPools(ctx, e.astr[o])
				for _, p := range avp.VestingPools {
					if p.LockEnd.After(now) {
						ends = append(ends, p.LockEnd)
					}
				}
			}
			for _, v := range cvas() {
				cva := app.AccountKeeper.GetAccount(ctx, e.addrs[v]).(*vestingtypes.ContinuousVestingAccount)
				for _, tt := range []int64{cva.StartTime, cva.EndTime, (cva.StartTime + cva.EndTime) / 2} {
					if time.Unix(tt, 0).After(now) {
						ends = append(ends, time.Unix(tt, 0).UTC())
					}
				}
			}
			// block times stay realistic: instants a few years ahead at most (a "permanent reserve" pool's lock end is never reached)
			horizon := now.Add(20 * 365 * 24 * time.Hour)
			var near []time.Time
			for _, en := range ends {
				if en.Before(horizon) {
					near = append(near, en)
				}
			}
			ends = near
			if cva, isCva := app.AccountKeeper.GetAccount(ctx, e.addrs[max0(script)]).(*vestingtypes.ContinuousVestingAccount); scripted == 1 && isCva && cva.EndTime > now.Unix()+2 {
				// 50% .. 97% of what is left of the scripted account's schedule
				left := cva.EndTime - now.Unix()
				nt = now.Add(time.Duration(left/2+rng.I64n(left*47/100+1)) * time.Second)
			} else if len(ends) > 0 && rng.Chance(65) {
				en := ends[rng.Intn(len(ends))]
				switch rng.Intn(4) {
				case 0:
					nt = en.Add(-1)
				case 1:
					nt = en
				case 2:
					nt = en.Add(1)
				default:
					nt = now.Add(time.Duration(1 + rng.I64n(int64(en.Sub(now)))))
				}
				if !nt.After(now) {
					nt = now.Add(1)
				}
			} else {
				nt = now.Add(time.Duration(1 + rng.I64n(int64(100*24*time.Hour))))
			}
			op = vestOp{kind: "time", newTime: nt, term: fmt.Sprintf("OTime %s", zI(nt.UnixNano()))}
		case 1: // create pool
			owner := pickAddr(baseIds, baseIds, vestIds, []int{-1})
			name := nextPool
			switch rng.Intn(8) {
			case 0:
				name = 0
			case 1:
				if nextPool > 1 {
					name = 1 + rng.I64n(nextPool-1)
				}
			}
			var balv *big.Int = bi(0)
			if owner >= 0 {
				balv = app.BankKeeper.GetBalance(ctx, e.addrs[owner], BondDenom).Amount.BigInt()
			}
			amt := amountChoice(balv)
			dur := time.Duration(1 + rng.I64n(int64(300*time.Hour)))
			if rng.Chance(8) {
				dur = time.Duration(-rng.I64n(3))
			}
			if rng.Chance(4) {
				// a "permanent reserve": a lock of 240-290 years, whose end lies beyond what fits into int64 nanoseconds
				dur = time.Duration(240+rng.I64n(50)) * 365 * 24 * time.Hour
				rep.Count("pool.lock_end_beyond_2262")
			}
			vt := int64(1 + rng.Intn(nVt))
			if rng.Chance(8) {
				vt = 99
			}
			if name == nextPool {
				nextPool++
			}
			ownerStr := e.addrSpelled(owner)
			op = vestOp{kind: "create_pool", owner: owner, name: name, amount: amt, dur: dur, vtName: e.vtName(vt),
				term: fmt.Sprintf("OCreatePool %s %d %s %s %d", zI(int64(owner)), name, zB(amt), zI(int64(dur)), vt),
				run: func(c sdk.Context) (*big.Int, error) {
					_, err := e.ms.CreateVestingPool(sdk.WrapSDKContext(c), &vesttypes.MsgCreateVestingPool{Owner: ownerStr,
						Name: e.poolName(name), Amount: sdk.NewIntFromBigInt(amt), Duration: dur, VestingType: e.vtName(vt)})
					return nil, err
				}}
		case 2: // withdraw
			var owner int
			if wantSecondWithdraw >= 0 {
				owner = wantSecondWithdraw
			} else if os := owners(); len(os) > 0 && rng.Chance(85) {
				owner = os[rng.Intn(len(os))]
			} else {
				owner = pickAddr(baseIds, []int{-1}, absentIds)
			}
			op = vestOp{kind: "withdraw", owner: owner, term: fmt.Sprintf("OWithdraw %s", zI(int64(owner))),
				run: func(c sdk.Context) (*big.Int, error) {
					r, err := e.ms.WithdrawAllAvailable(sdk.WrapSDKContext(c), &vesttypes.MsgWithdrawAllAvailable{Owner: e.addrStr(owner)})
					if err != nil {
						return nil, err
					}
					return r.Withdrawn.Amount.BigInt(), nil
				}}
		case 3: // send to vesting account
			var owner int
			if os := owners(); len(os) > 0 && rng.Chance(90) {
				owner = os[rng.Intn(len(os))]
			} else {
				owner = pickAddr(baseIds, []int{-1})
			}
			var to int
			switch rng.Intn(12) {
			case 0:
				to = pickAddr(baseIds, vestIds, otherIds, otherIds)
			case 1:
				to = blockedId
			case 2:
				to = -1
			case 3:
				to = owner
			case 4:
				to = 0
			default:
				if ab := absent(); len(ab) > 0 {
					to = ab[rng.Intn(len(ab))]
				} else {
					to = pickAddr(baseIds)
				}
			}
			name := int64(0)
			limit := bi(0)
			if owner >= 0 {
				if avp, found := app.CfevestingKeeper.GetAccountVestingPools(ctx, e.astr[owner]); found && len(avp.VestingPools) > 0 {
					p := avp.VestingPools[rng.Intn(len(avp.VestingPools))]
					name = parseName(p.Name, "pool")
					limit = p.GetCurrentlyLocked().BigInt()
				}
			}
			if rng.Chance(6) {
				name = 77
			}
			if rng.Chance(4) {
				name = 0
			}
			amt := amountChoice(limit)
			restart := rng.Bool()
			op = vestOp{kind: "send", owner: owner, to: to, name: name, amount: amt, restart: restart,
				term: fmt.Sprintf("OSend %s %s %d %s %s", zI(int64(owner)), zI(int64(to)), name, zB(amt), zBool(restart)),
				run: func(c sdk.Context) (*big.Int, error) {
					_, err := e.ms.SendToVestingAccount(sdk.WrapSDKContext(c), &vesttypes.MsgSendToVestingAccount{Owner: e.addrStr(owner),
						ToAddress: e.addrStr(to), VestingPoolName: e.poolName(name), Amount: sdk.NewIntFromBigInt(amt), RestartVesting: restart})
					return nil, err
				}}
		case 4: // create vesting account
			from := pickAddr(baseIds, baseIds, vestIds)
			var to int
			if ab := absent(); len(ab) > 0 && rng.Chance(80) {
				to = ab[rng.Intn(len(ab))]
			} else {
				to = pickAddr(baseIds, vestIds, otherIds, otherIds, []int{blockedId, -1})
			}
			coins := sdk.Coins{}
			for _, d := range e.denoms {
				if d == 0 || rng.Chance(50) {
					balv := app.BankKeeper.SpendableCoins(ctx, e.addrs[from]).AmountOf(denomNames[d]).BigInt()
					amt := amountChoice(balv)
					if amt.Sign() < 0 {
						coins = append(coins, sdk.Coin{Denom: denomNames[d], Amount: sdk.NewIntFromBigInt(amt)})
					} else {
						coins = append(coins, sdk.NewCoin(denomNames[d], sdk.NewIntFromBigInt(amt)))
					}
				}
			}
			st := now.Unix() + rng.I64n(2000000) - 1000000
			en := st + rng.I64n(20000000)
			if rng.Chance(8) {
				en = st - 1 - rng.I64n(10)
			}
			if rng.Chance(5) {
				en = st
			}
			pReversed := 40
			if len(e.denoms) >= 2 && rng.Chance(35) {
				// a well-formed creation over several denominations: every amount positive and covered, a new recipient, start before end
				good := sdk.Coins{}
				for _, d := range e.denoms {
					balv := app.BankKeeper.SpendableCoins(ctx, e.addrs[from]).AmountOf(denomNames[d]).BigInt()
					if balv.Sign() > 0 {
						good = append(good, sdk.NewCoin(denomNames[d], sdk.NewIntFromBigInt(new(big.Int).Add(rng.BigBelow(balv), bi(1)))))
					}
				}
				if len(good) >= 2 {
					coins = good
					if ab := absent(); len(ab) > 0 {
						to = ab[rng.Intn(len(ab))]
					}
					if en <= st {
						en = st + 1 + rng.I64n(20000000)
					}
					pReversed = 65
					rep.Count("create_va.well_formed_multi_denom")
				}
			}
			// the message may list the coins in another order than the canonical one (basic validation accepts that; the handler sorts)
			reversed := len(coins) >= 2 && rng.Chance(pReversed)
			if reversed {
				rep.Count("create_va.coins_not_in_canonical_order")
			}
			op = vestOp{kind: "create_va", owner: from, to: to, coins: coins, start: st, end: en,
				term: fmt.Sprintf("OCreateVA %s %s %s %s %s", zI(int64(from)), zI(int64(to)), coinsTerm(coins), zI(st), zI(en)),
				run: func(c sdk.Context) (*big.Int, error) {
					msgCoins := append(sdk.Coins{}, coins...)
					if reversed {
						for i, j := 0, len(msgCoins)-1; i < j; i, j = i+1, j-1 {
							msgCoins[i], msgCoins[j] = msgCoins[j], msgCoins[i]
						}
					}
					_, err := e.ms.CreateVestingAccount(sdk.WrapSDKContext(c), &vesttypes.MsgCreateVestingAccount{FromAddress: e.addrStr(from),
						ToAddress: e.addrStr(to), Amount: msgCoins, StartTime: st, EndTime: en})
					return nil, err
				}}
		case 5: // split
			var from int
			if tieStep {
				from = tieAcct
			} else if scripted == 2 {
				from = script
			} else if cs := cvas(); len(cs) > 0 && rng.Chance(92) {
				from = cs[rng.Intn(len(cs))]
			} else {
				from = pickAddr(baseIds, []int{-1}, absentIds)
			}
			var to int
			if ab := absent(); len(ab) > 0 && rng.Chance(88) {
				to = ab[rng.Intn(len(ab))]
			} else {
				to = pickAddr(baseIds, vestIds, otherIds, otherIds, []int{blockedId, -1})
			}
			coins := sdk.Coins{}
			if from >= 0 {
				lc := app.BankKeeper.LockedCoins(ctx, e.addrs[from])
				for _, d := range e.denoms {
					if d == 0 || rng.Chance(60) {
						lim := lc.AmountOf(denomNames[d]).BigInt()
						var amt *big.Int
						switch rng.Intn(10) {
						case 0:
							amt = bi(1)
						case 1:
							amt = new(big.Int).Set(lim)
						case 2:
							amt = new(big.Int).Add(lim, bi(1))
						case 3:
							amt = new(big.Int).Sub(lim, bi(1))
						case 4:
							amt = new(big.Int).Div(lim, bi(2))
						case 5:
							amt = bi(0)
						default:
							amt = rng.BigBelow(new(big.Int).Add(lim, bi(1)))
						}
						if amt.Sign() < 0 {
							amt = bi(0)
						}
						coins = append(coins, sdk.Coin{Denom: denomNames[d], Amount: sdk.NewIntFromBigInt(amt)})
					}
				}
			} else {
				coins = sdk.Coins{sdk.NewInt64Coin(BondDenom, 5)}
			}
			if tieStep {
				coins = sdk.Coins{sdk.NewInt64Coin(denomNames[0], 1+2*rng.I64n(40))}
				if ab := absent(); len(ab) > 0 {
					to = ab[rng.Intn(len(ab))]
				}
			}
			op = vestOp{kind: "split", owner: from, to: to, coins: coins,
				term: fmt.Sprintf("OSplit %s %s %s", zI(int64(from)), zI(int64(to)), coinsTerm(coins)),
				run: func(c sdk.Context) (*big.Int, error) {
					_, err := e.ms.SplitVesting(sdk.WrapSDKContext(c), &vesttypes.MsgSplitVesting{FromAddress: e.addrStr(from), ToAddress: e.addrStr(to), Amount: coins})
					return nil, err
				}}
		case 6: // move all
			var from int
			if scripted == 2 {
				from = script
			} else if cs := cvas(); len(cs) > 0 && rng.Chance(90) {
				from = cs[rng.Intn(len(cs))]
			} else {
				from = pickAddr(baseIds, []int{-1})
			}
			var to int
			if ab := absent(); len(ab) > 0 && rng.Chance(88) {
				to = ab[rng.Intn(len(ab))]
			} else {
				to = pickAddr(baseIds, vestIds, otherIds, otherIds, []int{blockedId, -1})
			}
			op = vestOp{kind: "move", owner: from, to: to,
				term: fmt.Sprintf("OMove %s %s %s", zI(int64(from)), zI(int64(to)), zList(dn)),
				run: func(c sdk.Context) (*big.Int, error) {
					_, err := e.ms.MoveAvailableVesting(sdk.WrapSDKContext(c), &vesttypes.MsgMoveAvailableVesting{FromAddress: e.addrStr(from), ToAddress: e.addrStr(to)})
					return nil, err
				}}
		case 7: // move by denoms
			var from int
			if scripted == 2 {
				from = script
			} else if cs := cvas(); len(cs) > 0 && rng.Chance(90) {
				from = cs[rng.Intn(len(cs))]
			} else {
				from = pickAddr(baseIds, []int{-1})
			}
			var to int
			if ab := absent(); len(ab) > 0 && rng.Chance(88) {
				to = ab[rng.Intn(len(ab))]
			} else {
				to = pickAddr(baseIds, vestIds, otherIds, otherIds, []int{blockedId, -1})
			}
			var ds []int
			for _, d := range e.denoms {
				if rng.Chance(60) {
					ds = append(ds, d)
				}
			}
			if rng.Chance(10) && len(ds) > 0 {
				ds = append(ds, ds[0])
			}
			rngShuffle(rng, ds)
			var dss, dnames []string
			for _, d := range ds {
				dss = append(dss, zI(int64(d)))
				dnames = append(dnames, denomNames[d])
			}
			op = vestOp{kind: "move_denoms", owner: from, to: to, denoms: ds,
				term: fmt.Sprintf("OMoveDenoms %s %s %s", zI(int64(from)), zI(int64(to)), zList(dss)),
				run: func(c sdk.Context) (*big.Int, error) {
					_, err := e.ms.MoveAvailableVestingByDenoms(sdk.WrapSDKContext(c), &vesttypes.MsgMoveAvailableVestingByDenoms{FromAddress: e.addrStr(from), ToAddress: e.addrStr(to), Denoms: dnames})
					return nil, err
				}}
		default: // delegate
			var a int
			if scripted == 0 {
				a = script
			} else if cs := cvas(); len(cs) > 0 && rng.Chance(85) {
				a = cs[rng.Intn(len(cs))]
			} else {
				a = pickAddr(baseIds)
			}
			balv := app.BankKeeper.GetBalance(ctx, e.addrs[a], BondDenom).Amount.BigInt()
			if lim := new(big.Int).Exp(bi(10), bi(21), nil); balv.Cmp(lim) > 0 {
				balv = lim // x/staking converts bonded tokens to int64 consensus power: keep delegations far below 2^63 * 10^6
			}
			amt := rng.BigBelow(new(big.Int).Add(balv, bi(1)))
			if scripted == 0 { // most of the balance
				amt = new(big.Int).Sub(balv, rng.BigBelow(new(big.Int).Add(new(big.Int).Quo(balv, bi(4)), bi(1))))
			}
			switch rng.Intn(6) + b2iInt(scripted == 0)*10 {
			case 0:
				amt = new(big.Int).Set(balv)
			case 1:
				amt = new(big.Int).Add(balv, bi(1))
			case 2:
				amt = bi(0)
			}
			op = vestOp{kind: "delegate", owner: a, amount: amt,
				term: fmt.Sprintf("ODelegate %s %d %s", zI(int64(a)), 1000, zB(amt)),
				run: func(c sdk.Context) (*big.Int, error) {
					if amt.Sign() <= 0 {
						return nil, fmt.Errorf("non-positive delegation")
					}
					val, found := app.StakingKeeper.GetValidator(c, ta.ValAddr)
					if !found {
						panic("validator not found")
					}
					_, err := app.StakingKeeper.Delegate(c, e.addrs[a], sdk.NewIntFromBigInt(amt), stakingtypes.Unbonded, val, true)
					return nil, err
				}}
		}
		rep.Count("op." + op.kind)
		// ---- execute + predicates
		pre := e.snapshot(ctx)
		var res opResult
		if op.kind == "time" {
			ctx = ctx.WithBlockTime(op.newTime)
			res = opResult{ok: true, amount: bi(0)}
		} else if op.kind != "delegate" && rng.Chance(7) {
			// the message runs on a branch of the state that is dropped whatever the handler returns (a later message of the same
			// transaction failed, or the transaction was only simulated): for the chain — and the model, which sees an operation
			// without effect — nothing happened
			cc, _ := ctx.CacheContext()
			dres := e.deliver(cc, op.run)
			if dres.panic_ != "" {
				rep.Panics = append(rep.Panics, fmt.Sprintf("case %d step %d %s (on a dropped branch): %s", idx, s, op.term, dres.panic_))
			}
			if dres.ok {
				rep.Count("dropped_branch.after_success." + op.kind)
			}
			op = vestOp{kind: "time", newTime: ctx.BlockTime(), term: fmt.Sprintf("OTime %s", zI(ctx.BlockTime().UnixNano()))}
			res = opResult{ok: true, amount: bi(0)}
		} else {
			res = e.deliver(ctx, op.run)
		}
		if res.panic_ != "" {
			rep.Panics = append(rep.Panics, fmt.Sprintf("case %d step %d %s: %s", idx, s, op.term, res.panic_))
			rep.Count("res.panic")
		} else if res.ok {
			rep.Count("res.ok." + op.kind)
			if op.kind != "time" {
				nontrivial = true
			}
		} else {
			rep.Count("res.err." + op.kind)
		}
		func() {
			defer func() {
				if r := recover(); r != nil {
					// the observation code met a state no sequence of these messages should produce: that is itself a finding for this step
					rep.Panics = append(rep.Panics, fmt.Sprintf("case %d step %d %s: the state after the operation is inconsistent with what was stored before it (%v)", idx, s, op.term, r))
				}
			}()
			e.predicates(ctx, &op, pre, res)
		}()
		// between two operations: a governance attempt to change the vesting denomination while pools are stored. Pools do not
		// record their denomination, so an accepted change would strand what they lock; it must be refused and change nothing
		// (nothing changes on the unchanged tree, so the model needs no operation for it)
		if stored := app.CfevestingKeeper.GetAllAccountVestingPools(ctx); len(stored) > 0 && rng.Chance(12) {
			anyPool := false
			for _, a := range stored {
				if len(a.VestingPools) > 0 {
					anyPool = true
				}
			}
			if anyPool {
				cc, write := ctx.CacheContext()
				before := app.CfevestingKeeper.GetParams(ctx).Denom
				var err error
				func() {
					defer func() {
						if r := recover(); r != nil {
							err = fmt.Errorf("panic: %v", r)
							rep.Panics = append(rep.Panics, fmt.Sprintf("case %d step %d UpdateDenomParam: %v", idx, s, r))
						}
					}()
					_, err = e.ms.UpdateDenomParam(sdk.WrapSDKContext(cc), &vesttypes.MsgUpdateDenomParam{Authority: appparams.GetAuthority(), Denom: "uother"})
				}()
				if err == nil {
					write()
				}
				// C01: pools do not record a denomination, so an accepted change re-denominates what they hold: coins of one denomination
				// would be owed in another
				rep.Eval("C01.pool_coins_keep_their_denomination", app.CfevestingKeeper.GetParams(ctx).Denom == before, idx, s,
					fmt.Sprintf("the vesting denomination changed from %q to %q while pools are stored", before, app.CfevestingKeeper.GetParams(ctx).Denom))
				rep.Eval("C06.pool_denomination_cannot_change_while_pools_exist", err != nil && app.CfevestingKeeper.GetParams(ctx).Denom == before, idx, s,
					fmt.Sprintf("governance changed the vesting denomination from %q to %q while %d owner entries with pools are stored: what the pools lock is stranded", before, app.CfevestingKeeper.GetParams(ctx).Denom, len(stored)))
				// C05: whatever governance decided, the module account still backs what the pools lock, in the denomination in force
				msgInv, brokenInv := vestkeeper.ModuleAccountInvariant(app.CfevestingKeeper)(ctx)
				rep.Eval("C05.pools_backed_after_denomination_update_attempt", !brokenInv, idx, s, msgInv)
				if err == nil { // keep the rest of the history meaningful for the model
					app.CfevestingKeeper.SetParams(ctx, vesttypes.Params{Denom: before})
				}
				rep.Count("denom_change_attempt")
			}
		}
		if op.kind == "withdraw" && wantSecondWithdraw < 0 && res.ok && rng.Chance(50) {
			wantSecondWithdraw = op.owner
		} else {
			wantSecondWithdraw = -1
		}
		obs := append(res.outTerm(), e.observe(ctx)...)
		opTerms = append(opTerms, "("+op.term+", "+zListB(obs)+")")
		rep.Ops++
	}
	// ---- epilogue on a dropped branch (C09): an address that had no account when a vesting message naming it was refused gets an
	// account by an ordinary bank transfer; a later, otherwise valid split to it must be refused and leave that account alone
	func() {
		defer e.recoverEpilogue(idx, nOps, "the epilogue in which a refused split is followed by an ordinary transfer and a second split")
		ec, _ := ctx.CacheContext()
		for _, id := range cvas() {
			lc := app.BankKeeper.LockedCoins(ec, e.addrs[id])
			if lc.IsZero() {
				continue
			}
			d := sdk.AccAddress(rng.Bytes(20))
			tooMuch := sdk.NewCoins(sdk.NewCoin(lc[0].Denom, lc[0].Amount.AddRaw(1)))
			_, err0 := e.ms.SplitVesting(sdk.WrapSDKContext(ec), &vesttypes.MsgSplitVesting{FromAddress: e.addrs[id].String(), ToAddress: d.String(), Amount: tooMuch})
			fundAddr(ec, ta, d, sdk.NewCoins(sdk.NewInt64Coin(BondDenom, 7)))
			acc0 := app.AccountKeeper.GetAccount(ec, d)
			var before []byte
			if acc0 != nil {
				before, _ = app.AccountKeeper.MarshalAccount(acc0)
			}
			_, err1 := e.ms.SplitVesting(sdk.WrapSDKContext(ec), &vesttypes.MsgSplitVesting{FromAddress: e.addrs[id].String(), ToAddress: d.String(), Amount: sdk.NewCoins(sdk.NewCoin(lc[0].Denom, sdk.OneInt()))})
			var after []byte
			if acc1 := app.AccountKeeper.GetAccount(ec, d); acc1 != nil {
				after, _ = app.AccountKeeper.MarshalAccount(acc1)
			}
			rep.Eval("C09.account_created_after_a_refused_message_is_not_replaced", err0 != nil && acc0 != nil && err1 != nil && string(before) == string(after), idx, nOps,
				fmt.Sprintf("split to a fresh address refused (%v), the address funded by a bank transfer, split of 1%s to it: err=%v, account record unchanged=%v", err0 != nil, lc[0].Denom, err1, string(before) == string(after)))
			break
		}
	}()
	// ---- epilogue on a dropped branch (C09): every existing account of another kind (delayed / periodic / permanent-locked vesting) as
	// the recipient of a send out of every pool that still locks something, and of a direct creation: refused, the account untouched
	func() {
		defer e.recoverEpilogue(idx, nOps, "the epilogue with accounts of other vesting kinds as recipients")
		ec, _ := ctx.CacheContext()
		for _, oid := range otherIds {
			before := app.AccountKeeper.GetAccount(ec, e.addrs[oid])
			if before == nil {
				continue
			}
			bz0, _ := app.AppCodec().MarshalInterface(before)
			tried := 0
			for _, avp := range app.CfevestingKeeper.GetAllAccountVestingPools(ec) {
				for _, p := range avp.VestingPools {
					if !p.GetCurrentlyLocked().IsPositive() || tried >= 4 {
						continue
					}
					tried++
					_, err := e.ms.SendToVestingAccount(sdk.WrapSDKContext(ec), &vesttypes.MsgSendToVestingAccount{Owner: avp.Owner, ToAddress: e.addrs[oid].String(),
						VestingPoolName: p.Name, Amount: sdk.OneInt(), RestartVesting: tried%2 == 0})
					after := app.AccountKeeper.GetAccount(ec, e.addrs[oid])
					bz1, _ := app.AppCodec().MarshalInterface(after)
					rep.Eval("C09.send_to_an_account_of_another_vesting_kind_is_refused", err != nil && string(bz0) == string(bz1), idx, nOps,
						fmt.Sprintf("send of 1 from pool %q of %s to address %d (%T): error %v, account unchanged %v", p.Name, avp.Owner, oid, before, err, string(bz0) == string(bz1)))
				}
			}
		}
	}()
	// ---- C12: whatever state the messages left, the vesting module's exported genesis passes its own validation
	{
		var verr error
		func() {
			defer func() {
				if r := recover(); r != nil {
					verr = fmt.Errorf("panic: %v", r)
				}
			}()
			verr = cfevesting.ExportGenesis(ctx, app.CfevestingKeeper).Validate()
		}()
		rep.Eval("C12.exported_vesting_genesis_validates", verr == nil, idx, nOps, fmt.Sprintf("the vesting genesis exported after the history does not validate: %v", verr))
	}
	// ---- epilogue on a dropped branch (not part of the model comparison): the bank's per-denomination send switch.  With one
	// denomination switched off, a move of OTHER, selected denominations still goes through (and leaves nothing of them locked), and a
	// split of the switched-off denomination is refused and changes nothing.
	if multi {
		func() {
			defer e.recoverEpilogue(idx, nOps, "the epilogue with one denomination switched off for sending")
			ec, _ := ctx.CacheContext()
			for _, id := range cvas() {
				lc := app.BankKeeper.LockedCoins(ec, e.addrs[id])
				if len(lc) < 2 {
					continue
				}
				off, sel := lc[len(lc)-1].Denom, lc[0].Denom
				bp := app.BankKeeper.GetParams(ec)
				bp.SendEnabled = append(bp.SendEnabled, &banktypes.SendEnabled{Denom: off, Enabled: false})
				app.BankKeeper.SetParams(ec, bp)
				fresh := func() string { return sdk.AccAddress(rng.Bytes(20)).String() }
				spendable := app.BankKeeper.SpendableCoins(ec, e.addrs[id])
				_, err1 := e.ms.SplitVesting(sdk.WrapSDKContext(ec), &vesttypes.MsgSplitVesting{FromAddress: e.addrs[id].String(), ToAddress: fresh(), Amount: sdk.NewCoins(sdk.NewCoin(off, sdk.OneInt()))})
				rep.Eval("C07.split_of_a_send_disabled_denomination_is_refused", err1 != nil && app.BankKeeper.LockedCoins(ec, e.addrs[id]).IsEqual(lc), idx, nOps,
					fmt.Sprintf("split of 1%s by address %d while sending %s is switched off: err=%v", off, id, off, err1))
				_, err2 := e.ms.MoveAvailableVestingByDenoms(sdk.WrapSDKContext(ec), &vesttypes.MsgMoveAvailableVestingByDenoms{FromAddress: e.addrs[id].String(), ToAddress: fresh(), Denoms: []string{sel}})
				after := app.BankKeeper.LockedCoins(ec, e.addrs[id])
				rep.Eval("C07.move_of_selected_denominations_ignores_the_send_switch_of_others", err2 == nil && after.AmountOf(sel).IsZero() && after.AmountOf(off).Equal(lc.AmountOf(off)) &&
					app.BankKeeper.SpendableCoins(ec, e.addrs[id]).IsEqual(spendable), idx, nOps,
					fmt.Sprintf("address %d locks %s; sending %s is switched off; moving %s: err=%v, locked afterwards %s", id, lc, off, sel, err2, after))
				rep.Count("epilogue.send_switch")
				break
			}
		}()
	}
	rep.NoteCase(strings.Join(opTermsShort(opTerms), ";"), nontrivial)
	if len(rep.Samples) < 3 {
		rep.Samples = append(rep.Samples, fmt.Sprintf("vest case %d: %s", idx, strings.Join(opTermsShort(opTerms), " ; ")))
	}
	return fmt.Sprintf("{| c_id := %d; c_world := %s;\n c_addrs := %s; c_denoms := %s;\n c_init := %s;\n c_ops := [\n  %s] |}",
		idx, world, zList(tracked), zList(dn), zListB(initObs), strings.Join(opTerms, ";\n  "))
}

func opTermsShort(ts []string) []string {
	var out []string
	for _, t := range ts {
		if i := strings.Index(t, ", ["); i > 0 {
			out = append(out, t[1:i])
		}
	}
	return out
}

func rngShuffle(r *Rng, xs []int) {
	for i := len(xs) - 1; i > 0; i-- {
		j := r.Intn(i + 1)
		xs[i], xs[j] = xs[j], xs[i]
	}
}

// ---------------------------------------------------------------- predicates ---------------
type vestSnap struct {
	accBytes  map[int][]byte
	bal       map[int]sdk.Coins
	locked    map[int]sdk.Coins
	spendable map[int]sdk.Coins
	pools     map[int]vesttypes.AccountVestingPools
	hasPools  map[int]bool
	queryWd   map[int]*big.Int // sum of withdrawable reported by the VestingPools query
	queryPer  map[int]map[string]*big.Int
	now       time.Time
}

func (e *vestEnv) snapshot(ctx sdk.Context) *vestSnap {
	app := e.ta.App
	s := &vestSnap{accBytes: map[int][]byte{}, bal: map[int]sdk.Coins{}, locked: map[int]sdk.Coins{}, spendable: map[int]sdk.Coins{},
		pools: map[int]vesttypes.AccountVestingPools{}, hasPools: map[int]bool{}, queryWd: map[int]*big.Int{}, queryPer: map[int]map[string]*big.Int{}, now: ctx.BlockTime()}
	for id, a := range e.addrs {
		if acc := app.AccountKeeper.GetAccount(ctx, a); acc != nil {
			bz, err := app.AccountKeeper.MarshalAccount(acc)
			if err != nil {
				panic(err)
			}
			s.accBytes[id] = bz
		}
		s.bal[id] = app.BankKeeper.GetAllBalances(ctx, a)
		s.locked[id] = app.BankKeeper.LockedCoins(ctx, a)
		s.spendable[id] = app.BankKeeper.SpendableCoins(ctx, a)
		if avp, found := app.CfevestingKeeper.GetAccountVestingPools(ctx, a.String()); found {
			s.hasPools[id] = true
			// deep copy
			cp := vesttypes.AccountVestingPools{Owner: avp.Owner}
			for _, p := range avp.VestingPools {
				q := *p
				cp.VestingPools = append(cp.VestingPools, &q)
			}
			s.pools[id] = cp
			if r, err := app.CfevestingKeeper.VestingPools(sdk.WrapSDKContext(ctx), &vesttypes.QueryVestingPoolsRequest{Owner: a.String()}); err == nil {
				tot := bi(0)
				per := map[string]*big.Int{}
				for _, vp := range r.VestingPools {
					w, _ := new(big.Int).SetString(vp.Withdrawable, 10)
					tot.Add(tot, w)
					per[vp.Name] = w
				}
				s.queryWd[id] = tot
				s.queryPer[id] = per
			}
		}
	}
	return s
}

func (e *vestEnv) predicates(ctx sdk.Context, op *vestOp, pre *vestSnap, res opResult) {
	app := e.ta.App
	rep, c, st := e.rep, e.cid, e.step
	post := e.snapshot(ctx)
	// ---- C05: the three registered invariants, via the real functions
	if msg, broken := vestkeeper.ModuleAccountInvariant(app.CfevestingKeeper)(ctx); true {
		rep.Eval("C05.module_account_invariant", !broken, c, st, msg)
	}
	if msg, broken := vestkeeper.VestingPoolConsistentDataInvariant(app.CfevestingKeeper)(ctx); true {
		rep.Eval("C05.consistent_data_invariant", !broken, c, st, msg)
	}
	if msg, broken := vestkeeper.NonNegativeVestingPoolAmountsInvariant(app.CfevestingKeeper)(ctx); true {
		rep.Eval("C05.nonnegative_invariant", !broken, c, st, msg)
	}
	// ---- C06 / C05: no message removes a stored pool (the module never deletes pool records: what a pool still locks would otherwise
	// stay in the module account with nothing withdrawable standing for it)
	{
		okKept, detail := true, ""
		for id, avp := range pre.pools {
			have := map[string]bool{}
			for _, p := range post.pools[id].VestingPools {
				have[p.Name] = true
			}
			for _, p := range avp.VestingPools {
				if !have[p.Name] {
					okKept = false
					detail = fmt.Sprintf("%s: pool %q of address %d (locking %s) is no longer stored", op.term, p.Name, id, p.GetCurrentlyLocked())
				}
			}
		}
		rep.Eval("C06.stored_pools_are_never_dropped", okKept, c, st, detail)
		rep.Eval("C05.stored_pools_are_never_dropped", okKept, c, st, detail)
	}
	// ---- C06: in every state the pool query reports nothing withdrawable for a pool whose lock end lies ahead, and exactly the
	// still-locked remainder for a matured one
	for id, avp := range post.pools {
		per := post.queryPer[id]
		if per == nil {
			continue
		}
		for _, p := range avp.VestingPools {
			w := per[p.Name]
			if w == nil {
				continue
			}
			if post.now.Before(p.LockEnd) {
				rep.Eval("C06.query_reports_nothing_before_lock_end", w.Sign() == 0, c, st,
					fmt.Sprintf("after %s: pool %s of address %d, lock end %s, block time %s: the query reports %v withdrawable", op.term, p.Name, id, p.LockEnd, post.now, w))
			} else {
				rep.Eval("C06.query_reports_remainder_after_lock_end", w.Cmp(p.GetCurrentlyLocked().BigInt()) == 0, c, st,
					fmt.Sprintf("after %s: matured pool %s of address %d still locks %v, the query reports %v", op.term, p.Name, id, p.GetCurrentlyLocked(), w))
			}
		}
	}
	// ---- C09: existing accounts unchanged (except the split/move sender's original vesting)
	if op.kind != "time" && op.kind != "delegate" {
		for id := range e.addrs {
			before, existed := pre.accBytes[id]
			if !existed {
				continue
			}
			after := post.accBytes[id]
			same := string(before) == string(after)
			if !same && res.ok && (op.kind == "split" || op.kind == "move" || op.kind == "move_denoms") && id == op.owner {
				// allowed: only OriginalVesting may shrink
				var a0, a1 authtypes.AccountI
				app.AccountKeeper.UnmarshalAccount(before) //nolint
				a0, _ = app.AccountKeeper.UnmarshalAccount(before)
				a1, _ = app.AccountKeeper.UnmarshalAccount(after)
				v0, ok0 := a0.(*vestingtypes.ContinuousVestingAccount)
				v1, ok1 := a1.(*vestingtypes.ContinuousVestingAccount)
				if ok0 && ok1 && v1.OriginalVesting.IsAllLTE(v0.OriginalVesting) {
					cp := *v1
					bva := *v1.BaseVestingAccount
					bva.OriginalVesting = v0.OriginalVesting
					cp.BaseVestingAccount = &bva
					b2, _ := app.AccountKeeper.MarshalAccount(&cp)
					same = string(b2) == string(before)
				}
			}
			rep.Eval("C09.existing_account_unchanged", same, c, st, fmt.Sprintf("%s changed account %d", op.term, id))
		}
	}
	if !res.ok && op.kind == "send" && res.panic_ == "" {
		// C08: a request that does not exceed what is still locked in the pool (and is otherwise well-formed: known pool,
		// absent and unblocked recipient) must succeed
		if op.owner >= 0 && op.to > 0 && op.to != op.owner && op.to != e.blockedId && pre.hasPools[op.owner] && op.amount.Sign() >= 0 {
			var pp *vesttypes.VestingPool
			for _, p := range pre.pools[op.owner].VestingPools {
				if p.Name == e.poolName(op.name) && op.name != 0 {
					pp = p
				}
			}
			_, existed := pre.accBytes[op.to]
			if pp != nil && !existed {
				lockedAfter := pp.GetCurrentlyLocked().BigInt()
				if !pre.now.Before(pp.LockEnd) {
					lockedAfter = bi(0)
				}
				if op.amount.Cmp(lockedAfter) <= 0 {
					rep.Eval("C08.request_within_locked_succeeds", false, c, st, fmt.Sprintf("%s failed although %v <= %v still locked", op.term, op.amount, lockedAfter))
				}
			}
		}
	}
	if res.ok && op.kind == "send" {
		rep.Eval("C08.request_within_locked_succeeds", true, c, st, "")
	}
	if op.kind == "create_va" && res.panic_ == "" && op.owner >= 0 && op.to > 0 && op.to != op.owner && op.to != e.blockedId {
		// C08: creating a vesting account directly transfers the given coins: a request for positive amounts the sender can spend, to
		// an address without an account, with start not after end, goes through (in whatever order the message lists the coins)
		_, existed := pre.accBytes[op.to]
		if !existed && op.coins.IsValid() && op.coins.IsAllPositive() && pre.spendable[op.owner].IsAllGTE(op.coins) && op.start <= op.end {
			rep.Eval("C08.create_va_well_formed_succeeds", res.ok, c, st, fmt.Sprintf("%s was refused: %s", op.term, res.err))
		}
	}
	if (op.kind == "split" || op.kind == "move") && !res.ok && res.panic_ == "" && op.owner >= 0 && op.to > 0 && op.to != op.owner && op.to != e.blockedId {
		// C07: any amount up to the sender's locked, undelegated coins can be split off / everything locked can be moved
		_, existed := pre.accBytes[op.to]
		a0, _ := app.AccountKeeper.UnmarshalAccount(pre.accBytes[op.owner])
		_, isCva := a0.(*vestingtypes.ContinuousVestingAccount)
		if !existed && isCva {
			if op.kind == "split" && op.coins.IsValid() && !op.coins.IsZero() && op.coins.IsAllLTE(pre.locked[op.owner]) {
				rep.Eval("C07.split_within_locked_succeeds", false, c, st, fmt.Sprintf("%s failed although the sender has %s locked", op.term, pre.locked[op.owner]))
			}
			if op.kind == "move" && !pre.locked[op.owner].IsZero() {
				rep.Eval("C07.move_of_locked_coins_succeeds", false, c, st, fmt.Sprintf("%s failed although the sender has %s locked", op.term, pre.locked[op.owner]))
			}
		}
	}
	if op.kind == "move_denoms" && res.panic_ == "" && op.owner >= 0 && op.to > 0 && op.to != op.owner && op.to != e.blockedId {
		// C07: whatever is locked (and undelegated) in the selected denominations can be moved to an absent, unblocked recipient
		_, existed := pre.accBytes[op.to]
		a0, _ := app.AccountKeeper.UnmarshalAccount(pre.accBytes[op.owner])
		_, isCva := a0.(*vestingtypes.ContinuousVestingAccount)
		dup := map[int]bool{}
		hasDup, anyLocked := false, false
		for _, d := range op.denoms {
			if dup[d] {
				hasDup = true
			}
			dup[d] = true
			if pre.locked[op.owner].AmountOf(denomNames[d]).IsPositive() {
				anyLocked = true
			}
		}
		if !existed && isCva && !hasDup && anyLocked {
			rep.Eval("C07.move_of_locked_denoms_succeeds", res.ok, c, st, fmt.Sprintf("%s failed although the sender has %s locked", op.term, pre.locked[op.owner]))
		}
	}
	if !res.ok {
		return
	}
	e.checkMessageEvents(ctx, op, pre, res)
	switch op.kind {
	case "withdraw":
		// C06: query == paid == balance delta; pools before lock end untouched; matured pools emptied
		paid := res.amount
		delta := new(big.Int).Sub(post.bal[op.owner].AmountOf(BondDenom).BigInt(), pre.bal[op.owner].AmountOf(BondDenom).BigInt())
		q := pre.queryWd[op.owner]
		rep.Eval("C06.query_equals_paid", q != nil && q.Cmp(paid) == 0 && delta.Cmp(paid) == 0, c, st,
			fmt.Sprintf("query %v paid %v delta %v", q, paid, delta))
		okLocked, okMatured := true, true
		expect := bi(0)
		for i, p := range pre.pools[op.owner].VestingPools {
			if i >= len(post.pools[op.owner].VestingPools) {
				okMatured = false // a stored pool disappeared (also judged by stored_pools_are_never_dropped)
				break
			}
			p2 := post.pools[op.owner].VestingPools[i]
			if pre.now.Before(p.LockEnd) {
				if !p2.Withdrawn.Equal(p.Withdrawn) || !p2.Sent.Equal(p.Sent) || !p2.InitiallyLocked.Equal(p.InitiallyLocked) {
					okLocked = false
				}
			} else {
				expect.Add(expect, p.GetCurrentlyLocked().BigInt())
				if !p2.GetCurrentlyLocked().IsZero() {
					okMatured = false
				}
			}
		}
		rep.Eval("C06.locked_pool_untouched", okLocked, c, st, op.term)
		rep.Eval("C06.matured_paid_in_full", okMatured && expect.Cmp(paid) == 0, c, st, fmt.Sprintf("expected %v paid %v", expect, paid))
		// C18: withdraw events == per-pool deltas > 0
		e.checkWithdrawEvents(op, pre, post, res)
	case "send":
		e.checkWithdrawEvents(op, pre, post, res)
		// C06: a send first pays the owner what has matured, exactly like a withdraw-all: every pool at or past its lock end is
		// empty afterwards, every other pool but the named one is untouched, and a withdrawal repeated right after it (on a branch
		// of the state that is dropped) pays nothing
		{
			okLocked, okMatured := true, true
			for i, p := range pre.pools[op.owner].VestingPools {
				if i >= len(post.pools[op.owner].VestingPools) {
					break
				}
				p2 := post.pools[op.owner].VestingPools[i]
				if !pre.now.Before(p.LockEnd) {
					if !p2.GetCurrentlyLocked().IsZero() {
						okMatured = false
					}
				} else if p.Name != e.poolName(op.name) {
					if !p2.Withdrawn.Equal(p.Withdrawn) || !p2.Sent.Equal(p.Sent) || !p2.InitiallyLocked.Equal(p.InitiallyLocked) {
						okLocked = false
					}
				}
			}
			rep.Eval("C06.send_pays_matured_pools_in_full", okMatured, c, st, op.term+": a pool at or past its lock end still keeps coins after the send's withdrawal")
			rep.Eval("C06.send_leaves_other_locked_pools_untouched", okLocked, c, st, op.term)
			cc, _ := ctx.CacheContext()
			func() {
				defer func() { _ = recover() }()
				r, err := e.ms.WithdrawAllAvailable(sdk.WrapSDKContext(cc), &vesttypes.MsgWithdrawAllAvailable{Owner: e.addrStr(op.owner)})
				if err == nil {
					rep.Eval("C06.withdrawal_repeated_after_a_send_pays_nothing", r.Withdrawn.Amount.IsZero(), c, st,
						fmt.Sprintf("%s: a withdrawal in the same block right after the send (which had paid the owner %v) pays %v", op.term, res.amount, r.Withdrawn))
				}
			}()
		}
		_, existed := pre.accBytes[op.to]
		rep.Eval("C08.recipient_was_absent", !existed, c, st, op.term)
		// C06: coins of a pool leave it (apart from the owner's withdrawal of matured coins) only into a newly created vesting account
		rep.Eval("C06.pool_coins_leave_only_into_a_new_account", !existed, c, st, op.term+": the recipient already had an account")
		// the send's own withdrawal part (paid to the owner) is separate from the amount sent
		gotBal := post.bal[op.to].AmountOf(BondDenom).BigInt()
		rep.Eval("C08.recipient_gets_amount", gotBal.Cmp(op.amount) == 0, c, st, fmt.Sprintf("got %v want %v", gotBal, op.amount))
		var pp, pq *vesttypes.VestingPool
		for i, p := range pre.pools[op.owner].VestingPools {
			if p.Name == e.poolName(op.name) && i < len(post.pools[op.owner].VestingPools) {
				pp, pq = p, post.pools[op.owner].VestingPools[i]
			}
		}
		if pp != nil {
			rep.Eval("C08.sent_counter", pq.Sent.Sub(pp.Sent).BigInt().Cmp(op.amount) == 0, c, st, op.term)
			vt, _ := app.CfevestingKeeper.GetVestingType(ctx, pp.VestingType)
			// documented original vesting: integer part of amount * (1 - free), in exact rationals
			one := new(big.Rat).SetInt64(1)
			free := new(big.Rat).SetFrac(vt.Free.BigInt(), new(big.Int).Exp(bi(10), bi(18), nil))
			x := new(big.Rat).Mul(new(big.Rat).SetInt(op.amount), new(big.Rat).Sub(one, free))
			want := new(big.Int).Quo(x.Num(), x.Denom())
			acc, _ := app.AccountKeeper.GetAccount(ctx, e.addrs[op.to]).(*vestingtypes.ContinuousVestingAccount)
			okOv := acc != nil && acc.OriginalVesting.AmountOf(BondDenom).BigInt().Cmp(want) == 0
			rep.Eval("C08.original_vesting", okOv, c, st, fmt.Sprintf("%s want ov %v", op.term, want))
			if acc != nil {
				var ws, we int64
				if op.restart {
					ws = pre.now.Add(vt.LockupPeriod).Unix()
					we = pre.now.Add(vt.LockupPeriod).Add(vt.VestingPeriod).Unix()
				} else {
					ws, we = pp.LockEnd.Unix(), pp.LockEnd.Unix()
				}
				okSched := acc.StartTime == ws && acc.EndTime == we
				if !okSched && !op.restart && op.amount.Sign() == 0 && pre.now.After(pp.LockEnd) {
					rep.Count("known.K9")
					rep.Eval("C08.schedule.K9", false, c, st, "K9 zero-amount non-restart send from a matured pool")
				} else if !op.restart && pre.now.After(pp.LockEnd) {
					// matured pool, no restart: documented start = end = lock end; the code starts at block time,
					// which is harmless only when nothing vests (everything already vested at end <= now)
					rep.Eval("C08.schedule", acc.EndTime == we && acc.StartTime >= ws, c, st, fmt.Sprintf("%s start %d end %d want %d %d", op.term, acc.StartTime, acc.EndTime, ws, we))
				} else {
					rep.Eval("C08.schedule", okSched, c, st, fmt.Sprintf("%s start %d end %d want %d %d", op.term, acc.StartTime, acc.EndTime, ws, we))
				}
			}
			if pp.GenesisPool {
				e.derived[op.to] = true
			}
		}
	case "create_va":
		_, existed := pre.accBytes[op.to]
		rep.Eval("C08.recipient_was_absent", !existed, c, st, op.term)
		acc, _ := app.AccountKeeper.GetAccount(ctx, e.addrs[op.to]).(*vestingtypes.ContinuousVestingAccount)
		ok := acc != nil && acc.OriginalVesting.IsEqual(op.coins) && post.bal[op.to].IsEqual(op.coins) &&
			pre.bal[op.owner].Sub(op.coins...).IsEqual(post.bal[op.owner])
		rep.Eval("C08.create_va_exact", ok, c, st, op.term)
		// ... and vests them linearly between the GIVEN start and end
		rep.Eval("C08.create_va_schedule_as_given", acc != nil && acc.StartTime == op.start && acc.EndTime == op.end, c, st,
			fmt.Sprintf("%s: account start %d end %d", op.term, func() int64 {
				if acc == nil {
					return -1
				}
				return acc.StartTime
			}(), func() int64 {
				if acc == nil {
					return -1
				}
				return acc.EndTime
			}()))
	case "split", "move", "move_denoms":
		_, existed := pre.accBytes[op.to]
		rep.Eval("C07.recipient_was_absent", !existed, c, st, op.term)
		moved := post.bal[op.to]
		lockedDrop, hasNeg := pre.locked[op.owner].SafeSub(post.locked[op.owner]...)
		rep.Eval("C07.sender_locked_drops_exactly", !hasNeg && lockedDrop.IsEqual(moved), c, st,
			fmt.Sprintf("%s locked drop %s moved %s", op.term, lockedDrop, moved))
		rep.Eval("C07.sender_spendable_unchanged", pre.spendable[op.owner].IsEqual(post.spendable[op.owner]), c, st,
			fmt.Sprintf("%s spendable %s -> %s", op.term, pre.spendable[op.owner], post.spendable[op.owner]))
		rep.Eval("C07.recipient_locked_equals_amount", post.locked[op.to].IsEqual(moved), c, st,
			fmt.Sprintf("%s rcpt locked %s moved %s", op.term, post.locked[op.to], moved))
		if op.kind == "split" {
			rep.Eval("C07.moved_equals_request", moved.IsEqual(op.coins), c, st, op.term)
		}
		if op.kind == "move" {
			rep.Eval("C07.move_leaves_zero_locked", post.locked[op.owner].IsZero(), c, st, fmt.Sprintf("%s left %s", op.term, post.locked[op.owner]))
		}
		if op.kind == "move_denoms" {
			left := sdk.NewCoins()
			for _, d := range op.denoms {
				if a := post.locked[op.owner].AmountOf(denomNames[d]); a.IsPositive() {
					left = left.Add(sdk.NewCoin(denomNames[d], a))
				}
			}
			rep.Eval("C07.move_by_denoms_leaves_zero_locked_for_selected", left.IsZero(), c, st, fmt.Sprintf("%s left %s locked on the sender", op.term, left))
		}
		a0, _ := app.AccountKeeper.UnmarshalAccount(pre.accBytes[op.owner])
		v0 := a0.(*vestingtypes.ContinuousVestingAccount)
		v1, _ := app.AccountKeeper.GetAccount(ctx, e.addrs[op.to]).(*vestingtypes.ContinuousVestingAccount)
		ws := v0.StartTime
		if pre.now.Unix() > ws {
			ws = pre.now.Unix()
		}
		rep.Eval("C07.recipient_schedule", v1 != nil && v1.EndTime == v0.EndTime && v1.StartTime == ws, c, st, op.term)
		// later-time agreement: sender' + recipient vs sender alone
		if v1 != nil {
			s1, _ := app.AccountKeeper.GetAccount(ctx, e.addrs[op.owner]).(*vestingtypes.ContinuousVestingAccount)
			rep.Eval("C09.sender_stays_a_continuous_vesting_account", s1 != nil, c, st, fmt.Sprintf("%s: the sender's account is no longer a continuous vesting account", op.term))
			if s1 != nil {
				// ... and keeps its identity and schedule: only the original vesting is reduced
				same := s1.AccountNumber == v0.AccountNumber && s1.Sequence == v0.Sequence && s1.Address == v0.Address && s1.StartTime == v0.StartTime &&
					s1.EndTime == v0.EndTime && s1.DelegatedVesting.IsEqual(v0.DelegatedVesting) && s1.DelegatedFree.IsEqual(v0.DelegatedFree) &&
					((s1.PubKey == nil) == (v0.PubKey == nil)) && (s1.PubKey == nil || s1.PubKey.Equal(v0.PubKey))
				rep.Eval("C09.sender_keeps_its_identity", same, c, st, fmt.Sprintf("%s: account number %d -> %d, sequence %d -> %d, start %d -> %d, end %d -> %d",
					op.term, v0.AccountNumber, s1.AccountNumber, v0.Sequence, s1.Sequence, v0.StartTime, s1.StartTime, v0.EndTime, s1.EndTime))
			}
			for k := 0; k < 5 && s1 != nil; k++ {
				tt := time.Unix(pre.now.Unix()+e.rng.I64n(v0.EndTime-pre.now.Unix()+2), 0)
				for _, d := range e.denoms {
					dn := denomNames[d]
					before := v0.GetVestingCoins(tt).AmountOf(dn).BigInt()
					after := new(big.Int).Add(s1.GetVestingCoins(tt).AmountOf(dn).BigInt(), v1.GetVestingCoins(tt).AmountOf(dn).BigInt())
					diff := new(big.Int).Sub(after, before)
					diff.Abs(diff)
					// a few base units plus the resolution of the SDK's 18-digit vesting scalar
					// |diff| <= 4 + (2*OV + OV' + U) * 0.5*10^-18 (three roundings to integers, the truncation of D, the compensation
					// unit, and the 18-digit resolution of the three vesting scalars); checked with 7 + 3*floor(OV/10^18)
					tol := new(big.Int).Add(bi(7), new(big.Int).Mul(bi(3), new(big.Int).Quo(v0.OriginalVesting.AmountOf(dn).BigInt(), new(big.Int).Exp(bi(10), bi(18), nil))))
					rep.Eval("C07.later_time_agreement", diff.Cmp(tol) <= 0, c, st, fmt.Sprintf("%s at %d denom %s before %v after %v", op.term, tt.Unix(), dn, before, after))
				}
			}
		}
		if e.derived[op.owner] {
			e.derived[op.to] = true
		}
	}
	// ---- C17: lineage oracle vs stored traces; summaries vs recomputation
	for id, a := range e.addrs {
		tr, found := app.CfevestingKeeper.GetVestingAccountTrace(ctx, a.String())
		isDerived := found && (tr.Genesis || tr.FromGenesisPool || tr.FromGenesisAccount)
		rep.Eval("C17.lineage", isDerived == e.derived[id], c, st, fmt.Sprintf("addr %d trace derived=%v oracle=%v after %s", id, isDerived, e.derived[id], op.term))
	}
	e.checkSummary(ctx)
}

func (e *vestEnv) checkWithdrawEvents(op *vestOp, pre, post *vestSnap, res opResult) {
	type pa struct {
		name int64
		amt  *big.Int
	}
	var want []pa
	tot := bi(0)
	for i, p := range pre.pools[op.owner].VestingPools {
		if i >= len(post.pools[op.owner].VestingPools) {
			break // a stored pool disappeared: judged by stored_pools_are_never_dropped
		}
		d := post.pools[op.owner].VestingPools[i].Withdrawn.Sub(p.Withdrawn).BigInt()
		if d.Sign() > 0 {
			want = append(want, pa{parseName(p.Name, "pool"), d})
			tot.Add(tot, d)
		}
	}
	ok := len(want) == len(res.events)
	evTot := bi(0)
	if ok {
		for i := range want {
			if want[i].name != res.events[i][0].Int64() || want[i].amt.Cmp(res.events[i][1]) != 0 {
				ok = false
			}
		}
	}
	for _, ev := range res.events {
		evTot.Add(evTot, ev[1])
	}
	e.rep.Eval("C18.withdraw_events_per_pool", ok, e.cid, e.step, fmt.Sprintf("%s want %v got %v", op.term, want, res.events))
	e.rep.Eval("C18.withdraw_events_sum", evTot.Cmp(tot) == 0, e.cid, e.step, fmt.Sprintf("%s events sum %v withdrawn %v", op.term, evTot, tot))
}

// C18: the typed events of a successful vesting message describe what the message did — which events, how many of each, and every
// attribute: the addresses (compared as addresses, whatever their spelling), the pool, the amount the message moved (not a
// counter of the pool), the flags.
func (e *vestEnv) checkMessageEvents(ctx sdk.Context, op *vestOp, pre *vestSnap, res opResult) {
	const pfx = "chain4energy.c4echain.cfevesting."
	byType := map[string][]map[string]string{}
	for _, ev := range res.allEv {
		if !strings.HasPrefix(ev.Type, pfx) {
			continue
		}
		m := map[string]string{}
		for _, at := range ev.Attributes {
			m[string(at.Key)] = strings.Trim(string(at.Value), "\"")
		}
		byType[strings.TrimPrefix(ev.Type, pfx)] = append(byType[strings.TrimPrefix(ev.Type, pfx)], m)
	}
	sameAddr := func(s string, id int) bool {
		a, err := sdk.AccAddressFromBech32(strings.ToLower(s))
		return err == nil && id >= 0 && id < len(e.addrs) && a.Equals(e.addrs[id])
	}
	denom := e.ta.App.CfevestingKeeper.Denom(ctx)
	want := map[string]int{}
	ok, detail := true, ""
	fail := func(f string, a ...interface{}) {
		if ok {
			ok, detail = false, fmt.Sprintf(f, a...)
		}
	}
	_, existed := pre.accBytes[op.to]
	switch op.kind {
	case "create_pool":
		want["NewVestingPool"] = 1
		for _, m := range byType["NewVestingPool"] {
			if !sameAddr(m["owner"], op.owner) || m["name"] != e.poolName(op.name) || m["amount"] != op.amount.String()+denom ||
				m["duration"] != op.dur.String() || m["vestingType"] != op.vtName {
				fail("NewVestingPool %v does not describe the message (owner %d, pool %s, amount %v%s, duration %v, type %s)", m, op.owner, e.poolName(op.name), op.amount, denom, op.dur, op.vtName)
			}
		}
	case "send":
		want["NewVestingAccountFromVestingPool"], want["NewVestingAccount"] = 1, 1
		for _, m := range byType["NewVestingAccountFromVestingPool"] {
			if !sameAddr(m["owner"], op.owner) || !sameAddr(m["address"], op.to) || m["vesting_pool_name"] != e.poolName(op.name) ||
				m["amount"] != op.amount.String()+denom || m["restart_vesting"] != fmt.Sprint(op.restart) {
				fail("NewVestingAccountFromVestingPool %v does not describe the message (owner %d, to %d, pool %s, amount %v%s moved, restart %v)", m, op.owner, op.to, e.poolName(op.name), op.amount, denom, op.restart)
			}
		}
	case "create_va":
		want["NewVestingAccount"] = 1
	case "split", "move", "move_denoms":
		want["VestingSplit"] = 1
		if !existed {
			want["NewVestingAccount"] = 1
		}
		for _, m := range byType["VestingSplit"] {
			if !sameAddr(m["source"], op.owner) || !sameAddr(m["destination"], op.to) {
				fail("VestingSplit %v does not name the accounts of the message (%d -> %d)", m, op.owner, op.to)
			}
		}
	case "withdraw":
	default:
		return
	}
	for _, m := range byType["NewVestingAccount"] {
		if !sameAddr(m["address"], op.to) {
			fail("NewVestingAccount %v does not name the account the message created (%d)", m, op.to)
		}
	}
	for _, t := range []string{"NewVestingPool", "NewVestingAccountFromVestingPool", "NewVestingAccount", "VestingSplit"} {
		if len(byType[t]) != want[t] {
			fail("%d %s events, the message calls for %d", len(byType[t]), t, want[t])
		}
	}
	e.rep.Eval("C18.vesting_message_events_describe_the_message", ok, e.cid, e.step, op.term+": "+detail)
}

// recoverEpilogue: a message handler that panics in an epilogue is a finding of that case (C20: no message panics), not a crash of the harness
func (e *vestEnv) recoverEpilogue(idx, step int, what string) {
	if r := recover(); r != nil {
		e.rep.Panics = append(e.rep.Panics, fmt.Sprintf("case %d step %d: a vesting message panicked in %s: %v", idx, step, what, r))
		e.rep.Eval("C07.split_and_move_messages_do_not_panic", false, idx, step, fmt.Sprintf("a split / move message panicked in %s: %v", what, r))
	}
}

func (e *vestEnv) checkSummary(ctx sdk.Context) {
	app := e.ta.App
	r, err := app.CfevestingKeeper.VestingsSummary(sdk.WrapSDKContext(ctx), &vesttypes.QueryVestingsSummaryRequest{})
	if err != nil {
		e.rep.Eval("C17.summary", false, e.cid, e.step, "summary query error "+err.Error())
		return
	}
	// recomputation from bank / auth state over the recorded (traced) accounts of this case
	vesting, lockedSum := sdk.ZeroInt(), sdk.ZeroInt()
	gVesting, gLocked := sdk.ZeroInt(), sdk.ZeroInt()
	for _, a := range e.addrs {
		tr, found := app.CfevestingKeeper.GetVestingAccountTrace(ctx, a.String())
		if !found {
			continue
		}
		if cva, ok := app.AccountKeeper.GetAccount(ctx, a).(*vestingtypes.ContinuousVestingAccount); ok {
			v := cva.OriginalVesting.AmountOf(BondDenom).Sub(cva.GetVestedCoins(ctx.BlockTime()).AmountOf(BondDenom))
			l := app.BankKeeper.LockedCoins(ctx, a).AmountOf(BondDenom)
			vesting, lockedSum = vesting.Add(v), lockedSum.Add(l)
			if tr.Genesis || tr.FromGenesisPool || tr.FromGenesisAccount {
				gVesting, gLocked = gVesting.Add(v), gLocked.Add(l)
			}
		}
	}
	pools := app.BankKeeper.GetBalance(ctx, e.addrs[0], BondDenom).Amount
	ok := r.VestingAllAmount.Equal(pools.Add(vesting)) && r.VestingInPoolsAmount.Equal(pools) &&
		r.VestingInAccountsAmount.Equal(vesting) && r.DelegatedVestingAmount.Equal(vesting.Sub(lockedSum))
	e.rep.Eval("C17.summary", ok, e.cid, e.step, fmt.Sprintf("summary %v recomputed pools %v vesting %v locked %v", r, pools, vesting, lockedSum))
	g, err := app.CfevestingKeeper.GenesisVestingsSummary(sdk.WrapSDKContext(ctx), &vesttypes.QueryGenesisVestingsSummaryRequest{})
	if err != nil {
		e.rep.Eval("C17.genesis_summary", false, e.cid, e.step, "genesis summary query error "+err.Error())
		return
	}
	gPools := sdk.ZeroInt()
	for _, a := range e.addrs {
		if avp, found := app.CfevestingKeeper.GetAccountVestingPools(ctx, a.String()); found {
			for _, p := range avp.VestingPools {
				if p.GenesisPool {
					gPools = gPools.Add(p.InitiallyLocked.Sub(p.Sent).Sub(p.Withdrawn))
				}
			}
		}
	}
	okg := g.VestingAllAmount.Equal(gPools.Add(gVesting)) && g.VestingInPoolsAmount.Equal(gPools) &&
		g.VestingInAccountsAmount.Equal(gVesting) && g.DelegatedVestingAmount.Equal(gVesting.Sub(gLocked))
	e.rep.Eval("C17.genesis_summary", okg, e.cid, e.step, fmt.Sprintf("genesis summary %v recomputed pools %v vesting %v locked %v", g, gPools, gVesting, gLocked))
}

var _ = sort.Ints

func max0(i int) int {
	if i < 0 {
		return 0
	}
	return i
}

func b2iInt(b bool) int {
	if b {
		return 1
	}
	return 0
}
