package main

// distr.go — fee distribution: generates sub-distributor graphs (validated by the real
// Params.Validate), inflows and fault patterns, runs the real cfedistributor.BeginBlocker through a
// keeper whose BankKeeper is wrapped (records / injects failures per call), prints every block's
// observation for C4E.Distributor.check_dcase, and evaluates the implementation-side predicates of
// C03, C04, C14 and the distributor part of C18 and C10 (with an independent exact-rational oracle).

import (
	"fmt"
	"math/big"
	"os"
	"sort"
	"strings"
	"time"

	appparams "github.com/chain4energy/c4e-chain/app/params"
	cfedistributor "github.com/chain4energy/c4e-chain/x/cfedistributor"
	distrkeeper "github.com/chain4energy/c4e-chain/x/cfedistributor/keeper"
	distrtypes "github.com/chain4energy/c4e-chain/x/cfedistributor/types"
	mintertypes "github.com/chain4energy/c4e-chain/x/cfeminter/types"
	"github.com/cosmos/cosmos-sdk/store/prefix"
	sdk "github.com/cosmos/cosmos-sdk/types"
	authtypes "github.com/cosmos/cosmos-sdk/x/auth/types"
	vestingtypes "github.com/cosmos/cosmos-sdk/x/auth/vesting/types"
	abci "github.com/tendermint/tendermint/abci/types"
)

// ---------------------------------------------------------------- fault-injecting bank ------
type faultBank struct {
	inner       distrtypes.BankKeeper
	inject      []bool // planned failures per call index
	seen        []bool // what actually happened per call (true = failed)
	sweepFailed bool
	payoutOnly  bool                  // planned failures hit payouts and burns only; sweeps of the sources go through
	sweeps      map[string][]sweepRec // this block: per swept address its sweeps in order (what was asked for, and whether it went through)
}

type sweepRec struct {
	amt sdk.Coins
	ok  bool
}

func (f *faultBank) noteSweep(from sdk.AccAddress, amt sdk.Coins, ok bool) {
	if f.sweeps == nil {
		f.sweeps = map[string][]sweepRec{}
	}
	f.sweeps[from.String()] = append(f.sweeps[from.String()], sweepRec{amt, ok})
}

func (f *faultBank) call(do func() error) error { return f.callKind(do, false) }

func (f *faultBank) callKind(do func() error, sweep bool) error {
	i := len(f.seen)
	if i < len(f.inject) && f.inject[i] && !(sweep && f.payoutOnly) {
		f.seen = append(f.seen, true)
		return fmt.Errorf("injected fault at bank call %d", i)
	}
	err := do()
	f.seen = append(f.seen, err != nil)
	if os.Getenv("VERIF_DEBUG") == "2" {
		fmt.Fprintf(os.Stderr, "call %d err=%v\n", i, err != nil)
	}
	if err != nil && os.Getenv("VERIF_DEBUG") != "" {
		fmt.Fprintln(os.Stderr, "natural bank failure:", err)
	}
	return err
}
func (f *faultBank) SpendableCoins(ctx sdk.Context, addr sdk.AccAddress) sdk.Coins {
	return f.inner.SpendableCoins(ctx, addr)
}
func (f *faultBank) GetAllBalances(ctx sdk.Context, addr sdk.AccAddress) sdk.Coins {
	return f.inner.GetAllBalances(ctx, addr)
}
func (f *faultBank) SendCoinsFromAccountToModule(ctx sdk.Context, a sdk.AccAddress, m string, amt sdk.Coins) error {
	if os.Getenv("VERIF_DEBUG") == "2" {
		fmt.Fprintf(os.Stderr, "  sweep of %s %v\n", a, amt)
	}
	err := f.callKind(func() error { return f.inner.SendCoinsFromAccountToModule(ctx, a, m, amt) }, true)
	if err != nil {
		f.sweepFailed = true
	}
	f.noteSweep(a, amt, err == nil)
	return err
}
func (f *faultBank) SendCoinsFromModuleToAccount(ctx sdk.Context, m string, a sdk.AccAddress, amt sdk.Coins) error {
	if os.Getenv("VERIF_DEBUG") == "2" {
		fmt.Fprintf(os.Stderr, "  payout to %s %v\n", a, amt)
	}
	return f.call(func() error { return f.inner.SendCoinsFromModuleToAccount(ctx, m, a, amt) })
}
func (f *faultBank) SendCoinsFromModuleToModule(ctx sdk.Context, m1, m2 string, amt sdk.Coins) error {
	err := f.callKind(func() error { return f.inner.SendCoinsFromModuleToModule(ctx, m1, m2, amt) }, m2 == distrtypes.DistributorMainAccount)
	if err != nil && m2 == distrtypes.DistributorMainAccount {
		f.sweepFailed = true
	}
	if m2 == distrtypes.DistributorMainAccount {
		f.noteSweep(authtypes.NewModuleAddress(m1), amt, err == nil)
	}
	return err
}
func (f *faultBank) BurnCoins(ctx sdk.Context, m string, amt sdk.Coins) error {
	return f.call(func() error { return f.inner.BurnCoins(ctx, m, amt) })
}

// ---------------------------------------------------------------- configuration -------------
type dAcc struct {
	typ string
	id  string
}

func (a dAcc) toAccount() distrtypes.Account { return distrtypes.Account{Id: a.id, Type: a.typ} }
func (a dAcc) key() string {
	if a.id != "" && a.typ != "" {
		return a.typ + "-" + a.id
	}
	return distrtypes.BurnStateKey
}

type dShare struct {
	name  string
	share sdk.Dec
	dest  dAcc
}
type dSub struct {
	name    string
	sources []dAcc
	primary dAcc
	burn    sdk.Dec
	shares  []dShare
}

type distrCfg struct {
	subs []dSub
}

func (c distrCfg) params() distrtypes.Params {
	var sds []distrtypes.SubDistributor
	for _, s := range c.subs {
		sd := distrtypes.SubDistributor{Name: s.name}
		for _, src := range s.sources {
			a := src.toAccount()
			sd.Sources = append(sd.Sources, &a)
		}
		sd.Destinations.PrimaryShare = s.primary.toAccount()
		sd.Destinations.BurnShare = s.burn
		for _, sh := range s.shares {
			sd.Destinations.Shares = append(sd.Destinations.Shares, &distrtypes.DestinationShare{Name: sh.name, Share: sh.share, Destination: sh.dest.toAccount()})
		}
		sds = append(sds, sd)
	}
	return distrtypes.Params{SubDistributors: sds}
}

// module accounts that may be used freely by the generator (sweeping them does not disturb other modules in module mode)
var distrModules = []string{distrtypes.GreenEnergyBoosterCollector, distrtypes.GovernanceBoosterCollector, distrtypes.ValidatorsRewardsCollector, mintertypes.ModuleName}

type distrEnv struct {
	ta      *TestApp
	rng     *Rng
	rep     *Report
	baseAdr []sdk.AccAddress
	blocked sdk.AccAddress
	addrTab []sdk.AccAddress // index = da_addr ; 0 = main
	addrIdx map[string]int
	idTab   map[string]int // Id string -> rank (0 = "")
	keyTab  map[string]int // state key -> rank
	shareNm map[string]int
	sdNm    map[string]int
	// the configuration has shares adding up to almost one: most inflows are a few coins only
	smallInflows bool
}

func shareDec(rng *Rng) sdk.Dec {
	switch rng.Intn(6) {
	case 0:
		return sdk.ZeroDec()
	case 1:
		return sdk.NewDecWithPrec(rng.I64n(60), 2)
	case 2:
		return sdk.NewDecWithPrec(rng.I64n(400), 3)
	case 3:
		return sdk.NewDecFromBigIntWithPrec(big.NewInt(1+rng.I64n(1000)), 18)
	default:
		return sdk.NewDecFromBigIntWithPrec(rng.BigBelow(new(big.Int).Exp(bi(10), bi(18), nil)), 18).QuoInt64(3)
	}
}

// genDistrCfg builds a random graph; kclass != 0 forces one of the known-finding shapes.
func (e *distrEnv) genDistrCfg(kclass int) distrCfg {
	rng := e.rng
	e.smallInflows = false
	n := 1 + rng.Intn(4)
	var c distrCfg
	internalN := 0
	var pendingInternal []dAcc // internal / main destinations awaiting a consuming sub-distributor
	mainPending := false
	randExternal := func() dAcc {
		if rng.Bool() {
			return dAcc{distrtypes.ModuleAccount, distrModules[rng.Intn(len(distrModules))]}
		}
		if rng.Chance(6) {
			return dAcc{distrtypes.BaseAccount, e.blocked.String()}
		}
		return dAcc{distrtypes.BaseAccount, e.baseAdr[rng.Intn(len(e.baseAdr))].String()}
	}
	for i := 0; i < n; i++ {
		s := dSub{name: fmt.Sprintf("sd%d", i), burn: sdk.ZeroDec()}
		last := i == n-1
		used := map[string]bool{}
		add := func(a dAcc) bool {
			k := a.typ + "-" + a.id
			if a.typ == distrtypes.Main {
				k = distrtypes.Main
			}
			if used[k] {
				return false
			}
			used[k] = true
			return true
		}
		// sources
		if i == 0 || mainPending || rng.Chance(25) {
			m := dAcc{distrtypes.Main, ""}
			add(m)
			s.sources = append(s.sources, m)
			mainPending = false
		}
		for _, p := range pendingInternal {
			if last || rng.Chance(60) {
				if add(p) {
					s.sources = append(s.sources, p)
				}
			}
		}
		var still []dAcc
		for _, p := range pendingInternal {
			if !used[p.typ+"-"+p.id] {
				still = append(still, p)
			}
		}
		pendingInternal = still
		for k := 0; k < rng.Intn(3); k++ {
			a := randExternal()
			if add(a) {
				s.sources = append(s.sources, a)
			}
		}
		if len(s.sources) == 0 {
			m := dAcc{distrtypes.Main, ""}
			add(m)
			s.sources = append(s.sources, m)
		}
		if len(s.sources) > 1 && rng.Chance(50) { // order of sources must not matter: shuffle, MAIN kept first (K1 otherwise)
			rest := s.sources
			mi := -1
			for j, a := range rest {
				if a.typ == distrtypes.Main {
					mi = j
				}
			}
			if mi >= 0 {
				rest[0], rest[mi] = rest[mi], rest[0]
				tail := rest[1:]
				for j := len(tail) - 1; j > 0; j-- {
					k := rng.Intn(j + 1)
					tail[j], tail[k] = tail[k], tail[j]
				}
			}
		}
		// destinations
		dest := func() dAcc {
			for tries := 0; tries < 20; tries++ {
				var a dAcc
				switch {
				case !last && rng.Chance(30):
					if internalN > 0 && rng.Chance(30) {
						a = dAcc{distrtypes.InternalAccount, fmt.Sprintf("int%d", rng.Intn(internalN))}
					} else {
						a = dAcc{distrtypes.InternalAccount, fmt.Sprintf("int%d", internalN)}
					}
				default:
					a = randExternal()
				}
				if add(a) {
					if a.typ == distrtypes.InternalAccount {
						if a.id == fmt.Sprintf("int%d", internalN) {
							internalN++
						}
						pendingInternal = append(pendingInternal, a)
					}
					return a
				}
			}
			a := dAcc{distrtypes.BaseAccount, sdk.AccAddress(rng.Bytes(20)).String()}
			add(a)
			return a
		}
		s.primary = dest()
		if !last && rng.Chance(8) && !used[distrtypes.Main] { // primary MAIN (K5 for events; valid for accounting)
			s.primary = dAcc{distrtypes.Main, ""}
			used[distrtypes.Main] = true
			mainPending = true
		}
		tot := sdk.ZeroDec()
		for k := 0; k < rng.Intn(4); k++ {
			sh := shareDec(rng)
			if tot.Add(sh).GTE(sdk.NewDecWithPrec(95, 2)) {
				continue
			}
			tot = tot.Add(sh)
			s.shares = append(s.shares, dShare{name: fmt.Sprintf("sh%d_%d", i, k), share: sh, dest: dest()})
		}
		if rng.Chance(40) {
			b := shareDec(rng)
			if tot.Add(b).LT(sdk.NewDecWithPrec(98, 2)) {
				s.burn = b
			}
		}
		pNear := 5
		for _, src := range s.sources {
			if src.typ == distrtypes.InternalAccount {
				pNear = 35 // fed by an internal account: its inflow has a fractional part
			}
		}
		if rng.Chance(pNear) {
			// named shares (and the burn share) that add up to one minus one to three units of the last digit: the primary
			// destination gets what the truncations leave, which is next to nothing
			for len(s.shares) < 2 {
				s.shares = append(s.shares, dShare{name: fmt.Sprintf("sh%d_n%d", i, len(s.shares)), share: sdk.ZeroDec(), dest: dest()})
			}
			one := new(big.Int).Exp(bi(10), bi(18), nil)
			left := new(big.Int).Sub(one, bi(1+rng.I64n(3)))
			s.burn = sdk.ZeroDec()
			if rng.Chance(30) {
				b := rng.BigBelow(new(big.Int).Quo(left, bi(3)))
				s.burn = sdk.NewDecFromBigIntWithPrec(b, 18)
				left.Sub(left, b)
			}
			for j := range s.shares {
				var part *big.Int
				if j == len(s.shares)-1 {
					part = left
				} else if rng.Bool() {
					part = new(big.Int).Quo(left, bi(int64(len(s.shares)-j)))
				} else {
					part = rng.BigBelow(new(big.Int).Add(left, bi(1)))
				}
				s.shares[j].share = sdk.NewDecFromBigIntWithPrec(part, 18)
				left = new(big.Int).Sub(left, part)
			}
			e.rep.Count("gen.shares_add_up_to_one_minus_a_few_units")
			e.smallInflows = true // a few coins per block: what reaches a second-level sub-distributor is then below one coin
		}
		c.subs = append(c.subs, s)
	}
	// make sure every pending internal / main destination is consumed: append a closing sub-distributor
	if len(pendingInternal) > 0 || mainPending {
		s := dSub{name: fmt.Sprintf("sd%d", n), burn: sdk.ZeroDec()}
		if mainPending {
			s.sources = append(s.sources, dAcc{distrtypes.Main, ""})
		}
		seen := map[string]bool{}
		for _, p := range pendingInternal {
			if !seen[p.id] {
				seen[p.id] = true
				s.sources = append(s.sources, p)
			}
		}
		s.primary = dAcc{distrtypes.BaseAccount, e.baseAdr[rng.Intn(len(e.baseAdr))].String()}
		if rng.Chance(50) {
			s.shares = append(s.shares, dShare{name: "shlast", share: shareDec(rng).QuoInt64(2), dest: dAcc{distrtypes.ModuleAccount, distrModules[rng.Intn(len(distrModules))]}})
		}
		c.subs = append(c.subs, s)
	}
	// ---- known-finding shapes
	switch kclass {
	case 1: // a non-MAIN source listed before MAIN in one sub-distributor
		c.subs[0].sources = []dAcc{{distrtypes.BaseAccount, e.baseAdr[0].String()}, {distrtypes.Main, ""}}
	case 2: // main account through an alias
		switch rng.Intn(3) {
		case 0:
			c.subs[0].sources = append(c.subs[0].sources, dAcc{distrtypes.ModuleAccount, distrtypes.DistributorMainAccount})
		case 1:
			c.subs[0].shares = append(c.subs[0].shares, dShare{name: "alias", share: sdk.NewDecWithPrec(1, 2), dest: dAcc{distrtypes.ModuleAccount, distrtypes.DistributorMainAccount}})
		default:
			c.subs[0].sources = append(c.subs[0].sources, dAcc{distrtypes.BaseAccount, e.addrTab[0].String()})
		}
	case 3: // a named share whose destination is MAIN (in a sub-distributor that does not itself read MAIN)
		pre := dSub{name: "pre", burn: sdk.ZeroDec(), sources: []dAcc{{distrtypes.BaseAccount, e.baseAdr[2].String()}},
			primary: dAcc{distrtypes.BaseAccount, e.baseAdr[3].String()},
			shares:  []dShare{{name: "tomain", share: sdk.NewDecWithPrec(int64(1+rng.Intn(60)), 2), dest: dAcc{distrtypes.Main, ""}}}}
		c.subs = append([]dSub{pre}, c.subs...)
	case 4: // same id, different account types
		c.subs[0].shares = append(c.subs[0].shares,
			dShare{name: "dupint", share: sdk.NewDecWithPrec(1, 2), dest: dAcc{distrtypes.InternalAccount, distrtypes.GreenEnergyBoosterCollector}})
		c.subs[0].shares = append(c.subs[0].shares,
			dShare{name: "dupmod", share: sdk.NewDecWithPrec(1, 2), dest: dAcc{distrtypes.ModuleAccount, distrtypes.GreenEnergyBoosterCollector}})
		c.subs = append(c.subs, dSub{name: "closing", burn: sdk.ZeroDec(), sources: []dAcc{{distrtypes.InternalAccount, distrtypes.GreenEnergyBoosterCollector}},
			primary: dAcc{distrtypes.BaseAccount, e.baseAdr[1].String()}})
	}
	return c
}

// classification of a configuration (decidable predicates; complements are the known-finding classes)
func (c distrCfg) classes(mainAddr string) (k1, k2, k3, k4, k5 bool) {
	ids := map[string]string{}
	chk := func(a dAcc, isSource bool) {
		if a.typ == distrtypes.ModuleAccount && a.id == distrtypes.DistributorMainAccount {
			k2 = true
		}
		if a.typ == distrtypes.BaseAccount && a.id == mainAddr {
			k2 = true
		}
		if a.typ != distrtypes.Main {
			if t, ok := ids[a.id]; ok && t != a.typ {
				k4 = true
			}
			ids[a.id] = a.typ
		}
	}
	for _, s := range c.subs {
		seenNonMain := false
		for _, src := range s.sources {
			if src.typ == distrtypes.Main && seenNonMain {
				k1 = true
			}
			if src.typ != distrtypes.Main {
				seenNonMain = true
			}
			chk(src, true)
		}
		chk(s.primary, false)
		if s.primary.typ == distrtypes.Main {
			k5 = true
		}
		for _, sh := range s.shares {
			chk(sh.dest, false)
			if sh.dest.typ == distrtypes.Main {
				k3 = true
			}
		}
	}
	return
}

// ---------------------------------------------------------------- interning / terms ---------
func (e *distrEnv) intern(cs ...distrCfg) {
	c := distrCfg{}
	for _, x := range cs { // the union: ranks of ids, state keys and names are shared by all configurations of a case
		c.subs = append(c.subs, x.subs...)
	}
	app := e.ta.App
	e.idTab = map[string]int{"": 0}
	e.keyTab = map[string]int{}
	e.shareNm = map[string]int{}
	e.sdNm = map[string]int{}
	var ids, keys []string
	keys = append(keys, distrtypes.BurnStateKey)
	all := func(f func(a dAcc)) {
		for _, s := range c.subs {
			for _, a := range s.sources {
				f(a)
			}
			f(s.primary)
			for _, sh := range s.shares {
				f(sh.dest)
			}
		}
	}
	all(func(a dAcc) { ids = append(ids, a.id); keys = append(keys, a.key()) })
	sort.Strings(ids)
	sort.Strings(keys)
	for _, s := range ids {
		if _, ok := e.idTab[s]; !ok {
			e.idTab[s] = len(e.idTab)
		}
	}
	for _, k := range keys {
		if _, ok := e.keyTab[k]; !ok {
			e.keyTab[k] = len(e.keyTab) + 1
		}
	}
	// addresses
	main := app.AccountKeeper.GetModuleAddress(distrtypes.DistributorMainAccount)
	e.addrTab = []sdk.AccAddress{main}
	e.addrIdx = map[string]int{main.String(): 0}
	all(func(a dAcc) {
		var ad sdk.AccAddress
		switch a.typ {
		case distrtypes.ModuleAccount:
			ad = app.AccountKeeper.GetModuleAddress(a.id)
		case distrtypes.BaseAccount:
			ad, _ = sdk.AccAddressFromBech32(a.id)
		default:
			return
		}
		if _, ok := e.addrIdx[ad.String()]; !ok {
			e.addrIdx[ad.String()] = len(e.addrTab)
			e.addrTab = append(e.addrTab, ad)
		}
	})
	for _, s := range c.subs {
		if _, ok := e.sdNm[s.name]; !ok {
			e.sdNm[s.name] = len(e.sdNm) + 1
		}
		for _, sh := range s.shares {
			if _, ok := e.shareNm[sh.name]; !ok {
				e.shareNm[sh.name] = len(e.shareNm) + 1
			}
		}
	}
}

func (c distrCfg) clone() distrCfg {
	var o distrCfg
	for _, s := range c.subs {
		n := dSub{name: s.name, primary: s.primary, burn: s.burn}
		n.sources = append(n.sources, s.sources...)
		n.shares = append(n.shares, s.shares...)
		o.subs = append(o.subs, n)
	}
	return o
}

// mapAccounts rewrites every account of the configuration in place.
func (c *distrCfg) mapAccounts(f func(a dAcc) dAcc) {
	for i := range c.subs {
		for j := range c.subs[i].sources {
			c.subs[i].sources[j] = f(c.subs[i].sources[j])
		}
		c.subs[i].primary = f(c.subs[i].primary)
		for j := range c.subs[i].shares {
			c.subs[i].shares[j].dest = f(c.subs[i].shares[j].dest)
		}
	}
}

// genUpdate derives the configuration a governance update installs mid-history from the one in force: the same graph with an
// internal account's id re-typed to a module or base account (cfg itself is changed so that the id is one both types accept),
// a freshly generated configuration, or the same configuration with other share and burn fractions.
func (e *distrEnv) genUpdate(cfg *distrCfg, mainAddr string) (upd *distrCfg, retyped bool) {
	rng := e.rng
	okClass := func(c distrCfg) bool {
		k1, k2, k3, k4, _ := c.classes(mainAddr)
		return !k1 && !k2 && !k3 && !k4 && c.params().Validate() == nil
	}
	switch []int{0, 0, 0, 0, 0, 1, 1, 2, 2, 2}[rng.Intn(10)] {
	case 0:
		used := map[string]bool{}
		var internals []string
		probe := cfg.clone()
		probe.mapAccounts(func(a dAcc) dAcc {
			used[a.id] = true
			if a.typ == distrtypes.InternalAccount {
				internals = append(internals, a.id)
			}
			return a
		})
		if len(internals) == 0 {
			break
		}
		old := internals[rng.Intn(len(internals))]
		type cand struct{ id, typ string }
		var cands []cand
		for _, m := range distrModules {
			if !used[m] {
				cands = append(cands, cand{m, distrtypes.ModuleAccount})
			}
		}
		for _, b := range e.baseAdr {
			if !used[b.String()] {
				cands = append(cands, cand{b.String(), distrtypes.BaseAccount})
			}
		}
		if len(cands) == 0 {
			break
		}
		nw := cands[rng.Intn(len(cands))]
		if cands[0].typ == distrtypes.ModuleAccount && rng.Chance(70) {
			nw = cands[0] // (the state key of a module account sorts after the stale internal one, that of a base account before it)
		}
		renamed := cfg.clone()
		renamed.mapAccounts(func(a dAcc) dAcc {
			if a.typ == distrtypes.InternalAccount && a.id == old {
				a.id = nw.id
			}
			return a
		})
		next := renamed.clone()
		next.mapAccounts(func(a dAcc) dAcc {
			if a.typ == distrtypes.InternalAccount && a.id == nw.id {
				a.typ = nw.typ
			}
			return a
		})
		// in half of the cases the re-typed account stops being a source as well: what it is paid stays on a real account
		if rng.Chance(65) {
			final := distrCfg{}
			for _, s := range next.subs {
				n := dSub{name: s.name, primary: s.primary, burn: s.burn, shares: s.shares}
				for _, src := range s.sources {
					if !(src.typ == nw.typ && src.id == nw.id) {
						n.sources = append(n.sources, src)
					}
				}
				if len(n.sources) > 0 {
					final.subs = append(final.subs, n)
				}
			}
			if okClass(renamed) && okClass(final) {
				*cfg = renamed
				e.rep.Count("update.retype_internal_to_final_" + nw.typ)
				if os.Getenv("VERIF_DEBUG") != "" {
					fmt.Fprintf(os.Stderr, "retype-final: %s -> %s %s\n", old, nw.typ, nw.id)
				}
				return &final, true
			}
		}
		if okClass(renamed) && okClass(next) {
			*cfg = renamed
			e.rep.Count("update.retype_internal_to_" + nw.typ)
			return &next, true
		}
	case 1:
		for tries := 0; tries < 40; tries++ {
			c := e.genDistrCfg(0)
			if okClass(c) {
				e.rep.Count("update.fresh_configuration")
				return &c, false
			}
		}
	}
	next := cfg.clone()
	for i := range next.subs {
		tot := sdk.ZeroDec()
		for j := range next.subs[i].shares {
			sh := shareDec(rng)
			if tot.Add(sh).GTE(sdk.NewDecWithPrec(95, 2)) {
				sh = sdk.ZeroDec()
			}
			tot = tot.Add(sh)
			next.subs[i].shares[j].share = sh
		}
		next.subs[i].burn = sdk.ZeroDec()
		if b := shareDec(rng); rng.Chance(50) && tot.Add(b).LT(sdk.NewDecWithPrec(98, 2)) {
			next.subs[i].burn = b
		}
	}
	if okClass(next) {
		e.rep.Count("update.shares_changed")
		return &next, false
	}
	return nil, false
}

func (e *distrEnv) accTerm(a dAcc) string {
	t := map[string]int{distrtypes.Main: 0, distrtypes.InternalAccount: 1, distrtypes.ModuleAccount: 2, distrtypes.BaseAccount: 3}[a.typ]
	addr := -1
	switch a.typ {
	case distrtypes.ModuleAccount:
		addr = e.addrIdx[e.ta.App.AccountKeeper.GetModuleAddress(a.id).String()]
	case distrtypes.BaseAccount:
		ad, _ := sdk.AccAddressFromBech32(a.id)
		addr = e.addrIdx[ad.String()]
	}
	return fmt.Sprintf("{| da_type := %d; da_id := %d; da_key := %d; da_addr := %s |}", t, e.idTab[a.id], e.keyTab[a.key()], zI(int64(addr)))
}

func (e *distrEnv) cfgTerm(c distrCfg) string {
	var subs []string
	for _, s := range c.subs {
		var srcs, shs []string
		for _, a := range s.sources {
			srcs = append(srcs, e.accTerm(a))
		}
		for _, sh := range s.shares {
			shs = append(shs, fmt.Sprintf("{| sh_name := %d; sh_share := %s; sh_dest := %s |}", e.shareNm[sh.name], zB(sh.share.BigInt()), e.accTerm(sh.dest)))
		}
		subs = append(subs, fmt.Sprintf("{| sd_name := %d; sd_sources := %s; sd_primary := %s; sd_burn := %s; sd_shares := %s |}",
			e.sdNm[s.name], zList(srcs), e.accTerm(s.primary), zB(s.burn.BigInt()), zList(shs)))
	}
	return zList(subs)
}

func denomIdx(d string) int {
	for i, n := range denomNames {
		if n == d {
			return i
		}
	}
	return -1
}

func decCoinsTerm(c sdk.DecCoins) string {
	var xs []string
	for _, dc := range c {
		xs = append(xs, zPair(zI(int64(denomIdx(dc.Denom))), zB(dc.Amount.BigInt())))
	}
	return zList(xs)
}

// ---------------------------------------------------------------- observation ---------------
func (e *distrEnv) observe(ctx sdk.Context, k distrkeeper.Keeper, burned sdk.Coins, denoms []int) []*big.Int {
	app := e.ta.App
	states := k.GetAllStates(ctx)
	out := []*big.Int{bi(int64(len(states)))}
	for _, s := range states {
		out = append(out, bi(int64(e.keyTab[s.GetStateKey()])), bi(b2i(s.Burn)))
		for _, d := range denoms {
			out = append(out, s.Remains.AmountOf(denomNames[d]).BigInt())
		}
	}
	for _, a := range e.addrTab {
		for _, d := range denoms {
			out = append(out, app.BankKeeper.GetBalance(ctx, a, denomNames[d]).Amount.BigInt())
		}
	}
	for _, d := range denoms {
		out = append(out, burned.AmountOf(denomNames[d]).BigInt())
	}
	return out
}

type sdEvents struct {
	name string
	evs  [][]*big.Int // kind, share name, amounts per denom
}

func (e *distrEnv) parseEvents(evs sdk.Events, denoms []int, c distrCfg) (out []*big.Int, perSd map[string]sdk.DecCoins, ok bool) {
	var groups []sdEvents
	perSd = map[string]sdk.DecCoins{}
	ok = true
	push := func(sd string, row []*big.Int, amt sdk.DecCoins) {
		if len(groups) == 0 || groups[len(groups)-1].name != sd {
			groups = append(groups, sdEvents{name: sd})
		}
		groups[len(groups)-1].evs = append(groups[len(groups)-1].evs, row)
		perSd[sd] = perSd[sd].Add(amt...)
	}
	for _, ev := range evs {
		if !strings.Contains(ev.Type, "cfedistributor") {
			continue
		}
		msg, err := sdk.ParseTypedEvent(abci.Event(ev))
		if err != nil {
			ok = false
			continue
		}
		switch m := msg.(type) {
		case *distrtypes.Distribution:
			nm := int64(e.shareNm[m.ShareName])
			if m.ShareName == m.Subdistributor+"_primary" {
				nm = -1
			}
			row := []*big.Int{bi(1), bi(nm)}
			for _, d := range denoms {
				row = append(row, m.Amount.AmountOf(denomNames[d]).BigInt())
			}
			push(m.Subdistributor, row, m.Amount)
		case *distrtypes.DistributionBurn:
			row := []*big.Int{bi(2), bi(0)}
			for _, d := range denoms {
				row = append(row, m.Amount.AmountOf(denomNames[d]).BigInt())
			}
			push(m.Subdistributor, row, m.Amount)
		}
	}
	out = append(out, bi(int64(len(groups))))
	for _, g := range groups {
		out = append(out, bi(int64(e.sdNm[g.name])), bi(int64(len(g.evs))))
		for _, r := range g.evs {
			out = append(out, r...)
		}
	}
	return
}

// ---------------------------------------------------------------- exact oracle (C04, C18) ----
type ratCoins map[string]*big.Rat

func (r ratCoins) add(d string, x *big.Rat) {
	if r[d] == nil {
		r[d] = new(big.Rat)
	}
	r[d].Add(r[d], x)
}

type distrOracle struct {
	cfg      distrCfg
	internal map[string]ratCoins // pending pass-through amounts of internal accounts
	unbooked ratCoins            // coins in main not yet attributed (arrivals + MAIN destinations)
	credited map[string]ratCoins // destination key -> cumulative exact credit (non-internal, incl. burn "BURN")
	inflowSd map[string]ratCoins // last block: inflow per sub-distributor
	isSource func(a dAcc) bool   // module / base account that is swept by some sub-distributor (pass-through)
	passKey  func(a dAcc) string
}

func decRat(d sdk.Dec) *big.Rat {
	return new(big.Rat).SetFrac(d.BigInt(), new(big.Int).Exp(bi(10), bi(18), nil))
}

// block: arrivals = coins that arrived in main since the last block; bal(account key) = swept balance of a module/base source
func (o *distrOracle) block(arrivals ratCoins, sweep func(a dAcc) ratCoins) {
	o.inflowSd = map[string]ratCoins{}
	for d, x := range arrivals {
		o.unbooked.add(d, x)
	}
	for _, s := range o.cfg.subs {
		in := ratCoins{}
		for _, src := range s.sources {
			switch src.typ {
			case distrtypes.Main:
				for d, x := range o.unbooked {
					in.add(d, x)
				}
				o.unbooked = ratCoins{}
			case distrtypes.InternalAccount:
				for d, x := range o.internal[src.id] {
					in.add(d, x)
				}
				o.internal[src.id] = ratCoins{}
			default:
				for d, x := range sweep(src) {
					in.add(d, x)
				}
				pk := o.passKey(src)
				for d, x := range o.internal[pk] {
					in.add(d, x)
				}
				o.internal[pk] = ratCoins{}
			}
		}
		o.inflowSd[s.name] = in
		give := func(a dAcc, burn bool, amt ratCoins) {
			for d, x := range amt {
				if x.Sign() == 0 {
					continue
				}
				switch {
				case burn:
					if o.credited["BURN"] == nil {
						o.credited["BURN"] = ratCoins{}
					}
					o.credited["BURN"].add(d, x)
				case a.typ == distrtypes.Main:
					o.unbooked.add(d, x)
				case a.typ == distrtypes.InternalAccount:
					if o.internal[a.id] == nil {
						o.internal[a.id] = ratCoins{}
					}
					o.internal[a.id].add(d, x)
				case o.isSource(a):
					pk := o.passKey(a)
					if o.internal[pk] == nil {
						o.internal[pk] = ratCoins{}
					}
					o.internal[pk].add(d, x)
				default:
					k := a.key()
					if o.credited[k] == nil {
						o.credited[k] = ratCoins{}
					}
					o.credited[k].add(d, x)
				}
			}
		}
		rest := ratCoins{}
		for d, x := range in {
			rest[d] = new(big.Rat).Set(x)
		}
		part := func(sh sdk.Dec) ratCoins {
			p := ratCoins{}
			for d, x := range in {
				y := new(big.Rat).Mul(x, decRat(sh))
				p[d] = y
				rest[d].Sub(rest[d], y)
			}
			return p
		}
		for _, sh := range s.shares {
			give(sh.dest, false, part(sh.share))
		}
		give(dAcc{}, true, part(s.burn))
		give(s.primary, false, rest)
	}
}

// ---------------------------------------------------------------- events vs moved coins (C18) ------
// eventFlowCheck follows one block sub-distributor by sub-distributor using only what was observable from outside: the states and the
// main balance before the block, the bank's log of sweeps (what was asked for, whether it went through), and the typed events.
// A sub-distributor's inflow is what its sources really brought: the unbooked part of the main balance for MAIN, the coins of a
// sweep that went through, and the recorded remains of the source that are re-queued; its Distribution / DistributionBurn events
// must add up to exactly that (Dec arithmetic is exact here: the primary share is the inflow minus the truncated shares).  The
// events then say which states were credited, which gives the next sub-distributor's re-queued remains.  Unlike the exact-share
// oracle this also judges blocks in which a sweep failed.
func (e *distrEnv) eventFlowCheck(c distrCfg, pre []distrtypes.State, mainBefore sdk.Coins, sweeps map[string][]sweepRec, evs sdk.Events) (ok bool, detail string) {
	rem := map[string]sdk.DecCoins{}
	for _, st := range pre {
		rem[st.GetStateKey()] = st.Remains
	}
	mainBal := sdk.NewDecCoinsFromCoins(mainBefore...)
	next := map[string]int{}
	type evRec struct {
		key string // state key credited ("" = the main account itself)
		amt sdk.DecCoins
	}
	perSd := map[string][]evRec{}
	for _, ev := range evs {
		if !strings.Contains(ev.Type, "cfedistributor") {
			continue
		}
		msg, err := sdk.ParseTypedEvent(abci.Event(ev))
		if err != nil {
			return false, "typed event could not be parsed"
		}
		switch m := msg.(type) {
		case *distrtypes.Distribution:
			key := ""
			if m.Destination != nil && m.Destination.Type != distrtypes.Main {
				key = dAcc{m.Destination.Type, m.Destination.Id}.key()
			}
			perSd[m.Subdistributor] = append(perSd[m.Subdistributor], evRec{key, m.Amount})
		case *distrtypes.DistributionBurn:
			perSd[m.Subdistributor] = append(perSd[m.Subdistributor], evRec{distrtypes.BurnStateKey, m.Amount})
		}
	}
	for _, sd := range c.subs {
		inflow := sdk.DecCoins{}
		for _, src := range sd.sources {
			switch src.typ {
			case distrtypes.Main:
				booked := sdk.DecCoins{}
				for _, r := range rem {
					booked = booked.Add(r...)
				}
				unb, neg := mainBal.SafeSub(booked)
				if neg {
					return false, fmt.Sprintf("sub-distributor %s: more is booked (%s) than the main account holds (%s)", sd.name, booked, mainBal)
				}
				inflow = inflow.Add(unb...)
			default:
				if src.typ != distrtypes.InternalAccount {
					ad := e.addrOf(src).String()
					if q := sweeps[ad]; next[ad] < len(q) {
						if q[next[ad]].ok {
							moved := sdk.NewDecCoinsFromCoins(q[next[ad]].amt...)
							inflow = inflow.Add(moved...)
							mainBal = mainBal.Add(moved...)
						}
						next[ad]++
					}
				}
				if r := rem[src.key()]; !r.IsZero() {
					inflow = inflow.Add(r...)
					rem[src.key()] = sdk.DecCoins{}
				}
			}
		}
		reported := sdk.DecCoins{}
		for _, r := range perSd[sd.name] {
			reported = reported.Add(r.amt...)
			if r.key != "" {
				rem[r.key] = rem[r.key].Add(r.amt...)
			}
		}
		if !reported.IsEqual(inflow) {
			return false, fmt.Sprintf("sub-distributor %s: its events add up to %s, its sources brought %s", sd.name, reported, inflow)
		}
	}
	return true, ""
}

// ---------------------------------------------------------------- the case ------------------
func runDistrCase(ta *TestApp, seed uint64, idx int, rep *Report, profile string) string {
	rng := NewRng(seed, uint64(idx)+13000000)
	app := ta.App
	base, _ := ta.Ctx().CacheContext()
	ctx := base.WithBlockTime(time.Unix(1700000000, 0).UTC())
	e := &distrEnv{ta: ta, rng: rng, rep: rep}
	for i := 0; i < 5; i++ {
		e.baseAdr = append(e.baseAdr, sdk.AccAddress(rng.Bytes(20)))
	}
	e.blocked = app.AccountKeeper.GetModuleAddress(authtypes.FeeCollectorName)
	mainAddr := app.AccountKeeper.GetModuleAddress(distrtypes.DistributorMainAccount)
	e.addrTab = []sdk.AccAddress{mainAddr}

	kclass := 0
	updMode := profile == "updates"
	if profile != "clean" && !updMode && rng.Chance(14) {
		kclass = 1 + rng.Intn(4)
	}
	var cfg distrCfg
	var params distrtypes.Params
	okCfg := false
	for tries := 0; tries < 40 && !okCfg; tries++ {
		cfg = e.genDistrCfg(kclass)
		params = cfg.params()
		if err := params.Validate(); err == nil {
			okCfg = true
		} else {
			rep.Count("gen.retry")
		}
	}
	if !okCfg {
		cfg = distrCfg{subs: []dSub{{name: "sd0", burn: sdk.ZeroDec(), sources: []dAcc{{distrtypes.Main, ""}}, primary: dAcc{distrtypes.BaseAccount, e.baseAdr[0].String()}}}}
		params = cfg.params()
		kclass = 0
	}
	k1, k2, k3, k4, k5 := cfg.classes(mainAddr.String())
	cls := ""
	switch {
	case k1:
		cls = ".K1"
	case k2:
		cls = ".K2"
	case k4:
		cls = ".K4"
	case k3:
		cls = ".K3"
	}
	evCls := cls
	if evCls == "" && k5 {
		evCls = ".K5"
	}
	rep.Count("class" + cls)
	// a governance update of the whole configuration somewhere in the history (profile updates)
	var cfg2 *distrCfg
	retyped := false
	if updMode && cls == "" {
		cfg2, retyped = e.genUpdate(&cfg, mainAddr.String())
		params = cfg.params()
	}
	rep.Count(fmt.Sprintf("subs.%d", len(cfg.subs)))
	if cfg2 != nil {
		e.intern(cfg, *cfg2)
	} else {
		e.intern(cfg)
	}

	// keeper over the same store with the wrapped bank
	fb := &faultBank{inner: app.BankKeeper}
	k := *distrkeeper.NewKeeper(app.AppCodec(), app.GetKey(distrtypes.StoreKey), app.GetMemKey(distrtypes.MemStoreKey),
		app.GetSubspace(distrtypes.ModuleName), fb, app.AccountKeeper, appparams.GetAuthority())
	{ // start from an empty state store
		st := prefix.NewStore(ctx.KVStore(app.GetKey(distrtypes.StoreKey)), distrtypes.StateKeyPrefix)
		it := st.Iterator(nil, nil)
		var keys [][]byte
		for ; it.Valid(); it.Next() {
			keys = append(keys, append([]byte{}, it.Key()...))
		}
		it.Close()
		for _, kk := range keys {
			st.Delete(kk)
		}
	}
	if err := k.SetParams(ctx, params); err != nil {
		panic(err)
	}
	multi := rng.Chance(40)
	denoms := []int{0}
	if multi {
		denoms = []int{0, 1, 2}
	}
	// make sure module accounts exist
	for _, m := range distrModules {
		app.AccountKeeper.GetModuleAccount(ctx, m)
	}
	app.AccountKeeper.GetModuleAccount(ctx, distrtypes.DistributorMainAccount)
	// some base-account sources are continuous vesting accounts that still lock part of their balance: the sweep of the whole
	// balance then fails in the bank by itself (recorded like any other failed call), the source keeps everything and nothing is booked
	if rng.Chance(30) {
		for _, sd := range cfg.subs {
			for _, src := range sd.sources {
				if src.typ != distrtypes.BaseAccount || !rng.Chance(60) {
					continue
				}
				addr, err := sdk.AccAddressFromBech32(src.id)
				if err != nil || addr.Equals(mainAddr) || app.AccountKeeper.GetAccount(ctx, addr) != nil {
					continue
				}
				// not for pass-through accounts: what a failed payout leaves booked for an account that is also a source is
				// re-queued by its sub-distributor, while a successful payout would stay on the unsweepable account for ever
				isDest := false
				for _, o := range cfg.subs {
					if o.primary == src {
						isDest = true
					}
					for _, sh := range o.shares {
						if sh.dest == src {
							isDest = true
						}
					}
				}
				if isDest {
					continue
				}
				lockedAmt := sdk.NewIntFromBigInt(rng.LogUniform(12))
				ov := sdk.NewCoins(sdk.NewCoin(denomNames[0], lockedAmt))
				bacc := authtypes.NewBaseAccountWithAddress(addr)
				bacc.AccountNumber = app.AccountKeeper.GetNextAccountNumber(ctx)
				now := ctx.BlockTime().Unix()
				cva := vestingtypes.NewContinuousVestingAccount(bacc, ov, now+1000000, now+2000000) // vesting has not started: all of it is locked
				app.AccountKeeper.SetAccount(ctx, cva)
				fundAddr(ctx, ta, addr, ov.Add(sdk.NewCoin(denomNames[0], sdk.NewInt(rng.I64n(1000)))))
				rep.Count("source.vesting_account_with_locked_coins")
			}
		}
	}
	// drain whatever the genesis left in the tracked accounts so that the model's world is complete
	worldBal := func() string {
		var bs []string
		for i, a := range e.addrTab {
			var cs []string
			for _, d := range denoms {
				amt := app.BankKeeper.GetBalance(ctx, a, denomNames[d]).Amount
				if !amt.IsZero() {
					cs = append(cs, zPair(zI(int64(d)), zB(amt.BigInt())))
				}
			}
			if len(cs) > 0 {
				bs = append(bs, zPair(zI(int64(i)), zList(cs)))
			}
		}
		return zList(bs)
	}
	faultsMode := (profile == "faults" || (profile == "" && rng.Chance(25)) || (updMode && cfg2 != nil && !retyped && rng.Chance(45))) && !k1 && !k2 // over-booked classes fail naturally; no injection there
	// in 45% of the fault-mode cases only payouts and burns fail (the hypotheses of the ledger refinement theorem)
	fb.payoutOnly = faultsMode && (rng.Chance(45) || updMode) // with an update in the history only payouts and burns fail: a delayed
	// sweep would be routed by another configuration than in the fault-free twin, which is a legitimate difference
	if fb.payoutOnly {
		rep.Count("faults_mode.payouts_and_burns_only")
	}
	nBlocks := 2 + rng.Intn(10)
	// in a third of the cases a governance message that changes a burn share runs before some block without taking effect: it is
	// refused by validation (the shares would add up to one or more), or it is valid but runs on a branch of the state that is dropped
	attemptAt, attemptSd, attemptValid := -1, 0, false
	if rng.Chance(33) {
		attemptAt, attemptSd, attemptValid = rng.Intn(nBlocks), rng.Intn(len(cfg.subs)), rng.Bool()
	}
	updAt := -1
	if cfg2 != nil {
		if nBlocks < 5 {
			nBlocks = 5
		}
		updAt = 1 + rng.Intn(nBlocks-3) // at least one block before the update and two after it
	}
	amountMax := 3 + rng.Intn(24)
	randCoins := func() sdk.Coins {
		cs := sdk.NewCoins()
		// with several denominations some inflows carry none of the first one (only "foreign" coins arrive in that block)
		skipFirst := len(denoms) > 1 && rng.Chance(18)
		for _, d := range denoms {
			if (d == 0 && !skipFirst) || (d != 0 && rng.Chance(60)) {
				var a *big.Int
				sel := rng.Intn(5)
				if e.smallInflows && sel != 1 {
					sel = 0
				}
				switch sel {
				case 0:
					a = bi(1 + rng.I64n(5))
				default:
					a = rng.LogUniform(amountMax)
				}
				cs = cs.Add(sdk.NewCoin(denomNames[d], sdk.NewIntFromBigInt(a)))
			}
		}
		return cs
	}
	world := fmt.Sprintf("{| dw_subs := %s; dw_states := []; dw_bal := %s; dw_burned := []; dw_burnkey := %d |}",
		e.cfgTerm(cfg), worldBal(), e.keyTab[distrtypes.BurnStateKey])

	type plannedBlock struct {
		inflows []struct {
			addr  int
			coins sdk.Coins
		}
		inject []bool
	}
	var plan []plannedBlock
	cleanTail := 0
	cyclic := e.hasCycle(cfg) || (cfg2 != nil && e.hasCycle(*cfg2))
	if faultsMode {
		cleanTail = len(cfg.subs) + 2 // enough fault-free blocks to flush every feed-backward (but acyclic) chain
		if cfg2 != nil && len(cfg2.subs)+2 > cleanTail {
			cleanTail = len(cfg2.subs) + 2
		}
	}
	for b := 0; b < nBlocks+cleanTail; b++ {
		var pb plannedBlock
		if b < nBlocks {
			if rng.Chance(85) {
				pb.inflows = append(pb.inflows, struct {
					addr  int
					coins sdk.Coins
				}{0, randCoins()})
			}
			for ai := 1; ai < len(e.addrTab); ai++ {
				if rng.Chance(25) {
					pb.inflows = append(pb.inflows, struct {
						addr  int
						coins sdk.Coins
					}{ai, randCoins()})
				}
			}
			if faultsMode {
				for j := 0; j < 12; j++ {
					pb.inject = append(pb.inject, rng.Chance(30))
				}
			}
		}
		plan = append(plan, pb)
	}

	// ---- one execution of the plan (with or without injected faults) on a fresh cache context
	type runResult struct {
		opTerms  []string
		finalBal map[int]sdk.Coins
		finalRem map[string]sdk.DecCoins
		panicked bool
	}
	execute := func(withFaults bool, record bool) runResult {
		rctx, _ := ctx.CacheContext()
		var res runResult
		burned := sdk.NewCoins()
		oracle := &distrOracle{cfg: cfg, internal: map[string]ratCoins{}, unbooked: ratCoins{}, credited: map[string]ratCoins{},
			isSource: func(a dAcc) bool { return e.isSource(cfg, a) }, passKey: func(a dAcc) string { return "addr:" + e.addrOf(a).String() }}
		ext := map[int]sdk.Coins{} // funds that arrived directly at a source address and were not swept yet
		fb.sweepFailed = false
		// initial balances of tracked addresses count as arrivals / sweepable balances
		totalIn := sdk.NewCoins()
		for _, a := range e.addrTab {
			totalIn = totalIn.Add(app.BankKeeper.GetAllBalances(rctx, a)...)
		}
		startBal := map[int]sdk.Coins{}
		for i, a := range e.addrTab {
			startBal[i] = app.BankKeeper.GetAllBalances(rctx, a)
			ext[i] = startBal[i]
		}
		lastMain := sdk.NewCoins()
		cur := cfg
		updated := false
		prevRem := map[string]sdk.DecCoins{}
		for bIdx, pb := range plan {
			if bIdx == updAt {
				if err := k.SetParams(rctx, cfg2.params()); err != nil {
					panic(err)
				}
				cur, updated = *cfg2, true
				if record {
					res.opTerms = append(res.opTerms, fmt.Sprintf("(DSetSubs %s, [])", e.cfgTerm(cur)))
				}
			}
			for _, in := range pb.inflows {
				fundAddr(rctx, ta, e.addrTab[in.addr], in.coins)
				totalIn = totalIn.Add(in.coins...)
				ext[in.addr] = ext[in.addr].Add(in.coins...)
				if record {
					res.opTerms = append(res.opTerms, fmt.Sprintf("(DInflow %d %s, [])", in.addr, coinsTerm(in.coins)))
				}
			}
			// oracle inputs
			mainNow := app.BankKeeper.GetAllBalances(rctx, mainAddr)
			arr := ratCoins{}
			for _, cn := range mainNow.Sub(lastMain...) { // arrivals since the end of the last block
				arr[cn.Denom] = new(big.Rat).SetInt(cn.Amount.BigInt())
			}
			fb.inject = nil
			if withFaults {
				fb.inject = pb.inject
			}
			if bIdx == attemptAt && !updated {
				burn := sdk.NewDec(1) // refused: the shares of a sub-distributor must add up to less than one
				if attemptValid {
					burn = sdk.NewDecWithPrec(int64(1+rng.Intn(3)), 2)
					tot := burn
					for _, sh := range cur.subs[attemptSd%len(cur.subs)].shares {
						tot = tot.Add(sh.share)
					}
					if tot.GTE(sdk.OneDec()) {
						burn = sdk.ZeroDec()
					}
				}
				cc, _ := rctx.CacheContext()
				func() {
					defer func() { _ = recover() }()
					distrkeeper.NewMsgServerImpl(k).UpdateSubDistributorBurnShareParam(sdk.WrapSDKContext(cc), &distrtypes.MsgUpdateSubDistributorBurnShareParam{ //nolint:errcheck
						Authority: appparams.GetAuthority(), SubDistributorName: cur.subs[attemptSd%len(cur.subs)].name, BurnShare: burn})
				}()
				if record {
					rep.Count("update_attempt_without_effect")
				}
			}
			fb.seen = nil
			fb.sweeps = nil
			preStates := k.GetAllStates(rctx)
			mainBefore := app.BankKeeper.GetAllBalances(rctx, mainAddr)
			bctx := rctx.WithEventManager(sdk.NewEventManager())
			supplyBefore := app.BankKeeper.GetSupply(rctx, denomNames[0])
			_ = supplyBefore
			burnBefore := sdk.NewCoins()
			for _, d := range denoms {
				burnBefore = burnBefore.Add(app.BankKeeper.GetSupply(rctx, denomNames[d]))
			}
			preBal := map[int]sdk.Coins{}
			for i, a := range e.addrTab {
				preBal[i] = app.BankKeeper.GetAllBalances(rctx, a)
			}
			panicked := false
			func() {
				defer func() {
					if r := recover(); r != nil {
						panicked = true
						if record {
							nm := "C10.distributor_no_panic" + cls
							rep.Eval(nm, false, idx, bIdx, fmt.Sprintf("BeginBlocker panicked: %v", r))
						}
					}
				}()
				cfedistributor.BeginBlocker(bctx, k)
			}()
			if panicked {
				res.panicked = true
				if record {
					fl := make([]string, len(fb.seen))
					for i, f := range fb.seen {
						fl[i] = zBool(f)
					}
					res.opTerms = append(res.opTerms, fmt.Sprintf("(DBlock %s, [(-1)])", zList(fl)))
				}
				break
			}
			if record {
				rep.Eval("C10.distributor_no_panic"+cls, true, idx, bIdx, "")
			}
			burnAfter := sdk.NewCoins()
			for _, d := range denoms {
				burnAfter = burnAfter.Add(app.BankKeeper.GetSupply(rctx, denomNames[d]))
			}
			burned = burned.Add(burnBefore.Sub(burnAfter...)...)
			// the sweeps the oracle sees: funds that arrived directly at a source address since its last sweep
			sweep := func(a dAcc) ratCoins {
				r := ratCoins{}
				i := e.addrIdx[e.addrOf(a).String()]
				if i == 0 {
					return r
				}
				for _, cn := range ext[i] {
					r[cn.Denom] = new(big.Rat).SetInt(cn.Amount.BigInt())
				}
				ext[i] = sdk.NewCoins()
				return r
			}
			if !updated {
				oracle.block(arr, sweep)
			}
			lastMain = app.BankKeeper.GetAllBalances(rctx, mainAddr)
			if record {
				evObs, perSd, evOk := e.parseEvents(bctx.EventManager().Events(), denoms, cur)
				fl := make([]string, len(fb.seen))
				for i, f := range fb.seen {
					fl[i] = zBool(f)
				}
				obs := append([]*big.Int{bi(1), bi(int64(len(fb.seen)))}, evObs...)
				obs = append(obs, e.observe(rctx, k, burned, denoms)...)
				res.opTerms = append(res.opTerms, fmt.Sprintf("(DBlock %s, %s)", zList(fl), zListB(obs)))
				rep.Ops++
				// ---- C03: the registered invariants through the real functions + conservation
				msg, broken := distrkeeper.NonNegativeCoinStateInvariant(k)(rctx)
				rep.Eval("C03.nonnegative_states"+cls, !broken, idx, bIdx, msg)
				msg, broken = distrkeeper.StateSumBalanceCheckInvariant(k)(rctx)
				rep.Eval("C03.state_sum_equals_balance"+cls, !broken, idx, bIdx, msg)
				have := sdk.NewCoins()
				for _, a := range e.addrTab {
					have = have.Add(app.BankKeeper.GetAllBalances(rctx, a)...)
				}
				rep.Eval("C03.conservation"+cls, have.Add(burned...).IsEqual(totalIn), idx, bIdx,
					fmt.Sprintf("held %s + burned %s != arrived %s", have, burned, totalIn))
				// ---- C18: a sub-distributor's events add up to its inflow (exact oracle)
				rep.Eval("C18.events_parse", evOk, idx, bIdx, "typed event could not be parsed")
				if cls == "" && !(retyped && updated) {
					// ---- C18: the events of every sub-distributor add up to what its sources really brought (also when a sweep failed)
					okFlow, dFlow := e.eventFlowCheck(cur, preStates, mainBefore, fb.sweeps, bctx.EventManager().Events())
					nm := "C18.events_add_up_to_what_the_sources_brought"
					if _, _, _, _, k5now := cur.classes(mainAddr.String()); k5now { // (of the configuration in force)
						nm += ".K5"
					}
					rep.Eval(nm, okFlow, idx, bIdx, dFlow)
				}
				{ // ---- C04: a block credits only accounts of the configuration in force: the leftovers recorded for anybody else do not grow
					inCfg := map[string]bool{distrtypes.BurnStateKey: true}
					cc := cur.clone()
					cc.mapAccounts(func(a dAcc) dAcc { inCfg[a.key()] = true; return a })
					okOnly, detail := true, ""
					nowRem := map[string]sdk.DecCoins{}
					for _, st := range k.GetAllStates(rctx) {
						key := st.GetStateKey()
						nowRem[key] = st.Remains
						if inCfg[key] {
							continue
						}
						for _, dc := range st.Remains {
							if dc.Amount.GT(prevRem[key].AmountOf(dc.Denom)) {
								okOnly = false
								detail = fmt.Sprintf("state %s is not an account of the configuration in force and its leftover grew from %s to %s %s",
									key, prevRem[key].AmountOf(dc.Denom), dc.Amount, dc.Denom)
							}
						}
					}
					prevRem = nowRem
					nm := "C04.only_configured_accounts_are_credited"
					if retyped && updated {
						nm += ".K14"
					}
					if cls == "" { // (the known-finding shapes K1-K4 are judged by the exact-share predicate below)
						rep.Eval(nm, okOnly, idx, bIdx, detail)
					}
				}
				if cls == "" && !anyTrue(fb.seen) {
					// ---- C04: receipts, not only books: when no bank call failed in the block, every whole unit booked for a module or
					// base account, or for burning, has been paid out (burned) — what stays recorded is below one unit per denomination
					okPaid, detail := true, ""
					okBurn, detailBurn := true, ""
					for _, st := range k.GetAllStates(rctx) {
						if !st.Burn && (st.Account == nil || st.Account.Type == distrtypes.InternalAccount || st.Account.Type == distrtypes.Main) {
							continue
						}
						for _, dc := range st.Remains {
							if dc.Amount.GTE(sdk.OneDec()) {
								okPaid = false
								detail = fmt.Sprintf("state %s keeps %s %s although no bank call failed", st.GetStateKey(), dc.Amount, dc.Denom)
								if st.Burn {
									okBurn, detailBurn = false, detail
								}
							}
						}
					}
					rep.Eval("C04.whole_units_are_paid_out", okPaid, idx, bIdx, detail)
					// C01: the configured burn leaves the supply in the block that books it (whole units), not some day
					rep.Eval("C01.whole_units_booked_for_burning_are_burned", okBurn, idx, bIdx, detailBurn)
				}
				if updated {
					// the exact-share oracle follows one configuration; after an update the books, the registered invariants and the
					// step-by-step comparison with the model (which takes the update too) are what is checked
					continue
				}
				if !fb.sweepFailed {
					for _, s := range cfg.subs {
						in := oracle.inflowSd[s.name]
						okSum := true
						detail := ""
						for _, d := range denoms {
							dn := denomNames[d]
							want := in[dn]
							if want == nil {
								want = new(big.Rat)
							}
							got := new(big.Rat).SetFrac(perSd[s.name].AmountOf(dn).BigInt(), new(big.Int).Exp(bi(10), bi(18), nil))
							diff := new(big.Rat).Sub(got, want)
							diff.Abs(diff)
							tol := new(big.Rat).SetFrac(bi(int64(1000*(bIdx+1)*len(cfg.subs)*len(cfg.subs))), new(big.Int).Exp(bi(10), bi(18), nil))
							if diff.Cmp(tol) > 0 {
								okSum = false
								detail = fmt.Sprintf("sub-distributor %s denom %s: events %s inflow %s", s.name, dn, got.FloatString(18), want.FloatString(18))
							}
						}
						rep.Eval("C18.distribution_events_sum_to_inflow"+evCls, okSum, idx, bIdx, detail)
					}
				}
				// ---- C04: credited (balance gained + remains) vs exact share of the inflow, per destination
				if !fb.sweepFailed {
					states := k.GetAllStates(rctx)
					remOf := map[string]sdk.DecCoins{}
					for _, s := range states {
						remOf[s.GetStateKey()] = s.Remains
					}
					checked := map[string]bool{}
					chk := func(a dAcc, burn bool) {
						key := a.key()
						if burn {
							key = "BURN"
						}
						if checked[key] || (!burn && (a.typ == distrtypes.Main || a.typ == distrtypes.InternalAccount)) {
							return
						}
						checked[key] = true
						if !burn && e.isSource(cfg, a) {
							return // pass-through module/base accounts are drained again; their credit is not observable as a balance
						}
						for _, d := range denoms {
							dn := denomNames[d]
							var gained *big.Int
							var rem *big.Int
							if burn {
								gained = burned.AmountOf(dn).BigInt()
								rem = remOf[distrtypes.BurnStateKey].AmountOf(dn).BigInt()
							} else {
								i := e.addrIdx[e.addrOf(a).String()]
								gained = new(big.Int).Sub(app.BankKeeper.GetBalance(rctx, e.addrTab[i], dn).Amount.BigInt(), startBal[i].AmountOf(dn).BigInt())
								for _, pb2 := range plan[:bIdx+1] {
									for _, in := range pb2.inflows {
										if in.addr == i {
											gained.Sub(gained, in.coins.AmountOf(dn).BigInt())
										}
									}
								}
								rem = remOf[key].AmountOf(dn).BigInt()
							}
							got := new(big.Rat).Add(new(big.Rat).SetInt(gained), new(big.Rat).SetFrac(rem, new(big.Int).Exp(bi(10), bi(18), nil)))
							want := new(big.Rat)
							if o := oracle.credited[key]; o != nil && o[dn] != nil {
								want = o[dn]
							}
							diff := new(big.Rat).Sub(got, want)
							diff.Abs(diff)
							tol := new(big.Rat).SetFrac(bi(int64(1000*(bIdx+1)*len(cfg.subs)*len(cfg.subs))), new(big.Int).Exp(bi(10), bi(18), nil))
							rep.Eval("C04.credited_equals_share_of_inflow"+cls, diff.Cmp(tol) <= 0, idx, bIdx,
								fmt.Sprintf("destination %s denom %s: credited %s exact share %s", key, dn, got.FloatString(18), want.FloatString(18)))
							if burn {
								// C01: what left the supply (plus what is booked to be burned) is the configured burn share of the inflows
								rep.Eval("C01.burned_is_configured_burn_share"+cls, diff.Cmp(tol) <= 0, idx, bIdx,
									fmt.Sprintf("denom %s: burned + booked for burning %s, configured burn share of the inflows %s", dn, got.FloatString(18), want.FloatString(18)))
							}
						}
					}
					for _, s := range cfg.subs {
						chk(s.primary, false)
						for _, sh := range s.shares {
							chk(sh.dest, false)
						}
						chk(dAcc{}, true)
					}
				}
			}
		}
		res.finalBal = map[int]sdk.Coins{}
		for i, a := range e.addrTab {
			res.finalBal[i] = app.BankKeeper.GetAllBalances(rctx, a)
		}
		res.finalRem = map[string]sdk.DecCoins{}
		for _, s := range k.GetAllStates(rctx) {
			res.finalRem[s.GetStateKey()] = s.Remains
		}
		return res
	}
	main := execute(faultsMode, true)
	if cls != "" || fb.sweepFailed || main.panicked || retyped {
		// (a re-typed id keeps being credited under its old state: the accounts of the two configurations share an id, which the
		// refinement theorem's account universe excludes)
		rep.LedgerExempt = append(rep.LedgerExempt, idx)
	}
	if faultsMode && cyclic {
		rep.Count("faults_mode.cyclic_graph_not_compared")
	}
	c14cls := cls
	// K3 / K5 (routing of a share to MAIN, missing events) are the same with and without failures: for the
	// twin comparison the class that matters in such a configuration is a source shared by several sub-distributors
	if (c14cls == "" || c14cls == ".K3" || c14cls == ".K5") && (e.sourceListedTwice(cfg) || (cfg2 != nil && e.sourceListedTwice(*cfg2))) {
		c14cls = ".K11"
	}
	if faultsMode && !main.panicked && !cyclic {
		twin := execute(false, false)
		// C14: after two fault-free blocks every destination has what it would have had without the failures (up to one unit)
		if !twin.panicked {
			if os.Getenv("VERIF_DEBUG") != "" {
				for i := range e.addrTab {
					fmt.Fprintf(os.Stderr, "final %d: main %v | twin %v\n", i, main.finalBal[i], twin.finalBal[i])
				}
				fmt.Fprintf(os.Stderr, "rem main %v\nrem twin %v\n", main.finalRem, twin.finalRem)
			}
			for i := range e.addrTab {
				if i == 0 {
					continue
				}
				for _, d := range denoms {
					dn := denomNames[d]
					diff := new(big.Int).Sub(main.finalBal[i].AmountOf(dn).BigInt(), twin.finalBal[i].AmountOf(dn).BigInt())
					diff.Abs(diff)
					natural := false // a destination that cannot receive at all (blocked address) never catches up
					if e.addrTab[i].Equals(e.blocked) {
						natural = true
					}
					bothCfgs := append([]dSub{}, cfg.subs...)
					if cfg2 != nil {
						bothCfgs = append(bothCfgs, cfg2.subs...)
					}
					for _, sb := range bothCfgs { // pass-through accounts are swept again: their balance is a matter of timing
						for _, src := range sb.sources {
							if ad := e.addrOf(src); ad != nil && ad.Equals(e.addrTab[i]) {
								natural = true
							}
						}
					}
					if !natural {
						rep.Eval("C14.made_up_after_faults"+c14cls, diff.Cmp(bi(1)) <= 0, idx, -1,
							fmt.Sprintf("address %d denom %s: with faults %s, fault-free twin %s", i, dn, main.finalBal[i].AmountOf(dn), twin.finalBal[i].AmountOf(dn)))
					}
				}
			}
		}
		rep.Count("faults_mode")
	}
	tracked := make([]string, len(e.addrTab))
	for i := range e.addrTab {
		tracked[i] = zI(int64(i))
	}
	dn := make([]string, len(denoms))
	for i, d := range denoms {
		dn[i] = zI(int64(d))
	}
	rep.NoteCase(world+strings.Join(main.opTerms, ";"), len(main.opTerms) > 0)
	if len(rep.Samples) < 3 {
		s := strings.Join(main.opTerms, " ; ")
		if len(s) > 1500 {
			s = s[:1500] + " ..."
		}
		rep.Samples = append(rep.Samples, fmt.Sprintf("distr case %d (class%s): subs %s ; ops %s", idx, cls, e.cfgTerm(cfg), s))
	}
	return fmt.Sprintf("{| dc_id := %d; dc_world := %s;\n dc_addrs := %s; dc_denoms := %s;\n dc_ops := [\n  %s] |}",
		idx, world, zList(tracked), zList(dn), strings.Join(main.opTerms, ";\n  "))
}

func anyTrue(xs []bool) bool {
	for _, x := range xs {
		if x {
			return true
		}
	}
	return false
}

func (e *distrEnv) addrOf(a dAcc) sdk.AccAddress {
	switch a.typ {
	case distrtypes.ModuleAccount:
		return e.ta.App.AccountKeeper.GetModuleAddress(a.id)
	case distrtypes.BaseAccount:
		ad, _ := sdk.AccAddressFromBech32(a.id)
		return ad
	}
	return nil
}

func (e *distrEnv) isSource(c distrCfg, a dAcc) bool {
	for _, s := range c.subs {
		for _, src := range s.sources {
			if src.typ != distrtypes.Main && src.typ != distrtypes.InternalAccount && e.addrOf(src).Equals(e.addrOf(a)) {
				return true
			}
		}
	}
	return false
}

// fundAddr mints coins and moves them with a plain bank SendCoins (no blocked-address check): how coins
// arrive at module accounts from other modules / IBC / fees.
func fundAddr(ctx sdk.Context, ta *TestApp, to sdk.AccAddress, coins sdk.Coins) {
	if coins.IsZero() {
		return
	}
	if err := ta.App.BankKeeper.MintCoins(ctx, mintertypes.ModuleName, coins); err != nil {
		panic(err)
	}
	from := ta.App.AccountKeeper.GetModuleAddress(mintertypes.ModuleName)
	if from.Equals(to) {
		return
	}
	if err := ta.App.BankKeeper.SendCoins(ctx, from, to, coins); err != nil {
		panic(err)
	}
}

// hasCycle: does the routing graph (sub-distributor i feeds j when a destination of i is a source of j) contain a cycle?
// In a cyclic graph coins circulate for ever, so balances at a finite block depend on timing and C14's twin comparison does not apply.
func (e *distrEnv) hasCycle(c distrCfg) bool {
	n := len(c.subs)
	adj := make([][]int, n)
	same := func(d, s dAcc) bool {
		if d.typ == distrtypes.Main || s.typ == distrtypes.Main {
			return d.typ == s.typ
		}
		if d.typ == distrtypes.InternalAccount || s.typ == distrtypes.InternalAccount {
			return d.id == s.id // findAccountState matches on the id only
		}
		return e.addrOf(d).Equals(e.addrOf(s))
	}
	for i, si := range c.subs {
		dests := []dAcc{si.primary}
		for _, sh := range si.shares {
			dests = append(dests, sh.dest)
		}
		for j, sj := range c.subs {
			for _, d := range dests {
				for _, src := range sj.sources {
					if same(d, src) {
						adj[i] = append(adj[i], j)
					}
				}
			}
		}
	}
	state := make([]int, n)
	var dfs func(i int) bool
	dfs = func(i int) bool {
		state[i] = 1
		for _, j := range adj[i] {
			if state[j] == 1 || (state[j] == 0 && dfs(j)) {
				return true
			}
		}
		state[i] = 2
		return false
	}
	for i := 0; i < n; i++ {
		if state[i] == 0 && dfs(i) {
			return true
		}
	}
	return false
}

// sourceListedTwice: a module / base account that is a source of more than one sub-distributor (class K11)
func (e *distrEnv) sourceListedTwice(c distrCfg) bool {
	seen := map[string]int{}
	for _, s := range c.subs {
		for _, src := range s.sources {
			if ad := e.addrOf(src); ad != nil {
				seen[ad.String()]++
			}
		}
	}
	for _, n := range seen {
		if n > 1 {
			return true
		}
	}
	return false
}
