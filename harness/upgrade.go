package main

// upgrade.go — the v1.2.0 upgrade of the vesting state on generated pre-upgrade stores: legacy (v2)
// pool records written with the legacy protobuf types and migrated by the real v3.MigrateStore, then
// the real v120.UpdateVestingAccountTraces / ModifyVestingPoolsState / ModifyVestingAccountsState.
// Prints the owner's pools for C4E.Upgrade.umismatches and evaluates the predicates of C16.

import (
	"encoding/binary"
	"fmt"
	"math/big"
	"strings"
	"time"

	v120 "github.com/chain4energy/c4e-chain/app/upgrades/v120"
	distrtypes "github.com/chain4energy/c4e-chain/x/cfedistributor/types"
	mintertypes "github.com/chain4energy/c4e-chain/x/cfeminter/types"
	vestkeeper "github.com/chain4energy/c4e-chain/x/cfevesting/keeper"
	v2 "github.com/chain4energy/c4e-chain/x/cfevesting/migrations/v2"
	v3 "github.com/chain4energy/c4e-chain/x/cfevesting/migrations/v3"
	vesttypes "github.com/chain4energy/c4e-chain/x/cfevesting/types"
	"github.com/cosmos/cosmos-sdk/store/prefix"
	sdk "github.com/cosmos/cosmos-sdk/types"
	sdkversion "github.com/cosmos/cosmos-sdk/version"
	authtypes "github.com/cosmos/cosmos-sdk/x/auth/types"
	vestingtypes "github.com/cosmos/cosmos-sdk/x/auth/vesting/types"
	upgradetypes "github.com/cosmos/cosmos-sdk/x/upgrade/types"
)

var upgradeNames = map[string]int64{}

func upName(s string) int64 {
	if s == "" {
		return 0
	}
	if v, ok := upgradeNames[s]; ok {
		return v
	}
	upgradeNames[s] = int64(len(upgradeNames) + 1)
	return upgradeNames[s]
}

func poolTermU(p *vesttypes.VestingPool) string {
	return fmt.Sprintf("{| p_name := %d; p_vtype := %d; p_lock_start := %s; p_lock_end := %s; p_locked := %s; p_withdrawn := %s; p_sent := %s; p_genesis := %s |}",
		upName(p.Name), upName(p.VestingType), zI(p.LockStart.UnixNano()), zI(p.LockEnd.UnixNano()),
		zB(p.InitiallyLocked.BigInt()), zB(p.Withdrawn.BigInt()), zB(p.Sent.BigInt()), zBool(p.GenesisPool))
}

func poolCodeU(p *vesttypes.VestingPool) []*big.Int {
	return []*big.Int{bi(upName(p.Name)), bi(upName(p.VestingType)), bi(p.LockStart.UnixNano()), bi(p.LockEnd.UnixNano()),
		p.InitiallyLocked.BigInt(), p.Withdrawn.BigInt(), p.Sent.BigInt(), bi(b2i(p.GenesisPool))}
}

func runUpgradeCase(ta *TestApp, seed uint64, idx int, rep *Report, profile string) string {
	rng := NewRng(seed, uint64(idx)+67000000)
	app := ta.App
	base, _ := ta.Ctx().CacheContext()
	now := time.Unix(1680000000+rng.I64n(20000000), 0).UTC()
	ctx := base.WithBlockTime(now)
	k := app.CfevestingKeeper
	storeKey := app.GetKey(vesttypes.StoreKey)
	// ---- start from an empty vesting store
	{
		st := ctx.KVStore(storeKey)
		it := st.Iterator(nil, nil)
		var keys [][]byte
		for ; it.Valid(); it.Next() {
			keys = append(keys, append([]byte{}, it.Key()...))
		}
		it.Close()
		for _, kk := range keys {
			st.Delete(kk)
		}
	}
	if err := k.SetParams(ctx, vesttypes.Params{Denom: BondDenom}); err != nil {
		panic(err)
	}
	owner := v120.ValidatorsVestingPoolOwner
	sumC := big.NewInt(72000000)
	sumC.Mul(sumC, bi(1000000))

	// ---- legacy (v2) pools
	type legacyOwner struct {
		addr  string
		pools []*v2.VestingPool
	}
	var owners []legacyOwner
	mk := func(name, vt string, locked *big.Int) *v2.VestingPool {
		sent := rng.BigBelow(new(big.Int).Add(locked, bi(1)))
		if rng.Chance(50) {
			sent = bi(0)
		}
		rest := new(big.Int).Sub(locked, sent)
		wd := rng.BigBelow(new(big.Int).Add(rest, bi(1)))
		if rng.Chance(55) {
			wd = bi(0)
		}
		ls := now.Add(-time.Duration(rng.I64n(int64(400 * 24 * time.Hour))))
		if rng.Chance(50) {
			ls = ls.Truncate(time.Second)
		}
		return &v2.VestingPool{Name: name, VestingType: vt, LockStart: ls, LockEnd: ls.Add(time.Duration(1 + rng.I64n(int64(900*24*time.Hour)))),
			InitiallyLocked: sdk.NewIntFromBigInt(locked), Withdrawn: sdk.NewIntFromBigInt(wd), Sent: sdk.NewIntFromBigInt(sent)}
	}
	hasOwner := rng.Chance(85)
	hasValPool := rng.Chance(85)
	hasType := rng.Chance(85)
	preexistingNewType := false
	if hasOwner {
		lo := legacyOwner{addr: owner}
		if rng.Chance(60) {
			lo.pools = append(lo.pools, mk("Advisors pool", "Advisors", rng.LogUniform(16)))
		}
		if hasValPool {
			// currently locked around the threshold: below, exactly, just above, far above
			p := mk("Validators pool", "Validators", new(big.Int).Add(sumC, rng.LogUniform(15)))
			cur := new(big.Int).Sub(new(big.Int).Sub(p.InitiallyLocked.BigInt(), p.Sent.BigInt()), p.Withdrawn.BigInt())
			switch rng.Intn(6) {
			case 0: // exactly the sum still locked
				p.InitiallyLocked = sdk.NewIntFromBigInt(new(big.Int).Add(new(big.Int).Add(sumC, p.Sent.BigInt()), p.Withdrawn.BigInt()))
			case 1: // one short
				p.InitiallyLocked = sdk.NewIntFromBigInt(new(big.Int).Sub(new(big.Int).Add(new(big.Int).Add(sumC, p.Sent.BigInt()), p.Withdrawn.BigInt()), bi(1)))
			case 2: // the withdrawn history decides: locked-after-sent >= sum > currently locked
				if p.Withdrawn.IsZero() || p.Withdrawn.BigInt().Cmp(sumC) > 0 { // keep the pool's remainder non-negative
					p.Withdrawn = sdk.NewInt(1 + rng.I64n(1000000))
				}
				p.InitiallyLocked = sdk.NewIntFromBigInt(new(big.Int).Add(new(big.Int).Add(sumC, p.Sent.BigInt()), rng.BigBelow(p.Withdrawn.BigInt())))
			}
			_ = cur
			lo.pools = append(lo.pools, p)
		}
		for i := 0; i < rng.Intn(3); i++ {
			nm := fmt.Sprintf("other%d", i)
			if rng.Chance(25) {
				// a pool the owner created himself under the name of one of the pools the upgrade is going to add
				nm = []string{"VC round pool", "Early-bird round pool", "Public round pool", "Strategic reserve short term round pool", "Validator round pool"}[rng.Intn(5)]
				rep.Count("legacy.owner_pool_named_like_an_upgrade_pool")
			}
			lo.pools = append(lo.pools, mk(nm, "Validators", rng.LogUniform(15)))
		}
		for i := len(lo.pools) - 1; i > 0; i-- {
			j := rng.Intn(i + 1)
			lo.pools[i], lo.pools[j] = lo.pools[j], lo.pools[i]
		}
		owners = append(owners, lo)
	}
	for i := 0; i < rng.Intn(4); i++ {
		lo := legacyOwner{addr: sdk.AccAddress(rng.Bytes(20)).String()}
		for j := 0; j < rng.Intn(4); j++ {
			lo.pools = append(lo.pools, mk([]string{"Validators pool", "Advisors pool", "x"}[rng.Intn(3)]+fmt.Sprint(j%2), "Validators", rng.LogUniform(15)))
		}
		owners = append(owners, lo)
	}
	// the same account under its upper-case bech32 spelling: another store key, another entry (genesis validation compares strings)
	if len(owners) > 0 && rng.Chance(25) {
		src := owners[rng.Intn(len(owners))]
		lo := legacyOwner{addr: strings.ToUpper(src.addr)}
		for j := 0; j < 1+rng.Intn(2); j++ {
			lo.pools = append(lo.pools, mk(fmt.Sprintf("upper%d", j), "Validators", rng.LogUniform(15)))
		}
		owners = append(owners, lo)
		rep.Count("legacy_owner.upper_case_spelling_of_another_owner")
	}
	// ---- legacy (v2) vesting account traces: records (id, address) keyed by id, plus their count; some of the addresses the
	// upgrade lists as genesis accounts / accounts created from genesis pools, some unlisted ones
	var legacyTraces []v2.VestingAccount
	{
		cand := append(append([]string{}, upgradeGenesisAddrs...), upgradeFromPoolAddrs...)
		for _, a := range cand {
			if rng.Chance(45) {
				legacyTraces = append(legacyTraces, v2.VestingAccount{Address: a})
			}
		}
		for i := rng.Intn(4); i > 0; i-- {
			legacyTraces = append(legacyTraces, v2.VestingAccount{Address: sdk.AccAddress(rng.Bytes(20)).String()})
		}
		for i := len(legacyTraces) - 1; i > 0; i-- {
			j := rng.Intn(i + 1)
			legacyTraces[i], legacyTraces[j] = legacyTraces[j], legacyTraces[i]
		}
		tst := prefix.NewStore(ctx.KVStore(storeKey), []byte(v2.VestingAccountKey))
		for i := range legacyTraces {
			legacyTraces[i].Id = uint64(i)
			idb := make([]byte, 8)
			binary.BigEndian.PutUint64(idb, uint64(i))
			tst.Set(idb, app.AppCodec().MustMarshal(&legacyTraces[i]))
		}
		cnt := make([]byte, 8)
		binary.BigEndian.PutUint64(cnt, uint64(len(legacyTraces)))
		ctx.KVStore(storeKey).Set([]byte(v2.VestingAccountCountKey), cnt)
		rep.Count(fmt.Sprintf("legacy.traces.%d", 3-max0(3-len(legacyTraces)/4)))
	}
	pst := prefix.NewStore(ctx.KVStore(storeKey), v2.AccountVestingPoolsKeyPrefix)
	total := sdk.ZeroInt()
	type hist struct{ sent, wd, locked sdk.Int }
	before := map[string]hist{}
	for _, lo := range owners {
		avp := v2.AccountVestingPools{Address: lo.addr, VestingPools: lo.pools}
		bz, err := app.AppCodec().Marshal(&avp)
		if err != nil {
			panic(err)
		}
		pst.Set([]byte(lo.addr), bz)
		for i, p := range lo.pools {
			total = total.Add(p.InitiallyLocked.Sub(p.Sent).Sub(p.Withdrawn))
			before[fmt.Sprintf("%s/%d", lo.addr, i)] = hist{p.Sent, p.Withdrawn, p.InitiallyLocked}
		}
	}
	fundModule(ctx, ta, vesttypes.ModuleName, sdk.NewCoins(sdk.NewCoin(BondDenom, total)))
	// drop whatever the module account held before so that solvency is exact
	modAddr := app.AccountKeeper.GetModuleAddress(vesttypes.ModuleName)
	if extra := app.BankKeeper.GetBalance(ctx, modAddr, BondDenom).Amount.Sub(total); extra.IsPositive() {
		if err := app.BankKeeper.SendCoinsFromModuleToModule(ctx, vesttypes.ModuleName, authtypes.FeeCollectorName, sdk.NewCoins(sdk.NewCoin(BondDenom, extra))); err != nil {
			panic(err)
		}
	}
	vts := vesttypes.VestingTypes{}
	if hasType {
		vts.VestingTypes = append(vts.VestingTypes, &vesttypes.VestingType{Name: "Validators", LockupPeriod: 100 * time.Hour, VestingPeriod: 200 * time.Hour, Free: sdk.NewDecWithPrec(5, 2)})
	}
	vts.VestingTypes = append(vts.VestingTypes, &vesttypes.VestingType{Name: "Advisors", LockupPeriod: time.Hour, VestingPeriod: time.Hour, Free: sdk.ZeroDec()})
	if rng.Chance(15) {
		// a vesting type that already carries the name of one the upgrade defines (it is redefined; the split must not stop half-way)
		nm := []string{"VC round", "Early-bird round", "Public round", "Strategic reserve short term round"}[rng.Intn(4)]
		vts.VestingTypes = append(vts.VestingTypes, &vesttypes.VestingType{Name: nm, LockupPeriod: 7 * time.Hour, VestingPeriod: 9 * time.Hour, Free: sdk.NewDecWithPrec(1, 2)})
		preexistingNewType = true
		_ = preexistingNewType
		rep.Count("legacy.vesting_type_named_like_an_upgrade_type")
	}
	k.SetVestingTypes(ctx, vts)

	// ---- the four accounts whose schedule is shifted
	shiftAddrs := []string{v120.Account1, v120.Account2, v120.Account3, v120.Account4}
	type accBefore struct {
		kind       int
		start, end int64
		ov         sdk.Coins
		dv, df     sdk.Coins
		seq, num   uint64
	}
	accs := map[string]accBefore{}
	for _, a := range shiftAddrs {
		addr, _ := sdk.AccAddressFromBech32(a)
		switch rng.Intn(5) {
		case 0: // absent
			accs[a] = accBefore{kind: 0}
		case 1: // base account
			app.AccountKeeper.SetAccount(ctx, app.AccountKeeper.NewAccountWithAddress(ctx, addr))
			accs[a] = accBefore{kind: 1}
		default:
			st := 1640995200 + rng.I64n(3*365*86400) // 2022 .. 2024, any second of the year
			en := st + 1 + rng.I64n(3*365*86400)
			ov := sdk.NewCoins(sdk.NewCoin(BondDenom, sdk.NewIntFromBigInt(rng.LogUniform(15))))
			bacc := app.AccountKeeper.NewAccountWithAddress(ctx, addr).(*authtypes.BaseAccount)
			bacc.Sequence = uint64(rng.Intn(50))
			cva := vestingtypes.NewContinuousVestingAccount(bacc, ov, st, en)
			// the account may have staked part of its coins: the delegation bookkeeping of the vesting account
			if rng.Chance(60) {
				d := new(big.Int).Div(ov[0].Amount.BigInt(), bi(int64(2+rng.Intn(5))))
				if d.Sign() > 0 {
					cva.DelegatedVesting = sdk.NewCoins(sdk.NewCoin(BondDenom, sdk.NewIntFromBigInt(d)))
				}
				if rng.Chance(40) {
					cva.DelegatedFree = sdk.NewCoins(sdk.NewCoin(BondDenom, sdk.NewIntFromBigInt(rng.LogUniform(9))))
				}
			}
			app.AccountKeeper.SetAccount(ctx, cva)
			accs[a] = accBefore{kind: 2, start: st, end: en, ov: ov, dv: cva.DelegatedVesting, df: cva.DelegatedFree, seq: bacc.Sequence, num: bacc.AccountNumber}
		}
	}

	// ---- run the real migration and upgrade functions
	panicked := ""
	func() {
		defer func() {
			if r := recover(); r != nil {
				panicked = fmt.Sprint(r)
			}
		}()
		if profile == "handler" {
			return // the migration runs inside the upgrade handler below
		}
		if err := v3.MigrateStore(ctx, storeKey, app.AppCodec()); err != nil {
			panicked = "MigrateStore: " + err.Error()
			return
		}
	}()
	if panicked != "" {
		rep.Panics = append(rep.Panics, fmt.Sprintf("case %d: %s", idx, panicked))
		return fmt.Sprintf("{| uc_id := %d; uc_consts := {| k_val_pool := 0; k_adv_pool := 0; k_round_pool := 0; k_round_type := 0; k_new := [] |}; uc_pools := None; uc_type_exists := false; uc_expected := [(-1)] |}", idx)
	}
	// C16: the migration copies every pool field for field
	okMig := true
	for _, lo := range owners {
		avp, found := k.GetAccountVestingPools(ctx, lo.addr)
		if !found || len(avp.VestingPools) != len(lo.pools) {
			okMig = false
			continue
		}
		for i, p := range avp.VestingPools {
			o := lo.pools[i]
			if p.Name != o.Name || p.VestingType != o.VestingType || !p.LockStart.Equal(o.LockStart) || !p.LockEnd.Equal(o.LockEnd) ||
				!p.InitiallyLocked.Equal(o.InitiallyLocked) || !p.Sent.Equal(o.Sent) || !p.Withdrawn.Equal(o.Withdrawn) || p.GenesisPool {
				okMig = false
			}
		}
	}
	if profile != "handler" {
		rep.Eval("C16.migration_copies_pools_field_for_field", okMig, idx, 0, "v2 -> v3 pool migration changed a pool")
	}
	// model input: the owner's pools after the migration
	var modelPools string = "None"
	ownerPre, ownerFound := k.GetAccountVestingPools(ctx, owner)
	if profile == "handler" {
		// the store still holds the legacy records: the migrated pools are the legacy ones field for field (checked in the other profiles)
		ownerFound = false
		for _, lo := range owners {
			if lo.addr == owner {
				ownerFound = true
				ownerPre = vesttypes.AccountVestingPools{Owner: owner}
				for _, o := range lo.pools {
					ownerPre.VestingPools = append(ownerPre.VestingPools, &vesttypes.VestingPool{Name: o.Name, VestingType: o.VestingType, LockStart: o.LockStart, LockEnd: o.LockEnd,
						InitiallyLocked: o.InitiallyLocked, Withdrawn: o.Withdrawn, Sent: o.Sent})
				}
			}
		}
	}
	if ownerFound {
		var ps []string
		for _, p := range ownerPre.VestingPools {
			ps = append(ps, poolTermU(p))
		}
		modelPools = "(Some " + zList(ps) + ")"
	}
	vtypesBefore := fmt.Sprint(k.GetAllVestingTypes(ctx))
	preAll := k.GetAllAccountVestingPools(ctx)
	preTotal := sdk.ZeroInt()
	for _, avp := range preAll {
		for _, p := range avp.VestingPools {
			preTotal = preTotal.Add(p.GetCurrentlyLocked())
		}
	}
	if profile == "handler" {
		preTotal = total
	}
	func() {
		defer func() {
			if r := recover(); r != nil {
				panicked = fmt.Sprint(r)
			}
		}()
		if profile == "handler" {
			// the whole registered v1.2.0 handler through x/upgrade: module versions as on a v1.1.0 chain, parameters still in x/params
			vm := app.UpgradeKeeper.GetModuleVersionMap(ctx)
			vm[mintertypes.ModuleName], vm[distrtypes.ModuleName], vm[vesttypes.ModuleName] = 2, 2, 2
			app.UpgradeKeeper.SetModuleVersionMap(ctx, vm)
			mp := app.CfeminterKeeper.GetParams(ctx)
			var lms []*mintertypes.LegacyMinter
			for _, m := range mp.Minters {
				lm := &mintertypes.LegacyMinter{SequenceId: m.SequenceId, EndTime: m.EndTime, Type: mintertypes.NoMintingType}
				if cfg, err := m.GetMinterConfig(); err == nil {
					switch v := cfg.(type) {
					case *mintertypes.LinearMinting:
						lm.Type, lm.LinearMinting = mintertypes.LinearMintingType, v
					case *mintertypes.ExponentialStepMinting:
						lm.Type, lm.ExponentialStepMinting = mintertypes.ExponentialStepMintingType, v
					}
				}
				lms = append(lms, lm)
			}
			msub := withKeyTable(app.GetSubspace(mintertypes.ModuleName), mintertypes.ParamKeyTable())
			msub.Set(ctx, mintertypes.KeyMintDenom, mp.MintDenom)
			msub.Set(ctx, mintertypes.KeyMinterConfig, mintertypes.MinterConfig{StartTime: mp.StartTime, Minters: lms})
			dp := app.CfedistributorKeeper.GetParams(ctx)
			dsub := withKeyTable(app.GetSubspace(distrtypes.ModuleName), distrtypes.ParamKeyTable())
			dsub.Set(ctx, distrtypes.KeySubDistributors, dp.SubDistributors)
			vsub := withKeyTable(app.GetSubspace(vesttypes.ModuleName), vesttypes.ParamKeyTable())
			vsub.Set(ctx, vesttypes.KeyDenom, BondDenom)
			ctx.KVStore(app.GetKey(mintertypes.StoreKey)).Delete(mintertypes.ParamsKey)
			ctx.KVStore(app.GetKey(distrtypes.StoreKey)).Delete(distrtypes.ParamsKey)
			ctx.KVStore(storeKey).Delete(vesttypes.ParamsKey)
			ectx := ctx.WithEventManager(sdk.NewEventManager())
			app.UpgradeKeeper.ApplyUpgrade(ectx, upgradetypes.Plan{Name: v120.UpgradeName, Height: ctx.BlockHeight()})
			// C11: what the upgrade block emits is part of what replicas must agree on; state-compatible builds differ in their build
			// metadata (the version string linked into the binary), so none of it may appear in the events
			if marker := sdkversion.Version; marker != "" {
				leak := ""
				for _, ev := range ectx.EventManager().Events() {
					for _, at := range ev.Attributes {
						if strings.Contains(string(at.Value), marker) || strings.Contains(string(at.Key), marker) {
							leak = fmt.Sprintf("event %s attribute %s = %s", ev.Type, at.Key, at.Value)
						}
					}
				}
				rep.Eval("C11.upgrade_events_do_not_carry_build_metadata", leak == "", idx, 1, "the binary's version string appears in an event of the upgrade block: "+leak)
			}
			mpAfter, dpAfter := app.CfeminterKeeper.GetParams(ctx), app.CfedistributorKeeper.GetParams(ctx)
			mpa, _ := mpAfter.Marshal()
			mpb, _ := mp.Marshal()
			dpa, _ := dpAfter.Marshal()
			dpb, _ := dp.Marshal()
			vmAfter := app.UpgradeKeeper.GetModuleVersionMap(ctx)
			rep.Eval("C16.handler_migrates_parameters_unchanged", string(mpa) == string(mpb) && string(dpa) == string(dpb) && k.GetParams(ctx).Denom == BondDenom &&
				vmAfter[mintertypes.ModuleName] == 3 && vmAfter[distrtypes.ModuleName] == 3 && vmAfter[vesttypes.ModuleName] == 3, idx, 1,
				fmt.Sprintf("after the handler: minter params equal %v, distributor params equal %v, vesting denom %q, versions %d %d %d", string(mpa) == string(mpb), string(dpa) == string(dpb),
					k.GetParams(ctx).Denom, vmAfter[mintertypes.ModuleName], vmAfter[distrtypes.ModuleName], vmAfter[vesttypes.ModuleName]))
			return
		}
		v120.UpdateVestingAccountTraces(ctx, app)
		if err := v120.ModifyVestingPoolsState(ctx, app); err != nil {
			panicked = "ModifyVestingPoolsState: " + err.Error()
			return
		}
		if err := v120.ModifyVestingAccountsState(ctx, app); err != nil {
			panicked = "ModifyVestingAccountsState: " + err.Error()
		}
	}()
	rep.Eval("C16.upgrade_completes", panicked == "", idx, 1, panicked)
	// C17: after the upgrade every recorded account is still recorded, under its address and with its id, and carries exactly the
	// lineage the upgrade documents: the listed genesis accounts are genesis accounts, the listed accounts created from genesis
	// pools are that, nobody else is anything
	if panicked == "" {
		okTr, detail := true, ""
		for _, lt := range legacyTraces {
			tr, found := k.GetVestingAccountTrace(ctx, lt.Address)
			wantG, wantP := inList(upgradeGenesisAddrs, lt.Address), inList(upgradeFromPoolAddrs, lt.Address)
			if !found || tr.Id != lt.Id || tr.Genesis != wantG || tr.FromGenesisPool != wantP || tr.FromGenesisAccount {
				okTr = false
				detail = fmt.Sprintf("recorded account %s (id %d; listed as genesis account: %v, as created from a genesis pool: %v) after the upgrade: found %v, id %d, genesis %v, from genesis pool %v, from genesis account %v",
					lt.Address, lt.Id, wantG, wantP, found, tr.Id, tr.Genesis, tr.FromGenesisPool, tr.FromGenesisAccount)
			}
		}
		if n := len(k.GetAllVestingAccountTrace(ctx)); n != len(legacyTraces) {
			okTr, detail = false, fmt.Sprintf("%d recorded accounts before the upgrade, %d after it", len(legacyTraces), n)
		}
		rep.Eval("C17.upgrade_records_the_documented_lineage", okTr, idx, 1, detail)
		// the same against the model (UpgradeTraces.v): per legacy record what the store holds under its address, then the number of records
		cls := func(a string) int64 {
			for i, x := range upgradeGenesisAddrs {
				if x == a {
					return int64(i)
				}
			}
			for i, x := range upgradeFromPoolAddrs {
				if x == a {
					return int64(100 + i)
				}
			}
			return -1
		}
		var leg, exp []string
		other := int64(1000)
		for _, lt := range legacyTraces {
			c := cls(lt.Address)
			if c < 0 {
				c = other
				other++
			}
			leg = append(leg, zPair(zI(int64(lt.Id)), zI(c)))
			tr, found := k.GetVestingAccountTrace(ctx, lt.Address)
			if !found {
				exp = append(exp, "0", "0", "0", "0", "0")
			} else {
				exp = append(exp, "1", zI(int64(tr.Id)), zI(b2i(tr.Genesis)), zI(b2i(tr.FromGenesisPool)), zI(b2i(tr.FromGenesisAccount)))
			}
		}
		exp = append(exp, zI(int64(len(k.GetAllVestingAccountTrace(ctx)))))
		upgradeTraceTerms = append(upgradeTraceTerms, fmt.Sprintf("{| tc_id := %d; tc_legacy := %s; tc_expected := %s |}", idx, zList(leg), zList(exp)))
	}
	// ---- predicates
	postAll := k.GetAllAccountVestingPools(ctx)
	postTotal := sdk.ZeroInt()
	for _, avp := range postAll {
		for _, p := range avp.VestingPools {
			postTotal = postTotal.Add(p.GetCurrentlyLocked())
		}
	}
	rep.Eval("C16.total_locked_preserved", preTotal.Equal(postTotal) && preTotal.Equal(total), idx, 1, fmt.Sprintf("locked before migration %s, after migration %s, after upgrade %s", total, preTotal, postTotal))
	msg, broken := vestkeeper.ModuleAccountInvariant(k)(ctx)
	rep.Eval("C16.solvency_module_account", !broken, idx, 1, msg)
	msg, broken = vestkeeper.VestingPoolConsistentDataInvariant(k)(ctx)
	rep.Eval("C16.solvency_pool_bounds", !broken, idx, 1, msg)
	msg, broken = vestkeeper.NonNegativeVestingPoolAmountsInvariant(k)(ctx)
	rep.Eval("C16.solvency_nonnegative", !broken, idx, 1, msg)
	// history of every pre-existing pool (by owner and position)
	okHist := true
	for _, lo := range owners {
		avp, _ := k.GetAccountVestingPools(ctx, lo.addr)
		for i := range lo.pools {
			if i >= len(avp.VestingPools) {
				okHist = false
				continue
			}
			h := before[fmt.Sprintf("%s/%d", lo.addr, i)]
			p := avp.VestingPools[i]
			if !p.Sent.Equal(h.sent) || !p.Withdrawn.Equal(h.wd) {
				okHist = false
			}
		}
	}
	rep.Eval("C16.sent_withdrawn_history_preserved", okHist, idx, 1, "a pool's sent / withdrawn changed")
	// all or nothing
	ownerPost, _ := k.GetAccountVestingPools(ctx, owner)
	applied := ownerFound && len(ownerPost.VestingPools) == len(ownerPre.VestingPools)+4
	unchanged := !ownerFound || fmt.Sprint(ownerPost.VestingPools) == fmt.Sprint(ownerPre.VestingPools)
	_, oldTypeErr := k.GetVestingType(ctx, "Validators")
	newTypesThere := true
	for _, nm := range []string{"Validator round", "VC round", "Early-bird round", "Public round", "Strategic reserve short term round"} {
		if _, e := k.GetVestingType(ctx, nm); e != nil {
			newTypesThere = false
		}
	}
	typesApplied := oldTypeErr != nil && newTypesThere && hasType
	typesUnchanged := fmt.Sprint(k.GetAllVestingTypes(ctx)) == vtypesBefore
	rep.Eval("C16.split_all_or_nothing", (applied && typesApplied) || (unchanged && typesUnchanged), idx, 1,
		fmt.Sprintf("pools applied=%v unchanged=%v; types applied=%v unchanged=%v", applied, unchanged, typesApplied, typesUnchanged))
	// C17: the upgrade gives the genesis mark to the Advisors pool, the Validators pool and the pools split out of it — to no other
	// pool of that owner (a pool he created himself keeps whatever mark it had) and to no pool of anybody else
	{
		okMark, detail := true, ""
		for i, p := range ownerPre.VestingPools {
			if i >= len(ownerPost.VestingPools) || p.Name == "Advisors pool" || p.Name == "Validators pool" {
				continue
			}
			if ownerPost.VestingPools[i].GenesisPool != p.GenesisPool {
				okMark = false
				detail = fmt.Sprintf("pool %q of the owner (neither the Advisors nor the Validators pool) has its genesis mark changed from %v to %v", p.Name, p.GenesisPool, ownerPost.VestingPools[i].GenesisPool)
			}
		}
		for _, lo := range owners {
			if lo.addr == owner {
				continue
			}
			avp, _ := k.GetAccountVestingPools(ctx, lo.addr)
			for _, p := range avp.VestingPools {
				if p.GenesisPool {
					okMark = false
					detail = fmt.Sprintf("pool %q of %s is marked as a genesis pool", p.Name, lo.addr)
				}
			}
		}
		rep.Eval("C17.upgrade_marks_only_genesis_pools", okMark, idx, 1, detail)
	}
	if applied {
		rep.Count("split.applied")
		newTot := sdk.ZeroInt()
		okNew := true
		for _, p := range ownerPost.VestingPools[len(ownerPre.VestingPools):] {
			newTot = newTot.Add(p.InitiallyLocked)
			if !p.Sent.IsZero() || !p.Withdrawn.IsZero() {
				okNew = false
			}
		}
		rep.Eval("C16.new_pools_total_is_sum", okNew && newTot.BigInt().Cmp(sumC) == 0, idx, 1, fmt.Sprintf("new pools hold %s", newTot))
	} else {
		rep.Count("split.not_applied")
	}
	// shifted accounts keep their amounts; shift = one calendar year (UTC)
	for _, a := range shiftAddrs {
		addr, _ := sdk.AccAddressFromBech32(a)
		b := accs[a]
		acc := app.AccountKeeper.GetAccount(ctx, addr)
		switch b.kind {
		case 0:
			rep.Eval("C16.shift_leaves_other_accounts", acc == nil, idx, 2, a)
		case 1:
			_, isBase := acc.(*authtypes.BaseAccount)
			rep.Eval("C16.shift_leaves_other_accounts", isBase, idx, 2, a)
		default:
			cva, ok := acc.(*vestingtypes.ContinuousVestingAccount)
			rep.Eval("C16.shifted_account_keeps_amounts", ok && cva.OriginalVesting.IsEqual(b.ov) && cva.DelegatedVesting.IsEqual(b.dv) && cva.DelegatedFree.IsEqual(b.df), idx, 2,
				fmt.Sprintf("%s: original %s delegated vesting %s delegated free %s before the upgrade", a, b.ov, b.dv, b.df))
			rep.Eval("C16.shifted_account_keeps_identity", ok && cva.Sequence == b.seq && cva.AccountNumber == b.num, idx, 2, a)
			if ok {
				ws := time.Unix(b.start, 0).UTC().AddDate(1, 0, 0).Unix()
				we := time.Unix(b.end, 0).UTC().AddDate(1, 0, 0).Unix()
				rep.Eval("C16.shift_is_one_calendar_year_utc", cva.StartTime == ws && cva.EndTime == we, idx, 2,
					fmt.Sprintf("%s: start %d -> %d (one calendar year in UTC: %d), end %d -> %d (%d); process TZ=%s", a, b.start, cva.StartTime, ws, b.end, cva.EndTime, we, time.Local.String()))
				// the same fact as a statement about replicas: what a node in this process's time zone writes is what a node in UTC writes
				rep.Eval("C11.upgrade_writes_the_same_accounts_in_every_time_zone", cva.StartTime == ws && cva.EndTime == we, idx, 2,
					fmt.Sprintf("%s: a node with TZ=%s shifts start %d to %d and end %d to %d; a node in UTC writes %d and %d", a, time.Local.String(), b.start, cva.StartTime, b.end, cva.EndTime, ws, we))
			}
		}
	}
	// ---- the model case: constants read from the implementation's own result where it applied them
	expected := []*big.Int{bi(-1)}
	if ownerFound {
		expected = []*big.Int{bi(int64(len(ownerPost.VestingPools)))}
		for _, p := range ownerPost.VestingPools {
			expected = append(expected, poolCodeU(p)...)
		}
	}
	// split constants (names, types, amounts; lock ends are calendar arithmetic computed here independently)
	var valStart time.Time
	if ownerFound {
		for _, p := range ownerPre.VestingPools {
			if p.Name == "Validators pool" {
				valStart = p.LockStart
			}
		}
	}
	type np struct {
		name, typ string
		amt       int64
		y, m      int
	}
	news := []np{{"VC round pool", "VC round", 15000000, 3, 0}, {"Early-bird round pool", "Early-bird round", 8000000, 2, 3},
		{"Public round pool", "Public round", 9000000, 1, 6}, {"Strategic reserve short term round pool", "Strategic reserve short term round", 40000000, 2, 0}}
	var ks []string
	for _, n := range news {
		amt := new(big.Int).Mul(bi(n.amt), bi(1000000))
		ks = append(ks, fmt.Sprintf("(%d, %d, %s, %s)", upName(n.name), upName(n.typ), zB(amt), zI(valStart.AddDate(n.y, n.m, 0).UnixNano())))
	}
	consts := fmt.Sprintf("{| k_val_pool := %d; k_adv_pool := %d; k_round_pool := %d; k_round_type := %d; k_new := %s |}",
		upName("Validators pool"), upName("Advisors pool"), upName("Validator round pool"), upName("Validator round"), zList(ks))
	rep.Ops++
	rep.NoteCase(modelPools+consts, applied)
	if len(rep.Samples) < 2 {
		s := modelPools
		if len(s) > 900 {
			s = s[:900] + " ..."
		}
		rep.Samples = append(rep.Samples, fmt.Sprintf("upgrade case %d: owner pools %s ; type exists %v ; split applied %v", idx, s, hasType, applied))
	}
	_ = strings.Join
	return fmt.Sprintf("{| uc_id := %d; uc_consts := %s;\n uc_pools := %s; uc_type_exists := %s;\n uc_expected := %s |}", idx, consts, modelPools, zBool(hasType), zListB(expected))
}

// terms of type UpgradeTraces.tcase collected while the cases of one harness run execute (written next to the pool cases)
var upgradeTraceTerms []string

// the accounts the v1.2.0 upgrade documents as genesis accounts and as accounts created from genesis pools
var upgradeGenesisAddrs = []string{
	"c4e1z5h0squtynr8rhwl0mzqdcd0wgmfyvpqmx3y2r", "c4e1x6umuffxgcrgqqqdncwn2t8qdnc2muvultxmza", "c4e1wrhuuwjjmkjx3lxs08ych9ddgdzvujgdr6hnwv",
	"c4e12rxujjj4th90t8z30gnre5tv4zmguuqvtn2u02", "c4e1zvkxuvk8t6wju76pxkp3f4kk447sjm2kdsgvwy", "c4e13qamrx863pa72ku88d3ykypdh0ar6rjycnpkl2",
	"c4e1f57wax48ttw068e6lgag9fse62d4m3e24u0sph", "c4e1jxlv64qf8rvy8zayl7m2m8a0jzhxkfj9aw96f3", "c4e1cpnh73765mx3q87lxacqwvwxn4s8ppry458xp4",
	"c4e1argfhnzzxjft426tnj4crjsu8lqp0av3x8gjey", "c4e1w8hdxd6g7vzupll9ynmenjkln9rs4kcq0mdesf", "c4e12znccp5u8zx9qy4u9gmpxjge9reaxy80qfm295",
	"c4e1t45l2pnk5uwj2qqjw4f6rcy6jw5f9lkplmp49e", "c4e1nmfgexjj3yvvrnc2n7yyahgxsm0vqcm57dqx5f", "c4e1ej2es5fjztqjcd4pwa0zyvaevtjd2y5wq2vaaq",
	"c4e1dsm96gwcv35m4rqd93pzcsztpkrqe0ev7getj8", "c4e10wjj2qmn4zjg2sdxq9mfyj5v4yukwyhzdtf2zp", "c4e1zrd0783g8qa5659apw5tpuqmz2ct6j20t4ymx3",
	"c4e1y8lndj6jz5z93g4xd05nmwyc3wtn39dfgfx7r7", "c4e12845qa79cwlvf3jdcnfq2jy2jfmzslcg52lv3g"}
var upgradeFromPoolAddrs = []string{"c4e13e303u43k7mng4927axuhve0plgsyxc4xky63k", "c4e1twh6302lzcvn7lr3x0fjwfkgryn9ac5c6v2zaj",
	"c4e19je7lmu4yzrpzh7gksj3uhku4as8at6lk36qe7", "c4e1nm50zycnm9yf33rv8n6lpks24usxzahk5usl7e"}

func inList(l []string, s string) bool {
	for _, x := range l {
		if x == s {
			return true
		}
	}
	return false
}
