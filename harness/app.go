package main

// app.go — construction of the real c4e-chain application for the correspondence harness.
// Own genesis builder (SDK types only) so the harness does not depend on the repository's
// test helpers.

import (
	"encoding/json"
	"os"
	"strconv"
	"time"

	c4eapp "github.com/chain4energy/c4e-chain/app"
	appparams "github.com/chain4energy/c4e-chain/app/params"
	cfedistributortypes "github.com/chain4energy/c4e-chain/x/cfedistributor/types"
	cfemintertypes "github.com/chain4energy/c4e-chain/x/cfeminter/types"
	cfevestingtypes "github.com/chain4energy/c4e-chain/x/cfevesting/types"
	codectypes "github.com/cosmos/cosmos-sdk/codec/types"
	cryptocodec "github.com/cosmos/cosmos-sdk/crypto/codec"
	"github.com/cosmos/cosmos-sdk/crypto/keys/secp256k1"
	"github.com/cosmos/cosmos-sdk/simapp"
	sdk "github.com/cosmos/cosmos-sdk/types"
	authtypes "github.com/cosmos/cosmos-sdk/x/auth/types"
	banktypes "github.com/cosmos/cosmos-sdk/x/bank/types"
	"github.com/cosmos/cosmos-sdk/x/crisis"
	stakingtypes "github.com/cosmos/cosmos-sdk/x/staking/types"
	abci "github.com/tendermint/tendermint/abci/types"
	"github.com/tendermint/tendermint/libs/log"
	tmproto "github.com/tendermint/tendermint/proto/tendermint/types"
	tmtypes "github.com/tendermint/tendermint/types"
	dbm "github.com/tendermint/tm-db"
)

const BondDenom = "uc4e"

type GenOpts struct {
	Time        time.Time
	Balances    []banktypes.Balance
	Accounts    []authtypes.GenesisAccount
	Minter      *cfemintertypes.GenesisState
	Distributor *cfedistributortypes.GenesisState
	Vesting     *cfevestingtypes.GenesisState
	Raw         map[string]json.RawMessage // overrides (already encoded module genesis)
	Drop        []string                   // modules left out of the genesis altogether (their InitGenesis does not run)
}

type TestApp struct {
	App     *c4eapp.App
	ValSet  *tmtypes.ValidatorSet
	ValAddr sdk.ValAddress
	Height  int64
	Time    time.Time
	ChainID string
}

// node-local settings that must not influence the state: whether x/crisis asserts the invariants at genesis
// (--x-crisis-skip-assert-invariants) and how often it checks them afterwards (--inv-check-period); replicas differ in them
type nodeOpts map[string]interface{}

func (m nodeOpts) Get(k string) interface{} { return m[k] }

// the database behind the most recently built app (app mode restarts a node over it)
var lastBareDB dbm.DB

func newBareApp() (*c4eapp.App, c4eapp.GenesisState) {
	return newBareAppOn(dbm.NewMemDB())
}

// newBareAppOn builds the application over db; like a node process starting up it loads the latest committed version, if any.
func newBareAppOn(db dbm.DB) (*c4eapp.App, c4eapp.GenesisState) {
	lastBareDB = db
	encoding := c4eapp.MakeEncodingConfig()
	period := uint(0)
	if v := os.Getenv("VERIF_INV_CHECK_PERIOD"); v != "" {
		if n, err := strconv.Atoi(v); err == nil {
			period = uint(n)
		}
	}
	app := c4eapp.New(log.NewNopLogger(), db, nil, true, map[int64]bool{}, c4eapp.DefaultNodeHome, period,
		appparams.EncodingConfig(encoding), nodeOpts{crisis.FlagSkipGenesisInvariants: os.Getenv("VERIF_CRISIS_SKIP") == "1",
			// the operator's telemetry switch ([telemetry] enabled in app.toml): metrics must not cost gas or change results
			"telemetry.enabled": os.Getenv("VERIF_TELEMETRY") == "1", "telemetry.service-name": "verif"})
	return app, c4eapp.NewDefaultGenesisState(encoding.Marshaler)
}

var valKey = secp256k1.GenPrivKeyFromSecret([]byte("verif-validator"))
var delegatorKey = secp256k1.GenPrivKeyFromSecret([]byte("verif-delegator"))

// BuildGenesis returns the app state JSON for the given options.
func BuildGenesis(app *c4eapp.App, genesisState c4eapp.GenesisState, o GenOpts) ([]byte, *tmtypes.ValidatorSet, sdk.ValAddress) {
	pubKey, _ := cryptocodec.ToTmPubKeyInterface(valKey.PubKey())
	val := &tmtypes.Validator{Address: pubKey.Address(), PubKey: pubKey, VotingPower: 1}
	valSet := tmtypes.NewValidatorSet([]*tmtypes.Validator{val})

	delAcc := authtypes.NewBaseAccount(delegatorKey.PubKey().Address().Bytes(), delegatorKey.PubKey(), 0, 0)
	genAccs := append([]authtypes.GenesisAccount{delAcc}, o.Accounts...)
	authGenesis := authtypes.NewGenesisState(authtypes.DefaultParams(), genAccs)
	genesisState[authtypes.ModuleName] = app.AppCodec().MustMarshalJSON(authGenesis)

	bondAmt := sdk.DefaultPowerReduction
	pk, _ := cryptocodec.FromTmPubKeyInterface(val.PubKey)
	pkAny, _ := codectypes.NewAnyWithValue(pk)
	valAddr := sdk.ValAddress(val.Address)
	validator := stakingtypes.Validator{
		OperatorAddress: valAddr.String(), ConsensusPubkey: pkAny, Jailed: false, Status: stakingtypes.Bonded,
		Tokens: bondAmt, DelegatorShares: sdk.OneDec(), Description: stakingtypes.Description{},
		UnbondingHeight: 0, UnbondingTime: time.Unix(0, 0).UTC(),
		Commission:        stakingtypes.NewCommission(sdk.ZeroDec(), sdk.ZeroDec(), sdk.ZeroDec()),
		MinSelfDelegation: sdk.ZeroInt(),
	}
	delegation := stakingtypes.NewDelegation(delAcc.GetAddress(), val.Address.Bytes(), sdk.OneDec())
	stakingParams := stakingtypes.DefaultParams()
	stakingParams.BondDenom = BondDenom
	genesisState[stakingtypes.ModuleName] = app.AppCodec().MustMarshalJSON(
		stakingtypes.NewGenesisState(stakingParams, []stakingtypes.Validator{validator}, []stakingtypes.Delegation{delegation}))

	balances := append([]banktypes.Balance{}, o.Balances...)
	balances = append(balances, banktypes.Balance{
		Address: authtypes.NewModuleAddress(stakingtypes.BondedPoolName).String(),
		Coins:   sdk.Coins{sdk.NewCoin(BondDenom, bondAmt)},
	})
	totalSupply := sdk.NewCoins()
	for _, b := range balances {
		totalSupply = totalSupply.Add(b.Coins...)
	}
	genesisState[banktypes.ModuleName] = app.AppCodec().MustMarshalJSON(
		banktypes.NewGenesisState(banktypes.DefaultGenesisState().Params, balances, totalSupply, []banktypes.Metadata{}))

	vg := o.Vesting
	if vg == nil {
		vg = cfevestingtypes.DefaultGenesis()
		vg.Params.Denom = BondDenom
	}
	genesisState[cfevestingtypes.ModuleName] = app.AppCodec().MustMarshalJSON(vg)
	dg := o.Distributor
	if dg == nil {
		dg = cfedistributortypes.DefaultGenesis()
		dg.Params.SubDistributors[0].Destinations.PrimaryShare.Id = cfedistributortypes.GreenEnergyBoosterCollector
	}
	genesisState[cfedistributortypes.ModuleName] = app.AppCodec().MustMarshalJSON(dg)
	if o.Minter != nil {
		genesisState[cfemintertypes.ModuleName] = app.AppCodec().MustMarshalJSON(o.Minter)
	}
	for k, v := range o.Raw {
		genesisState[k] = v
	}
	for _, k := range o.Drop {
		delete(genesisState, k)
	}
	stateBytes, err := json.MarshalIndent(genesisState, "", " ")
	if err != nil {
		panic(err)
	}
	return stateBytes, valSet, valAddr
}

// NewTestApp builds the app, runs InitChain + Commit and opens block 2 (BeginBlock) at o.Time.
func NewTestApp(o GenOpts) *TestApp {
	app, gs := newBareApp()
	stateBytes, valSet, valAddr := BuildGenesis(app, gs, o)
	app.InitChain(abci.RequestInitChain{
		Time:            o.Time,
		Validators:      []abci.ValidatorUpdate{},
		ConsensusParams: simapp.DefaultConsensusParams,
		AppStateBytes:   stateBytes,
	})
	app.Commit()
	ta := &TestApp{App: app, ValSet: valSet, ValAddr: valAddr, Height: 1, Time: o.Time}
	ta.Begin(o.Time)
	return ta
}

func (ta *TestApp) header(t time.Time) tmproto.Header {
	return tmproto.Header{
		ChainID:            ta.ChainID,
		Height:             ta.Height + 1,
		Time:               t,
		AppHash:            ta.App.LastCommitID().Hash,
		ValidatorsHash:     ta.ValSet.Hash(),
		NextValidatorsHash: ta.ValSet.Hash(),
		ProposerAddress:    ta.ValSet.Validators[0].Address,
	}
}

// Begin opens the next block at time t (real ABCI BeginBlock).
func (ta *TestApp) Begin(t time.Time) abci.ResponseBeginBlock {
	ta.Time = t
	return ta.App.BeginBlock(abci.RequestBeginBlock{Header: ta.header(t)})
}

// End closes the current block (EndBlock + Commit).
func (ta *TestApp) End() (abci.ResponseEndBlock, []byte) {
	r := ta.App.EndBlock(abci.RequestEndBlock{Height: ta.Height + 1})
	c := ta.App.Commit()
	ta.Height++
	return r, c.Data
}

// Ctx returns the deliver-state context of the open block.
func (ta *TestApp) Ctx() sdk.Context {
	return ta.App.BaseApp.NewContext(false, ta.header(ta.Time))
}
