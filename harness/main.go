package main

// Correspondence harness for the c4e-chain Coq model.
//   harness <kind> -seed S -n N -out DIR [-shards K] [-only IDX]
// Generates cases from (seed, index), executes them on the real application built from /repo's
// working tree, writes cases_<kind>_<k>.v (inputs + observed projections as Gallina terms) and
// report_<kind>.json (implementation-side predicate results, input distribution, samples).

import (
	"flag"
	"fmt"
	sdkversion "github.com/cosmos/cosmos-sdk/version"
	"os"
	"time"
)

func main() {
	if len(os.Args) < 2 {
		fmt.Println("usage: harness <kind> [flags]")
		os.Exit(2)
	}
	kind := os.Args[1]
	fs := flag.NewFlagSet(kind, flag.ExitOnError)
	seed := fs.Uint64("seed", 1, "seed")
	n := fs.Int("n", 100, "number of cases")
	out := fs.String("out", ".", "output directory")
	shards := fs.Int("shards", 4, "number of .v shards")
	only := fs.Int("only", -1, "run only this case index")
	profile := fs.String("profile", "", "generator profile")
	trace := fs.String("trace", "", "directory for the per-block trace (app kind)")
	fs.Parse(os.Args[2:])
	os.MkdirAll(*out, 0o755)
	rep := NewReport(kind, *seed)
	var terms []string
	var require, caseType string
	fn := "mismatches"
	lo, hi := 0, *n
	if *only >= 0 {
		lo, hi = *only, *only+1
	}
	switch kind {
	case "vest":
		require, caseType = "Vest", "vcase"
		ta := NewTestApp(GenOpts{Time: time.Unix(1690000000, 0).UTC()})
		for i := lo; i < hi; i++ {
			terms = append(terms, runVestCase(ta, *seed, i, rep, *profile))
			rep.Cases++
		}
	case "distr":
		require, caseType, fn = "Distributor", "dcase", "dmismatches"
		ta := NewTestApp(GenOpts{Time: time.Unix(1690000000, 0).UTC()})
		for i := lo; i < hi; i++ {
			terms = append(terms, runDistrCase(ta, *seed, i, rep, *profile))
			rep.Cases++
		}
	case "app":
		require, caseType, fn = "Minter", "acase", "amismatches"
		if *trace != "" {
			os.MkdirAll(*trace, 0o755)
			os.Remove(*trace + "/trace.txt")
		}
		for i := lo; i < hi; i++ {
			terms = append(terms, runAppCase(*seed, i, rep, *profile, *trace)...)
			rep.Cases++
		}
	case "params":
		require, caseType, fn = "Params", "pcase", "pmismatches"
		ta := NewTestApp(GenOpts{Time: time.Unix(1690000000, 0).UTC()})
		for i := lo; i < hi; i++ {
			terms = append(terms, runParamsCase(ta, *seed, i, rep, *profile))
			rep.Cases++
		}
	case "upgrade":
		require, caseType, fn = "Upgrade", "ucase", "umismatches"
		opts := GenOpts{Time: time.Unix(1690000000, 0).UTC()}
		if *profile == "handler" {
			// the version string a release build links in (the Makefile's -ldflags): read by app.New into BaseApp.Version()
			sdkversion.Version = "v0.0.0-verif-build-marker"
			// a chain as it is before v1.2.0: the interchain-accounts module has no state yet (the upgrade handler initialises it)
			opts.Drop = []string{"interchainaccounts"}
		}
		ta := NewTestApp(opts)
		for i := lo; i < hi; i++ {
			terms = append(terms, runUpgradeCase(ta, *seed, i, rep, *profile))
			rep.Cases++
		}
	case "vgenesis":
		require, caseType, fn = "VestGenesis", "vgcase", "vgmismatches"
		ta := NewTestApp(GenOpts{Time: time.Unix(1690000000, 0).UTC()})
		for i := lo; i < hi; i++ {
			terms = append(terms, runVGenesisCase(ta, *seed, i, rep, *profile))
			rep.Cases++
		}
	case "migrate":
		require, caseType, fn = "Migrate", "gcase", "gmismatches"
		ta := NewTestApp(GenOpts{Time: time.Unix(1690000000, 0).UTC()})
		for i := lo; i < hi; i++ {
			terms = append(terms, runMigrateCase(ta, *seed, i, rep, *profile))
			rep.Cases++
		}
	case "sweep":
		ta := NewTestApp(GenOpts{Time: time.Unix(1690000000, 0).UTC()})
		if *profile == "clock" {
			require, caseType, fn = "HandlersSweep", "(msg * Z * Z)%type", "vmismatches"
			terms = runSweepClock(ta, rep)
		} else if *profile == "values" {
			require, caseType, fn = "HandlersSweep", "(msg * Z * Z)%type", "vmismatches"
			terms = runSweepValues(ta, rep, *seed, lo, hi)
		} else {
			require, caseType, fn = "HandlersSweep", "(Z * list Z * Z * Z)%type", "hmismatches"
			terms = runSweep(ta, rep)
		}
	case "sig":
		require, caseType, fn = "Sig", "scase", "smismatches"
		ta := NewTestApp(GenOpts{Time: time.Unix(1690000000, 0).UTC()})
		for i := lo; i < hi; i++ {
			terms = append(terms, runSigCase(ta, *seed, i, rep, *profile))
			rep.Cases++
		}
	case "minter":
		require, caseType = "Minter", "mcase"
		ta := NewTestApp(GenOpts{Time: time.Unix(1690000000, 0).UTC()})
		for i := lo; i < hi; i++ {
			terms = append(terms, runMinterCase(ta, *seed, i, rep, *profile)...)
			rep.Cases++
		}
	default:
		fmt.Println("unknown kind", kind)
		os.Exit(2)
	}
	tag := kind
	if *profile != "" {
		tag = kind + "_" + *profile
	}
	rep.Shards = writeShardsFn(*out, tag, require, caseType, fn, terms, *shards)
	rep.Write(fmt.Sprintf("%s/report_%s.json", *out, tag))
	fmt.Printf("harness %s: cases=%d ops=%d predfails=%d panics=%d\n", tag, rep.Cases, rep.Ops, len(rep.PredFails), len(rep.Panics))
}
