package main

// util.go — PRNG, Gallina literal printers, result bookkeeping shared by all harness kinds.

import (
	"crypto/sha256"
	"encoding/json"
	"fmt"
	"math/big"
	"os"
	"sort"
	"strings"
)

// ---------------------------------------------------------------- PRNG (splitmix64) --------
type Rng struct{ s uint64 }

func NewRng(seed uint64, idx uint64) *Rng {
	r := &Rng{s: seed*0x9E3779B97F4A7C15 ^ (idx+1)*0xBF58476D1CE4E5B9}
	r.U64()
	r.U64()
	return r
}
func (r *Rng) U64() uint64 {
	r.s += 0x9E3779B97F4A7C15
	z := r.s
	z = (z ^ (z >> 30)) * 0xBF58476D1CE4E5B9
	z = (z ^ (z >> 27)) * 0x94D049BB133111EB
	return z ^ (z >> 31)
}
func (r *Rng) Intn(n int) int {
	if n <= 0 {
		return 0
	}
	return int(r.U64() % uint64(n))
}
func (r *Rng) I64n(n int64) int64 {
	if n <= 0 {
		return 0
	}
	return int64(r.U64() % uint64(n))
}
func (r *Rng) Bool() bool          { return r.U64()&1 == 1 }
func (r *Rng) Chance(pct int) bool { return r.Intn(100) < pct }
func (r *Rng) Bytes(n int) []byte {
	b := make([]byte, n)
	for i := range b {
		b[i] = byte(r.U64())
	}
	return b
}

// BigBelow returns a uniform integer in [0, n).
func (r *Rng) BigBelow(n *big.Int) *big.Int {
	if n.Sign() <= 0 {
		return big.NewInt(0)
	}
	nb := (n.BitLen() + 7) / 8
	x := new(big.Int).SetBytes(r.Bytes(nb + 8))
	return x.Mod(x, n)
}

// LogUniform returns an integer roughly log-uniform in [1, 10^maxDigits].
func (r *Rng) LogUniform(maxDigits int) *big.Int {
	d := r.Intn(maxDigits) + 1
	lim := new(big.Int).Exp(big.NewInt(10), big.NewInt(int64(d)), nil)
	x := r.BigBelow(lim)
	if x.Sign() == 0 {
		x.SetInt64(1)
	}
	return x
}

func (r *Rng) Pick(ws ...int) int { // weighted choice
	tot := 0
	for _, w := range ws {
		tot += w
	}
	x := r.Intn(tot)
	for i, w := range ws {
		if x < w {
			return i
		}
		x -= w
	}
	return len(ws) - 1
}

// ---------------------------------------------------------------- Gallina printers ---------
func zI(i int64) string {
	if i < 0 {
		return fmt.Sprintf("(%d)", i)
	}
	return fmt.Sprintf("%d", i)
}
func zB(b *big.Int) string {
	if b == nil {
		return "0"
	}
	if b.Sign() < 0 {
		return "(" + b.String() + ")"
	}
	return b.String()
}
func zBool(b bool) string {
	if b {
		return "true"
	}
	return "false"
}
func zList(xs []string) string { return "[" + strings.Join(xs, "; ") + "]" }
func zListB(xs []*big.Int) string {
	s := make([]string, len(xs))
	for i, x := range xs {
		s[i] = zB(x)
	}
	return zList(s)
}
func zPair(a, b string) string { return "(" + a + ", " + b + ")" }

func bi(i int64) *big.Int { return big.NewInt(i) }

// ---------------------------------------------------------------- results ------------------
type PredFail struct {
	Case   int    `json:"case"`
	Step   int    `json:"step"`
	Pred   string `json:"pred"`
	Detail string `json:"detail"`
}

type Report struct {
	Kind      string         `json:"kind"`
	Seed      uint64         `json:"seed"`
	Cases     int            `json:"cases"`
	Ops       int            `json:"ops"`
	Distinct  int            `json:"distinct_nontrivial"`
	Dist      map[string]int `json:"distribution"`
	PredEvals map[string]int `json:"pred_evals"`
	PredFails []PredFail     `json:"pred_fails"`
	Samples   []string       `json:"samples"`
	Shards    []string       `json:"shards"`
	Panics    []string       `json:"panics"`
	// distr kind: cases outside the hypotheses of the ledger refinement theorem (known-finding shapes, a failed sweep, a panic)
	LedgerExempt []int `json:"ledger_exempt"`
	seen         map[[32]byte]bool
	knownSeen    map[string]int
}

// NoteCase records a case for the distinct / non-trivial count.
func (r *Report) NoteCase(canonical string, nontrivial bool) {
	if !nontrivial {
		return
	}
	if r.seen == nil {
		r.seen = map[[32]byte]bool{}
	}
	h := sha256.Sum256([]byte(canonical))
	if !r.seen[h] {
		r.seen[h] = true
		r.Distinct++
	}
}

func NewReport(kind string, seed uint64) *Report {
	return &Report{Kind: kind, Seed: seed, Dist: map[string]int{}, PredEvals: map[string]int{}}
}
func (r *Report) Count(k string) { r.Dist[k]++ }
func (r *Report) Eval(pred string, ok bool, c, step int, detail string) {
	r.PredEvals[pred]++
	if !ok && strings.Contains(pred, ".K") { // known-finding classes: keep a few witnesses only
		if r.knownSeen == nil {
			r.knownSeen = map[string]int{}
		}
		r.knownSeen[pred]++
		if r.knownSeen[pred] > 3 {
			return
		}
	}
	if !ok && len(r.PredFails) < 200 {
		r.PredFails = append(r.PredFails, PredFail{c, step, pred, detail})
	}
}
func (r *Report) Write(path string) {
	b, _ := json.MarshalIndent(r, "", " ")
	if err := os.WriteFile(path, b, 0o644); err != nil {
		panic(err)
	}
}

func sortedKeys(m map[string]int) []string {
	ks := make([]string, 0, len(m))
	for k := range m {
		ks = append(ks, k)
	}
	sort.Strings(ks)
	return ks
}

// writeShards writes case terms into K files cases_<kind>_<k>.v, each evaluating `mismatches`.
func writeShards(dir, kind, require, caseType string, terms []string, shards int) []string {
	return writeShardsFn(dir, kind, require, caseType, "mismatches", terms, shards)
}

func writeShardsFn(dir, kind, require, caseType, fn string, terms []string, shards int) []string {
	if shards < 1 {
		shards = 1
	}
	var files []string
	per := (len(terms) + shards - 1) / shards
	if per == 0 {
		per = 1
	}
	for k := 0; k*per < len(terms); k++ {
		lo, hi := k*per, (k+1)*per
		if hi > len(terms) {
			hi = len(terms)
		}
		name := fmt.Sprintf("%s/cases_%s_%d.v", dir, kind, k)
		var sb strings.Builder
		sb.WriteString("From C4E Require Import " + require + ".\nOpen Scope Z_scope.\n")
		sb.WriteString("Definition cases : list " + caseType + " := [\n")
		sb.WriteString(strings.Join(terms[lo:hi], ";\n"))
		sb.WriteString("\n].\nDefinition M := Eval vm_compute in " + fn + " cases.\nPrint M.\n")
		if kind == "app" && k == 0 && len(appDistrTerms) > 0 {
			// the distributor's half of the same blocks against AppBlock.v (AppCheck.v)
			sb.WriteString("From C4E Require Import AppCheck.\nDefinition dcases : list abcase := [\n" + strings.Join(appDistrTerms, ";\n") +
				"\n].\nDefinition D := Eval vm_compute in abmismatches dcases.\nPrint D.\n")
		}
		if strings.HasPrefix(kind, "upgrade") && k == 0 && len(upgradeTraceTerms) > 0 {
			// the recorded accounts through the upgrade against UpgradeTraces.v
			sb.WriteString("From C4E Require Import UpgradeTraces.\nDefinition tcases : list tcase := [\n" + strings.Join(upgradeTraceTerms, ";\n") +
				"\n].\nDefinition D := Eval vm_compute in tmismatches tcases.\nPrint D.\n")
		}
		if require == "Distributor" {
			// the credited-amounts machine next to the model on the same cases (LedgerCheck.v)
			sb.WriteString("From C4E Require Import LedgerCheck.\nDefinition L := Eval vm_compute in ledger_disagreements cases.\nPrint L.\n")
		}
		if err := os.WriteFile(name, []byte(sb.String()), 0o644); err != nil {
			panic(err)
		}
		files = append(files, name)
	}
	return files
}
