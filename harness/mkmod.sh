#!/bin/sh
# Regenerate go.mod / go.sum of the harness from /repo's current go.mod so the harness always
# compiles against exactly the dependency set of the working tree.
set -e
cd "$(dirname "$0")"
REPO=${REPO:-/repo}
{
  echo "module verifharness"
  echo
  sed -n '/^go /p' $REPO/go.mod
  echo
  echo "require github.com/chain4energy/c4e-chain v0.0.0"
  sed -n '/^require (/,/^)/p' $REPO/go.mod
  echo
  echo "replace github.com/chain4energy/c4e-chain => $REPO"
  sed -n '/^replace (/,/^)/p' $REPO/go.mod
} > go.mod.new
cmp -s go.mod.new go.mod 2>/dev/null && rm go.mod.new || mv go.mod.new go.mod
cmp -s $REPO/go.sum go.sum 2>/dev/null || cp $REPO/go.sum go.sum
