package main

// vgenesis.go — the vesting module's genesis: generated GenesisStates (vesting types, owners with pools, lineage traces;
// valid, and perturbed in every way Validate looks at) together with a bank balance of the vesting module account that
// equals, exceeds or falls short of what the pools lock — including "no pools at all, module account funded".
// The real types.GenesisState.Validate and cfevesting.InitGenesis (which must refuse an unbacked module account) run on
// a cache context with an emptied vesting store; the store read back through the keeper is compared with
// C4E.VestGenesis (vgmismatches).  Predicates on the implementation: an accepted genesis leaves the module account exactly
// backed (C05) and export / re-import / re-export is the identity (C12).

import (
	"encoding/json"
	"fmt"
	"math/big"
	"os"
	"sort"
	"time"

	cfevesting "github.com/chain4energy/c4e-chain/x/cfevesting"
	vestkeeper "github.com/chain4energy/c4e-chain/x/cfevesting/keeper"
	vesttypes "github.com/chain4energy/c4e-chain/x/cfevesting/types"
	sdk "github.com/cosmos/cosmos-sdk/types"
	authtypes "github.com/cosmos/cosmos-sdk/x/auth/types"
	vestingtypes "github.com/cosmos/cosmos-sdk/x/auth/vesting/types"
)

func clearStore(ctx sdk.Context, ta *TestApp, storeKey string) {
	st := ctx.KVStore(ta.App.GetKey(storeKey))
	it := st.Iterator(nil, nil)
	var keys [][]byte
	for ; it.Valid(); it.Next() {
		keys = append(keys, append([]byte{}, it.Key()...))
	}
	it.Close()
	for _, kk := range keys {
		st.Delete(kk)
	}
}

// setModuleBalance makes the module account hold exactly amt of denom.
func setModuleBalance(ctx sdk.Context, ta *TestApp, module, denom string, amt sdk.Int) {
	addr := ta.App.AccountKeeper.GetModuleAddress(module)
	cur := ta.App.BankKeeper.GetBalance(ctx, addr, denom).Amount
	if cur.GT(amt) {
		if err := ta.App.BankKeeper.SendCoinsFromModuleToModule(ctx, module, authtypes.FeeCollectorName, sdk.NewCoins(sdk.NewCoin(denom, cur.Sub(amt)))); err != nil {
			panic(err)
		}
	} else if cur.LT(amt) {
		fundModule(ctx, ta, module, sdk.NewCoins(sdk.NewCoin(denom, amt.Sub(cur))))
	}
}

func rankOf(xs []string) map[string]int64 {
	u := map[string]bool{}
	for _, x := range xs {
		u[x] = true
	}
	var ks []string
	for k := range u {
		ks = append(ks, k)
	}
	sort.Strings(ks)
	r := map[string]int64{}
	for i, k := range ks {
		r[k] = int64(i + 1)
	}
	return r
}

func runVGenesisCase(ta *TestApp, seed uint64, idx int, rep *Report, profile string) string {
	rng := NewRng(seed, uint64(idx)+113000000)
	app := ta.App
	base, _ := ta.Ctx().CacheContext()
	now := time.Unix(1690000000+rng.I64n(20000000), 0).UTC()
	ctx := base.WithBlockTime(now)
	// names (vesting types are stored under their name: store order = string order) are identified by their rank
	var names map[string]int64
	nm := func(s string) int64 {
		if s == "" {
			return 0
		}
		return names[s]
	}
	unitStr := []string{"day", "hour", "minute", "second", "fortnight"}
	pert := "none"
	choose := -1
	if rng.Chance(40) {
		choose = rng.Intn(16)
	}
	// ---- vesting types
	var gvts []vesttypes.GenesisVestingType
	nvt := 1 + rng.Intn(3)
	for i := 0; i < nvt; i++ {
		free := sdk.NewDecWithPrec(rng.I64n(101), 2)
		gvts = append(gvts, vesttypes.GenesisVestingType{Name: fmt.Sprintf("vt%d", i), LockupPeriod: rng.I64n(1000), LockupPeriodUnit: unitStr[rng.Intn(4)],
			VestingPeriod: rng.I64n(1000), VestingPeriodUnit: unitStr[rng.Intn(4)], Free: free})
	}
	switch choose {
	case 0:
		gvts = append(gvts, gvts[0])
		pert = "duplicate_vesting_type"
	case 1:
		gvts[0].LockupPeriodUnit = unitStr[4]
		pert = "unknown_unit"
	case 2:
		gvts[0].VestingPeriod = -1 - rng.I64n(5)
		pert = "negative_period"
	case 3:
		gvts[0].Free = sdk.NewDecWithPrec(101, 2)
		pert = "free_above_one"
	case 4:
		gvts[0].Name = ""
		pert = "vesting_type_without_name"
	}
	// ---- owners and pools
	var avps []*vesttypes.AccountVestingPools
	nOwners := rng.Intn(5)
	if rng.Chance(25) {
		nOwners = 0
	}
	for i := 0; i < nOwners; i++ {
		avp := &vesttypes.AccountVestingPools{Owner: sdk.AccAddress(rng.Bytes(20)).String()}
		np := rng.Intn(4)
		for j := 0; j < np; j++ {
			locked := rng.LogUniform(20)
			if rng.Chance(10) {
				locked = bi(0)
			}
			sent := rng.BigBelow(new(big.Int).Add(locked, bi(1)))
			if rng.Chance(50) {
				sent = bi(0)
			}
			rest := new(big.Int).Sub(locked, sent)
			wd := rng.BigBelow(new(big.Int).Add(rest, bi(1)))
			if rng.Chance(50) {
				wd = bi(0)
			}
			if rng.Chance(8) {
				wd = rest // nothing locked any more
			}
			ls := now.Add(-time.Duration(rng.I64n(int64(400 * 24 * time.Hour)))).Truncate(time.Second)
			avp.VestingPools = append(avp.VestingPools, &vesttypes.VestingPool{Name: fmt.Sprintf("pool%d", j), VestingType: gvts[rng.Intn(len(gvts))].Name,
				LockStart: ls, LockEnd: ls.Add(time.Duration(1+rng.I64n(int64(900*24*time.Hour))) * 1).Truncate(time.Second),
				InitiallyLocked: sdk.NewIntFromBigInt(locked), Withdrawn: sdk.NewIntFromBigInt(wd), Sent: sdk.NewIntFromBigInt(sent), GenesisPool: rng.Bool()})
		}
		avps = append(avps, avp)
	}
	var somePool *vesttypes.VestingPool
	for _, a := range avps {
		if len(a.VestingPools) > 0 {
			somePool = a.VestingPools[rng.Intn(len(a.VestingPools))]
		}
	}
	switch choose {
	case 5:
		if somePool != nil {
			somePool.Withdrawn = somePool.InitiallyLocked.AddRaw(1)
			pert = "withdrawn_above_locked"
		}
	case 6:
		if somePool != nil {
			somePool.Sent = sdk.NewInt(-1)
			pert = "negative_sent"
		}
	case 7:
		if somePool != nil {
			somePool.Name = ""
			pert = "pool_without_name"
		}
	case 8:
		if somePool != nil {
			somePool.VestingType = "nosuchtype"
			pert = "unknown_vesting_type"
		}
	case 9:
		for _, a := range avps {
			if len(a.VestingPools) >= 2 {
				a.VestingPools[1].Name = a.VestingPools[0].Name
				pert = "duplicate_pool_name"
				break
			}
		}
	case 10:
		if len(avps) >= 1 {
			cp := *avps[0]
			avps = append(avps, &cp)
			pert = "duplicate_owner"
		}
	case 11:
		if len(avps) >= 1 {
			avps[rng.Intn(len(avps))].Owner = "c4e1notanaddress"
			pert = "owner_not_bech32"
		}
	}
	// ---- traces
	var traces []vesttypes.VestingAccountTrace
	nTr := rng.Intn(4)
	count := uint64(nTr + rng.Intn(3))
	ids := rng.Intn(3)
	for i := 0; i < nTr; i++ {
		traces = append(traces, vesttypes.VestingAccountTrace{Id: uint64((i + ids) % (nTr + 1)), Address: sdk.AccAddress(rng.Bytes(20)).String(),
			Genesis: rng.Bool(), FromGenesisPool: rng.Bool(), FromGenesisAccount: rng.Bool()})
	}
	if uint64(nTr+1) > count {
		count = uint64(nTr + 1)
	}
	// half of the recorded addresses are continuous vesting accounts of the chain: some still vesting, some whose vesting is over or
	// whose vesting coins are all delegated — accounts that lock nothing any more are still recorded as genesis-derived
	for i := range traces {
		if !rng.Bool() {
			continue
		}
		addr, err := sdk.AccAddressFromBech32(traces[i].Address)
		if err != nil {
			continue
		}
		ov := sdk.NewCoins(sdk.NewInt64Coin(BondDenom, 1000+rng.I64n(100000)))
		bacc := ta.App.AccountKeeper.NewAccountWithAddress(ctx, addr).(*authtypes.BaseAccount)
		start, end := now.Unix()-1000, now.Unix()+100000
		kindOf := rng.Intn(3)
		if kindOf == 0 { // vesting over
			start, end = now.Unix()-5000, now.Unix()-10
		}
		cva := vestingtypes.NewContinuousVestingAccount(bacc, ov, start, end)
		if kindOf == 1 { // everything that still vests is delegated
			cva.DelegatedVesting = ov
		}
		ta.App.AccountKeeper.SetAccount(ctx, cva)
		if kindOf != 1 {
			fundAddr(ctx, ta, addr, ov)
		}
		rep.Count(fmt.Sprintf("trace.address_is_vesting_account.kind%d", kindOf))
	}
	switch choose {
	case 12:
		if len(traces) >= 2 {
			traces[1].Id = traces[0].Id
			pert = "duplicate_trace_id"
		}
	case 13:
		if len(traces) >= 1 {
			traces[0].Id = count + uint64(rng.Intn(2))
			pert = "trace_id_not_below_count"
		}
	case 14:
		if len(traces) >= 1 {
			traces[0].Address = "xyz"
			pert = "trace_address_not_bech32"
		}
	}
	denom := BondDenom
	if rng.Chance(35) {
		// a chain whose vesting denomination is not the module's default (set at genesis, or changed by governance before any pool existed)
		denom = []string{"uvest", "ibc/27394FB092D2ECCD56123C74F36E4C1F926001CEADA9CA97EA622B25F41E5EB2", "u2"}[rng.Intn(3)]
		rep.Count("denom.not_the_default")
	}
	if choose == 15 {
		denom = []string{"", "1"}[rng.Intn(2)]
		pert = "denom"
	}
	rep.Count("perturbation." + pert)
	rep.Count(fmt.Sprintf("owners.%d", len(avps)))
	gs := vesttypes.GenesisState{Params: vesttypes.Params{Denom: denom}, VestingTypes: gvts, AccountVestingPools: avps,
		VestingAccountTraces: traces, VestingAccountTraceCount: count}

	// ---- what the pools lock, and the module account's balance
	locked := sdk.ZeroInt()
	for _, a := range avps {
		for _, p := range a.VestingPools {
			locked = locked.Add(p.GetCurrentlyLocked())
		}
	}
	bal := locked
	balClass := "equal"
	switch rng.Pick(62, 14, 12, 12) {
	case 1:
		bal = locked.AddRaw(1 + rng.I64n(1000))
		balClass = "above"
	case 2:
		bal = locked.SubRaw(1 + rng.I64n(1000))
		balClass = "below"
	case 3:
		if locked.IsZero() {
			bal = sdk.NewIntFromBigInt(rng.LogUniform(12))
			balClass = "funded_without_locked_pools"
		}
	}
	if bal.IsNegative() {
		bal = sdk.ZeroInt()
		if !locked.IsZero() {
			balClass = "below"
		} else {
			balClass = "equal"
		}
	}
	rep.Count("module_balance." + balClass)
	if len(avps) == 0 {
		rep.Count("no_owner_entries.balance_" + balClass)
	}
	balDenom := denom
	if sdk.ValidateDenom(balDenom) != nil {
		balDenom = BondDenom
	}

	// ---- run
	valid := false
	func() {
		defer func() {
			if r := recover(); r != nil {
				rep.Panics = append(rep.Panics, fmt.Sprintf("case %d: Validate: %v", idx, r))
			}
		}()
		valid = gs.Validate() == nil
	}()
	clearStore(ctx, ta, vesttypes.StoreKey)
	setModuleBalance(ctx, ta, vesttypes.ModuleName, balDenom, bal)
	k := app.CfevestingKeeper
	initOK := true
	func() {
		defer func() {
			if r := recover(); r != nil {
				initOK = false
				if os.Getenv("VERIF_DEBUG") != "" {
					fmt.Printf("case %d InitGenesis panic: %v\n", idx, r)
				}
			}
		}()
		cfevesting.InitGenesis(ctx, k, gs, app.AccountKeeper, app.BankKeeper, app.StakingKeeper)
	}()
	rep.Ops += 2

	// ---- terms
	var allNames []string
	for _, t := range gvts {
		allNames = append(allNames, t.Name)
	}
	for _, a := range avps {
		for _, p := range a.VestingPools {
			allNames = append(allNames, p.Name, p.VestingType)
		}
	}
	names = rankOf(allNames)
	var ownerStrs, trAddrs []string
	for _, a := range avps {
		ownerStrs = append(ownerStrs, a.Owner)
	}
	for _, t := range traces {
		trAddrs = append(trAddrs, t.Address)
	}
	oRank, tRank := rankOf(ownerStrs), rankOf(trAddrs)
	unitCode := func(u string) int64 {
		for i, s := range unitStr[:4] {
			if s == u {
				return int64(i)
			}
		}
		return 9
	}
	poolTerm := func(p *vesttypes.VestingPool) string {
		return fmt.Sprintf("{| p_name := %d; p_vtype := %d; p_lock_start := %s; p_lock_end := %s; p_locked := %s; p_withdrawn := %s; p_sent := %s; p_genesis := %s |}",
			nm(p.Name), nm(p.VestingType), zI(p.LockStart.UnixNano()), zI(p.LockEnd.UnixNano()),
			zB(p.InitiallyLocked.BigInt()), zB(p.Withdrawn.BigInt()), zB(p.Sent.BigInt()), zBool(p.GenesisPool))
	}
	var vtT, owT, trT []string
	for _, t := range gvts {
		vtT = append(vtT, fmt.Sprintf("{| gv_name := %d; gv_lock_unit := %d; gv_lock := %s; gv_vest_unit := %d; gv_vest := %s; gv_free := %s |}",
			nm(t.Name), unitCode(t.LockupPeriodUnit), zI(t.LockupPeriod), unitCode(t.VestingPeriodUnit), zI(t.VestingPeriod), zB(t.Free.BigInt())))
	}
	for _, a := range avps {
		var ps []string
		for _, p := range a.VestingPools {
			ps = append(ps, poolTerm(p))
		}
		_, e := sdk.AccAddressFromBech32(a.Owner)
		owT = append(owT, fmt.Sprintf("{| go_owner := %d; go_addr_ok := %s; go_pools := %s |}", oRank[a.Owner], zBool(e == nil), zList(ps)))
	}
	for _, t := range traces {
		_, e := sdk.AccAddressFromBech32(t.Address)
		trT = append(trT, fmt.Sprintf("{| gt_id := %d; gt_addr := %d; gt_addr_ok := %s; gt_flags := {| t_genesis := %s; t_from_pool := %s; t_from_acct := %s |} |}",
			t.Id, tRank[t.Address], zBool(e == nil), zBool(t.Genesis), zBool(t.FromGenesisPool), zBool(t.FromGenesisAccount)))
	}
	// the denomination as a number: 0 the empty string, then one number per string
	denomId := func(d string) int64 {
		for i, x := range []string{"", BondDenom, "uvest", "ibc/27394FB092D2ECCD56123C74F36E4C1F926001CEADA9CA97EA622B25F41E5EB2", "u2", "1"} {
			if x == d {
				return int64(i)
			}
		}
		return 99
	}
	gterm := fmt.Sprintf("{| vg_denom := %d; vg_denom_nonempty := %s; vg_denom_ok := %s; vg_vtypes := %s; vg_owners := %s; vg_traces := %s; vg_trace_count := %d |}",
		denomId(denom), zBool(denom != ""), zBool(denom != "" && sdk.ValidateDenom(denom) == nil), zList(vtT), zList(owT), zList(trT), count)

	expected := []*big.Int{bi(b2i(valid))}
	if !initOK {
		expected = append(expected, bi(0))
		rep.Count("init.refused")
	} else {
		rep.Count("init.accepted")
		expected = append(expected, bi(1))
		stored := k.GetAllAccountVestingPools(ctx)
		expected = append(expected, bi(int64(len(stored))))
		storedSum := sdk.ZeroInt()
		for _, a := range stored {
			expected = append(expected, bi(oRank[a.Owner]), bi(int64(len(a.VestingPools))))
			for _, p := range a.VestingPools {
				expected = append(expected, bi(nm(p.Name)), bi(nm(p.VestingType)), bi(p.LockStart.UnixNano()), bi(p.LockEnd.UnixNano()),
					p.InitiallyLocked.BigInt(), p.Withdrawn.BigInt(), p.Sent.BigInt(), bi(b2i(p.GenesisPool)))
				storedSum = storedSum.Add(p.GetCurrentlyLocked())
			}
		}
		trs := k.GetAllVestingAccountTrace(ctx)
		expected = append(expected, bi(int64(len(trs))))
		for _, t := range trs {
			expected = append(expected, bi(int64(t.Id)), bi(tRank[t.Address]), bi(b2i(t.Genesis)), bi(b2i(t.FromGenesisPool)), bi(b2i(t.FromGenesisAccount)))
		}
		expected = append(expected, bi(int64(k.GetVestingAccountTraceCount(ctx))))
		vts := k.GetAllVestingTypes(ctx)
		expected = append(expected, bi(int64(len(vts.VestingTypes))))
		for _, t := range vts.VestingTypes {
			expected = append(expected, bi(nm(t.Name)), bi(int64(t.LockupPeriod)), bi(int64(t.VestingPeriod)), t.Free.BigInt())
		}
		// the vesting types as ExportGenesis lists them (periods in the largest unit that divides them)
		for _, t := range cfevesting.ExportGenesis(ctx, k).VestingTypes {
			expected = append(expected, bi(nm(t.Name)), bi(unitCode(t.LockupPeriodUnit)), bi(t.LockupPeriod), bi(unitCode(t.VestingPeriodUnit)), bi(t.VestingPeriod), t.Free.BigInt())
		}
		// ... and the denomination of the parameters ExportGenesis writes
		expected = append(expected, bi(denomId(cfevesting.ExportGenesis(ctx, k).Params.Denom)))
		// ---- predicates on the implementation alone
		if valid {
			modBal := app.BankKeeper.GetBalance(ctx, app.AccountKeeper.GetModuleAddress(vesttypes.ModuleName), balDenom).Amount
			msg1, b1 := vestkeeper.ModuleAccountInvariant(k)(ctx)
			msg2, b2 := vestkeeper.VestingPoolConsistentDataInvariant(k)(ctx)
			msg3, b3 := vestkeeper.NonNegativeVestingPoolAmountsInvariant(k)(ctx)
			rep.Eval("C05.accepted_genesis_is_backed", modBal.Equal(storedSum) && !b1 && !b2 && !b3, idx, 0,
				fmt.Sprintf("InitGenesis accepted a genesis with module balance %s while the stored pools lock %s (%d owner entries); invariants: %v %v %v %s%s%s",
					modBal, storedSum, len(stored), b1, b2, b3, msg1, msg2, msg3))
			// export, validate, import into an emptied store, export again
			exp1 := cfevesting.ExportGenesis(ctx, k)
			ctx2, _ := ctx.CacheContext()
			clearStore(ctx2, ta, vesttypes.StoreKey)
			ok2 := true
			func() {
				defer func() {
					if r := recover(); r != nil {
						ok2 = false
					}
				}()
				cfevesting.InitGenesis(ctx2, k, *exp1, app.AccountKeeper, app.BankKeeper, app.StakingKeeper)
			}()
			j1, _ := json.Marshal(exp1)
			var j2 []byte
			if ok2 {
				j2, _ = json.Marshal(cfevesting.ExportGenesis(ctx2, k))
			}
			rep.Eval("C12.vesting_genesis_roundtrip", exp1.Validate() == nil && ok2 && string(j1) == string(j2), idx, 0,
				fmt.Sprintf("export validates: %v; re-import ok: %v; first export %s; second %s", exp1.Validate(), ok2, string(j1), string(j2)))
			// nothing is lost: every owner, pool and trace of the genesis is in the export
			nPoolsIn, nPoolsOut := 0, 0
			for _, a := range avps {
				nPoolsIn += len(a.VestingPools)
			}
			for _, a := range exp1.AccountVestingPools {
				nPoolsOut += len(a.VestingPools)
			}
			rep.Eval("C17.recorded_lineage_survives_the_export", len(exp1.VestingAccountTraces) == len(traces) && exp1.VestingAccountTraceCount == count, idx, 0,
				fmt.Sprintf("the genesis records %d addresses (counter %d), the export %d (counter %d)", len(traces), count, len(exp1.VestingAccountTraces), exp1.VestingAccountTraceCount))
			rep.Eval("C12.vesting_genesis_nothing_lost", len(exp1.AccountVestingPools) == len(avps) && nPoolsIn == nPoolsOut && len(exp1.VestingAccountTraces) == len(traces) &&
				exp1.VestingAccountTraceCount == count && len(exp1.VestingTypes) == len(gvts) && exp1.Params.Denom == denom, idx, 0,
				fmt.Sprintf("genesis %d owners %d pools %d traces; export %d owners %d pools %d traces", len(avps), nPoolsIn, len(traces), len(exp1.AccountVestingPools), nPoolsOut, len(exp1.VestingAccountTraces)))
		}
	}
	rep.NoteCase(gterm+bal.String(), initOK)
	return fmt.Sprintf("{| vgc_id := %d; vgc_genesis := %s; vgc_module_balance := %s; vgc_expected := %s |}", idx, gterm, zB(bal.BigInt()), zListB(expected))
}
