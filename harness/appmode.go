package main

// appmode.go — whole-application histories through real ABCI (InitChain, BeginBlock, DeliverTx with
// signed transactions, EndBlock, Commit): own generated genesis for the four custom modules, random
// block times, vesting / bank transactions, genesis export + import at a random height with the same
// suffix of blocks replayed on both applications.  Evaluates the implementation-side predicates of
// C01, C10, C12, the mint part of C18, writes a per-block trace (app hash, results) that bin/check
// compares between OS processes for C11, and prints the minter observations for the Coq model.

import (
	"bytes"
	"crypto/sha256"
	"encoding/hex"
	"encoding/json"
	"fmt"
	"math/big"
	"math/rand"
	"os"
	"sort"
	"strings"
	"time"

	c4eapp "github.com/chain4energy/c4e-chain/app"
	appparams "github.com/chain4energy/c4e-chain/app/params"
	cfedistributor "github.com/chain4energy/c4e-chain/x/cfedistributor"
	distrkeeper "github.com/chain4energy/c4e-chain/x/cfedistributor/keeper"
	distrtypes "github.com/chain4energy/c4e-chain/x/cfedistributor/types"
	minterkeeper "github.com/chain4energy/c4e-chain/x/cfeminter/keeper"
	mintertypes "github.com/chain4energy/c4e-chain/x/cfeminter/types"
	sigkeeper "github.com/chain4energy/c4e-chain/x/cfesignature/keeper"
	sigtypes "github.com/chain4energy/c4e-chain/x/cfesignature/types"
	vesttypes "github.com/chain4energy/c4e-chain/x/cfevesting/types"
	"github.com/cosmos/cosmos-sdk/crypto/keys/secp256k1"
	"github.com/cosmos/cosmos-sdk/simapp"
	"github.com/cosmos/cosmos-sdk/simapp/helpers"
	sdk "github.com/cosmos/cosmos-sdk/types"
	authtypes "github.com/cosmos/cosmos-sdk/x/auth/types"
	banktypes "github.com/cosmos/cosmos-sdk/x/bank/types"
	abci "github.com/tendermint/tendermint/abci/types"
	tmproto "github.com/tendermint/tendermint/proto/tendermint/types"
	dbm "github.com/tendermint/tm-db"
)

const appChainID = "verif-chain"

type appUser struct {
	key  *secp256k1.PrivKey
	addr sdk.AccAddress
}

type plannedTx struct {
	user int
	msg  func(users []appUser) sdk.Msg
	fee  int64
	kind string
}

type plannedBlock struct {
	t   time.Time
	txs []plannedTx
	// minter parameter update applied on the block's deliver state after the transactions (the way an
	// executed governance proposal changes parameters); nil = none
	minterUpdate *mintertypes.Params
	discarded    *mintertypes.Params // a valid update executed on a branch of the block's state that is then dropped
	distrUpdate  *distrtypes.Params  // governance adds a destination to the distributor's configuration
}

type appRun struct {
	app    *c4eapp.App
	ta     *TestApp
	db     dbm.DB // the node's database: a restart builds a new application over it
	users  []appUser
	seqs   map[string]uint64
	height int64
	// the distributor's half of BeginBlock against the model (AppCheck.v): the generated configuration with its interned tables,
	// nil once a governance update has replaced it
	de   *distrEnv
	dcfg *distrCfg
}

// terms of type AppCheck.abcase collected while the cases of one harness run execute (written next to the minter's cases)
var appDistrTerms []string

// distrWorldTerm prints the distributor world the model starts the block from: configuration, stored states, balances of the
// configuration's accounts; ok = false when something in it is outside what the comparison covers.
func (r *appRun) distrWorldTerm(ctx sdk.Context) (string, bool) {
	de, app := r.de, r.app
	var sts []string
	for _, st := range app.CfedistributorKeeper.GetAllStates(ctx) {
		key, known := de.keyTab[st.GetStateKey()]
		if !known {
			return "", false
		}
		acc := "(Some EMPTY_ACCT)"
		if !st.Burn {
			if st.Account == nil {
				return "", false
			}
			acc = "(Some " + de.accTerm(dAcc{st.Account.Type, st.Account.Id}) + ")"
		}
		for _, dc := range st.Remains {
			if dc.Denom != BondDenom {
				return "", false
			}
		}
		sts = append(sts, fmt.Sprintf("{| st_acc := %s; st_burn := %s; st_key := %d; st_rem := %s |}", acc, zBool(st.Burn), key, decCoinsTerm(st.Remains)))
	}
	var bs []string
	for i, a := range de.addrTab {
		bal := app.BankKeeper.GetAllBalances(ctx, a)
		amt := bal.AmountOf(BondDenom)
		if len(bal) > 1 || (len(bal) == 1 && amt.IsZero()) {
			return "", false // other denominations on an account of the configuration
		}
		if !amt.IsZero() {
			bs = append(bs, zPair(zI(int64(i)), zList([]string{zPair("0", zB(amt.BigInt()))})))
		}
	}
	return fmt.Sprintf("{| dw_subs := %s; dw_states := %s; dw_bal := %s; dw_burned := []; dw_burnkey := %d |}",
		de.cfgTerm(*r.dcfg), zList(sts), zList(bs), de.keyTab[distrtypes.BurnStateKey]), true
}

func eventsDigest(evs []abci.Event) string {
	h := sha256.New()
	for _, e := range evs {
		h.Write([]byte(e.Type))
		for _, a := range e.Attributes {
			h.Write(a.Key)
			h.Write([]byte{0})
			h.Write(a.Value)
			h.Write([]byte{1})
		}
	}
	return hex.EncodeToString(h.Sum(nil))[:16]
}

func mintEventAmount(evs []abci.Event) *big.Int {
	for _, ev := range evs {
		if strings.HasSuffix(ev.Type, "cfeminter.Mint") {
			for _, at := range ev.Attributes {
				if string(at.Key) == "amount" {
					a, _ := new(big.Int).SetString(strings.Trim(string(at.Value), "\""), 10)
					return a
				}
			}
		}
	}
	return nil
}

func burnedInEvents(evs []abci.Event, denom string) *big.Int {
	tot := bi(0)
	for _, ev := range evs {
		if ev.Type == banktypes.EventTypeCoinBurn {
			for _, at := range ev.Attributes {
				if string(at.Key) == sdk.AttributeKeyAmount {
					cs, err := sdk.ParseCoinsNormalized(string(at.Value))
					if err == nil {
						tot.Add(tot, cs.AmountOf(denom).BigInt())
					}
				}
			}
		}
	}
	return tot
}

func sumAllBalances(app *c4eapp.App, ctx sdk.Context) sdk.Coins {
	tot := sdk.NewCoins()
	app.BankKeeper.IterateAllBalances(ctx, func(_ sdk.AccAddress, c sdk.Coin) bool {
		tot = tot.Add(c)
		return false
	})
	return tot
}

// canonical JSON of the custom modules' exported genesis
func customGenesis(appState []byte) map[string]string {
	var gs map[string]json.RawMessage
	if err := json.Unmarshal(appState, &gs); err != nil {
		panic(err)
	}
	out := map[string]string{}
	for _, m := range []string{mintertypes.ModuleName, distrtypes.ModuleName, vesttypes.ModuleName, sigtypes.ModuleName} {
		var v interface{}
		json.Unmarshal(gs[m], &v)
		b, _ := json.Marshal(v) // maps are marshalled with sorted keys
		out[m] = string(b)
	}
	return out
}

type blockObs struct {
	panicked  string
	minted    *big.Int
	burned    *big.Int
	supply    *big.Int
	appHash   string
	minter    mintertypes.MinterState
	txCodes   []uint32
	trace     string
	balances  string // canonical tracked balances + pools + distributor states
	beginEvts []abci.Event
}

// restart stops the node between two blocks and starts it again: a new application object over the same database, which loads
// the last committed version. Whatever a module keeps outside the committed stores (memory stores, caches in keepers, package
// variables of the old object) is gone, as after a process restart; the next block must come out as on a node that kept running.
func (r *appRun) restart() {
	app, _ := newBareAppOn(r.db)
	r.app = app
	r.ta.App = app
}

// collectorProbe (C10), on a dropped branch of the committed state: whatever the transactions of the history did — whatever they
// managed to create at whatever address — a distributor configured (validly) to pay all three collectors processes its block.
func (r *appRun) collectorProbe(cctx sdk.Context, rep *Report, cid, bIdx int) {
	app := r.app
	pc, _ := cctx.CacheContext()
	mod := func(id string) distrtypes.Account { return distrtypes.Account{Type: distrtypes.ModuleAccount, Id: id} }
	params := distrtypes.Params{SubDistributors: []distrtypes.SubDistributor{{Name: "probe", Sources: []*distrtypes.Account{{Type: distrtypes.Main, Id: ""}},
		Destinations: distrtypes.Destinations{PrimaryShare: mod(distrtypes.GreenEnergyBoosterCollector), BurnShare: sdk.ZeroDec(),
			Shares: []*distrtypes.DestinationShare{{Name: "a", Share: sdk.NewDecWithPrec(3, 1), Destination: mod(distrtypes.GovernanceBoosterCollector)},
				{Name: "b", Share: sdk.NewDecWithPrec(3, 1), Destination: mod(distrtypes.ValidatorsRewardsCollector)}}}}}}
	if params.Validate() != nil || app.CfedistributorKeeper.SetParams(pc, params) != nil {
		rep.Count("app.collector_probe.skipped")
		return
	}
	panicked := ""
	func() {
		defer func() {
			if rec := recover(); rec != nil {
				panicked = fmt.Sprint(rec)
			}
		}()
		fundAddr(pc, r.ta, authtypes.NewModuleAddress(distrtypes.DistributorMainAccount), sdk.NewCoins(sdk.NewInt64Coin(BondDenom, 1000000)))
		cfedistributor.BeginBlocker(pc, app.CfedistributorKeeper)
	}()
	rep.Eval("C10.distributor_can_pay_every_collector", panicked == "", cid, bIdx,
		"on the state after this block, a distributor block under a valid configuration that pays the three collector module accounts panics: "+panicked)
}

func (r *appRun) runBlock(pb plannedBlock, tracked []sdk.AccAddress, rep *Report, cid, bIdx int, record bool) (o blockObs) {
	// one replica is restarted before a block of every history (the block is chosen from the case and block numbers only, so
	// that nothing is drawn from the generator's stream); its traces must equal those of the replicas that kept running
	if os.Getenv("VERIF_RESTART") == "1" && bIdx > 0 && (bIdx == 1+cid%3 || bIdx == 4+cid%5) {
		r.restart()
		rep.Count("app.node_restarts")
	}
	app := r.app
	ta := r.ta
	var sb strings.Builder
	ctxBefore := app.BaseApp.NewContext(true, tmproto.Header{Height: app.LastBlockHeight()})
	supplyBefore := app.BankKeeper.GetSupply(ctxBefore, BondDenom).Amount
	dWorld, dOK := "", false
	if record && r.dcfg != nil {
		dWorld, dOK = r.distrWorldTerm(ctxBefore)
	}
	var rb abci.ResponseBeginBlock
	func() {
		defer func() {
			if rec := recover(); rec != nil {
				o.panicked = fmt.Sprint(rec)
			}
		}()
		rb = ta.Begin(pb.t)
	}()
	if o.panicked != "" {
		return
	}
	o.beginEvts = rb.Events
	ctx := ta.Ctx()
	o.minted = mintEventAmount(rb.Events)
	o.burned = burnedInEvents(rb.Events, BondDenom)
	supplyAfterBegin := app.BankKeeper.GetSupply(ctx, BondDenom).Amount
	if record && dOK && o.minted != nil && app.CfeminterKeeper.GetParams(ctx).MintDenom == BondDenom {
		// ---- the distributor's half of this BeginBlock against the model (AppCheck.v)
		de := r.de
		skipAddr := map[string]bool{authtypes.NewModuleAddress(distrtypes.ValidatorsRewardsCollector).String(): true, // x/distribution allocates it in the same BeginBlock
			authtypes.NewModuleAddress(authtypes.FeeCollectorName).String(): true}
		failed := false
		exp := []*big.Int{bi(1)}
		states := app.CfedistributorKeeper.GetAllStates(ctx)
		exp = append(exp, bi(int64(len(states))))
		for _, st := range states {
			key, known := de.keyTab[st.GetStateKey()]
			if !known {
				failed = true
			}
			exp = append(exp, bi(int64(key)), bi(b2i(st.Burn)), st.Remains.AmountOf(BondDenom).BigInt())
			payable := st.Burn || (st.Account != nil && st.Account.Type != distrtypes.InternalAccount && st.Account.Type != distrtypes.Main)
			for _, dc := range st.Remains {
				if dc.Denom != BondDenom || (payable && dc.Amount.GTE(sdk.OneDec())) {
					failed = true // a payout did not go through (a blocked recipient, ...): the failure pattern is not observable through ABCI
				}
			}
		}
		var addrs []string
		for i, a := range de.addrTab {
			if skipAddr[a.String()] {
				continue
			}
			addrs = append(addrs, zI(int64(i)))
			exp = append(exp, app.BankKeeper.GetBalance(ctx, a, BondDenom).Amount.BigInt())
		}
		exp = append(exp, o.burned)
		if failed {
			rep.Count("appdistr.not_compared.a_payout_failed_or_foreign_state")
		} else {
			rep.Count("appdistr.blocks_compared")
			appDistrTerms = append(appDistrTerms, fmt.Sprintf("{| ab_id := %d; ab_block := %d; ab_world := %s;\n ab_minted := %s; ab_addrs := %s; ab_denoms := [0]; ab_expected := %s |}",
				cid, bIdx, dWorld, zB(o.minted), zList(addrs), zListB(exp)))
		}
	}
	if record {
		if o.minted != nil {
			want := new(big.Int).Sub(o.minted, o.burned)
			got := supplyAfterBegin.Sub(supplyBefore).BigInt()
			rep.Eval("C01.supply_changes_by_mint_minus_burn", got.Cmp(want) == 0, cid, bIdx,
				fmt.Sprintf("supply delta %v, mint event %v, burned %v", got, o.minted, o.burned))
			rep.Eval("C18.mint_event_amount", true, cid, bIdx, "")
		} else {
			rep.Eval("C18.mint_event_present", false, cid, bIdx, "no Mint event in BeginBlock")
		}
		all := sumAllBalances(app, ctx)
		sup := app.BankKeeper.GetSupply(ctx, BondDenom).Amount
		rep.Eval("C01.supply_equals_sum_of_balances", all.AmountOf(BondDenom).Equal(sup), cid, bIdx,
			fmt.Sprintf("sum of balances %v supply %v", all.AmountOf(BondDenom), sup))
	}
	sb.WriteString(fmt.Sprintf("begin %s;", eventsDigest(rb.Events)))
	// transactions
	for ti, ptx := range pb.txs {
		u := r.users[ptx.user]
		msg := ptx.msg(r.users)
		if pm, ok := msg.(*sigtypes.MsgPublishReferencePayloadLink); ok {
			// x/cfesignature registers no Msg service with the router ("unrecognized message route" for transactions);
			// its message server is exercised directly on the block's deliver context, cache-wrapped as baseapp would
			cctx, write := ctx.CacheContext()
			if _, err := sigkeeper.NewMsgServerImpl(app.CfesignatureKeeper).PublishReferencePayloadLink(sdk.WrapSDKContext(cctx), pm); err == nil {
				write()
				if record {
					rep.Count("tx.ok.publish_link")
				}
			}
			if record {
				rep.Count("tx.publish_link")
			}
			sb.WriteString("sig;")
			continue
		}
		acc := app.AccountKeeper.GetAccount(ctx, u.addr)
		if acc == nil {
			continue
		}
		fee := sdk.NewCoins()
		if ptx.fee > 0 {
			fee = sdk.NewCoins(sdk.NewInt64Coin(BondDenom, ptx.fee))
		}
		tx, err := helpers.GenSignedMockTx(rand.New(rand.NewSource(int64(cid*1000+bIdx*10+ti))), simapp.MakeTestEncodingConfig().TxConfig, []sdk.Msg{msg}, fee,
			2000000, appChainID, []uint64{acc.GetAccountNumber()}, []uint64{acc.GetSequence()}, u.key)
		if err != nil {
			panic(err)
		}
		bz, err := c4eapp.MakeEncodingConfig().TxConfig.TxEncoder()(tx)
		if err != nil {
			panic(err)
		}
		// pre-state for the three-party conservation
		pre := map[string]sdk.Coins{}
		for _, a := range tracked {
			pre[a.String()] = app.BankKeeper.GetAllBalances(ctx, a)
		}
		supPre := app.BankKeeper.GetSupply(ctx, BondDenom).Amount
		// the replica that also serves clients (VERIF_QUERIES=1) first simulates the transaction, as a wallet asking for a gas
		// estimate makes a node do: the simulation runs on a branch of the state that is dropped and must leave no trace
		if os.Getenv("VERIF_QUERIES") == "1" {
			func() {
				defer func() { recover() }()                                         //nolint:errcheck
				app.Simulate(bz)                                                     //nolint:errcheck
				app.CheckTx(abci.RequestCheckTx{Tx: bz, Type: abci.CheckTxType_New}) // mempool admission runs the ante handler on the check state
			}()
		}
		var res abci.ResponseDeliverTx
		func() {
			defer func() {
				if rec := recover(); rec != nil {
					o.panicked = "DeliverTx: " + fmt.Sprint(rec)
				}
			}()
			res = app.DeliverTx(abci.RequestDeliverTx{Tx: bz})
		}()
		if o.panicked != "" {
			return
		}
		o.txCodes = append(o.txCodes, res.Code)
		// (code, data, gas wanted and gas used are what the block's LastResultsHash commits to)
		sb.WriteString(fmt.Sprintf("tx %d %s %s gas %d/%d %s;", res.Code, res.Codespace, hex.EncodeToString(res.Data), res.GasUsed, res.GasWanted, eventsDigest(res.Events)))
		if record {
			rep.Count("tx." + ptx.kind)
			if res.Code == 0 {
				rep.Count("tx.ok." + ptx.kind)
			} else if os.Getenv("VERIF_DEBUG") != "" {
				fmt.Fprintln(os.Stderr, "tx failed:", ptx.kind, res.Code, res.Log)
			}
			supPost := app.BankKeeper.GetSupply(ctx, BondDenom).Amount
			rep.Eval("C01.message_keeps_supply", supPost.Equal(supPre), cid, bIdx, fmt.Sprintf("%s changed the supply %v -> %v", ptx.kind, supPre, supPost))
			// conservation over the tracked accounts (sender, vesting module account, recipient, fee collector are all tracked)
			sumPre, sumPost := sdk.NewCoins(), sdk.NewCoins()
			for _, a := range tracked {
				sumPre = sumPre.Add(pre[a.String()]...)
				sumPost = sumPost.Add(app.BankKeeper.GetAllBalances(ctx, a)...)
			}
			rep.Eval("C01.message_only_moves_coins", sumPre.IsEqual(sumPost), cid, bIdx, fmt.Sprintf("%s: tracked accounts held %s before, %s after", ptx.kind, sumPre, sumPost))
			if res.Code != 0 && ptx.fee == 0 {
				same := true
				for _, a := range tracked {
					if !pre[a.String()].IsEqual(app.BankKeeper.GetAllBalances(ctx, a)) {
						same = false
					}
				}
				rep.Eval("C05.rejected_message_changes_nothing", same, cid, bIdx, ptx.kind+" failed but balances changed")
			}
		}
	}
	if pb.discarded != nil {
		// what a governance proposal (or a multi-message transaction, or a simulation) whose later message fails leaves behind:
		// the update itself succeeds on a cache-wrapped context, and the context is never written
		cc, _ := ctx.CacheContext()
		inForce := app.CfeminterKeeper.GetParams(ctx)
		err := app.CfeminterKeeper.UpdateParams(cc, appparams.GetAuthority(), *pb.discarded)
		if record {
			rep.Count("discarded_minter_update")
			if !sameParams(inForce, *pb.discarded) { // (a schedule without amounts is its own "update": nothing to see)
				rep.Eval("C13.discarded_update_changes_nothing", err != nil || sameParams(app.CfeminterKeeper.GetParams(ctx), inForce), cid, bIdx,
					"a minter parameter update executed on a dropped branch of the state is visible in the block's state")
			}
		}
	}
	if pb.discarded != nil {
		// a probe for the replicas' traces: the full-update message with its optional start time left out, through the message server,
		// on a branch that is dropped; what it would store goes into the trace (every node must store the same)
		cc2, _ := ctx.CacheContext()
		var perr error
		func() {
			defer func() {
				if rec := recover(); rec != nil {
					perr = fmt.Errorf("panic: %v", rec)
				}
			}()
			_, perr = minterkeeper.NewMsgServerImpl(app.CfeminterKeeper).UpdateParams(sdk.WrapSDKContext(cc2),
				&mintertypes.MsgUpdateParams{Authority: appparams.GetAuthority(), MintDenom: pb.discarded.MintDenom, Minters: pb.discarded.Minters})
		}()
		stored := app.CfeminterKeeper.GetParams(cc2)
		bz, _ := stored.Marshal()
		sb.WriteString(fmt.Sprintf("probe-minter-update-without-start-time %v %x;", perr == nil, sha256.Sum256(bz)))
	}
	if pb.distrUpdate != nil {
		r.dcfg = nil // the generated configuration is no longer the one in force
		err := app.CfedistributorKeeper.SetParams(ctx, *pb.distrUpdate)
		sb.WriteString(fmt.Sprintf("distr-update %v;", err == nil))
		if record {
			rep.Count("distributor_update")
		}
	}
	if pb.minterUpdate != nil {
		err := app.CfeminterKeeper.UpdateParams(ctx, appparams.GetAuthority(), *pb.minterUpdate)
		sb.WriteString(fmt.Sprintf("minter-update %v;", err == nil))
		if record {
			rep.Count("minter_update")
			if err == nil {
				rep.Count("minter_update.ok")
			}
		}
	}
	// a replica that also serves read-only queries (VERIF_QUERIES=1): queries are answered from committed
	// state and must not influence what the node computes; they are not part of the trace
	serveQueries := os.Getenv("VERIF_QUERIES") == "1"
	if serveQueries {
		serveReadOnlyQueries(app)
	}
	var re abci.ResponseEndBlock
	var hash []byte
	func() {
		defer func() {
			if rec := recover(); rec != nil {
				o.panicked = "EndBlock: " + fmt.Sprint(rec)
			}
		}()
		re, hash = ta.End()
	}()
	if serveQueries {
		serveReadOnlyQueries(app)
	}
	if o.panicked != "" {
		return
	}
	o.appHash = hex.EncodeToString(hash)
	sb.WriteString(fmt.Sprintf("end %s;hash %s", eventsDigest(re.Events), o.appHash))
	cctx := app.BaseApp.NewContext(true, tmproto.Header{Height: app.LastBlockHeight()})
	if record {
		r.collectorProbe(cctx, rep, cid, bIdx)
	}
	// C03, after every block (whatever its transactions did in between): the module's two registered invariants on the committed state
	if msg, broken := distrkeeper.NonNegativeCoinStateInvariant(app.CfedistributorKeeper)(cctx); true {
		rep.Eval("C03.nonnegative_states_after_the_block", !broken, cid, bIdx, msg)
	}
	if msg, broken := distrkeeper.StateSumBalanceCheckInvariant(app.CfedistributorKeeper)(cctx); true {
		rep.Eval("C03.books_match_the_main_account_after_the_block", !broken, cid, bIdx, msg)
	}
	o.supply = app.BankKeeper.GetSupply(cctx, BondDenom).Amount.BigInt()
	o.minter = app.CfeminterKeeper.GetMinterState(cctx)
	// canonical custom-module view for export/import comparison
	var vb strings.Builder
	for _, a := range tracked {
		vb.WriteString(app.BankKeeper.GetAllBalances(cctx, a).String() + "|")
	}
	for _, s := range app.CfedistributorKeeper.GetAllStates(cctx) {
		vb.WriteString(s.GetStateKey() + "=" + s.Remains.String() + "|")
	}
	for _, avp := range app.CfevestingKeeper.GetAllAccountVestingPools(cctx) {
		b, _ := json.Marshal(avp)
		vb.Write(b)
	}
	infl, ierr := app.CfeminterKeeper.GetCurrentInflation(cctx.WithBlockTime(pb.t))
	vb.WriteString(fmt.Sprintf("infl=%v,%v|minted=%v|state=%s", infl, ierr != nil, o.minted, o.minter.String()))
	o.balances = vb.String()
	o.trace = sb.String()
	return
}

// serveReadOnlyQueries answers a few gRPC queries of the custom modules through ABCI Query (latest committed height).
func serveReadOnlyQueries(app *c4eapp.App) {
	defer func() { recover() }() //nolint:errcheck
	for _, path := range []string{"/chain4energy.c4echain.cfeminter.Query/Inflation", "/chain4energy.c4echain.cfeminter.Query/Params",
		"/chain4energy.c4echain.cfeminter.Query/State", "/chain4energy.c4echain.cfedistributor.Query/Params",
		"/chain4energy.c4echain.cfedistributor.Query/States", "/chain4energy.c4echain.cfevesting.Query/Params",
		"/chain4energy.c4echain.cfevesting.Query/VestingsSummary"} {
		app.Query(abci.RequestQuery{Path: path, Data: nil})
	}
}

func newAppRun(genesis []byte, genTime time.Time, initialHeight int64, users []appUser) *appRun {
	app, _ := newBareApp()
	app.InitChain(abci.RequestInitChain{
		ChainId: appChainID, Time: genTime, Validators: []abci.ValidatorUpdate{}, ConsensusParams: simapp.DefaultConsensusParams,
		AppStateBytes: genesis, InitialHeight: initialHeight,
	})
	app.Commit()
	h := int64(1)
	if initialHeight > 1 {
		h = initialHeight
	}
	ta := &TestApp{App: app, Height: h, Time: genTime, ChainID: appChainID}
	return &appRun{app: app, ta: ta, users: users, height: h, db: lastBareDB}
}

func runAppCase(seed uint64, idx int, rep *Report, profile string, traceDir string) []string {
	rng := NewRng(seed, uint64(idx)+41000000)
	genTime := time.Unix(1700000000+rng.I64n(50000000), 0).UTC()
	bareApp, gs := newBareApp()
	_ = bareApp
	// users
	var users []appUser
	var balances []banktypes.Balance
	var accounts []authtypes.GenesisAccount
	for i := 0; i < 4; i++ {
		k := secp256k1.GenPrivKeyFromSecret([]byte(fmt.Sprintf("verif-user-%d-%d", idx, i)))
		u := appUser{key: k, addr: sdk.AccAddress(k.PubKey().Address())}
		users = append(users, u)
		accounts = append(accounts, authtypes.NewBaseAccount(u.addr, k.PubKey(), 0, 0))
		balances = append(balances, banktypes.Balance{Address: u.addr.String(), Coins: sdk.NewCoins(sdk.NewCoin(BondDenom, sdk.NewIntFromBigInt(rng.LogUniform(22))), sdk.NewInt64Coin("uother", 1000000))})
	}
	// minter
	mc := genMinterCfg(rng, genTime)
	mparams := mc.params()
	if err := mparams.Validate(); err != nil {
		panic(err)
	}
	mstate := mintertypes.MinterState{SequenceId: mc.minters[0].seq, AmountMinted: sdk.ZeroInt(), RemainderToMint: sdk.ZeroDec(),
		RemainderFromPreviousMinter: sdk.ZeroDec(), LastMintBlockTime: genTime}
	mgen := &mintertypes.GenesisState{Params: mparams, MinterState: mstate}
	// distributor: clean-class graph over module and base accounts
	de := &distrEnv{rng: rng, rep: rep}
	for i := 0; i < 5; i++ {
		de.baseAdr = append(de.baseAdr, sdk.AccAddress(rng.Bytes(20)))
	}
	de.blocked = authtypes.NewModuleAddress(authtypes.FeeCollectorName)
	de.addrTab = []sdk.AccAddress{authtypes.NewModuleAddress(distrtypes.DistributorMainAccount)}
	var dcfg distrCfg
	var dparams distrtypes.Params
	for tries := 0; ; tries++ {
		dcfg = de.genDistrCfg(0)
		dparams = dcfg.params()
		if dparams.Validate() == nil {
			break
		}
		if tries > 40 {
			dparams = distrtypes.DefaultParams()
			dparams.SubDistributors[0].Destinations.PrimaryShare.Id = distrtypes.GreenEnergyBoosterCollector
			dcfg = distrCfg{}
			break
		}
	}
	dgen := &distrtypes.GenesisState{Params: dparams}
	// vesting
	vgen := vesttypes.DefaultGenesis()
	vgen.Params.Denom = BondDenom
	vgen.VestingTypes = []vesttypes.GenesisVestingType{
		{Name: "vt01", LockupPeriod: int64(rng.Intn(400)), LockupPeriodUnit: vesttypes.Day, VestingPeriod: int64(rng.Intn(800)), VestingPeriodUnit: vesttypes.Hour, Free: sdk.NewDecWithPrec(rng.I64n(100), 2)},
		{Name: "vt02", LockupPeriod: int64(rng.Intn(4000)), LockupPeriodUnit: vesttypes.Second, VestingPeriod: int64(rng.Intn(80)), VestingPeriodUnit: vesttypes.Minute, Free: sdk.ZeroDec()},
	}
	genesis, valSet, valAddr := BuildGenesis(bareApp, gs, GenOpts{Time: genTime, Balances: balances, Accounts: accounts, Minter: mgen, Distributor: dgen, Vesting: vgen})
	run := newAppRun(genesis, genTime, 0, users)
	run.ta.ValSet, run.ta.ValAddr = valSet, valAddr
	app := run.app
	if len(dcfg.subs) > 0 {
		de.ta = run.ta
		de.intern(dcfg)
		run.de, run.dcfg = de, &dcfg
	}

	// tracked accounts: users, vesting module, fee collector, distributor accounts, recipients
	var recipients []sdk.AccAddress
	for i := 0; i < 6; i++ {
		recipients = append(recipients, sdk.AccAddress(rng.Bytes(20)))
	}
	tracked := []sdk.AccAddress{authtypes.NewModuleAddress(vesttypes.ModuleName), authtypes.NewModuleAddress(authtypes.FeeCollectorName),
		authtypes.NewModuleAddress(distrtypes.ValidatorsRewardsCollector)}
	for _, u := range users {
		tracked = append(tracked, u.addr)
	}
	tracked = append(tracked, recipients...)

	// ---- plan
	nBlocks := 4 + rng.Intn(14)
	var plan []plannedBlock
	t := genTime
	lastEnd := genTime
	for _, g := range mc.minters {
		if g.end != nil {
			lastEnd = *g.end
		}
	}
	span := lastEnd.Sub(genTime)
	if span < time.Hour {
		span = time.Hour
	}
	poolN := 0
	type plannedPool struct {
		user int
		name string
		amt  *big.Int
	}
	var pools []plannedPool
	for b := 0; b < nBlocks; b++ {
		switch rng.Intn(4) {
		case 0:
			t = t.Add(time.Duration(1+rng.I64n(10)) * time.Second)
		case 1:
			t = t.Add(time.Duration(1 + rng.I64n(int64(span)/int64(nBlocks)+1)))
		default:
			t = t.Add(time.Duration(1 + rng.I64n(int64(48*time.Hour))))
		}
		pb := plannedBlock{t: t}
		for k := 0; k < rng.Intn(4); k++ {
			ui := rng.Intn(len(users))
			fee := int64(0)
			if rng.Chance(40) {
				fee = 1 + rng.I64n(5000)
			}
			var ptx plannedTx
			switch rng.Intn(7) {
			case 0, 1:
				poolN++
				name := fmt.Sprintf("pool%02d", poolN)
				amt := sdk.NewIntFromBigInt(rng.LogUniform(16))
				dur := time.Duration(1+rng.I64n(200)) * time.Hour
				vt := []string{"vt01", "vt02", "nope"}[rng.Pick(5, 5, 1)]
				if vt != "nope" {
					pools = append(pools, plannedPool{ui, name, amt.BigInt()})
				}
				ptx = plannedTx{user: ui, fee: fee, kind: "create_pool", msg: func(us []appUser) sdk.Msg {
					return &vesttypes.MsgCreateVestingPool{Owner: us[ui].addr.String(), Name: name, Amount: amt, Duration: dur, VestingType: vt}
				}}
			case 2:
				ptx = plannedTx{user: ui, fee: fee, kind: "withdraw", msg: func(us []appUser) sdk.Msg {
					return &vesttypes.MsgWithdrawAllAvailable{Owner: us[ui].addr.String()}
				}}
			case 3:
				pn := 1
				if poolN > 0 {
					pn = 1 + rng.Intn(poolN)
				}
				name := fmt.Sprintf("pool%02d", pn)
				to := recipients[rng.Intn(len(recipients))]
				amt := sdk.NewIntFromBigInt(rng.LogUniform(12))
				restart := rng.Bool()
				if len(pools) > 0 && rng.Chance(75) { // a send that can succeed: the pool's owner, a fraction of what the pool got
					pp := pools[rng.Intn(len(pools))]
					ui, name = pp.user, pp.name
					amt = sdk.NewIntFromBigInt(new(big.Int).Div(pp.amt, bi(int64(4+rng.Intn(20)))))
				}
				ptx = plannedTx{user: ui, fee: fee, kind: "send", msg: func(us []appUser) sdk.Msg {
					return &vesttypes.MsgSendToVestingAccount{Owner: us[ui].addr.String(), ToAddress: to.String(), VestingPoolName: name, Amount: amt, RestartVesting: restart}
				}}
			case 4:
				to := recipients[rng.Intn(len(recipients))]
				if rng.Chance(20) {
					// the address of a collector of the distributor: a module account that is blocked for such messages whether or not
					// its account exists yet (it is created by its first payout, possibly only after a later governance update)
					to = authtypes.NewModuleAddress([]string{distrtypes.GovernanceBoosterCollector, distrtypes.GreenEnergyBoosterCollector, distrtypes.ValidatorsRewardsCollector}[rng.Intn(3)])
					rep.Count("tx.create_va_to_a_collector_address")
				}
				amt := sdk.NewCoins(sdk.NewCoin(BondDenom, sdk.NewIntFromBigInt(rng.LogUniform(10))))
				st, en := t.Unix()-rng.I64n(1000), t.Unix()+1+rng.I64n(1000000)
				ptx = plannedTx{user: ui, fee: fee, kind: "create_va", msg: func(us []appUser) sdk.Msg {
					return &vesttypes.MsgCreateVestingAccount{FromAddress: us[ui].addr.String(), ToAddress: to.String(), Amount: amt, StartTime: st, EndTime: en}
				}}
			case 5:
				key, val := hashHex(fmt.Sprintf("ref-%d-%d", idx, rng.Intn(3))), fmt.Sprintf("link-%d", rng.Intn(100))
				ptx = plannedTx{user: ui, fee: fee, kind: "publish_link", msg: func(us []appUser) sdk.Msg {
					return &sigtypes.MsgPublishReferencePayloadLink{Creator: us[ui].addr.String(), Key: key, Value: val}
				}}
			default:
				to := users[rng.Intn(len(users))].addr
				if rng.Chance(30) {
					to = authtypes.NewModuleAddress(distrtypes.GreenEnergyBoosterCollector) // not blocked for plain sends? the handler decides
				} else if rng.Chance(25) {
					// a user's transfer to the distributor's own accounts, in the middle of a block
					to = authtypes.NewModuleAddress([]string{distrtypes.DistributorMainAccount, distrtypes.GovernanceBoosterCollector}[rng.Intn(2)])
				}
				amt := sdk.NewCoins(sdk.NewCoin(BondDenom, sdk.NewIntFromBigInt(rng.LogUniform(9))))
				ptx = plannedTx{user: ui, fee: fee, kind: "bank_send", msg: func(us []appUser) sdk.Msg {
					return &banktypes.MsgSend{FromAddress: us[ui].addr.String(), ToAddress: to.String(), Amount: amt}
				}}
			}
			pb.txs = append(pb.txs, ptx)
		}
		plan = append(plan, pb)
	}
	exportAt := -1
	if profile != "noexport" && rng.Chance(70) && nBlocks > 3 {
		exportAt = 1 + rng.Intn(nBlocks-2)
	}
	// a governance-style update of the minter parameters in the middle of the history: every amount doubled
	// (the period list, ids and times stay, so the current period still exists and nothing minted so far is taken back)
	updateAt := -1
	var mc2 minterCfg
	if rng.Chance(45) && nBlocks > 3 {
		updateAt = 1 + rng.Intn(nBlocks-2)
		mc2 = mc
		mc2.minters = append([]genMinter{}, mc.minters...)
		for i := range mc2.minters {
			if mc2.minters[i].amt != nil {
				mc2.minters[i].amt = new(big.Int).Mul(mc2.minters[i].amt, bi(2))
			}
		}
		p2 := mc2.params()
		if p2.Validate() == nil {
			plan[updateAt].minterUpdate = &p2
		} else {
			updateAt = -1
		}
	}

	if rng.Chance(35) && nBlocks > 3 {
		at := 1 + rng.Intn(nBlocks-2)
		mc3 := mc
		mc3.minters = append([]genMinter{}, mc.minters...)
		for i := range mc3.minters {
			if mc3.minters[i].amt != nil {
				mc3.minters[i].amt = new(big.Int).Add(new(big.Int).Mul(mc3.minters[i].amt, bi(3)), bi(7))
			}
		}
		if p3 := mc3.params(); p3.Validate() == nil {
			plan[at].discarded = &p3
		}
	}

	// governance adds a small named share to a module account the configuration did not pay so far (its account may not exist
	// yet, and with a tiny share it is not created for many blocks)
	if rng.Chance(40) && nBlocks > 3 && len(dparams.SubDistributors) > 0 {
		used := map[string]bool{}
		for _, sd := range dparams.SubDistributors {
			used[sd.Destinations.PrimaryShare.Id] = true
			for _, sh := range sd.Destinations.Shares {
				used[sh.Destination.Id] = true
			}
			for _, src := range sd.Sources {
				used[src.Id] = true
			}
		}
		for _, m := range []string{distrtypes.GovernanceBoosterCollector, distrtypes.GreenEnergyBoosterCollector, distrtypes.ValidatorsRewardsCollector} {
			if used[m] {
				continue
			}
			np := distrtypes.Params{}
			for _, sd := range dparams.SubDistributors {
				cp := sd
				cp.Destinations.Shares = append([]*distrtypes.DestinationShare{}, sd.Destinations.Shares...)
				np.SubDistributors = append(np.SubDistributors, cp)
			}
			np.SubDistributors[0].Destinations.Shares = append(np.SubDistributors[0].Destinations.Shares, &distrtypes.DestinationShare{
				Name: "late_share", Share: sdk.NewDecWithPrec(1, 6), Destination: distrtypes.Account{Type: distrtypes.ModuleAccount, Id: m}})
			if np.Validate() == nil {
				plan[1+rng.Intn(nBlocks-2)].distrUpdate = &np
			}
			break
		}
	}

	// ---- run
	var traceLines []string
	var blocks []string
	supply0 := app.BankKeeper.GetSupply(app.BaseApp.NewContext(true, tmproto.Header{}), BondDenom).Amount.BigInt()
	var twin *appRun
	nontrivial := false
	cumMinted := bi(0)
	var cases []string
	caseParams, caseState := mc.paramsTerm(), stateTerm(mstate)
	flush := func(id int) {
		cases = append(cases, fmt.Sprintf("{| ac_id := %d; ac_params := %s; ac_state := %s;\n ac_blocks := [\n  %s] |}", id, caseParams, caseState, strings.Join(blocks, ";\n  ")))
		blocks = nil
	}
	for bIdx, pb := range plan {
		o := run.runBlock(pb, tracked, rep, idx, bIdx, true)
		app = run.app // a restarted node is a new application object
		rep.Ops++
		if o.panicked != "" {
			rep.Eval("C10.block_processing_no_panic", false, idx, bIdx, "panic: "+o.panicked)
			traceLines = append(traceLines, fmt.Sprintf("%d %d PANIC", idx, bIdx))
			break
		}
		rep.Eval("C10.block_processing_no_panic", true, idx, bIdx, "")
		traceLines = append(traceLines, fmt.Sprintf("%d %d %s", idx, bIdx, o.trace))
		if o.minted != nil && o.minted.Sign() > 0 {
			nontrivial = true
		}
		minted := o.minted
		if minted == nil {
			minted = bi(-1)
		}
		blocks = append(blocks, zPair(zI(pb.t.UnixNano()), zListB([]*big.Int{bi(1), minted, bi(int64(o.minter.SequenceId)), o.minter.AmountMinted.BigInt(),
			o.minter.RemainderToMint.BigInt(), o.minter.RemainderFromPreviousMinter.BigInt(), bi(o.minter.LastMintBlockTime.UnixNano())})))
		// C01: what has been minted since genesis is the scheduled emission (independent exact-rational schedule), until the parameters change
		if o.minted != nil && (updateAt < 0 || bIdx <= updateAt) {
			cumMinted.Add(cumMinted, o.minted)
			if want := scheduleCumulative(mc, pb.t); want != nil {
				rep.Eval("C01.minted_follows_schedule", cumMinted.Cmp(want) == 0, idx, bIdx, fmt.Sprintf("minted since genesis %v, schedule %v at %d", cumMinted, want, pb.t.UnixNano()))
			}
		}
		if bIdx == updateAt && updateAt >= 0 {
			// the model continues under the new parameters from the state the implementation reached
			flush(idx)
			caseParams, caseState = mc2.paramsTerm(), stateTerm(o.minter)
		}
		// ---- C12: twin restored from the exported genesis replays the same suffix
		if twin != nil {
			ot := twin.runBlock(pb, tracked, rep, idx, bIdx, false)
			if ot.panicked != "" {
				rep.Eval("C12.restored_app_behaves_identically", false, idx, bIdx, "restored application panicked: "+ot.panicked)
				rep.Eval("C10.block_processing_no_panic_after_import", false, idx, bIdx, "panic after genesis import: "+ot.panicked)
				twin = nil
			} else {
				rep.Eval("C10.block_processing_no_panic_after_import", true, idx, bIdx, "")
				rep.Eval("C12.restored_app_behaves_identically", ot.balances == o.balances && fmt.Sprint(ot.txCodes) == fmt.Sprint(o.txCodes), idx, bIdx,
					fmt.Sprintf("original: %.600s\nrestored: %.600s", o.balances, ot.balances))
			}
		}
		if bIdx == exportAt {
			func() {
				defer func() {
					if rec := recover(); rec != nil {
						rep.Eval("C12.export_import_no_panic", false, idx, bIdx, fmt.Sprint(rec))
						twin = nil
					}
				}()
				exp, err := app.ExportAppStateAndValidators(false, nil)
				if err != nil {
					rep.Eval("C12.export_succeeds", false, idx, bIdx, err.Error())
					return
				}
				var gstate map[string]json.RawMessage
				json.Unmarshal(exp.AppState, &gstate)
				verr := c4eapp.ModuleBasics.ValidateGenesis(app.AppCodec(), c4eapp.MakeEncodingConfig().TxConfig, gstate)
				vpred := "C12.exported_genesis_validates"
				if verr != nil && strings.Contains(verr.Error(), "vesting start-time cannot be before end-time") {
					vpred += ".K12" // a continuous vesting account with start >= end created by a pool send
				}
				rep.Eval(vpred, verr == nil, idx, bIdx, fmt.Sprint(verr))
				twin = newAppRun(exp.AppState, pb.t, exp.Height, users)
				twin.ta.ValSet, twin.ta.ValAddr = valSet, valAddr
				twin.ta.Height = exp.Height - 1 + 0
				twin.ta.Height = twin.app.LastBlockHeight()
				exp2, err := twin.app.ExportAppStateAndValidators(false, nil)
				if err != nil {
					rep.Eval("C12.reexport_succeeds", false, idx, bIdx, err.Error())
					return
				}
				// the SDK's account and bank state: an import must not create accounts or move coins either
				var ga1, ga2 map[string]json.RawMessage
				json.Unmarshal(exp.AppState, &ga1)
				json.Unmarshal(exp2.AppState, &ga2)
				for _, m := range []string{authtypes.ModuleName, banktypes.ModuleName} {
					rep.Eval("C12.reexport_equals_export."+m, string(ga1[m]) == string(ga2[m]), idx, bIdx, fmt.Sprintf("%.500s\n vs \n%.500s", firstDiff(string(ga1[m]), string(ga2[m])), ""))
				}
				g1, g2 := customGenesis(exp.AppState), customGenesis(exp2.AppState)
				for _, m := range []string{mintertypes.ModuleName, distrtypes.ModuleName, vesttypes.ModuleName, sigtypes.ModuleName} {
					rep.Eval("C12.reexport_equals_export."+m, g1[m] == g2[m], idx, bIdx, fmt.Sprintf("%.400s\n vs \n%.400s", g1[m], g2[m]))
				}
				// custom-module data that is not part of any genesis: the signature registry's raw store
				d1, d2 := rawStoreDump(app, sigtypes.StoreKey), rawStoreDump(twin.app, sigtypes.StoreKey)
				pred := "C12.signature_store_preserved"
				if d1 != "" {
					pred += ".K6"
				}
				rep.Eval(pred, d1 == d2, idx, bIdx, fmt.Sprintf("signature module store: %d bytes before export, %d after import", len(d1), len(d2)))
				// no custom-module data lost: the raw KV stores of the minter, distributor and vesting modules are byte-identical
				for _, sk := range []string{mintertypes.StoreKey, distrtypes.StoreKey, vesttypes.StoreKey} {
					a, b := fullStoreDump(app, sk), fullStoreDump(twin.app, sk)
					rep.Eval("C12.store_identical_after_import."+sk, a == b, idx, bIdx, storeDiff(a, b))
				}
				// the restarted chain knows the consensus versions of its modules like the original does (x/upgrade has no genesis: the
				// map is written by InitChainer; a later software upgrade runs the migrations of every module it does not find in it)
				vm1 := app.UpgradeKeeper.GetModuleVersionMap(app.BaseApp.NewContext(true, tmproto.Header{Height: app.LastBlockHeight()}))
				vm2 := twin.app.UpgradeKeeper.GetModuleVersionMap(twin.app.BaseApp.NewContext(true, tmproto.Header{Height: twin.app.LastBlockHeight()}))
				rep.Eval("C12.module_versions_identical_after_import", fmt.Sprint(vm1) == fmt.Sprint(vm2), idx, bIdx,
					fmt.Sprintf("module version map of the original (%d modules): %v; of the chain restarted from the export (%d modules): %v", len(vm1), vm1, len(vm2), vm2))
				rep.Count("export_import")
			}()
		}
	}
	rep.NoteCase(fmt.Sprintf("%s|%v", mc.paramsTerm(), plan[len(plan)-1].t), nontrivial)
	if traceDir != "" {
		f, err := os.OpenFile(traceDir+"/trace.txt", os.O_APPEND|os.O_CREATE|os.O_WRONLY, 0o644)
		if err == nil {
			f.WriteString(strings.Join(traceLines, "\n") + "\n")
			f.Close()
		}
	}
	if len(rep.Samples) < 2 {
		rep.Samples = append(rep.Samples, fmt.Sprintf("app case %d: minter %s ; %d sub-distributors ; %d blocks ; export at block %d", idx, mc.paramsTerm(), len(dcfg.subs), len(plan), exportAt))
	}
	_ = supply0
	_ = bytes.Compare
	_ = sort.Strings
	if updateAt >= 0 {
		flush(idx + 1000000)
	} else {
		flush(idx)
	}
	return cases
}

// firstDiff shows the neighbourhood of the first difference of two strings.
func firstDiff(a, b string) string {
	n := len(a)
	if len(b) < n {
		n = len(b)
	}
	i := 0
	for i < n && a[i] == b[i] {
		i++
	}
	lo := i - 120
	if lo < 0 {
		lo = 0
	}
	ha, hb := i+200, i+200
	if ha > len(a) {
		ha = len(a)
	}
	if hb > len(b) {
		hb = len(b)
	}
	return fmt.Sprintf("at byte %d: ...%s  <>  ...%s", i, a[lo:ha], b[lo:hb])
}

func sameParams(a, b mintertypes.Params) bool {
	x, _ := a.Marshal()
	y, _ := b.Marshal()
	return string(x) == string(y)
}

func fullStoreDump(app *c4eapp.App, storeKey string) string {
	ctx := app.BaseApp.NewContext(true, tmproto.Header{Height: app.LastBlockHeight()})
	st := ctx.KVStore(app.GetKey(storeKey))
	it := st.Iterator(nil, nil)
	defer it.Close()
	var sb strings.Builder
	for ; it.Valid(); it.Next() {
		sb.WriteString(hex.EncodeToString(it.Key()) + "=" + hex.EncodeToString(it.Value()) + ";")
	}
	return sb.String()
}

// storeDiff names the first key whose value differs or that exists on one side only.
func storeDiff(a, b string) string {
	if a == b {
		return ""
	}
	ma, mb := map[string]string{}, map[string]string{}
	for _, e := range strings.Split(a, ";") {
		if kv := strings.SplitN(e, "=", 2); len(kv) == 2 {
			ma[kv[0]] = kv[1]
		}
	}
	for _, e := range strings.Split(b, ";") {
		if kv := strings.SplitN(e, "=", 2); len(kv) == 2 {
			mb[kv[0]] = kv[1]
		}
	}
	for k, v := range ma {
		if w, ok := mb[k]; !ok {
			return fmt.Sprintf("key %s (value %.120s) is in the original store, not in the restored one (%d / %d keys)", k, v, len(ma), len(mb))
		} else if w != v {
			return fmt.Sprintf("key %s: original %.120s restored %.120s", k, v, w)
		}
	}
	for k, v := range mb {
		if _, ok := ma[k]; !ok {
			return fmt.Sprintf("key %s (value %.120s) is in the restored store only (%d / %d keys)", k, v, len(ma), len(mb))
		}
	}
	return "stores differ"
}

func rawStoreDump(app *c4eapp.App, storeKey string) string {
	ctx := app.BaseApp.NewContext(true, tmproto.Header{Height: app.LastBlockHeight()})
	st := ctx.KVStore(app.GetKey(storeKey))
	it := st.Iterator(nil, nil)
	defer it.Close()
	var sb strings.Builder
	for ; it.Valid(); it.Next() {
		k := it.Key()
		if len(k) > 0 && strings.HasPrefix(string(k), "Payload") || strings.HasPrefix(string(k), "Signature") {
			sb.WriteString(hex.EncodeToString(k) + "=" + hex.EncodeToString(it.Value()) + ";")
		}
	}
	return sb.String()
}
