package main

// sweep.go — C20: exhaustive sweep of field-value classes over every message (ValidateBasic + handler)
// and query of the four custom modules on the real keepers, every call under recover().  Each call is
// identified by (handler id, class vector); the observed outcome (ValidateBasic accept / reject /
// panic, handler ok / error / panic) is printed for C4E.Handlers.hmismatches, which holds the model's
// prediction for the same class vector.

import (
	"fmt"
	"math/big"
	"strings"
	"time"

	c4eapp "github.com/chain4energy/c4e-chain/app"
	appparams "github.com/chain4energy/c4e-chain/app/params"
	distrkeeper "github.com/chain4energy/c4e-chain/x/cfedistributor/keeper"
	distrtypes "github.com/chain4energy/c4e-chain/x/cfedistributor/types"
	minterkeeper "github.com/chain4energy/c4e-chain/x/cfeminter/keeper"
	mintertypes "github.com/chain4energy/c4e-chain/x/cfeminter/types"
	sigkeeper "github.com/chain4energy/c4e-chain/x/cfesignature/keeper"
	sigtypes "github.com/chain4energy/c4e-chain/x/cfesignature/types"
	vestkeeper "github.com/chain4energy/c4e-chain/x/cfevesting/keeper"
	vesttypes "github.com/chain4energy/c4e-chain/x/cfevesting/types"
	codectypes "github.com/cosmos/cosmos-sdk/codec/types"
	sdk "github.com/cosmos/cosmos-sdk/types"
	authtypes "github.com/cosmos/cosmos-sdk/x/auth/types"
	vestingtypes "github.com/cosmos/cosmos-sdk/x/auth/vesting/types"
)

type sweepEnv struct {
	ta    *TestApp
	ctx   sdk.Context
	now   time.Time
	addrs []string // by ADDR class
	gov   string
	other string
}

// ---- class tables ------------------------------------------------------------------------------
// ADDR: 0 empty, 1 malformed, 2 valid & absent, 3 base account with key, 4 pool owner (base, no key), 5 continuous vesting, 6 blocked module account,
//
//	7 owner of two matured pools of 5*10^18 each (their sum exceeds MaxInt64)
//
// INT : 0 nil, 1 negative, 2 zero, 3 small positive, 4 above MaxInt64
// NAME: 0 empty, 1 existing, 2 unknown
// DUR : 0 zero, 1 negative, 2 positive
// COINS: 0 nil, 1 empty, 2 nil amount, 3 negative amount, 4 zero amount, 5 one valid coin, 6 unsorted, 7 duplicate denom, 8 invalid denom, 9 huge valid
// DENOMS: 0 nil, 1 [""], 2 duplicate, 3 ["!"], 4 ["uc4e"], 5 ["zzz"], 6 ["a"]
// TIMES: 0 start > end, 1 start = end, 2 start < end
// DEC : 0 nil, 1 negative, 2 zero, 3 one half, 4 one, 5 above one
// AUTH: 0 other, 1 governance
// REQ : 0 nil request, 1 request
func intClass(c int) sdk.Int {
	switch c {
	case 0:
		return sdk.Int{}
	case 1:
		return sdk.NewInt(-5)
	case 2:
		return sdk.ZeroInt()
	case 3:
		return sdk.NewInt(7)
	default:
		return sdk.NewIntFromBigInt(new(big.Int).Lsh(big.NewInt(1), 70))
	}
}
func decClass(c int) sdk.Dec {
	switch c {
	case 0:
		return sdk.Dec{}
	case 1:
		return sdk.NewDecWithPrec(-1, 1)
	case 2:
		return sdk.ZeroDec()
	case 3:
		return sdk.NewDecWithPrec(5, 1)
	case 4:
		return sdk.OneDec()
	default:
		return sdk.NewDec(3)
	}
}
func coinsClass(c int) sdk.Coins {
	switch c {
	case 0:
		return nil
	case 1:
		return sdk.Coins{}
	case 2:
		return sdk.Coins{sdk.Coin{Denom: "uc4e"}}
	case 3:
		return sdk.Coins{sdk.Coin{Denom: "uc4e", Amount: sdk.NewInt(-3)}}
	case 4:
		return sdk.Coins{sdk.Coin{Denom: "uc4e", Amount: sdk.ZeroInt()}}
	case 5:
		return sdk.Coins{sdk.NewInt64Coin("uc4e", 5)}
	case 6:
		return sdk.Coins{sdk.NewInt64Coin("zzz", 1), sdk.NewInt64Coin("uc4e", 1)}
	case 7:
		return sdk.Coins{sdk.NewInt64Coin("uc4e", 1), sdk.NewInt64Coin("uc4e", 2)}
	case 8:
		return sdk.Coins{sdk.Coin{Denom: "!", Amount: sdk.NewInt(1)}}
	default:
		return sdk.Coins{sdk.NewCoin("uc4e", intClass(4))}
	}
}
func denomsClass(c int) []string {
	return [][]string{nil, {""}, {"uc4e", "uc4e"}, {"!"}, {"uc4e"}, {"zzz"}, {"a"}}[c]
}
func durClass(c int) time.Duration { return []time.Duration{0, -time.Second, time.Hour}[c] }

type sweepCall struct {
	h       int
	classes []int
	msg     sdk.Msg                         // nil for queries
	run     func(c sdk.Context) (err error) // handler / query
}

func product(dims []int, f func(v []int)) {
	v := make([]int, len(dims))
	var rec func(i int)
	rec = func(i int) {
		if i == len(dims) {
			f(append([]int{}, v...))
			return
		}
		for k := 0; k < dims[i]; k++ {
			v[i] = k
			rec(i + 1)
		}
	}
	rec(0)
}

func newSweepEnv(ta *TestApp) (*sweepEnv, []sdk.AccAddress) {
	app := ta.App
	base, _ := ta.Ctx().CacheContext()
	now := time.Unix(1700000000, 0).UTC()
	ctx := base.WithBlockTime(now)
	e := &sweepEnv{ta: ta, ctx: ctx, now: now, gov: appparams.GetAuthority()}
	// ---- state: absent X, base B (with key), owner O (with pools), vesting V, blocked module M
	mk := func(s string) sdk.AccAddress {
		return sdk.AccAddress([]byte(fmt.Sprintf("sweep-address-%06s", s))[:20])
	}
	X, B, O, V, PO := mk("absent"), mk("base"), mk("owner"), mk("vest"), mk("bigown")
	M := app.AccountKeeper.GetModuleAddress(authtypes.FeeCollectorName)
	bacc := app.AccountKeeper.NewAccountWithAddress(ctx, B).(*authtypes.BaseAccount)
	bacc.SetPubKey(valKey.PubKey()) //nolint:errcheck
	app.AccountKeeper.SetAccount(ctx, bacc)
	fund(ctx, ta, B, sdk.NewCoins(sdk.NewInt64Coin("uc4e", 1000000)))
	fund(ctx, ta, O, sdk.NewCoins(sdk.NewInt64Coin("uc4e", 1000000)))
	vb := app.AccountKeeper.NewAccountWithAddress(ctx, V).(*authtypes.BaseAccount)
	app.AccountKeeper.SetAccount(ctx, vestingtypes.NewContinuousVestingAccount(vb, sdk.NewCoins(sdk.NewInt64Coin("uc4e", 1000)), now.Unix()-100, now.Unix()+100000))
	fund(ctx, ta, V, sdk.NewCoins(sdk.NewInt64Coin("uc4e", 5000)))
	app.CfevestingKeeper.SetVestingType(ctx, vesttypes.VestingType{Name: "vt", LockupPeriod: time.Hour, VestingPeriod: time.Hour, Free: sdk.NewDecWithPrec(5, 2)})
	app.CfevestingKeeper.SetAccountVestingPools(ctx, vesttypes.AccountVestingPools{Owner: O.String(), VestingPools: []*vesttypes.VestingPool{
		{Name: "pool", VestingType: "vt", LockStart: now.Add(-time.Hour), LockEnd: now.Add(time.Hour), InitiallyLocked: sdk.NewInt(1000), Withdrawn: sdk.ZeroInt(), Sent: sdk.ZeroInt()}}})
	fundModule(ctx, ta, vesttypes.ModuleName, sdk.NewCoins(sdk.NewInt64Coin("uc4e", 1000)))
	fiveE18 := sdk.NewInt(5000000000000000000)
	fund(ctx, ta, PO, sdk.NewCoins(sdk.NewInt64Coin("uc4e", 1000000)))
	app.CfevestingKeeper.SetAccountVestingPools(ctx, vesttypes.AccountVestingPools{Owner: PO.String(), VestingPools: []*vesttypes.VestingPool{
		{Name: "pool", VestingType: "vt", LockStart: now.Add(-2 * time.Hour), LockEnd: now.Add(-time.Hour), InitiallyLocked: fiveE18, Withdrawn: sdk.ZeroInt(), Sent: sdk.ZeroInt()},
		{Name: "pool2", VestingType: "vt", LockStart: now.Add(-2 * time.Hour), LockEnd: now.Add(-time.Hour), InitiallyLocked: fiveE18, Withdrawn: sdk.ZeroInt(), Sent: sdk.ZeroInt()}}})
	fundModule(ctx, ta, vesttypes.ModuleName, sdk.NewCoins(sdk.NewCoin("uc4e", fiveE18.MulRaw(2))))
	e.addrs = []string{"", "c4e1notvalid", X.String(), B.String(), O.String(), V.String(), M.String(), PO.String()}
	e.other = mk("other").String()
	return e, []sdk.AccAddress{X, B, O, V, M, PO}
}

func runSweep(ta *TestApp, rep *Report) []string {
	app := ta.App
	e, accs := newSweepEnv(ta)
	ctx := e.ctx
	now := e.now
	B, O, V, M, PO := accs[1], accs[2], accs[3], accs[4], accs[5]
	other := e.other
	auth := func(c int) string {
		if c == 1 {
			return e.gov
		}
		return other
	}
	name := func(c int, existing string) string { return []string{"", existing, "unknown-name"}[c] }

	vms := vestkeeper.NewMsgServerImpl(app.CfevestingKeeper)
	mms := minterkeeper.NewMsgServerImpl(app.CfeminterKeeper)
	dms := distrkeeper.NewMsgServerImpl(app.CfedistributorKeeper)
	sms := sigkeeper.NewMsgServerImpl(app.CfesignatureKeeper)
	w := sdk.WrapSDKContext

	var calls []sweepCall
	add := func(h int, classes []int, msg sdk.Msg, run func(c sdk.Context) error) {
		calls = append(calls, sweepCall{h, classes, msg, run})
	}
	// ---- cfevesting messages ----------------------------------------------------------------
	product([]int{8, 3, 5, 3, 3}, func(v []int) { // 1 CreateVestingPool: owner, name, amount, duration, vesting type
		m := &vesttypes.MsgCreateVestingPool{Owner: e.addrs[v[0]], Name: name(v[1], "pool"), Amount: intClass(v[2]), Duration: durClass(v[3]), VestingType: name(v[4], "vt")}
		add(1, v, m, func(c sdk.Context) error { _, err := vms.CreateVestingPool(w(c), m); return err })
	})
	product([]int{8}, func(v []int) { // 2 WithdrawAllAvailable: owner
		m := &vesttypes.MsgWithdrawAllAvailable{Owner: e.addrs[v[0]]}
		add(2, v, m, func(c sdk.Context) error { _, err := vms.WithdrawAllAvailable(w(c), m); return err })
	})
	product([]int{8, 8, 3, 5, 2}, func(v []int) { // 3 SendToVestingAccount: owner, to, pool name, amount, restart
		m := &vesttypes.MsgSendToVestingAccount{Owner: e.addrs[v[0]], ToAddress: e.addrs[v[1]], VestingPoolName: name(v[2], "pool"), Amount: intClass(v[3]), RestartVesting: v[4] == 1}
		add(3, v, m, func(c sdk.Context) error { _, err := vms.SendToVestingAccount(w(c), m); return err })
	})
	product([]int{8, 8, 10, 3}, func(v []int) { // 4 CreateVestingAccount: from, to, coins, times
		st, en := now.Unix(), now.Unix()+[]int64{-5, 0, 1000}[v[3]]
		m := &vesttypes.MsgCreateVestingAccount{FromAddress: e.addrs[v[0]], ToAddress: e.addrs[v[1]], Amount: coinsClass(v[2]), StartTime: st, EndTime: en}
		add(4, v, m, func(c sdk.Context) error { _, err := vms.CreateVestingAccount(w(c), m); return err })
	})
	product([]int{8, 8, 10}, func(v []int) { // 5 SplitVesting: from, to, coins
		m := &vesttypes.MsgSplitVesting{FromAddress: e.addrs[v[0]], ToAddress: e.addrs[v[1]], Amount: coinsClass(v[2])}
		add(5, v, m, func(c sdk.Context) error { _, err := vms.SplitVesting(w(c), m); return err })
	})
	product([]int{8, 8}, func(v []int) { // 6 MoveAvailableVesting: from, to
		m := &vesttypes.MsgMoveAvailableVesting{FromAddress: e.addrs[v[0]], ToAddress: e.addrs[v[1]]}
		add(6, v, m, func(c sdk.Context) error { _, err := vms.MoveAvailableVesting(w(c), m); return err })
	})
	product([]int{8, 8, 7}, func(v []int) { // 7 MoveAvailableVestingByDenoms: from, to, denoms
		m := &vesttypes.MsgMoveAvailableVestingByDenoms{FromAddress: e.addrs[v[0]], ToAddress: e.addrs[v[1]], Denoms: denomsClass(v[2])}
		add(7, v, m, func(c sdk.Context) error { _, err := vms.MoveAvailableVestingByDenoms(w(c), m); return err })
	})
	product([]int{2, 4}, func(v []int) { // 8 UpdateDenomParam: authority, denom (0 empty, 1 valid, 2 invalid chars, 3 "1")
		m := &vesttypes.MsgUpdateDenomParam{Authority: auth(v[0]), Denom: []string{"", "uother", "!", "1"}[v[1]]}
		add(8, v, m, func(c sdk.Context) error { _, err := vms.UpdateDenomParam(w(c), m); return err })
	})
	// ---- cfeminter messages -----------------------------------------------------------------
	// minters class: 0 nil list, 1 nil entry, 2 nil config, 3 unresolved config, 4 linear nil amount, 5 exp nil amount, 6 exp nil multiplier, 7 valid (keeps current), 8 valid (drops current)
	minters := func(c int) []*mintertypes.Minter {
		cur := app.CfeminterKeeper.GetMinterState(ctx).SequenceId
		anyOf := func(cfg mintertypes.MinterConfigI) *codectypes.Any { a, _ := codectypes.NewAnyWithValue(cfg); return a }
		endT := now.Add(1000 * time.Hour)
		switch c {
		case 0:
			return nil
		case 1:
			return []*mintertypes.Minter{nil}
		case 2:
			return []*mintertypes.Minter{{SequenceId: cur}}
		case 3:
			a, _ := codectypes.NewAnyWithValue(&mintertypes.MinterState{})
			return []*mintertypes.Minter{{SequenceId: cur, Config: a}}
		// packing a value into an Any marshals it, and Int.Marshal / Dec.Marshal replace a nil big.Int by zero:
		// the nil is put back into the cached value afterwards (it is what JSON decoding of a missing field yields)
		case 4:
			lm := &mintertypes.LinearMinting{}
			a := anyOf(lm)
			lm.Amount = sdk.Int{}
			return []*mintertypes.Minter{{SequenceId: cur, EndTime: &endT, Config: a}, {SequenceId: cur + 1, Config: anyOf(&mintertypes.NoMinting{})}}
		case 5:
			em := &mintertypes.ExponentialStepMinting{StepDuration: time.Hour, AmountMultiplier: sdk.OneDec()}
			a := anyOf(em)
			em.Amount = sdk.Int{}
			return []*mintertypes.Minter{{SequenceId: cur, Config: a}}
		case 6:
			em := &mintertypes.ExponentialStepMinting{StepDuration: time.Hour, Amount: sdk.NewInt(5)}
			a := anyOf(em)
			em.AmountMultiplier = sdk.Dec{}
			return []*mintertypes.Minter{{SequenceId: cur, Config: a}}
		case 7:
			return []*mintertypes.Minter{{SequenceId: cur, Config: anyOf(&mintertypes.NoMinting{})}}
		default:
			return []*mintertypes.Minter{{SequenceId: cur + 1, Config: anyOf(&mintertypes.NoMinting{})}}
		}
	}
	product([]int{2, 4, 9}, func(v []int) { // 9 minter UpdateParams: authority, denom, minters
		m := &mintertypes.MsgUpdateParams{Authority: auth(v[0]), MintDenom: []string{"", "uc4e", "!", "1"}[v[1]], StartTime: now, Minters: minters(v[2])}
		add(9, v, m, func(c sdk.Context) error { _, err := mms.UpdateParams(w(c), m); return err })
	})
	product([]int{2, 9}, func(v []int) { // 10 minter UpdateMintersParams
		m := &mintertypes.MsgUpdateMintersParams{Authority: auth(v[0]), StartTime: now, Minters: minters(v[1])}
		add(10, v, m, func(c sdk.Context) error { _, err := mms.UpdateMintersParams(w(c), m); return err })
	})
	// ---- cfedistributor messages ------------------------------------------------------------
	// sub-distributor class: 0 valid, 1 nil source entry, 2 nil share entry, 3 nil burn share, 4 nil share value, 5 no sources, 6 empty name
	mkSd := func(c int) distrtypes.SubDistributor {
		sd := distrtypes.SubDistributor{Name: "default_distributor", Sources: []*distrtypes.Account{{Type: distrtypes.Main}},
			Destinations: distrtypes.Destinations{PrimaryShare: distrtypes.Account{Type: distrtypes.ModuleAccount, Id: distrtypes.GreenEnergyBoosterCollector}, BurnShare: sdk.ZeroDec(),
				Shares: []*distrtypes.DestinationShare{{Name: "s1", Share: sdk.NewDecWithPrec(1, 1), Destination: distrtypes.Account{Type: distrtypes.ModuleAccount, Id: distrtypes.GovernanceBoosterCollector}}}}}
		switch c {
		case 1:
			sd.Sources = append(sd.Sources, nil)
		case 2:
			sd.Destinations.Shares = append(sd.Destinations.Shares, nil)
		case 3:
			sd.Destinations.BurnShare = sdk.Dec{}
		case 4:
			sd.Destinations.Shares[0].Share = sdk.Dec{}
		case 5:
			sd.Sources = nil
		case 6:
			sd.Name = ""
		}
		return sd
	}
	product([]int{2, 8}, func(v []int) { // 11 distributor UpdateParams: authority, sub-distributors (7 = empty list)
		var sds []distrtypes.SubDistributor
		if v[1] < 7 {
			sds = []distrtypes.SubDistributor{mkSd(v[1])}
		}
		m := &distrtypes.MsgUpdateParams{Authority: auth(v[0]), SubDistributors: sds}
		add(11, v, m, func(c sdk.Context) error { _, err := dms.UpdateParams(w(c), m); return err })
	})
	product([]int{2, 8}, func(v []int) { // 12 UpdateSubDistributorParam: authority, sub-distributor (7 = nil pointer)
		var sd *distrtypes.SubDistributor
		if v[1] < 7 {
			x := mkSd(v[1])
			sd = &x
		}
		m := &distrtypes.MsgUpdateSubDistributorParam{Authority: auth(v[0]), SubDistributor: sd}
		add(12, v, m, func(c sdk.Context) error { _, err := dms.UpdateSubDistributorParam(w(c), m); return err })
	})
	product([]int{2, 3, 3, 6}, func(v []int) { // 13 UpdateSubDistributorDestinationShareParam: authority, sd name, destination name, share
		m := &distrtypes.MsgUpdateSubDistributorDestinationShareParam{Authority: auth(v[0]), SubDistributorName: name(v[1], "default_distributor"), DestinationName: name(v[2], "s1"), Share: decClass(v[3])}
		add(13, v, m, func(c sdk.Context) error {
			_, err := dms.UpdateSubDistributorDestinationShareParam(w(c), m)
			return err
		})
	})
	product([]int{2, 3, 6}, func(v []int) { // 14 UpdateSubDistributorBurnShareParam: authority, sd name, burn share
		m := &distrtypes.MsgUpdateSubDistributorBurnShareParam{Authority: auth(v[0]), SubDistributorName: name(v[1], "default_distributor"), BurnShare: decClass(v[2])}
		add(14, v, m, func(c sdk.Context) error { _, err := dms.UpdateSubDistributorBurnShareParam(w(c), m); return err })
	})
	// the distributor needs a stored share named s1 for handlers 13: store the valid sub-distributor first
	if err := app.CfedistributorKeeper.SetParams(ctx, distrtypes.Params{SubDistributors: []distrtypes.SubDistributor{mkSd(0)}}); err != nil {
		panic(err)
	}
	// ---- cfesignature messages --------------------------------------------------------------
	product([]int{7, 7, 3}, func(v []int) { // 15 CreateAccount: creator, account address, pubkey JSON (0 empty, 1 malformed, 2 valid)
		pk := []string{"", "{not json", `{"@type":"/cosmos.crypto.secp256k1.PubKey","key":"A58CnmkJA4fJ+UzjBYHq2tGJzlpXy2ySWfuFSEyUxmRL"}`}[v[2]]
		m := &sigtypes.MsgCreateAccount{Creator: e.addrs[v[0]], AccAddressString: e.addrs[v[1]], PubKeyString: pk}
		add(15, v, m, func(c sdk.Context) error { _, err := sms.CreateAccount(w(c), m); return err })
	})
	sigKeys := []string{"", "k1", " ", "\t", " \t\r\n ", " k1 ", "\x00", strings.Repeat("k", 5000)}
	product([]int{7, len(sigKeys), 2}, func(v []int) { // 16 PublishReferencePayloadLink: creator, key (empty / set / blank / padded / NUL / oversized), value
		m := &sigtypes.MsgPublishReferencePayloadLink{Creator: e.addrs[v[0]], Key: sigKeys[v[1]], Value: []string{"", "v"}[v[2]]}
		add(16, v, m, func(c sdk.Context) error { _, err := sms.PublishReferencePayloadLink(w(c), m); return err })
	})
	product([]int{7, len(sigKeys), 4}, func(v []int) { // 17 StoreSignature: creator, storage key, JSON (0 empty, 1 malformed, 2 missing fields, 3 complete)
		js := []string{"", "{", `{"signature": 5}`, `{"signature":"c2ln","algorithm":"ecdsaWithSha256","certificate":"x"}`}[v[2]]
		m := &sigtypes.MsgStoreSignature{Creator: e.addrs[v[0]], StorageKey: sigKeys[v[1]], SignatureJSON: js}
		add(17, v, m, func(c sdk.Context) error { _, err := sms.StoreSignature(w(c), m); return err })
	})
	// ---- queries ----------------------------------------------------------------------------
	vk, mk2, dk, sk := app.CfevestingKeeper, app.CfeminterKeeper, app.CfedistributorKeeper, app.CfesignatureKeeper
	q := func(h int, classes []int, run func(c sdk.Context) error) { add(h, classes, nil, run) }
	for r := 0; r < 2; r++ {
		rr := r
		q(20, []int{rr}, func(c sdk.Context) error {
			var req *vesttypes.QueryParamsRequest
			if rr == 1 {
				req = &vesttypes.QueryParamsRequest{}
			}
			_, err := vk.Params(w(c), req)
			return err
		})
		q(21, []int{rr}, func(c sdk.Context) error {
			var req *vesttypes.QueryVestingTypeRequest
			if rr == 1 {
				req = &vesttypes.QueryVestingTypeRequest{}
			}
			_, err := vk.VestingType(w(c), req)
			return err
		})
		q(23, []int{rr}, func(c sdk.Context) error {
			var req *vesttypes.QueryVestingsSummaryRequest
			if rr == 1 {
				req = &vesttypes.QueryVestingsSummaryRequest{}
			}
			_, err := vk.VestingsSummary(w(c), req)
			return err
		})
		q(24, []int{rr}, func(c sdk.Context) error {
			var req *vesttypes.QueryGenesisVestingsSummaryRequest
			if rr == 1 {
				req = &vesttypes.QueryGenesisVestingsSummaryRequest{}
			}
			_, err := vk.GenesisVestingsSummary(w(c), req)
			return err
		})
		q(25, []int{rr}, func(c sdk.Context) error {
			var req *mintertypes.QueryParamsRequest
			if rr == 1 {
				req = &mintertypes.QueryParamsRequest{}
			}
			_, err := mk2.Params(w(c), req)
			return err
		})
		q(26, []int{rr}, func(c sdk.Context) error {
			var req *mintertypes.QueryStateRequest
			if rr == 1 {
				req = &mintertypes.QueryStateRequest{}
			}
			_, err := mk2.State(w(c), req)
			return err
		})
		q(27, []int{rr}, func(c sdk.Context) error {
			var req *mintertypes.QueryInflationRequest
			if rr == 1 {
				req = &mintertypes.QueryInflationRequest{}
			}
			_, err := mk2.Inflation(w(c), req)
			return err
		})
		q(28, []int{rr}, func(c sdk.Context) error {
			var req *distrtypes.QueryParamsRequest
			if rr == 1 {
				req = &distrtypes.QueryParamsRequest{}
			}
			_, err := dk.Params(w(c), req)
			return err
		})
		q(29, []int{rr}, func(c sdk.Context) error {
			var req *distrtypes.QueryStatesRequest
			if rr == 1 {
				req = &distrtypes.QueryStatesRequest{}
			}
			_, err := dk.States(w(c), req)
			return err
		})
		q(30, []int{rr}, func(c sdk.Context) error {
			var req *sigtypes.QueryParamsRequest
			if rr == 1 {
				req = &sigtypes.QueryParamsRequest{}
			}
			_, err := sk.Params(w(c), req)
			return err
		})
	}
	product([]int{2, 8}, func(v []int) { // 22 VestingPools: request, owner
		q(22, v, func(c sdk.Context) error {
			var req *vesttypes.QueryVestingPoolsRequest
			if v[0] == 1 {
				req = &vesttypes.QueryVestingPoolsRequest{Owner: e.addrs[v[1]]}
			}
			_, err := vk.VestingPools(w(c), req)
			return err
		})
	})
	refs := []string{"", "short", strings.Repeat("a", 64)}
	product([]int{2, 7, 3}, func(v []int) { // 31 CreateStorageKey / 32 VerifySignature / 33 VerifyReferencePayloadLink / 34 CreateReferenceId: request, address, reference id
		q(31, v, func(c sdk.Context) error {
			var req *sigtypes.QueryCreateStorageKeyRequest
			if v[0] == 1 {
				req = &sigtypes.QueryCreateStorageKeyRequest{TargetAccAddress: e.addrs[v[1]], ReferenceId: refs[v[2]]}
			}
			_, err := sk.CreateStorageKey(w(c), req)
			return err
		})
		q(32, v, func(c sdk.Context) error {
			var req *sigtypes.QueryVerifySignatureRequest
			if v[0] == 1 {
				req = &sigtypes.QueryVerifySignatureRequest{TargetAccAddress: e.addrs[v[1]], ReferenceId: refs[v[2]]}
			}
			_, err := sk.VerifySignature(w(c), req)
			return err
		})
	})
	product([]int{2, 8}, func(v []int) { // 35 GetAccountInfo: request, address
		q(35, v, func(c sdk.Context) error {
			var req *sigtypes.QueryGetAccountInfoRequest
			if v[0] == 1 {
				req = &sigtypes.QueryGetAccountInfoRequest{AccAddressString: e.addrs[v[1]]}
			}
			_, err := sk.GetAccountInfo(w(c), req)
			return err
		})
	})
	product([]int{2, 3, 2}, func(v []int) { // 36 CreateReferenceId / 37 CreateReferencePayloadLink / 38 GetReferencePayloadLink / 39 VerifyReferencePayloadLink
		q(36, v, func(c sdk.Context) error {
			var req *sigtypes.QueryCreateReferenceIdRequest
			if v[0] == 1 {
				req = &sigtypes.QueryCreateReferenceIdRequest{Creator: e.addrs[v[1]*2]}
			}
			_, err := sk.CreateReferenceId(w(c), req)
			return err
		})
		q(37, v, func(c sdk.Context) error {
			var req *sigtypes.QueryCreateReferencePayloadLinkRequest
			if v[0] == 1 {
				req = &sigtypes.QueryCreateReferencePayloadLinkRequest{ReferenceId: refs[v[1]], PayloadHash: []string{"", "h"}[v[2]]}
			}
			_, err := sk.CreateReferencePayloadLink(w(c), req)
			return err
		})
		q(38, v, func(c sdk.Context) error {
			var req *sigtypes.QueryGetReferencePayloadLinkRequest
			if v[0] == 1 {
				req = &sigtypes.QueryGetReferencePayloadLinkRequest{ReferenceId: refs[v[1]]}
			}
			_, err := sk.GetReferencePayloadLink(w(c), req)
			return err
		})
		q(39, v, func(c sdk.Context) error {
			var req *sigtypes.QueryVerifyReferencePayloadLinkRequest
			if v[0] == 1 {
				req = &sigtypes.QueryVerifyReferencePayloadLinkRequest{ReferenceId: refs[v[1]], PayloadHash: []string{"", "h"}[v[2]]}
			}
			_, err := sk.VerifyReferencePayloadLink(w(c), req)
			return err
		})
	})

	// ---- execute ----------------------------------------------------------------------------
	existing := []sdk.AccAddress{B, O, V, M, PO}
	var terms []string
	for i, cl := range calls {
		vbRes := int64(2) // not applicable
		if cl.msg != nil {
			func() {
				defer func() {
					if r := recover(); r != nil {
						vbRes = -1
					}
				}()
				if err := cl.msg.ValidateBasic(); err != nil {
					vbRes = 0
				} else {
					vbRes = 1
				}
			}()
		}
		hRes := int64(0)
		panicMsg := ""
		func() {
			defer func() {
				if r := recover(); r != nil {
					hRes = -1
					panicMsg = fmt.Sprint(r)
				}
			}()
			c, _ := ctx.CacheContext()
			// C09: the x/auth records of the accounts that exist before the call (type, key, number, sequence, vesting fields)
			before := snapshotAccounts(app, c, existing)
			defer func() {
				if cl.msg == nil {
					return
				}
				after := snapshotAccounts(app, c, existing)
				for k, a := range existing {
					// split / move (handlers 5-7) may lower the original vesting of their sender, nothing else
					if cl.h >= 5 && cl.h <= 7 && len(cl.classes) > 0 && e.addrs[cl.classes[0]] == a.String() {
						continue
					}
					rep.Eval("C09.existing_account_unchanged", before[k] == after[k], 0, i,
						fmt.Sprintf("handler %d classes %v changed the account record of %s", cl.h, cl.classes, a.String()))
				}
			}()
			if err := cl.run(c); err == nil {
				hRes = 1
			}
		}()
		cls := make([]string, len(cl.classes))
		for k, x := range cl.classes {
			cls[k] = fmt.Sprint(x)
		}
		terms = append(terms, fmt.Sprintf("(%d, %s, %s, %s)", cl.h, zList(cls), zI(vbRes), zI(hRes)))
		rep.Ops++
		rep.Count(fmt.Sprintf("handler.%02d", cl.h))
		// known class K7: MsgCreateAccount (handler 15) reaches the debug log line that formats the new account
		suffix := ""
		if cl.h == 15 {
			suffix = ".K7"
		}
		if len(panicMsg) > 120 {
			panicMsg = panicMsg[:120]
		}
		detail := fmt.Sprintf("handler %d classes %v: %s", cl.h, cl.classes, panicMsg)
		rep.Eval("C20.handler_does_not_panic"+suffix, hRes != -1, 0, i, detail)
		rep.Eval("C20.validate_basic_does_not_panic", vbRes != -1, 0, i, fmt.Sprintf("handler %d classes %v", cl.h, cl.classes))
		if vbRes == 1 {
			rep.Eval("C20.accepted_message_does_not_panic"+suffix, hRes != -1, 0, i, detail)
		}
		if hRes == -1 {
			rep.Count("panic.handler")
			rep.Count(fmt.Sprintf("panic.handler.%02d", cl.h))
		}
		if vbRes == -1 {
			rep.Count("panic.validate_basic")
		}
		rep.Count(fmt.Sprintf("outcome.vb=%d.handler=%d", vbRes, hRes))
	}
	rep.Cases = 1
	rep.Distinct = len(calls)
	rep.Samples = append(rep.Samples, terms[0], terms[len(terms)/2], terms[len(terms)-1])
	return terms
}

func snapshotAccounts(app *c4eapp.App, c sdk.Context, addrs []sdk.AccAddress) []string {
	out := make([]string, len(addrs))
	for i, a := range addrs {
		acc := app.AccountKeeper.GetAccount(c, a)
		if acc == nil {
			out[i] = "<nil>"
			continue
		}
		bz, err := app.AccountKeeper.MarshalAccount(acc)
		if err != nil {
			out[i] = "<err " + err.Error() + ">"
			continue
		}
		out[i] = fmt.Sprintf("%x", bz)
	}
	return out
}
