(* C16 — the v1.2.0 upgrade and store migrations preserve locked value. *)
From C4E Require Import Base Vest VestFrame VestProofs SolventProofs Upgrade Minter Distributor Params Migrate MigrateProofs.
Open Scope Z_scope.

(* v2 -> v3 pool migration: total locked, every pool's amounts / history / lock period / type are
   unchanged, and pool bounds carry over *)
Theorem C16_pool_migration_preserves_value :
  forall ps,
  pools_sum (map migrate_pool ps) = pools_sum ps /\
  map (fun p => (p_name p, p_locked p, p_sent p, p_withdrawn p, p_lock_start p, p_lock_end p, p_vtype p)) (map migrate_pool ps)
  = map (fun p => (p_name p, p_locked p, p_sent p, p_withdrawn p, p_lock_start p, p_lock_end p, p_vtype p)) ps /\
  (Forall pool_ok ps -> Forall pool_ok (map migrate_pool ps)).
Proof. exact migration_preserves_value. Qed.
Print Assumptions C16_pool_migration_preserves_value.

(* the validators-pool split, for every pre-upgrade pool list and any split constants: when applied,
   the total locked over the owner's pools is unchanged *)
Theorem C16_split_preserves_total_locked :
  forall k ps te ps', upgrade_pools k ps te = Some ps' -> pools_sum ps' = pools_sum ps.
Proof. exact upgrade_preserves_total_locked. Qed.
Print Assumptions C16_split_preserves_total_locked.

(* it is applied only when the validators pool exists, still locks at least the sum, and the old vesting
   type exists; then exactly the configured new pools are appended, each with sent = withdrawn = 0 *)
Theorem C16_split_structure :
  forall k ps te ps', upgrade_pools k ps te = Some ps' ->
  exists vp, find_last (k_val_pool k) ps = Some vp /\ k_sum k <= pool_currently_locked vp /\ te = true /\
    ps' = rewrite_pools k ps ++ map (new_pool (p_lock_start vp)) (k_new k) /\
    Forall (fun q => p_sent q = 0 /\ p_withdrawn q = 0 /\ p_genesis q = true) (map (new_pool (p_lock_start vp)) (k_new k)).
Proof. exact upgrade_structure. Qed.
Print Assumptions C16_split_structure.

(* every pre-existing pool keeps its sent / withdrawn history and lock period; all keep their
   initially-locked amount except the validators pool, which loses exactly the sum *)
Theorem C16_split_keeps_history :
  forall k ps,
  map (fun p => (p_sent p, p_withdrawn p, p_lock_start p, p_lock_end p)) (rewrite_pools k ps)
  = map (fun p => (p_sent p, p_withdrawn p, p_lock_start p, p_lock_end p)) ps /\
  Forall2 (fun p p' => p_locked p' = p_locked p \/ (p_name p = k_val_pool k /\ p_locked p' = p_locked p - k_sum k /\ p_name p' = k_round_pool k)) ps (rewrite_pools k ps).
Proof. exact rewrite_pools_history. Qed.
Print Assumptions C16_split_keeps_history.

(* pool solvency bounds (C05) hold afterwards *)
Theorem C16_split_preserves_pool_bounds :
  forall k ps te ps', upgrade_pools k ps te = Some ps' -> Forall pool_ok ps -> Forall (fun e => 0 <= snd (fst e)) (k_new k) -> Forall pool_ok ps'.
Proof. exact upgrade_preserves_pool_bounds. Qed.
Print Assumptions C16_split_preserves_pool_bounds.

(* completely or not at all *)
Theorem C16_split_all_or_nothing :
  forall k ps te, match upgrade_pools k ps te with None => True | Some ps' => length ps' = (length ps + length (k_new k))%nat end.
Proof. exact upgrade_all_or_nothing. Qed.
Print Assumptions C16_split_all_or_nothing.

(* accounts whose schedule is shifted keep their amounts, whatever the calendar function is *)
Theorem C16_shifted_accounts_keep_amounts :
  forall add_year x,
  a_ov (shift_account add_year x) = a_ov x /\ a_dv (shift_account add_year x) = a_dv x /\ a_df (shift_account add_year x) = a_df x /\
  a_kind (shift_account add_year x) = a_kind x /\ (a_kind x <> 2 -> shift_account add_year x = x).
Proof. exact shift_keeps_amounts. Qed.
Print Assumptions C16_shifted_accounts_keep_amounts.

Example C16_example :
  let k := {| k_val_pool := 1; k_adv_pool := 2; k_round_pool := 3; k_round_type := 4; k_new := [(5, 6, 15, 100); (7, 8, 8, 200)] |} in
  let vp := {| p_name := 1; p_vtype := 9; p_lock_start := 10; p_lock_end := 50; p_locked := 100; p_withdrawn := 20; p_sent := 30; p_genesis := false |} in
  let ap := {| p_name := 2; p_vtype := 9; p_lock_start := 10; p_lock_end := 50; p_locked := 7; p_withdrawn := 0; p_sent := 0; p_genesis := false |} in
  match upgrade_pools k [ap; vp] true with
  | Some ps' => map p_locked ps' = [7; 77; 15; 8] /\ map p_genesis ps' = [true; true; true; true] /\ pools_sum ps' = pools_sum [ap; vp]
  | None => False end
  /\ upgrade_pools k [ap; {| p_name := 1; p_vtype := 9; p_lock_start := 10; p_lock_end := 50; p_locked := 100; p_withdrawn := 48; p_sent := 30; p_genesis := false |}] true = None
  /\ upgrade_pools k [ap; vp] false = None.
Proof. vm_compute. repeat split. Qed.

(* ---------------------------------------------------------------------------------------------------------------
   migrated minter and distributor parameters validate and describe the same schedule and shares as before *)

(* whatever the 2 -> 3 minter migration stores passes the new validation (minters and mint denomination) *)
Theorem C16_migrated_minter_params_validate :
  forall c p, migrate_minter_v3 c = Ok p -> params_valid p = true /\ mp_denom_ok p = true.
Proof. exact migrated_minter_params_validate. Qed.
Print Assumptions C16_migrated_minter_params_validate.

(* ... and is exactly what the legacy parameters describe, read off the configurations that are present (for every
   legacy configuration the migration accepts: any number of periods, any ids, amounts, times) *)
Theorem C16_migrated_minter_params_describe_the_same_schedule :
  forall c p, migrate_minter_v3 c = Ok p -> p = legacy_view c.
Proof. exact migrated_minter_params_describe_the_legacy_schedule. Qed.
Print Assumptions C16_migrated_minter_params_describe_the_same_schedule.

(* so every block mints and every inflation query answers what the legacy description gives, from every state *)
Theorem C16_migrated_minter_behaves_like_legacy :
  forall c p st now supply, migrate_minter_v3 c = Ok p ->
  mint p st now = mint (legacy_view c) st now /\
  current_inflation p st supply now = current_inflation (legacy_view c) st supply now.
Proof. exact migrated_minter_behaves_like_legacy. Qed.
Print Assumptions C16_migrated_minter_behaves_like_legacy.

(* start time, sequence ids and end times are kept position by position; the minter the stored state points at exists
   afterwards iff it existed before *)
Theorem C16_migrated_minter_keeps_ids_and_ends :
  forall c p, migrate_minter_v3 c = Ok p ->
  mp_start p = lc_start c /\ map m_seq (mp_minters p) = map lm_seq (lc_minters c) /\ map m_end (mp_minters p) = map lm_end (lc_minters c).
Proof. exact migrated_minter_keeps_ids_and_ends. Qed.
Print Assumptions C16_migrated_minter_keeps_ids_and_ends.

Theorem C16_migrated_minter_keeps_current_period :
  forall c p id, migrate_minter_v3 c = Ok p -> contains_minter p id = existsb (fun m => lm_seq m =? id) (lc_minters c).
Proof. exact migrated_minter_keeps_current_period. Qed.
Print Assumptions C16_migrated_minter_keeps_current_period.

(* the migration (and with it the upgrade) is refused for a configuration the legacy rules accept exactly when the mint
   denomination is not a valid coin denomination or an exponential-step period has amount zero — the two points where
   the new rules are stricter *)
Theorem C16_minter_migration_refused_exactly_when :
  forall c, lconfig_valid c = true ->
  ((exists p, migrate_minter_v3 c = Ok p) <->
   lc_denom_nonempty c = true /\ lc_denom_ok c = true /\ forallb exp_amount_positive (lc_minters c) = true).
Proof. exact minter_migration_refused_exactly_when. Qed.
Print Assumptions C16_minter_migration_refused_exactly_when.

(* distributor: the stored sub-distributors are the legacy ones, unchanged, and valid; refused iff invalid *)
Theorem C16_migrated_distributor_params_are_the_same :
  forall subs s, migrate_distr_v3 subs = Ok s -> s = subs /\ dparams_valid s = true.
Proof. exact migrated_distr_params_are_the_legacy_ones. Qed.
Print Assumptions C16_migrated_distributor_params_are_the_same.

Theorem C16_distributor_migration_refused_exactly_when :
  forall subs, (exists s, migrate_distr_v3 subs = Ok s) <-> dparams_valid subs = true.
Proof. exact distr_migration_refused_exactly_when. Qed.
Print Assumptions C16_distributor_migration_refused_exactly_when.

(* the earlier (v1.1.0) conversion of percentages: the stored fraction times 100 is the percentage up to half a unit of
   the 18th digit times 100 *)
Theorem C16_v110_share_is_percent_over_100 :
  forall pct, 0 <= pct -> -50 <= 100 * share_from_percent pct - pct <= 50.
Proof. exact share_from_percent_is_percent_over_100. Qed.
Print Assumptions C16_v110_share_is_percent_over_100.

Theorem C16_v110_periodic_conversion_keeps_the_rate :
  forall mp ma rpl f, 0 < mp -> 0 < rpl -> mp * rpl < 2147483648 ->
  conv_periodic mp ma rpl f = CExp (ma * rpl) (mp * rpl * SECOND) f.
Proof. exact periodic_conversion_keeps_the_rate. Qed.
Print Assumptions C16_v110_periodic_conversion_keeps_the_rate.

(* the v1.1.0 store migration of the vesting pools (the state the v1.2.0 upgrade starts from): what every pool still locks is
   unchanged, although the representation changes from "last modification" counters to initially-locked / sent / withdrawn *)
Theorem C16_v110_pool_migration_preserves_locked :
  forall p, let '(l, w, se) := migrate_v1_pool p in l - se - w = v1_currently_locked p /\ w = v1_withdrawn p /\ l = v1_vested p.
Proof. exact v1_pool_migration_preserves_locked. Qed.
Print Assumptions C16_v110_pool_migration_preserves_locked.

Theorem C16_v110_pool_migration_bounds :
  forall p, let '(l, w, se) := migrate_v1_pool p in
  (0 <= w /\ 0 <= se /\ w + se <= l) <-> (0 <= v1_withdrawn p /\ v1_lmv p - v1_lmw p <= v1_vested p - v1_withdrawn p /\ v1_lmw p <= v1_lmv p).
Proof. exact v1_pool_migration_bounds. Qed.
Print Assumptions C16_v110_pool_migration_bounds.

(* v1.1.0 (consensus version 1 -> 2), the distributor's state store: when no two old states end up under the same new key,
   no amount is negative and every non-burn state has an account, the migration succeeds, writes one new state per old state —
   under the key of its account, the burn state under the burn key without account — and every state keeps its remains: per
   denomination the store holds together exactly what it held before *)
Theorem C16_v110_distributor_states_keep_their_remains :
  forall bkey l, NoDup (map (v1d_newkey bkey) l) -> Forall v1d_clean l ->
  exists st, migrate_v1_dstates bkey l [] = Ok st /\ length st = length l /\
    (forall s, In s l -> In (v1d_newkey bkey s, (vd_burn s, negb (vd_burn s), vd_coins s)) st) /\
    forall d, zsum (map (fun e => dcoins_of d (snd (snd e))) st) = zsum (map (fun s => dcoins_of d (vd_coins s)) l).
Proof. exact v1_dstates_migration_keeps_remains. Qed.
Print Assumptions C16_v110_distributor_states_keep_their_remains.
