(* C18 — emitted events report the amounts that actually moved. *)
From C4E Require Import Base Minter MinterProofs Distributor DistrCoins DistrProofs Vest VestFrame VestProofs SolventProofs SummaryProofs.
Open Scope Z_scope.

(* mint event: BeginBlocker's event carries Mint()'s result, which is exactly the growth of the
   minter's counters (C02) and the amount added to the supply by the model's begin_block *)
Theorem C18_mint_event_is_minted_amount :
  forall w now a w', begin_block w now = Ok (a, w') -> mw_supply w' = mw_supply w + a /\ 0 <= a.
Proof.
  intros w now a w' H. unfold begin_block in H.
  destruct (mint (mw_params w) (mw_state w) now) as [[[a0 st] h]| |] eqn:E; try discriminate.
  inversion H; subst. simpl. split; [reflexivity|]. apply (mint_accounting _ _ _ _ _ _ E).
Qed.
Print Assumptions C18_mint_event_is_minted_amount.

(* distribution and burn events of one sub-distributor add up to its inflow, per denomination, unless
   its primary destination is MAIN (finding K5), in which case they add up to the inflow minus the
   part left unbooked in the main account; and the books grow by exactly the event total *)
Theorem C18_distribution_events_add_up_to_inflow :
  forall sd inflow sts bk sts' evs,
  start_distribution sd inflow sts bk = Ok (sts', evs) ->
  states_wf sts -> dc_wf inflow -> (forall d, 0 <= dc_amt d inflow) ->
  (forall d, remsum d sts' = remsum d sts + ev_sum d evs) /\
  (da_type (sd_primary sd) <> T_MAIN -> forall d, ev_sum d evs = dc_amt d inflow) /\
  (forall d, ev_sum d evs <= dc_amt d inflow).
Proof.
  intros sd inflow sts bk sts' evs H Hw Hi Hn.
  destruct (start_distribution_spec sd inflow sts bk sts' evs H Hw Hi Hn) as (_ & B & (u & Hu) & _).
  split; [assumption|]. split.
  - intros Hm d. destruct (Hu d) as (_ & E & Z0). rewrite (Z0 Hm) in E. lia.
  - intros d. destruct (Hu d) as (U0 & E & _). lia.
Qed.
Print Assumptions C18_distribution_events_add_up_to_inflow.

Theorem C18_refuted_K5 :
  let main := {| da_type := T_MAIN; da_id := 0; da_key := 9; da_addr := -1 |} in
  let src := {| da_type := T_BASE; da_id := 1; da_key := 1; da_addr := 1 |} in
  let d2 := {| da_type := T_BASE; da_id := 2; da_key := 2; da_addr := 2 |} in
  let sd := {| sd_name := 1; sd_sources := [src]; sd_primary := main; sd_burn := 0;
               sd_shares := [{| sh_name := 1; sh_share := P / 10; sh_dest := d2 |}] |} in
  match start_distribution sd [(0, 1000 * P)] [] 9 with
  | Ok (sts, evs) => ev_sum 0 evs = 100 * P
  | _ => False end.
Proof. vm_compute. reflexivity. Qed.
Print Assumptions C18_refuted_K5.

(* withdrawal events (after fix F3): exactly one event per pool that pays something, carrying that
   pool's own withdrawable amount; they sum to the coins paid out *)
Theorem C18_withdraw_events_sum_to_paid :
  forall w owner r, Solvent w -> withdraw_all w owner = Some r ->
  exists ps, get_pools w owner = Some ps /\ r_events r = withdraw_events (w_now w) ps /\
             zsum (map snd (r_events r)) = r_amount r.
Proof.
  intros w owner r Hs H. destruct (withdraw_all_spec w owner r H) as (ps & Hps & _ & Ha & He & _).
  exists ps. split; [assumption|]. split; [assumption|]. rewrite He, Ha. apply withdraw_events_sum_ok.
  apply (pools_ok_get (w_pools w) owner ps (sv_ok _ Hs) Hps).
Qed.
Print Assumptions C18_withdraw_events_sum_to_paid.

Theorem C18_withdraw_events_are_per_pool :
  forall now ps, withdraw_events now ps = flat_map (fun p => if 0 <? withdrawable now p then [(p_name p, withdrawable now p)] else []) ps.
Proof.
  intros now ps. induction ps as [|p t IH]; [reflexivity|]. cbn [withdraw_events flat_map]. rewrite IH.
  destruct (0 <? withdrawable now p); reflexivity.
Qed.
Print Assumptions C18_withdraw_events_are_per_pool.
