(* C14 — failed transfers in the distributor lose nothing and are made up later. *)
From C4E Require Import Base Minter Distributor DistrCoins DistrProofs Books Credited DistrNz Ledger LedgerProofs LedgerExample LedgerUpdates.
From C4EProps Require C03.
Open Scope Z_scope.

(* whatever pattern of bank calls fails (sweeps, payouts, burns; one bit per call), over histories of
   any length: after every block the recorded remains add up to exactly what the main account holds —
   nothing that failed to leave is forgotten, nothing is booked that did not arrive *)
Theorem C14_books_hold_whatever_fails :
  forall (bk : Z) (Known : dacct -> Prop),
  (forall a, Known a -> da_key a <> bk) ->
  (forall a a', Known a -> Known a' -> da_key a = da_key a' -> da_id a = da_id a') ->
  forall ops w, winv bk Known w -> booked_after false (dw_subs w) = true -> Forall (good_op Known) ops ->
  books_after_every_block w ops.
Proof. exact history_keeps_books. Qed.
Print Assumptions C14_books_hold_whatever_fails.

(* a failed payout or burn: the state keeps its full remains (so it is retried in the next block) *)
(* what a destination has been credited — its balance (for the burn state: the burned total) in 10^-18
   units plus its recorded remains — is the same after a payout attempt as before it, whether the bank
   call succeeded or failed: a failure only postpones the payment, it never changes what is owed *)
Theorem C14_payout_attempt_keeps_credited_amount :
  forall s b,
  dc_wf (st_rem s) -> (forall d, 0 <= dc_amt d (st_rem s)) -> has_acc s -> state_plain s ->
  bal_wf (bk_bal b) -> bal_nonneg (bk_bal b) -> dc_wf (bk_burned b) ->
  (forall d, dc_amt d (st_rem s) <= mainbal b d * P) ->
  forall s' b', payout s b = Ok (s', b') -> forall d, credited s' b' d = credited s b d.
Proof. exact payout_keeps_credited. Qed.
Print Assumptions C14_payout_attempt_keeps_credited_amount.

Theorem C14_failed_payout_keeps_full_remains :
  forall s b a s' b', st_acc s = Some a -> fst (next_fault b) = true -> payout s b = Ok (s', b') -> s' = s.
Proof. exact payout_failure_keeps_remains. Qed.
Print Assumptions C14_failed_payout_keeps_full_remains.

(* ... and when the failure is not an insufficient-funds failure the bank is untouched, so the
   accounting identity of C03 (books vs. main balance) is exactly as before the attempt *)
Theorem C14_failed_call_leaves_bank_untouched :
  forall b from c, snd (partial_debit (bal_of (bk_bal b) from) c) = true -> failed_debit b from c = b.
Proof. exact failed_debit_sufficient. Qed.
Print Assumptions C14_failed_call_leaves_bank_untouched.

(* a failed source sweep contributes no inflow beyond the source's own recorded left-over, and the
   books + inflow total is unchanged: nothing is lost, nothing double counted *)
Theorem C14_failed_sweep_contributes_nothing :
  forall src sts b c sts' b',
  da_type src <> T_MAIN -> da_type src <> T_INTERNAL ->
  dc_is_zero (bal_of (bk_bal b) (da_addr src)) = false ->
  fst (next_fault b) = true ->
  prepare_source src sts b = Ok (c, sts', b') -> states_wf sts ->
  b' = failed_debit (snd (next_fault b)) (da_addr src) (bal_of (bk_bal b) (da_addr src)) /\
  states_wf sts' /\ forall d, dc_amt d c + remsum d sts' = remsum d sts.
Proof. exact prepare_failed_sweep_spec. Qed.
Print Assumptions C14_failed_sweep_contributes_nothing.

(* the retry: once the call goes through, exactly the integer part of everything accumulated is paid *)
Theorem C14_retry_pays_accumulated_integer_part :
  forall s b a s' b',
  st_acc s = Some a -> da_type a <> T_INTERNAL -> dc_any_gte1 (st_rem s) = true ->
  fst (next_fault b) = false -> payout s b = Ok (s', b') ->
  dc_wf (st_rem s) -> dc_wf (bal_of (bk_bal b) MAINADDR) -> (st_burn s = false -> da_addr a <> MAINADDR /\ dc_wf (bal_of (bk_bal b) (da_addr a))) ->
  dc_wf (bk_burned b) ->
  forall d, dc_amt d (st_rem s') = dc_amt d (st_rem s) - chop_trunc (dc_amt d (st_rem s)) * P.
Proof.
  intros s b a s' b' H1 H2 H3 H4 H5 H6 H7 H8 H9 d.
  destruct (payout_success_spec s b a s' b' H1 H2 H3 H4 H5 H6 H7 H8 H9 d) as [H _]. exact H.
Qed.
Print Assumptions C14_retry_pays_accumulated_integer_part.

(* non-vacuity / end-to-end on the model: two blocks with every payout failing, then a clean block:
   the destination ends with exactly what the fault-free run gives *)
Example C14_example :
  let w0 := C4EProps.C03.ex_dworld in
  match dist_begin_block w0 [true; true; true], dist_begin_block w0 [] with
  | Ok (wf1, _, _), Ok (wc1, _, _) =>
      match dist_begin_block (dist_inflow wf1 0 [(0, 500)]) [true; true; true], dist_begin_block (dist_inflow wc1 0 [(0, 500)]) [] with
      | Ok (wf2, _, _), Ok (wc2, _, _) =>
          match dist_begin_block wf2 [], dist_begin_block wc2 [] with
          | Ok (wf3, _, _), Ok (wc3, _, _) =>
              map (fun a => dc_amt 0 (bal_of (dw_bal wf3) a)) [0; 1; 2] = map (fun a => dc_amt 0 (bal_of (dw_bal wc3) a)) [0; 1; 2]
              /\ dw_burned wf3 = dw_burned wc3 /\ dc_amt 0 (bal_of (dw_bal wf1) 1) = 0 /\ 0 < dc_amt 0 (bal_of (dw_bal wc1) 1)
          | _, _ => False end
      | _, _ => False end
  | _, _ => False end.
Proof. vm_compute. repeat split. Qed.

(* ---------------------------------------------------------------------------------------------------------------
   "once transfers succeed again every destination ends up with what it would have received without the failures"

   What an account has been credited — its bank balance in 10^-18 units plus the remains recorded for it — is computed by
   the credited-amounts machine of Ledger.v (a_block: every sub-distributor takes what its sources have been credited and
   credits the truncated shares), and the real BeginBlock refines that machine whatever payouts and burns fail
   (LedgerProofs.ledger_refinement).  Hence: *)

(* two runs of the same history of inflows and blocks that differ only in which payouts and burns fail end, after every
   prefix, with exactly the same credited amount for every account of the configuration, for the burn, and the same unbooked
   remainder.  Hypotheses: the account universe has no alias of the main account (not K2) and no identifier shared by
   accounts of different types (not K4); MAIN, when a source, is listed first (not K1, part of sd_full_ok); the sweeps of
   the sources do not fail (a failed sweep postpones the collection, which legitimately changes what later blocks
   distribute: finding K11 and the vesting-locked sources of the generator). *)
Theorem C14_failures_never_change_what_an_account_is_credited :
  forall Acct bk, acct_universe Acct bk -> forall ops ops' w (st : Z -> aled),
  lwinv Acct bk w -> Forall (lop_ok Acct) ops -> Forall (lop_ok Acct) ops' -> Forall2 same_but_faults ops ops' ->
  (forall d, LRep Acct bk d (st d) w) ->
  exists w1 w2, lrun w ops = Ok w1 /\ lrun w ops' = Ok w2 /\
    forall d, (forall a, Acct a -> ledA a (dw_states w1) (wbank w1) d = ledA a (dw_states w2) (wbank w2) d) /\
              ledB bk (dw_states w1) (wbank w1) d = ledB bk (dw_states w2) (wbank w2) d /\
              unbooked (dw_states w1) (wbank w1) d = unbooked (dw_states w2) (wbank w2) d.
Proof. exact ledger_independent_of_failures. Qed.
Print Assumptions C14_failures_never_change_what_an_account_is_credited.

(* and once the account's last payout went through in both runs (less than one unit left in its recorded remains), the two
   balances are equal — exactly *)
Theorem C14_settled_balances_agree :
  forall a sts1 b1 sts2 b2 d, da_type a <> T_INTERNAL -> ledA a sts1 b1 d = ledA a sts2 b2 d ->
  0 <= remk (da_key a) d sts1 < P -> 0 <= remk (da_key a) d sts2 < P ->
  dc_amt d (bal_of (bk_bal b1) (da_addr a)) = dc_amt d (bal_of (bk_bal b2) (da_addr a)).
Proof. exact settled_balances_agree. Qed.
Print Assumptions C14_settled_balances_agree.

(* the block-level statement: any failure pattern in the payout phase, the block completes and the world's credited
   amounts are those of the machine *)
Theorem C14_block_refines_credited_amounts_machine :
  forall Acct bk, acct_universe Acct bk -> forall ops w (st : Z -> aled),
  lwinv Acct bk w -> Forall (lop_ok Acct) ops -> (forall d, LRep Acct bk d (st d) w) ->
  exists w', lrun w ops = Ok w' /\ lwinv Acct bk w' /\ dw_subs w' = dw_subs w /\ forall d, LRep Acct bk d (a_run (dw_subs w) d (st d) ops) w'.
Proof. exact ledger_refinement. Qed.
Print Assumptions C14_block_refines_credited_amounts_machine.

(* non-vacuity: a configuration, a world and two histories (the first block's payouts all fail in one of them) that satisfy
   all hypotheses; after the second block both runs hold the same balances *)
Theorem C14_example_failing_payouts_are_made_up :
  exists w1 w2, lrun xworld xops1 = Ok w1 /\ lrun xworld xops2 = Ok w2 /\
    (exists v1 v2, lrun xworld [LBlock [true; true]] = Ok v1 /\ lrun xworld [LBlock []] = Ok v2 /\ dw_bal v1 <> dw_bal v2) /\
    dw_bal w1 = dw_bal w2 /\ dw_burned w1 = dw_burned w2 /\
    forall d a, XAcct a -> ledA a (dw_states w1) (wbank w1) d = ledA a (dw_states w2) (wbank w2) d.
Proof. exact failing_payouts_are_made_up. Qed.
Print Assumptions C14_example_failing_payouts_are_made_up.

(* the same across parameter updates: two histories with the same updates, inflows and blocks that differ only in which payouts
   and burns fail credit every account identically after every update and block *)
Theorem C14_failures_never_change_credited_amounts_across_parameter_updates :
  forall Acct bk, acct_universe Acct bk -> forall segs segs' w (st : Z -> aled),
  lwinv Acct bk w -> Forall (seg_ok Acct) segs -> Forall (seg_ok Acct) segs' -> Forall2 same_segment_but_faults segs segs' ->
  (forall d, LRep Acct bk d (st d) w) ->
  exists w1 w2, lrun_segs w segs = Ok w1 /\ lrun_segs w segs' = Ok w2 /\
    forall d, (forall a, Acct a -> ledA a (dw_states w1) (wbank w1) d = ledA a (dw_states w2) (wbank w2) d) /\
              ledB bk (dw_states w1) (wbank w1) d = ledB bk (dw_states w2) (wbank w2) d /\
              unbooked (dw_states w1) (wbank w1) d = unbooked (dw_states w2) (wbank w2) d.
Proof. exact credited_amounts_independent_of_failures_across_updates. Qed.
Print Assumptions C14_failures_never_change_credited_amounts_across_parameter_updates.

Theorem C14_example_failing_payouts_are_made_up_across_an_update :
  exists w1 w2, lrun_segs xworld xsegs1 = Ok w1 /\ lrun_segs xworld xsegs2 = Ok w2 /\
    dw_bal w1 = dw_bal w2 /\ dw_burned w1 = dw_burned w2 /\ dw_subs w1 = xsubs2 /\
    forall d a, XAcct a -> ledA a (dw_states w1) (wbank w1) d = ledA a (dw_states w2) (wbank w2) d.
Proof. exact failing_payouts_are_made_up_across_an_update. Qed.
Print Assumptions C14_example_failing_payouts_are_made_up_across_an_update.

(* failing sweeps: the coins stay in the source account and the next sweep that goes through collects them together with what
   arrived since. For every list of shares, every state of the credited-amounts machine and all amounts x, y >= 0 (x: what the
   failed sweep left behind, y: what arrived since, both in 10^-18 units): collected at once, every named share (the burn share
   among them) is credited what it would have been credited for x and y separately, or one 10^-18 unit more; the primary
   destination, which takes the remainder, gets correspondingly less — never more than one such unit per share taken out; and
   the two add up to the same total: nothing is lost, nothing is counted twice *)
From C4E Require Import Postponed.
Theorem C14_postponed_sweep_share_within_one_unit :
  forall x y s, 0 <= x -> 0 <= y -> 0 <= s ->
  0 <= dec_mul_trunc (x + y) s - (dec_mul_trunc x s + dec_mul_trunc y s) <= 1.
Proof. exact postponed_share. Qed.
Print Assumptions C14_postponed_sweep_share_within_one_unit.

Theorem C14_postponed_sweep_primary_within_one_unit_per_share :
  forall shares x y st1 st2 st3,
  0 <= x -> 0 <= y -> Forall (fun s => 0 <= s) (taken_shares shares) ->
  let left i st := snd (a_shares shares i st i) in
  - Z.of_nat (length (taken_shares shares)) <= left (x + y) st3 - (left x st1 + left y st2) <= 0.
Proof. exact machine_postponed_primary. Qed.
Print Assumptions C14_postponed_sweep_primary_within_one_unit_per_share.

Theorem C14_postponed_sweep_loses_nothing :
  forall shares x y,
  named_total shares (x + y) + primary_part shares (x + y) =
  (named_total shares x + primary_part shares x) + (named_total shares y + primary_part shares y).
Proof. exact postponed_conservation. Qed.
Print Assumptions C14_postponed_sweep_loses_nothing.

(* non-vacuity: shares 1/2 and 1/7 (18 digits), 10 and 11 coins plus one 10^-18 unit each: collected at once the first share
   gets one 10^-18 unit more, the second the same, the primary destination one unit less *)
Example C14_postponed_example :
  let s1 := 500000000000000000 in let s2 := 142857142857142857 in
  let x := 10 * P + 1 in let y := 11 * P + 1 in
  dec_mul_trunc (x + y) s1 - (dec_mul_trunc x s1 + dec_mul_trunc y s1) = 1 /\
  dec_mul_trunc (x + y) s2 - (dec_mul_trunc x s2 + dec_mul_trunc y s2) = 0 /\
  primary_part [s1; s2] (x + y) - (primary_part [s1; s2] x + primary_part [s1; s2] y) = -1.
Proof. vm_compute. repeat split. Qed.
