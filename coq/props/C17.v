(* C17 — genesis lineage of vesting accounts and vesting summaries are accurate. *)
From C4E Require Import Base Vest VestFrame VestProofs SolventProofs SendProofs AccountsProofs SummaryProofs.
Open Scope Z_scope.

(* lineage, both directions, for every history of any length and depth: an address is recorded as
   genesis-derived after the history  <->  it is Derived: recorded so at the start (genesis accounts),
   or created by a successful send out of a genesis pool, or the recipient of a successful split /
   move / move-by-denoms whose sender was Derived at that point *)
Theorem C17_lineage :
  forall w0 ops, traces_have_accounts w0 ->
  traces_have_accounts (run w0 ops) /\ forall a, recorded_derived (run w0 ops) a <-> Derived w0 ops a.
Proof. exact lineage_history. Qed.
Print Assumptions C17_lineage.

Theorem C17_lineage_step :
  forall w o, traces_have_accounts w ->
  traces_have_accounts (fst (step w o)) /\
  forall a, recorded_derived (fst (step w o)) a <-> recorded_derived w a \/ newly_derived w o a.
Proof. exact lineage_step. Qed.
Print Assumptions C17_lineage_step.

(* summaries, at every block time and in every world: all = pools + accounts; accounts = sum of the
   still-vesting coins of the recorded (resp. genesis-derived) accounts; delegated = accounts - sum of
   their locked coins; pools = module balance (resp. what genesis pools still lock) *)
Theorem C17_summary_identities :
  forall w g,
  match summary w g with
  | [all; pools; accounts; delegated] =>
      all = pools + accounts /\
      accounts = zsum (map (vesting_of w) (summary_accounts w g)) /\
      delegated = accounts - zsum (map (fun a => locked w a (w_denom w)) (summary_accounts w g)) /\
      pools = (if g then genesis_pools_amount w else bal w MODULE (w_denom w))
  | _ => False
  end.
Proof. exact summary_identities. Qed.
Print Assumptions C17_summary_identities.

(* the delegated part is the sum of min(still vesting, delegated vesting) — x/auth's own notion *)
Theorem C17_summary_spec :
  forall w g,
  summary w g =
    let accs := summary_accounts w g in
    let v := zsum (map (vesting_of w) accs) in
    let p := if g then genesis_pools_amount w else bal w MODULE (w_denom w) in
    [v + p; p; v; zsum (map (delegated_vesting_of w) accs)].
Proof. exact summary_spec. Qed.
Print Assumptions C17_summary_spec.

(* in every solvent world (C05) "in pools" is exactly what the pool ledger still locks, and the
   genesis summary never reports more in pools than that *)
Theorem C17_pools_amount_is_ledger :
  forall w, Solvent w -> nth 1 (summary w false) 0 = all_pools_sum (w_pools w).
Proof. exact summary_pools_backed. Qed.
Print Assumptions C17_pools_amount_is_ledger.

Theorem C17_genesis_pools_within_ledger :
  forall w, Solvent w -> 0 <= nth 1 (summary w true) 0 <= nth 1 (summary w false) 0.
Proof. exact genesis_summary_within_module_balance. Qed.
Print Assumptions C17_genesis_pools_within_ledger.

(* non-vacuity: send out of a genesis pool, then split from the new account: both recipients derived *)
From C4EProps Require C05.
Example C17_example :
  let ops := [OSend 7 9 2 120 true; OSplit 9 10 [(0, 5)]; OSend 7 11 1 0 true] in
  let w := run C4EProps.C05.ex_w ops in
  map (obs_trace w) [9; 10; 11] = [[1; 0; 1; 0]; [1; 0; 1; 0]; [1; 0; 0; 0]] /\ summary w true = [488; 380; 108; 0].
Proof. vm_compute. split; reflexivity. Qed.

(* where the lineage of the accounts recorded before v1.2.0 comes from: the upgrade. On every v1.1.0 store (records keyed by id,
   pairwise different addresses, any number, any ids) the handler — store migration, then the marking — leaves every recorded
   account recorded under its address, with its id, as a genesis account exactly when it is on the upgrade's list of genesis
   accounts, as created from a genesis pool exactly when it is on that list (and not on the first), never as split from a genesis
   account; and nothing else is recorded *)
From C4E Require Import UpgradeTraces.
Theorem C17_upgrade_records_the_documented_lineage :
  forall old : list (Z * Z), NoDup (map snd old) ->
  let s := upgrade_traces {| ts_old := old; ts_new := [] |} in
  (forall i a, In (i, a) old -> aget a (ts_new s) = Some (documented i a)) /\
  length (ts_new s) = length old /\ ts_old s = [].
Proof. exact upgrade_records_documented_lineage. Qed.
Print Assumptions C17_upgrade_records_the_documented_lineage.

(* the order matters: the marking only sees the new layout; before the migration it marks nothing *)
Theorem C17_marking_before_the_migration_marks_nothing :
  forall old i a, NoDup (map snd old) -> In (i, a) old ->
  aget a (ts_new (upgrade_traces_marking_first {| ts_old := old; ts_new := [] |})) =
  Some {| tr_id := i; tr_addr := a; tr_genesis := false; tr_from_pool := false; tr_from_acct := false |}.
Proof. exact marking_before_migration_marks_nothing. Qed.
Print Assumptions C17_marking_before_the_migration_marks_nothing.

(* non-vacuity: a listed genesis account (class 3), a listed pool account (class 101) and an unlisted one *)
Example C17_upgrade_example :
  let old := [(0, 1000); (1, 3); (2, 101)] in
  NoDup (map snd old) /\
  map (fun a => code_of (aget a (ts_new (upgrade_traces {| ts_old := old; ts_new := [] |})))) [1000; 3; 101]
    = [[1; 0; 0; 0; 0]; [1; 1; 1; 0; 0]; [1; 2; 0; 1; 0]] /\
  map (fun a => code_of (aget a (ts_new (upgrade_traces_marking_first {| ts_old := old; ts_new := [] |})))) [1000; 3; 101]
    = [[1; 0; 0; 0; 0]; [1; 1; 0; 0; 0]; [1; 2; 0; 0; 0]].
Proof.
  split; [repeat constructor; cbn; intuition lia|]. vm_compute. split; reflexivity.
Qed.
