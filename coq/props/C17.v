(* C17 — genesis lineage of vesting accounts and vesting summaries are accurate. *)
From C4E Require Import Base Vest VestFrame VestProofs SolventProofs SendProofs AccountsProofs SummaryProofs.
Open Scope Z_scope.

(* lineage, both directions, for every history of any length and depth: an address is recorded as
   genesis-derived after the history  <->  it is Derived: recorded so at the start (genesis accounts),
   or created by a successful send out of a genesis pool, or the recipient of a successful split /
   move / move-by-denoms whose sender was Derived at that point *)
Theorem C17_lineage :
  forall w0 ops, traces_have_accounts w0 ->
  traces_have_accounts (run w0 ops) /\ forall a, recorded_derived (run w0 ops) a <-> Derived w0 ops a.
Proof. exact lineage_history. Qed.
Print Assumptions C17_lineage.

Theorem C17_lineage_step :
  forall w o, traces_have_accounts w ->
  traces_have_accounts (fst (step w o)) /\
  forall a, recorded_derived (fst (step w o)) a <-> recorded_derived w a \/ newly_derived w o a.
Proof. exact lineage_step. Qed.
Print Assumptions C17_lineage_step.

(* summaries, at every block time and in every world: all = pools + accounts; accounts = sum of the
   still-vesting coins of the recorded (resp. genesis-derived) accounts; delegated = accounts - sum of
   their locked coins; pools = module balance (resp. what genesis pools still lock) *)
Theorem C17_summary_identities :
  forall w g,
  match summary w g with
  | [all; pools; accounts; delegated] =>
      all = pools + accounts /\
      accounts = zsum (map (vesting_of w) (summary_accounts w g)) /\
      delegated = accounts - zsum (map (fun a => locked w a (w_denom w)) (summary_accounts w g)) /\
      pools = (if g then genesis_pools_amount w else bal w MODULE (w_denom w))
  | _ => False
  end.
Proof. exact summary_identities. Qed.
Print Assumptions C17_summary_identities.

(* the delegated part is the sum of min(still vesting, delegated vesting) — x/auth's own notion *)
Theorem C17_summary_spec :
  forall w g,
  summary w g =
    let accs := summary_accounts w g in
    let v := zsum (map (vesting_of w) accs) in
    let p := if g then genesis_pools_amount w else bal w MODULE (w_denom w) in
    [v + p; p; v; zsum (map (delegated_vesting_of w) accs)].
Proof. exact summary_spec. Qed.
Print Assumptions C17_summary_spec.

(* in every solvent world (C05) "in pools" is exactly what the pool ledger still locks, and the
   genesis summary never reports more in pools than that *)
Theorem C17_pools_amount_is_ledger :
  forall w, Solvent w -> nth 1 (summary w false) 0 = all_pools_sum (w_pools w).
Proof. exact summary_pools_backed. Qed.
Print Assumptions C17_pools_amount_is_ledger.

Theorem C17_genesis_pools_within_ledger :
  forall w, Solvent w -> 0 <= nth 1 (summary w true) 0 <= nth 1 (summary w false) 0.
Proof. exact genesis_summary_within_module_balance. Qed.
Print Assumptions C17_genesis_pools_within_ledger.

(* non-vacuity: send out of a genesis pool, then split from the new account: both recipients derived *)
From C4EProps Require C05.
Example C17_example :
  let ops := [OSend 7 9 2 120 true; OSplit 9 10 [(0, 5)]; OSend 7 11 1 0 true] in
  let w := run C4EProps.C05.ex_w ops in
  map (obs_trace w) [9; 10; 11] = [[1; 0; 1; 0]; [1; 0; 1; 0]; [1; 0; 0; 0]] /\ summary w true = [488; 380; 108; 0].
Proof. vm_compute. split; reflexivity. Qed.
