(* C03 — distributor books always match the coins it holds (mechanism-level theorems, pointwise per
   denomination; the block-level composition is checked on every run against the implementation's
   own registered invariants and a conservation equation). *)
From C4E Require Import Base Minter Distributor DistrCoins DistrProofs.
Open Scope Z_scope.

(* MAIN source: the inflow is exactly the main account's balance minus the sum of all recorded
   remains (never negative when the call does not panic) — so after booking it, books = balance *)
Theorem C03_main_inflow_is_unbooked_balance :
  forall src sts b c sts' b',
  da_type src = T_MAIN -> prepare_source src sts b = Ok (c, sts', b') ->
  states_wf sts -> dc_wf (bal_of (bk_bal b) MAINADDR) ->
  sts' = sts /\ b' = b /\
  (dc_is_zero (bal_of (bk_bal b) MAINADDR) = true -> c = []) /\
  (dc_is_zero (bal_of (bk_bal b) MAINADDR) = false ->
     dc_wf c /\ forall d, dc_amt d c = dc_amt d (bal_of (bk_bal b) MAINADDR) * P - remsum d sts /\ 0 <= dc_amt d c).
Proof. exact prepare_main_spec. Qed.
Print Assumptions C03_main_inflow_is_unbooked_balance.

(* internal pass-through source: no coin moves; exactly its recorded remains become inflow *)
Theorem C03_internal_source_requeues_its_remains :
  forall src sts b c sts' b',
  da_type src = T_INTERNAL -> prepare_source src sts b = Ok (c, sts', b') -> states_wf sts ->
  b' = b /\ states_wf sts' /\ dc_wf c /\ forall d, dc_amt d c + remsum d sts' = remsum d sts.
Proof. exact prepare_internal_spec. Qed.
Print Assumptions C03_internal_source_requeues_its_remains.

(* StartDistributionProcess: the books grow by exactly what the events report, which is at most the
   inflow and exactly the inflow unless the primary destination is MAIN (then the remainder stays
   unbooked in main): every coin of the inflow is booked once, none twice *)
Theorem C03_distribution_books_exactly_the_inflow :
  forall sd inflow sts bk sts' evs,
  start_distribution sd inflow sts bk = Ok (sts', evs) ->
  states_wf sts -> dc_wf inflow -> (forall d, 0 <= dc_amt d inflow) ->
  states_wf sts' /\
  (forall d, remsum d sts' = remsum d sts + ev_sum d evs) /\
  (exists unbooked : Z -> Z, forall d, 0 <= unbooked d /\ ev_sum d evs + unbooked d = dc_amt d inflow /\
                                       (da_type (sd_primary sd) <> T_MAIN -> unbooked d = 0)).
Proof.
  intros sd inflow sts bk sts' evs H Hw Hi Hn.
  destruct (start_distribution_spec sd inflow sts bk sts' evs H Hw Hi Hn) as (A & B & C & _). auto.
Qed.
Print Assumptions C03_distribution_books_exactly_the_inflow.

(* end-of-block payout: the integer part leaves the books and the main account together (and
   arrives at the destination, or leaves the supply when burned); the fraction stays booked *)
Theorem C03_payout_moves_books_and_balance_together :
  forall s b a s' b',
  st_acc s = Some a -> da_type a <> T_INTERNAL -> dc_any_gte1 (st_rem s) = true ->
  fst (next_fault b) = false -> payout s b = Ok (s', b') ->
  dc_wf (st_rem s) -> dc_wf (bal_of (bk_bal b) MAINADDR) -> (st_burn s = false -> da_addr a <> MAINADDR /\ dc_wf (bal_of (bk_bal b) (da_addr a))) ->
  dc_wf (bk_burned b) ->
  forall d, let sent := chop_trunc (dc_amt d (st_rem s)) in
    dc_amt d (st_rem s') = dc_amt d (st_rem s) - sent * P /\
    dc_amt d (bal_of (bk_bal b') MAINADDR) = dc_amt d (bal_of (bk_bal b) MAINADDR) - sent /\
    (if st_burn s then dc_amt d (bk_burned b') = dc_amt d (bk_burned b) + sent
     else dc_amt d (bal_of (bk_bal b') (da_addr a)) = dc_amt d (bal_of (bk_bal b) (da_addr a)) + sent
          /\ bk_burned b' = bk_burned b).
Proof. exact payout_success_spec. Qed.
Print Assumptions C03_payout_moves_books_and_balance_together.

Theorem C03_no_payout_no_change :
  forall s b a, st_acc s = Some a -> (da_type a = T_INTERNAL \/ dc_any_gte1 (st_rem s) = false) -> payout s b = Ok (s, b).
Proof. exact payout_skips. Qed.
Print Assumptions C03_no_payout_no_change.

(* finding K1: a base-account source listed before MAIN in one sub-distributor is counted twice: after
   one block 2000 are booked against 1000 held (the payout then fails for lack of funds) *)
Definition k1_world : dworld :=
  let src := {| da_type := T_BASE; da_id := 1; da_key := 1; da_addr := 1 |} in
  let main := {| da_type := T_MAIN; da_id := 0; da_key := 9; da_addr := -1 |} in
  let dst := {| da_type := T_BASE; da_id := 2; da_key := 2; da_addr := 2 |} in
  {| dw_subs := [{| sd_name := 1; sd_sources := [src; main]; sd_primary := dst; sd_burn := 0; sd_shares := [] |}];
     dw_states := []; dw_bal := [(1, [(0, 1000)])]; dw_burned := []; dw_burnkey := 9 |}.

Theorem C03_refuted_K1 :
  match dist_begin_block k1_world [false; true] with
  | Ok (w', _, _) => remsum 0 (dw_states w') = 2000 * P /\ dc_amt 0 (bal_of (dw_bal w') MAINADDR) = 1000
  | _ => False
  end.
Proof. vm_compute. split; reflexivity. Qed.
Print Assumptions C03_refuted_K1.

(* non-vacuity: a two-stage graph, three blocks, books = balance after each *)
Definition ex_dworld : dworld :=
  let main := {| da_type := T_MAIN; da_id := 0; da_key := 9; da_addr := -1 |} in
  let int1 := {| da_type := T_INTERNAL; da_id := 3; da_key := 3; da_addr := -1 |} in
  let d1 := {| da_type := T_BASE; da_id := 1; da_key := 1; da_addr := 1 |} in
  let d2 := {| da_type := T_MODULE; da_id := 2; da_key := 2; da_addr := 2 |} in
  {| dw_subs := [{| sd_name := 1; sd_sources := [main]; sd_primary := d1; sd_burn := 100000000000000000;
                    sd_shares := [{| sh_name := 1; sh_share := 333333333333333333; sh_dest := int1 |}] |};
                 {| sd_name := 2; sd_sources := [int1]; sd_primary := d2; sd_burn := 0; sd_shares := [] |}];
     dw_states := []; dw_bal := [(0, [(0, 1001)])]; dw_burned := []; dw_burnkey := 9 |}.

Example C03_example :
  match dist_begin_block ex_dworld [] with
  | Ok (w1, _, _) =>
      remsum 0 (dw_states w1) = dc_amt 0 (bal_of (dw_bal w1) MAINADDR) * P /\
      match dist_begin_block (dist_inflow w1 0 [(0, 77)]) [] with
      | Ok (w2, _, _) => remsum 0 (dw_states w2) = dc_amt 0 (bal_of (dw_bal w2) MAINADDR) * P /\
                         dc_amt 0 (bal_of (dw_bal w2) 1) + dc_amt 0 (bal_of (dw_bal w2) 2) + dc_amt 0 (dw_burned w2)
                         + dc_amt 0 (bal_of (dw_bal w2) MAINADDR) = 1078
      | _ => False end
  | _ => False end.
Proof. vm_compute. repeat split. Qed.
