(* C03 — distributor books always match the coins it holds: block- and history-level theorems first,
   then the mechanism-level laws they are assembled from (pointwise per denomination). *)
From C4E Require Import Base Minter Distributor DistrCoins DistrProofs Books Params BooksValid.
Open Scope Z_scope.

(* THE property over whole histories.  [winv] collects what holds of every reachable distributor world:
   well-formed non-negative remains and balances, states stored in key order under the key of their
   account, a configuration whose shares are fractions adding up to at most 1, in which MAIN — when it
   is a source — is the first source of its sub-distributor (not K1) and no source or destination is
   the main account under another name (not K2), and books not exceeding the main balance.
   [booked_after false subs = true] is what validation's "the last occurrence of MAIN is a source"
   gives.  Then for every sequence of inflows (any non-negative coins to any account), blocks (with
   ANY pattern of failing bank calls) and parameter updates (to any configuration of that kind, over the
   same or other accounts — an id may come back under another account type): no block panics, and after every block the sum of all recorded
   remains equals the main account's balance, per denomination. *)
Theorem C03_books_equal_balance_after_every_block :
  forall (bk : Z) (Known : dacct -> Prop),
  (forall a, Known a -> da_key a <> bk) ->
  (forall a a', Known a -> Known a' -> da_key a = da_key a' -> da_id a = da_id a') ->
  forall ops w, winv bk Known w -> booked_after false (dw_subs w) = true -> Forall (good_op Known) ops ->
  books_after_every_block w ops.
Proof. exact history_keeps_books. Qed.
Print Assumptions C03_books_equal_balance_after_every_block.

(* the configuration hypotheses are what validation gives: every configuration accepted by
   Params.Validate (Params.dparams_valid: SubDistributor.Validate + ValidateSubDistributors +
   validateLastOccurrence) whose sources are in order (not K1) has share fractions in range and, because
   validation demands that the last occurrence of MAIN is a source, the whole main balance booked at the
   end of every block *)
Theorem C03_validated_configuration_books_everything :
  forall l, dparams_valid l = true ->
  Forall (fun s => sd_uids_ok (ps_sd s)) l ->
  Forall (fun s => sources_in_order (sd_sources (ps_sd s))) l ->
  Forall sd_shares_ok (map ps_sd l) /\ booked_after false (map ps_sd l) = true.
Proof. exact valid_config_books. Qed.
Print Assumptions C03_validated_configuration_books_everything.

(* ... and so a governance update to a configuration that Params.Validate accepts is one of the updates the history theorem
   allows (`good_op (DSetSubs ...)`), as long as it stays outside K1 / K2 and among the known accounts *)
Theorem C03_validated_update_keeps_the_books :
  forall (Known : dacct -> Prop) l, dparams_valid l = true ->
  Forall (fun s => sd_uids_ok (ps_sd s)) l ->
  Forall (fun s => sources_in_order (sd_sources (ps_sd s))) l ->
  Forall (dests_shaped plainR) (map ps_sd l) -> Forall (dests_in Known) (map ps_sd l) ->
  good_op Known (DSetSubs (map ps_sd l)).
Proof. exact validated_update_is_good. Qed.
Print Assumptions C03_validated_update_keeps_the_books.

(* one block: never panics, keeps the invariant (books never exceed the balance, even when MAIN is a
   later primary destination), whatever fails *)
Theorem C03_block_keeps_the_books :
  forall (bk : Z) (Known : dacct -> Prop),
  (forall a, Known a -> da_key a <> bk) ->
  (forall a a', Known a -> Known a' -> da_key a = da_key a' -> da_id a = da_id a') ->
  forall w faults, winv bk Known w ->
  exists w' evs n, dist_begin_block w faults = Ok (w', evs, n) /\ winv bk Known w' /\ dw_subs w' = dw_subs w /\
    (booked_after false (dw_subs w) = true -> Books w').
Proof. exact block_keeps_books. Qed.
Print Assumptions C03_block_keeps_the_books.

(* inside the block, per sub-distributor: what its sources contribute raises the unbooked part of the
   main balance by exactly the inflow (a MAIN source takes exactly the unbooked part), and
   StartDistributionProcess books exactly the inflow except what a MAIN primary leaves unbooked *)
Theorem C03_sources_raise_unbooked_by_the_inflow :
  forall srcs sts b, inv sts b -> sources_in_order srcs -> (forall d, 0 <= unbooked sts b d) ->
  exists c sts' b', prepare_all srcs sts b [] = Ok (c, sts', b') /\ inv sts' b' /\ dc_wf c /\ (forall d, 0 <= dc_amt d c) /\
    forall d, unbooked sts' b' d = (if main_is_source srcs then 0 else unbooked sts b d) + dc_amt d c.
Proof. exact prepare_all_books. Qed.
Print Assumptions C03_sources_raise_unbooked_by_the_inflow.

(* MAIN source: the inflow is exactly the main account's balance minus the sum of all recorded
   remains (never negative when the call does not panic) — so after booking it, books = balance *)
Theorem C03_main_inflow_is_unbooked_balance :
  forall src sts b c sts' b',
  da_type src = T_MAIN -> prepare_source src sts b = Ok (c, sts', b') ->
  states_wf sts -> dc_wf (bal_of (bk_bal b) MAINADDR) ->
  sts' = sts /\ b' = b /\
  (dc_is_zero (bal_of (bk_bal b) MAINADDR) = true -> c = []) /\
  (dc_is_zero (bal_of (bk_bal b) MAINADDR) = false ->
     dc_wf c /\ forall d, dc_amt d c = dc_amt d (bal_of (bk_bal b) MAINADDR) * P - remsum d sts /\ 0 <= dc_amt d c).
Proof. exact prepare_main_spec. Qed.
Print Assumptions C03_main_inflow_is_unbooked_balance.

(* internal pass-through source: no coin moves; exactly its recorded remains become inflow *)
Theorem C03_internal_source_requeues_its_remains :
  forall src sts b c sts' b',
  da_type src = T_INTERNAL -> prepare_source src sts b = Ok (c, sts', b') -> states_wf sts ->
  b' = b /\ states_wf sts' /\ dc_wf c /\ forall d, dc_amt d c + remsum d sts' = remsum d sts.
Proof. exact prepare_internal_spec. Qed.
Print Assumptions C03_internal_source_requeues_its_remains.

(* StartDistributionProcess: the books grow by exactly what the events report, which is at most the
   inflow and exactly the inflow unless the primary destination is MAIN (then the remainder stays
   unbooked in main): every coin of the inflow is booked once, none twice *)
Theorem C03_distribution_books_exactly_the_inflow :
  forall sd inflow sts bk sts' evs,
  start_distribution sd inflow sts bk = Ok (sts', evs) ->
  states_wf sts -> dc_wf inflow -> (forall d, 0 <= dc_amt d inflow) ->
  states_wf sts' /\
  (forall d, remsum d sts' = remsum d sts + ev_sum d evs) /\
  (exists unbooked : Z -> Z, forall d, 0 <= unbooked d /\ ev_sum d evs + unbooked d = dc_amt d inflow /\
                                       (da_type (sd_primary sd) <> T_MAIN -> unbooked d = 0)).
Proof.
  intros sd inflow sts bk sts' evs H Hw Hi Hn.
  destruct (start_distribution_spec sd inflow sts bk sts' evs H Hw Hi Hn) as (A & B & C & _). auto.
Qed.
Print Assumptions C03_distribution_books_exactly_the_inflow.

(* end-of-block payout: the integer part leaves the books and the main account together (and
   arrives at the destination, or leaves the supply when burned); the fraction stays booked *)
Theorem C03_payout_moves_books_and_balance_together :
  forall s b a s' b',
  st_acc s = Some a -> da_type a <> T_INTERNAL -> dc_any_gte1 (st_rem s) = true ->
  fst (next_fault b) = false -> payout s b = Ok (s', b') ->
  dc_wf (st_rem s) -> dc_wf (bal_of (bk_bal b) MAINADDR) -> (st_burn s = false -> da_addr a <> MAINADDR /\ dc_wf (bal_of (bk_bal b) (da_addr a))) ->
  dc_wf (bk_burned b) ->
  forall d, let sent := chop_trunc (dc_amt d (st_rem s)) in
    dc_amt d (st_rem s') = dc_amt d (st_rem s) - sent * P /\
    dc_amt d (bal_of (bk_bal b') MAINADDR) = dc_amt d (bal_of (bk_bal b) MAINADDR) - sent /\
    (if st_burn s then dc_amt d (bk_burned b') = dc_amt d (bk_burned b) + sent
     else dc_amt d (bal_of (bk_bal b') (da_addr a)) = dc_amt d (bal_of (bk_bal b) (da_addr a)) + sent
          /\ bk_burned b' = bk_burned b).
Proof. exact payout_success_spec. Qed.
Print Assumptions C03_payout_moves_books_and_balance_together.

Theorem C03_no_payout_no_change :
  forall s b a, st_acc s = Some a -> (da_type a = T_INTERNAL \/ dc_any_gte1 (st_rem s) = false) -> payout s b = Ok (s, b).
Proof. exact payout_skips. Qed.
Print Assumptions C03_no_payout_no_change.

(* finding K1: a base-account source listed before MAIN in one sub-distributor is counted twice: after
   one block 2000 are booked against 1000 held (the payout then fails for lack of funds) *)
Definition k1_world : dworld :=
  let src := {| da_type := T_BASE; da_id := 1; da_key := 1; da_addr := 1 |} in
  let main := {| da_type := T_MAIN; da_id := 0; da_key := 9; da_addr := -1 |} in
  let dst := {| da_type := T_BASE; da_id := 2; da_key := 2; da_addr := 2 |} in
  {| dw_subs := [{| sd_name := 1; sd_sources := [src; main]; sd_primary := dst; sd_burn := 0; sd_shares := [] |}];
     dw_states := []; dw_bal := [(1, [(0, 1000)])]; dw_burned := []; dw_burnkey := 9 |}.

Theorem C03_refuted_K1 :
  match dist_begin_block k1_world [false; true] with
  | Ok (w', _, _) => remsum 0 (dw_states w') = 2000 * P /\ dc_amt 0 (bal_of (dw_bal w') MAINADDR) = 1000
  | _ => False
  end.
Proof. vm_compute. split; reflexivity. Qed.
Print Assumptions C03_refuted_K1.

(* non-vacuity: a two-stage graph, three blocks, books = balance after each *)
Definition ex_dworld : dworld :=
  let main := {| da_type := T_MAIN; da_id := 0; da_key := 9; da_addr := -1 |} in
  let int1 := {| da_type := T_INTERNAL; da_id := 3; da_key := 3; da_addr := -1 |} in
  let d1 := {| da_type := T_BASE; da_id := 1; da_key := 1; da_addr := 1 |} in
  let d2 := {| da_type := T_MODULE; da_id := 2; da_key := 2; da_addr := 2 |} in
  {| dw_subs := [{| sd_name := 1; sd_sources := [main]; sd_primary := d1; sd_burn := 100000000000000000;
                    sd_shares := [{| sh_name := 1; sh_share := 333333333333333333; sh_dest := int1 |}] |};
                 {| sd_name := 2; sd_sources := [int1]; sd_primary := d2; sd_burn := 0; sd_shares := [] |}];
     dw_states := []; dw_bal := [(0, [(0, 1001)])]; dw_burned := []; dw_burnkey := 9 |}.

Example C03_example :
  match dist_begin_block ex_dworld [] with
  | Ok (w1, _, _) =>
      remsum 0 (dw_states w1) = dc_amt 0 (bal_of (dw_bal w1) MAINADDR) * P /\
      match dist_begin_block (dist_inflow w1 0 [(0, 77)]) [] with
      | Ok (w2, _, _) => remsum 0 (dw_states w2) = dc_amt 0 (bal_of (dw_bal w2) MAINADDR) * P /\
                         dc_amt 0 (bal_of (dw_bal w2) 1) + dc_amt 0 (bal_of (dw_bal w2) 2) + dc_amt 0 (dw_burned w2)
                         + dc_amt 0 (bal_of (dw_bal w2) MAINADDR) = 1078
      | _ => False end
  | _ => False end.
Proof. vm_compute. repeat split. Qed.

(* non-vacuity of the history theorem: the example world satisfies the invariant *)
Definition ex_known (a : dacct) : Prop := da_key a = da_id a /\ 1 <= da_key a <= 3.
Example C03_example_world_satisfies_invariant : winv 9 ex_known ex_dworld /\ booked_after false (dw_subs ex_dworld) = true.
Proof.
  split; [|reflexivity]. constructor; cbn [ex_dworld dw_states dw_subs dw_bal dw_burned dw_burnkey].
  - constructor; cbn [bank_of bk_bal bk_burned dw_bal dw_burned]; try constructor.
    + intros a. unfold bal_of. cbn. destruct (a =? 0); cbn; [split; [lia | exact I] | exact I].
    + intros a d. unfold bal_of. cbn. destruct (a =? 0); cbn; [destruct (d =? 0)|]; lia.
  - constructor.
  - constructor.
  - exact I.
  - reflexivity.
  - assert (Hsh : forall sd, sd_burn sd >= 0 -> Forall (fun sh => 0 <= sh_share sh) (sd_shares sd) ->
                  shares_total (sd_shares sd) + sd_burn sd <= P -> sd_shares_ok sd).
    { intros sd H1 H2 H3. unfold sd_shares_ok, shares_ok. split; [exact H2|]. split; [lia | exact H3]. }
    split.
    + apply Forall_cons; [|apply Forall_cons; [|apply Forall_nil]].
      * split; [cbn; split; [left; reflexivity | constructor]|]. apply Hsh; cbn [sd_burn sd_shares]; [lia | apply Forall_cons; [cbn [sh_share]; lia | apply Forall_nil] | unfold shares_total; cbn [map zsum sh_share]; unfold P; lia].
      * split; [cbn; split; [|constructor]; right; split; [discriminate|]; intros H; exfalso; apply H; reflexivity|].
        apply Hsh; cbn [sd_burn sd_shares]; [lia | apply Forall_nil | unfold shares_total; cbn [map zsum]; unfold P; lia].
    + apply Forall_cons; [|apply Forall_cons; [|apply Forall_nil]]; split; cbn.
      * constructor; [|constructor]. cbn. intros _ _ H; exfalso; apply H; reflexivity.
      * intros _ _ _. discriminate.
      * constructor.
      * intros _ _ _. discriminate.
  - apply Forall_cons; [|apply Forall_cons; [|apply Forall_nil]]; split; cbn.
    + constructor; [|constructor]. cbn. intros _. unfold ex_known; cbn. lia.
    + intros _. unfold ex_known; cbn. lia.
    + constructor.
    + intros _. unfold ex_known; cbn. lia.
  - intros d. unfold wunbooked, unbooked, mainbal, bank_of, bal_of. cbn. destruct (d =? 0); cbn; lia.
Qed.
