(* C04 — every destination receives exactly its configured share. *)
From C4E Require Import Base Minter Distributor DistrCoins DistrProofs Drift Books DistrNz Ledger LedgerProofs LedgerOrder LedgerUpdates PaidOut.
From C4EProps Require C03.
Open Scope Z_scope.

(* a named share is floor(inflow * share) in 18-digit fixed point, per denomination, between 0 and the
   inflow — the only rounding in the distributor, always downwards, so the primary gets the rest *)
Theorem C04_share_is_truncated_fraction_of_inflow :
  forall share inflow d, dc_wf inflow -> dc_all_positive inflow = true -> 0 <= share <= P ->
  dc_amt d (calc_share share inflow) = (dc_amt d inflow * share) / P /\
  0 <= dc_amt d (calc_share share inflow) <= dc_amt d inflow.
Proof. exact share_amount_law. Qed.
Print Assumptions C04_share_is_truncated_fraction_of_inflow.

(* one StartDistributionProcess: every named-share event carries calc_share(share, inflow) for a
   non-MAIN destination, the burn event calc_share(burn, inflow), the primary event (non-MAIN primary)
   the inflow minus all of those; and the books (balance owed to destinations, fractions included) grow
   by exactly these amounts — fractions are carried in the books, never dropped *)
Theorem C04_destinations_are_credited_their_shares :
  forall sd inflow sts bk sts' evs,
  start_distribution sd inflow sts bk = Ok (sts', evs) ->
  states_wf sts -> dc_wf inflow -> (forall d, 0 <= dc_amt d inflow) ->
  (forall d, remsum d sts' = remsum d sts + ev_sum d evs) /\
  exists shares_evs prim burn_ev, evs = shares_evs ++ prim ++ burn_ev /\
    Forall (share_event_ok inflow (sd_shares sd)) shares_evs /\
    (burn_ev = [] \/ burn_ev = [(2, 0, calc_share (sd_burn sd) inflow)]) /\
    (prim = [] \/ exists c, prim = [(1, PRIMARY_NAME, c)] /\ da_type (sd_primary sd) <> T_MAIN /\
        forall d, dc_amt d c = dc_amt d inflow - ev_sum d shares_evs - dc_amt d (calc_share (sd_burn sd) inflow)).
Proof.
  intros sd inflow sts bk sts' evs H Hw Hi Hn.
  destruct (start_distribution_spec sd inflow sts bk sts' evs H Hw Hi Hn) as (_ & B & _ & D). auto.
Qed.
Print Assumptions C04_destinations_are_credited_their_shares.

(* crediting one destination changes no other destination's books: the total grows by the share only *)
Theorem C04_credit_goes_to_one_state :
  forall sts dest share sts', add_share_to_account sts dest share = Ok sts' -> states_wf sts -> dc_wf share ->
  states_wf sts' /\ forall d, remsum d sts' = remsum d sts + dc_amt d share.
Proof. exact add_share_to_account_spec. Qed.
Print Assumptions C04_credit_goes_to_one_state.

(* cumulative drift: over any number of distribution steps with any non-negative inflows, what a share's
   destination has been credited is the exact fraction of the total inflow minus less than one 10^-18 unit
   per step (in the same 18-digit scale) — never more than the exact fraction *)
Theorem C04_cumulative_drift_is_below_one_unit_per_step :
  forall share inflows, 0 <= share -> Forall (fun i => 0 <= i) inflows ->
  0 <= zsum inflows * share - P * credited_sum share inflows < P * Z.of_nat (length inflows) \/ inflows = [].
Proof. exact cumulative_drift. Qed.
Print Assumptions C04_cumulative_drift_is_below_one_unit_per_step.

(* finding K3: a named share whose destination is MAIN is skipped — the primary receives it *)
Theorem C04_refuted_K3 :
  let main := {| da_type := T_MAIN; da_id := 0; da_key := 9; da_addr := -1 |} in
  let d1 := {| da_type := T_BASE; da_id := 1; da_key := 1; da_addr := 1 |} in
  let sd := {| sd_name := 1; sd_sources := [main]; sd_primary := d1; sd_burn := 0;
               sd_shares := [{| sh_name := 1; sh_share := P / 2; sh_dest := main |}] |} in
  match start_distribution sd [(0, 1000 * P)] [] 9 with
  | Ok (sts, evs) => evs = [(1, PRIMARY_NAME, [(0, 1000 * P)])]
  | _ => False end.
Proof. vm_compute. reflexivity. Qed.
Print Assumptions C04_refuted_K3.

(* finding K4: INTERNAL x and MODULE x share one state (lookup by id only): the module account,
   credited second, gets no state of its own and is never paid *)
Theorem C04_refuted_K4 :
  let main := {| da_type := T_MAIN; da_id := 0; da_key := 9; da_addr := -1 |} in
  let xi := {| da_type := T_INTERNAL; da_id := 5; da_key := 3; da_addr := -1 |} in
  let xm := {| da_type := T_MODULE; da_id := 5; da_key := 4; da_addr := 2 |} in
  let d1 := {| da_type := T_BASE; da_id := 1; da_key := 1; da_addr := 1 |} in
  let sd := {| sd_name := 1; sd_sources := [main]; sd_primary := d1; sd_burn := 0;
               sd_shares := [{| sh_name := 1; sh_share := P / 4; sh_dest := xi |}; {| sh_name := 2; sh_share := P / 4; sh_dest := xm |}] |} in
  match start_distribution sd [(0, 1000 * P)] [] 9 with
  | Ok (sts, evs) => map st_key sts = [3; 1] /\ map (fun s => dc_amt 0 (st_rem s)) sts = [500 * P; 500 * P]
  | _ => False end.
Proof. vm_compute. split; reflexivity. Qed.
Print Assumptions C04_refuted_K4.

(* finding K14: the same lookup across a parameter update.  Configuration 1 routes 25% of the main inflow to INTERNAL x, which a
   second sub-distributor passes on; the update re-types x to a base account that is a final destination.  In the block after
   the update the share is still credited to the stale INTERNAL state (which nobody reads and nobody pays): the base account's
   balance stays empty, the 250 coins stay in the main account *)
Theorem C04_refuted_K14 :
  let main := {| da_type := T_MAIN; da_id := 0; da_key := 9; da_addr := -1 |} in
  let xi := {| da_type := T_INTERNAL; da_id := 5; da_key := 3; da_addr := -1 |} in
  let xb := {| da_type := T_BASE; da_id := 5; da_key := 2; da_addr := 2 |} in
  let d1 := {| da_type := T_BASE; da_id := 1; da_key := 1; da_addr := 1 |} in
  let cfg1 := [ {| sd_name := 1; sd_sources := [main]; sd_primary := d1; sd_burn := 0; sd_shares := [{| sh_name := 1; sh_share := P / 4; sh_dest := xi |}] |};
                {| sd_name := 2; sd_sources := [xi]; sd_primary := d1; sd_burn := 0; sd_shares := [] |} ] in
  let cfg2 := [ {| sd_name := 1; sd_sources := [main]; sd_primary := d1; sd_burn := 0; sd_shares := [{| sh_name := 1; sh_share := P / 4; sh_dest := xb |}] |} ] in
  let w0 := {| dw_subs := cfg1; dw_states := []; dw_bal := [(MAINADDR, [(0, 1000)])]; dw_burned := []; dw_burnkey := 9 |} in
  match dist_begin_block w0 [] with
  | Ok (w1, _, _) =>
      match dist_begin_block (dist_inflow (dist_set_subs w1 cfg2) MAINADDR [(0, 1000)]) [] with
      | Ok (w2, _, _) =>
          bal_of (dw_bal w1) 1 = [(0, 1000)] /\                      (* before the update everything reaches d1 *)
          bal_of (dw_bal w2) 2 = [] /\ bal_of (dw_bal w2) 1 = [(0, 1750)] /\ bal_of (dw_bal w2) MAINADDR = [(0, 250)] /\
          map (fun s => (st_key s, dc_amt 0 (st_rem s))) (dw_states w2) = [(1, 0); (3, 250 * P)]
      | _ => False end
  | _ => False end.
Proof. vm_compute. repeat split; reflexivity. Qed.
Print Assumptions C04_refuted_K14.

Example C04_example :
  match dist_begin_block C4EProps.C03.ex_dworld [] with
  | Ok (w1, evs, _) => map (fun e => map (fun x => dc_amt 0 (snd x)) (snd e)) evs
                       = [[1001 * P; 333666666666666666333; 567233333333333333667; 100100000000000000000];
                          [333666666666666666333; 333666666666666666333]]
  | _ => False end.
Proof. vm_compute. reflexivity. Qed.

(* ---------------------------------------------------------------------------------------------------------------
   the whole-history statement: what every account of the configuration has been credited (balance in 10^-18 units plus
   recorded remains, so fractions are carried forward and nothing drifts) is what the credited-amounts machine computes —
   every sub-distributor takes what its sources have been credited, every named share and the burn are credited the
   truncated fraction of that inflow and the primary destination the rest (Ledger.a_sub) — for any history of inflows and
   blocks and whatever payouts fail.  Hypotheses as in C14 (no alias of the main account, no identifier shared by accounts
   of different types, MAIN first among the sources, no failing sweep). *)
Theorem C04_credited_amounts_follow_the_share_machine :
  forall Acct bk, acct_universe Acct bk -> forall ops w (st : Z -> aled),
  lwinv Acct bk w -> Forall (lop_ok Acct) ops -> (forall d, LRep Acct bk d (st d) w) ->
  exists w', lrun w ops = Ok w' /\ lwinv Acct bk w' /\ dw_subs w' = dw_subs w /\ forall d, LRep Acct bk d (a_run (dw_subs w) d (st d) ops) w'.
Proof. exact ledger_refinement. Qed.
Print Assumptions C04_credited_amounts_follow_the_share_machine.

(* ... also across parameter updates.  A history is a list of segments — a configuration installed by a governance update,
   then inflows and blocks under it — and the machine is run with the configuration in force.  The account universe is one for
   the whole history: an id is never shared by accounts of different types, inside one configuration (not K4) or across
   updates (not K14; `C04_refuted_K14` shows what happens otherwise) *)
Theorem C04_credited_amounts_follow_the_share_machine_across_parameter_updates :
  forall Acct bk, acct_universe Acct bk -> forall segs w (st : Z -> aled),
  lwinv Acct bk w -> Forall (seg_ok Acct) segs -> (forall d, LRep Acct bk d (st d) w) ->
  exists w', lrun_segs w segs = Ok w' /\ lwinv Acct bk w' /\ forall d, LRep Acct bk d (a_run_segs d (st d) segs) w'.
Proof. exact segments_refine_ledger. Qed.
Print Assumptions C04_credited_amounts_follow_the_share_machine_across_parameter_updates.

(* in that machine a named share is credited exactly the truncated fraction of the inflow, and the remainder is reduced by it *)
Theorem C04_machine_credits_the_truncated_share :
  forall sh t inflow st dflt, da_type (sh_dest sh) <> T_MAIN ->
  a_shares (sh :: t) inflow st dflt =
  a_shares t inflow (a_credit (sh_dest sh) (dec_mul_trunc inflow (sh_share sh)) st) (dflt - dec_mul_trunc inflow (sh_share sh)).
Proof. intros sh t inflow st dflt H. cbn [a_shares]. replace (da_type (sh_dest sh) =? T_MAIN) with false by lia. reflexivity. Qed.
Print Assumptions C04_machine_credits_the_truncated_share.

(* "the outcome does not depend on the order in which sources are listed": two configurations that differ only in the order of
   the non-MAIN sources inside sub-distributors (MAIN, when a source, first in both: not K1), run through the same history of
   inflows and blocks — whatever payouts fail in either — credit every account, the burn and the unbooked remainder with
   exactly the same amounts *)
Theorem C04_credited_amounts_do_not_depend_on_the_order_of_the_sources :
  forall Acct bk, acct_universe Acct bk -> forall ops ops' w w' (st : Z -> aled),
  lwinv Acct bk w -> lwinv Acct bk w' -> Forall2 sd_reordered (dw_subs w) (dw_subs w') ->
  Forall (lop_ok Acct) ops -> Forall (lop_ok Acct) ops' -> Forall2 same_but_faults ops ops' ->
  (forall d, LRep Acct bk d (st d) w) -> (forall d, LRep Acct bk d (st d) w') ->
  exists w1 w2, lrun w ops = Ok w1 /\ lrun w' ops' = Ok w2 /\
    forall d, (forall a, Acct a -> ledA a (dw_states w1) (wbank w1) d = ledA a (dw_states w2) (wbank w2) d) /\
              ledB bk (dw_states w1) (wbank w1) d = ledB bk (dw_states w2) (wbank w2) d /\
              unbooked (dw_states w1) (wbank w1) d = unbooked (dw_states w2) (wbank w2) d.
Proof. exact credited_amounts_independent_of_source_order. Qed.
Print Assumptions C04_credited_amounts_do_not_depend_on_the_order_of_the_sources.

(* receipts, not only books: in a block in which no bank call fails, every whole unit recorded for a module or base account — or
   for burning — leaves the main account in that block: afterwards the stored state of every payable account keeps at least zero
   and less than one unit per denomination.  With the credited-amounts theorems above: what a destination has received trails what
   it has been credited (share times inflow, fractions carried) by less than one base unit *)
Theorem C04_fault_free_block_pays_out_every_whole_unit :
  forall (bk : Z) (Known : dacct -> Prop),
  (forall a, Known a -> da_key a <> bk) ->
  (forall a a', Known a -> Known a' -> da_key a = da_key a' -> da_id a = da_id a') ->
  forall w, winv bk Known w ->
  exists w' evs n, dist_begin_block w [] = Ok (w', evs, n) /\ winv bk Known w' /\ Forall settled (dw_states w').
Proof. exact fault_free_block_pays_whole_units. Qed.
Print Assumptions C04_fault_free_block_pays_out_every_whole_unit.

(* non-vacuity: C03's example world meets the hypotheses *)
Example C04_paid_out_example :
  exists w' evs n, dist_begin_block C4EProps.C03.ex_dworld [] = Ok (w', evs, n) /\ Forall settled (dw_states w').
Proof.
  destruct (fault_free_block_pays_whole_units 9 C4EProps.C03.ex_known) with (w := C4EProps.C03.ex_dworld) as (w' & evs & n & E & _ & H).
  - intros a [H1 H2]. lia.
  - intros a a' [H1 _] [H1' _] H. lia.
  - exact (proj1 C4EProps.C03.C03_example_world_satisfies_invariant).
  - exists w', evs, n. split; assumption.
Qed.
