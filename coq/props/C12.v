(* C12 — genesis export/import preserves state and subsequent behaviour. *)
From C4E Require Import Base Minter Distributor Sig Genesis Vest VestGenesis VestGenesisProofs.
Open Scope Z_scope.

(* minter: parameters, state and the whole state history come back exactly *)
Theorem C12_minter_export_import_is_identity :
  forall w, hist_keys_ok (mw_hist w) -> minter_import (minter_export w) (mw_supply w) = w.
Proof. exact minter_export_import. Qed.
Print Assumptions C12_minter_export_import_is_identity.

(* ... and every reachable history has the shape that theorem needs *)
Theorem C12_minter_history_shape_is_invariant :
  forall w now a w', begin_block w now = Ok (a, w') -> hist_keys_ok (mw_hist w) -> hist_keys_ok (mw_hist w').
Proof. exact begin_block_keeps_hist_ok. Qed.
Print Assumptions C12_minter_history_shape_is_invariant.

(* since the imported world is EQUAL to the exported one, every later block behaves identically *)
Theorem C12_minter_behaves_identically_after_restart :
  forall w now, hist_keys_ok (mw_hist w) ->
  begin_block (minter_import (minter_export w) (mw_supply w)) now = begin_block w now.
Proof. intros w now H. rewrite minter_export_import by assumption. reflexivity. Qed.
Print Assumptions C12_minter_behaves_identically_after_restart.

(* distributor (after fix F4): sub-distributors and states come back exactly; burn states get their
   empty account back *)
Theorem C12_distributor_export_import_is_identity :
  forall w, Forall state_canonical (dw_states w) ->
  distr_import (distr_export w) (dw_bal w) (dw_burned w) (dw_burnkey w) = w.
Proof. exact distr_export_import. Qed.
Print Assumptions C12_distributor_export_import_is_identity.

Theorem C12_distributor_behaves_identically_after_restart :
  forall w faults, Forall state_canonical (dw_states w) ->
  dist_begin_block (distr_import (distr_export w) (dw_bal w) (dw_burned w) (dw_burnkey w)) faults = dist_begin_block w faults.
Proof. intros w faults H. rewrite distr_export_import by assumption. reflexivity. Qed.
Print Assumptions C12_distributor_behaves_identically_after_restart.

(* the repaired defect F4, as a regression witness: the old import made the first payout panic *)
Theorem C12_import_before_fix_panics :
  let s := {| st_acc := Some EMPTY_ACCT; st_burn := true; st_key := 9; st_rem := [(0, 5 * P)] |} in
  payout (import_state_before_fix (export_state s)) {| bk_bal := []; bk_burned := []; bk_faults := []; bk_calls := 0 |} = Panic /\
  exists r, payout (import_state (export_state s)) {| bk_bal := [(0, [(0, 5)])]; bk_burned := []; bk_faults := []; bk_calls := 0 |} = Ok r.
Proof. exact import_before_fix_panics. Qed.
Print Assumptions C12_import_before_fix_panics.

(* vesting types travel through (unit, value) pairs: exact for whole seconds, and imported periods are
   always whole seconds, so export . import . export = export *)
Theorem C12_vesting_periods_roundtrip :
  (forall d, Z.rem d SEC = 0 -> duration_from_units (units_from_duration d) = d) /\
  (forall u, Z.rem (duration_from_units u) SEC = 0).
Proof. split; [exact vesting_period_roundtrip|exact imported_periods_are_whole_seconds]. Qed.
Print Assumptions C12_vesting_periods_roundtrip.

(* finding K6: the signature module's genesis carries no links and no signatures *)
Theorem C12_refuted_K6 : exists w, sig_import (sig_export w) <> w.
Proof. exact sig_export_import_refuted_K6. Qed.
Print Assumptions C12_refuted_K6.

(* ---------------------------------------------------------------------------------------------------------------
   vesting pools: what InitGenesis stores is in key order, and exporting a store in key order and importing the
   export gives the same store (every owner entry, every pool with all its fields) *)
Theorem C12_vesting_pool_store_is_in_key_order :
  forall g B s, vgenesis_init g B = Some s -> ksorted (vs_pools s).
Proof. exact init_store_is_sorted. Qed.
Print Assumptions C12_vesting_pool_store_is_in_key_order.

Theorem C12_vesting_pools_export_import_is_identity :
  forall s, ksorted (vs_pools s) ->
  fold_left (fun st o => kset (go_owner o) (go_pools o) st) (vstore_export_owners s) [] = vs_pools s.
Proof. exact pool_store_export_import_identity. Qed.
Print Assumptions C12_vesting_pools_export_import_is_identity.

(* lineage traces: what InitGenesis stores is in key order with every entry under its own address, and exporting such a
   store and importing the export gives the same store (ids and flags included) *)
Theorem C12_vesting_trace_store_is_well_keyed :
  forall g B s, vgenesis_init g B = Some s -> ksorted (vs_traces s) /\ forall e, In e (vs_traces s) -> gt_addr (snd e) = fst e.
Proof. exact init_trace_store_well_keyed. Qed.
Print Assumptions C12_vesting_trace_store_is_well_keyed.

Theorem C12_vesting_traces_export_import_is_identity :
  forall s, ksorted (vs_traces s) -> (forall e, In e (vs_traces s) -> gt_addr (snd e) = fst e) ->
  fold_left (fun st t => kset (gt_addr t) t st) (vstore_export_traces s) [] = vs_traces s.
Proof. exact trace_store_export_import_identity. Qed.
Print Assumptions C12_vesting_traces_export_import_is_identity.

(* vesting types: what InitGenesis stores is in name order with both periods in whole seconds, and exporting such a store
   (periods in the largest unit that divides them) and importing the export gives the same store: names, lock-up and vesting
   periods in nanoseconds, free fractions *)
Theorem C12_vesting_type_store_is_sorted_with_whole_second_periods :
  forall g B s, vgenesis_init g B = Some s -> ksorted (vs_vtypes s) /\ Forall whole_seconds (vs_vtypes s).
Proof. intros g B s H. split; [exact (init_vtype_store_sorted g B s H)|exact (init_vtype_store_whole_seconds g B s H)]. Qed.
Print Assumptions C12_vesting_type_store_is_sorted_with_whole_second_periods.

Theorem C12_vesting_types_export_import_is_identity :
  forall s, ksorted (vs_vtypes s) -> Forall whole_seconds (vs_vtypes s) ->
  vtypes_store (map gvtype_entry (vstore_export_vtypes s)) = vs_vtypes s.
Proof. exact vtype_store_export_import_identity. Qed.
Print Assumptions C12_vesting_types_export_import_is_identity.

(* the parameters: the store a genesis initialises carries the genesis' vesting denomination, which is what the export writes
   (the implementation's exported denomination is part of what is compared with the model in every `vgenesis` case, a third of
   them with a denomination other than the module's default) *)
Theorem C12_vesting_genesis_keeps_the_denomination :
  forall g B s, vgenesis_init g B = Some s -> vs_denom s = vg_denom g.
Proof. exact init_keeps_the_denomination. Qed.
Print Assumptions C12_vesting_genesis_keeps_the_denomination.
