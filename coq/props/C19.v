(* C19 — reported inflation equals the actual annualised emission rate. *)
From C4E Require Import Base Minter MinterProofs MinterFrozen MinterRate.
Open Scope Z_scope.

(* zero before the period's start, for no-minting periods, and for an exponential period whose end
   has passed *)
Theorem C19_zero_cases :
  forall m supply start now,
  (now < start -> calc_inflation m supply start now = Ok 0) /\
  (m_cfg m = CNone -> calc_inflation m supply start now = Ok 0) /\
  (forall A step mult e, m_cfg m = CExp A step mult -> m_end m = Some e -> e <= now -> calc_inflation m supply start now = Ok 0).
Proof.
  intros m supply start now. destruct (inflation_zero_cases m supply start now) as (H1 & H2 & _ & H4). auto.
Qed.
Print Assumptions C19_zero_cases.

(* linear period: the reported rate is (amount * year / period length) / supply, i.e. the annualised
   emission rate of the period over the supply, truncated to 18 digits *)
Theorem C19_linear_rate :
  forall A e supply start now,
  0 <= A -> 0 < supply -> start <= now -> 0 < e - start <= MAXI64 ->
  calc_inflation {| m_seq := 1; m_end := Some e; m_cfg := CLinear A |} supply start now
    = Ok ((A * P * YEAR / (e - start)) / supply).
Proof. exact linear_inflation_value. Qed.
Print Assumptions C19_linear_rate.

(* the linear rate times supply times an interval over a year reproduces the schedule's emission over
   that interval up to the two truncations: rate*supply <= amount*year/period < (rate+1 ulp)*supply + 1 ulp *)
Theorem C19_linear_rate_brackets_emission :
  forall A e supply start,
  0 <= A -> 0 < supply -> 0 < e - start ->
  let y := (A * P * YEAR / (e - start)) / supply in
  y * supply * (e - start) <= A * P * YEAR < (y * supply + supply) * (e - start) + (e - start).
Proof. exact linear_rate_brackets. Qed.
Print Assumptions C19_linear_rate_brackets_emission.

(* the numeric statement, linear period: for millisecond-aligned instants start <= t1 <= t2 <= end of a
   millisecond-aligned period, the emission over (t1, t2] (in 10^-18 units) and rate * supply * (t2 - t1) / year
   differ by less than one unit plus (supply + 1) * (t2 - t1) / year units — the resolution of the
   18-digit rate times the supply *)
Theorem C19_linear_emission_matches_rate :
  forall A ms me m1 m2 S,
  0 <= A -> 0 < S -> ms <= m1 <= m2 -> m2 <= me -> ms < me -> (me - ms) * MS <= MAXI64 ->
  let start := ms * MS in let e := me * MS in let t1 := m1 * MS in let t2 := m2 * MS in
  exists a1 a2 y,
    linear_amount A start e t1 = Ok a1 /\ linear_amount A start e t2 = Ok a2 /\
    calc_inflation {| m_seq := 1; m_end := Some e; m_cfg := CLinear A |} S start t1 = Ok y /\
    - YEAR < (a2 - a1) * YEAR - y * S * (t2 - t1) < YEAR + (S + 1) * (t2 - t1).
Proof. exact linear_emission_matches_rate. Qed.
Print Assumptions C19_linear_emission_matches_rate.

(* ... and inside one step of an exponential period, before its end, for any instants *)
Theorem C19_exponential_emission_matches_rate :
  forall A step mult start end_ t1 t2 S,
  0 <= A -> 0 <= mult -> 0 < S -> 0 < step -> start <= t1 <= t2 -> t2 - start <= MAXI64 ->
  (t1 - start) / step = (t2 - start) / step ->
  match end_ with Some e => t2 < e | None => True end ->
  exists a1 a2 y,
    exp_amount A step mult start end_ t1 = Ok a1 /\ exp_amount A step mult start end_ t2 = Ok a2 /\
    calc_inflation {| m_seq := 1; m_end := end_; m_cfg := CExp A step mult |} S start t1 = Ok y /\
    - YEAR < (a2 - a1) * YEAR - y * S * (t2 - t1) < YEAR + (S + 1) * (t2 - t1).
Proof. exact exp_emission_matches_rate. Qed.
Print Assumptions C19_exponential_emission_matches_rate.

(* exponential-step period: the rate is the current step's epoch amount (the very amount AmountToMint
   spreads over the step — same recurrence) annualised, over the supply *)
Theorem C19_exponential_rate_uses_step_amount :
  forall A step mult start end_ supply now,
  0 < supply -> 0 < step -> start <= now -> now - start <= MAXI64 ->
  match end_ with Some e => now < e | None => True end ->
  let n := Z.to_nat ((now - start) / step) in
  calc_inflation {| m_seq := 1; m_end := end_; m_cfg := CExp A step mult |} supply start now
    = Ok ((snd (exp_sum n (dec_of_int A) mult) * YEAR) ÷ step ÷ supply).
Proof. exact exp_inflation_uses_step_amount. Qed.
Print Assumptions C19_exponential_rate_uses_step_amount.

(* a linear period that is still current after its end reports a non-zero rate: finding K10
   (reachable only through a genesis whose last-mint time lies in the future) *)
Theorem C19_refuted_K10 :
  exists m supply start now e, m_end m = Some e /\ e <= now /\ calc_inflation m supply start now <> Ok 0.
Proof.
  exists {| m_seq := 1; m_end := Some 1000; m_cfg := CLinear 1000 |}, 1000, 0, 2000, 1000.
  split; [reflexivity|]. split; [lia|]. vm_compute. discriminate.
Qed.
Print Assumptions C19_refuted_K10.

(* composition with C02: cumulative minted = floor of the cumulative schedule X, so the integer amount M the blocks between
   two instants actually mint is floor(X2) - floor(X1); if the emission X2 - X1 is within the bounds of the two theorems
   above of rate * supply * interval / year, then M (in 10^-18 units) is within one more base unit of it *)
Theorem C19_minted_amount_matches_rate :
  forall X1 X2 y S dt, 0 <= X1 <= X2 ->
  - YEAR < (X2 - X1) * YEAR - y * S * dt < YEAR + (S + 1) * dt ->
  let M := dec_trunc_int X2 - dec_trunc_int X1 in
  - (P + 1) * YEAR < M * P * YEAR - y * S * dt < (P + 1) * YEAR + (S + 1) * dt.
Proof. exact minted_matches_rate. Qed.
Print Assumptions C19_minted_amount_matches_rate.

(* lowering the running linear period's amount below what the period already minted (a parameter update validation
   accepts) freezes the schedule: every later block mints nothing and leaves the state untouched — also past the
   period's end, so the following periods never start: finding K13 *)
Theorem C19_lowered_amount_freezes_the_schedule_K13 :
  forall p st cur start A e,
  find_cur (mp_minters p) (s_seq st) None = Some cur -> period_start p (s_seq st) = Ok start ->
  m_cfg cur = CLinear A -> m_end cur = Some e -> 0 <= A -> unix_milli start < unix_milli e ->
  0 <= s_rem_prev st < P -> A < s_minted st ->
  forall now, mint p st now = Ok (0, st, []).
Proof. exact lowered_amount_freezes_the_schedule. Qed.
Print Assumptions C19_lowered_amount_freezes_the_schedule_K13.

(* ... while a positive inflation keeps being reported, also after the period's end *)
Theorem C19_refuted_K13 :
  exists p st supply, params_valid p = true /\ contains_minter p (s_seq st) = true /\
    (forall now, mint p st now = Ok (0, st, [])) /\
    exists i, current_inflation p st supply 3000000000 = Ok i /\ 0 < i.
Proof.
  exists {| mp_denom_ok := true; mp_start := 0;
            mp_minters := [ {| m_seq := 1; m_end := Some 2000000000; m_cfg := CLinear 10 |};
                            {| m_seq := 2; m_end := None; m_cfg := CNone |} ] |},
         {| s_seq := 1; s_minted := 500; s_rem := 0; s_rem_prev := 0; s_last := 999 |}, 1000.
  split; [reflexivity|]. split; [reflexivity|]. split.
  - apply (C19_lowered_amount_freezes_the_schedule_K13 _ _ {| m_seq := 1; m_end := Some 2000000000; m_cfg := CLinear 10 |} 0 10 2000000000);
      try reflexivity; cbn; try lia. split; [lia|reflexivity].
  - eexists. split; [vm_compute; reflexivity|reflexivity].
Qed.
Print Assumptions C19_refuted_K13.

Example C19_example :
  calc_inflation {| m_seq := 1; m_end := Some YEAR; m_cfg := CLinear 1000 |} 10000 0 5 = Ok (P / 10).
Proof. vm_compute. reflexivity. Qed.
