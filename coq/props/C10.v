(* C10 — emission and distribution can never halt the chain. *)
From C4E Require Import Base Minter MinterProofs MinterWalk Distributor DistrCoins DistrProofs Genesis Books AppBlock.
Open Scope Z_scope.

(* minter: for every configuration accepted by validation (linear periods of at least a millisecond,
   valid denomination), from the genesis state and from every state BeginBlock itself produces, every
   strictly increasing sequence of block times is processed without error or panic (the closed form of
   what is minted is C02) *)
Theorem C10_minter_blocks_never_fail_from_genesis :
  forall p g ts Tl,
  params_valid p = true -> periods_sane_from (mp_start p) (mp_minters p) -> mp_denom_ok p = true -> 0 <= mp_start p ->
  match mp_minters p with cur :: _ => s_seq g = m_seq cur | [] => True end -> s_minted g = 0 -> s_rem_prev g = 0 ->
  s_last g <= Tl -> increasing Tl ts -> Forall (fun t => t <= MAXI64) ts -> ts <> [] ->
  exists r, run_blocks p g ts = Ok r.
Proof.
  intros p g ts Tl Hv Hs Hd H0 Hg1 Hg2 Hg3 H1 H2 H3 H4.
  destruct (partition_independence p (valid_chain _ _ _ Hv Hs) Hd H0 g Hg1 Hg2 Hg3 ts Tl H1 H2 H3 H4) as (st' & Hr). eauto.
Qed.
Print Assumptions C10_minter_blocks_never_fail_from_genesis.

Theorem C10_minter_blocks_never_fail_later :
  forall p, params_valid p = true -> periods_sane_from (mp_start p) (mp_minters p) -> mp_denom_ok p = true -> 0 <= mp_start p ->
  forall ts Tl, mp_start p <= Tl -> increasing Tl ts -> Forall (fun t => t <= MAXI64) ts ->
  exists r, run_blocks p (wst (walk (mp_start p) (mp_minters p) Tl 0)) ts = Ok r.
Proof. intros p Hv Hs Hd H0. exact (validated_schedule_never_fails p (valid_chain _ _ _ Hv Hs) Hd H0). Qed.
Print Assumptions C10_minter_blocks_never_fail_later.

(* Mint reports an error (which makes BeginBlocker panic) only when a period of the hand-over chain is
   missing from the stored parameters ... *)
Theorem C10_mint_error_only_if_period_missing :
  forall fuel p st now, mint_rec fuel p st now = Err ->
  (exists k, 0 <= k /\ contains_minter p (s_seq st + k) = false) \/
  (forall k, 0 <= k < Z.of_nat fuel -> contains_minter p (s_seq st + k) = true).
Proof. exact mint_rec_err_only_if_period_missing. Qed.
Print Assumptions C10_mint_error_only_if_period_missing.

(* ... and UpdateParams refuses parameters that do not contain the current period or do not validate *)
Theorem C10_update_params_keeps_current_period :
  forall st newp valid, update_params st newp valid = true -> contains_minter newp (s_seq st) = true /\ valid = true.
Proof. exact update_keeps_current_period. Qed.
Print Assumptions C10_update_params_keeps_current_period.

(* distributor: one StartDistributionProcess with validated shares, an all-positive inflow and states
   that all carry an account never panics, and leaves states that all carry an account; neither do the
   end-of-block payouts, whatever transfers fail *)
(* distributor, whole block: in every world satisfying the invariant of C03 (configuration outside K1 /
   K2, books not exceeding the main balance) BeginBlock returns — never panics, never fails — whatever
   bank calls fail, and the invariant holds again afterwards, so this is true of every later block too *)
Theorem C10_distributor_block_never_panics :
  forall (bk : Z) (Known : dacct -> Prop),
  (forall a, Known a -> da_key a <> bk) ->
  (forall a a', Known a -> Known a' -> da_key a = da_key a' -> da_id a = da_id a') ->
  forall w faults, winv bk Known w ->
  exists w' evs n, dist_begin_block w faults = Ok (w', evs, n) /\ winv bk Known w'.
Proof.
  intros bk Known H1 H2 w faults Hw.
  destruct (block_keeps_books bk Known H1 H2 w faults Hw) as (w' & evs & n & E & Hw' & _). eauto.
Qed.
Print Assumptions C10_distributor_block_never_panics.

Theorem C10_distribution_never_panics :
  forall sd inflow sts bk,
  dc_wf inflow -> dc_all_positive inflow = true ->
  shares_ok (sd_shares sd) -> 0 <= sd_burn sd -> shares_total (sd_shares sd) + sd_burn sd <= P ->
  Forall has_acc sts ->
  exists sts' evs, start_distribution sd inflow sts bk = Ok (sts', evs) /\ Forall has_acc sts'.
Proof. exact start_distribution_no_panic. Qed.
Print Assumptions C10_distribution_never_panics.

Theorem C10_payouts_never_panic :
  forall sts b, Forall has_acc sts -> exists r, payout_all sts b = Ok r.
Proof. exact payout_all_no_panic. Qed.
Print Assumptions C10_payouts_never_panic.

(* genesis import (after F4) restores the account of every burn state; before the fix the first payout
   dereferenced nil *)
Theorem C10_import_restores_accounts :
  forall w, Forall state_canonical (dw_states w) ->
  distr_import (distr_export w) (dw_bal w) (dw_burned w) (dw_burnkey w) = w.
Proof. exact distr_export_import. Qed.
Print Assumptions C10_import_restores_accounts.

(* both begin-blockers together, over whole histories: for every validated schedule from its genesis state, every distributor
   world satisfying the invariant of C03 (configuration outside K1 / K2) and every strictly increasing sequence of block times,
   each block — the minter mints into the distributor's main account, the distributor routes, pays and burns — returns; none
   fails, none panics; the invariant is kept throughout *)
Theorem C10_emission_and_distribution_never_halt :
  forall (bk : Z) (Known : dacct -> Prop),
  (forall a, Known a -> da_key a <> bk) ->
  (forall a a', Known a -> Known a' -> da_key a = da_key a' -> da_id a = da_id a') ->
  forall times w Tl,
  let p := mw_params (aw_minter w) in let g := mw_state (aw_minter w) in
  params_valid p = true -> periods_sane_from (mp_start p) (mp_minters p) -> mp_denom_ok p = true -> 0 <= mp_start p ->
  match mp_minters p with cur :: _ => s_seq g = m_seq cur | [] => True end -> s_minted g = 0 -> s_rem_prev g = 0 ->
  s_last g <= Tl -> increasing Tl times -> Forall (fun t => t <= MAXI64) times -> times <> [] ->
  winv bk Known (aw_distr w) -> 0 <= aw_mint_denom w ->
  exists tot w', app_run w times = Ok (tot, w') /\ winv bk Known (aw_distr w').
Proof.
  intros bk Known H1 H2 times w Tl p g Hv Hs Hd H0 Hg1 Hg2 Hg3 Hl Hinc Hmax Hne Hw Hden.
  apply (app_history_never_halts bk Known H1 H2 times w); [|exact Hw|exact Hden].
  destruct (partition_independence p (valid_chain _ _ _ Hv Hs) Hd H0 g Hg1 Hg2 Hg3 times Tl Hl Hinc Hmax Hne) as (st' & Hr). eauto.
Qed.
Print Assumptions C10_emission_and_distribution_never_halt.

(* finding K1: the double-counting configuration panics in its second block *)
From C4EProps Require C03.
Theorem C10_refuted_K1 :
  match dist_begin_block C4EProps.C03.k1_world [false; true] with
  | Ok (w1, _, _) => dist_begin_block (dist_inflow w1 0 [(0, 5)]) [] = Panic
  | _ => False
  end.
Proof. vm_compute. reflexivity. Qed.
Print Assumptions C10_refuted_K1.

(* non-vacuity: C02's example schedule feeding C03's example graph meets every hypothesis of the theorem above, and the
   history of three blocks it then guarantees to run is the one computed in C01_history_example *)
Example C10_history_example_meets_the_hypotheses :
  let p := {| mp_denom_ok := true; mp_start := 0;
              mp_minters := [{| m_seq := 1; m_end := Some (1000 * 1000000000); m_cfg := CLinear 1000 |};
                             {| m_seq := 2; m_end := None; m_cfg := CNone |}] |} in
  let g := {| s_seq := 1; s_minted := 0; s_rem := 0; s_rem_prev := 0; s_last := 0 |} in
  let w := {| aw_minter := {| mw_params := p; mw_state := g; mw_hist := []; mw_supply := 1001 |};
              aw_distr := C4EProps.C03.ex_dworld; aw_mint_denom := 0 |} in
  let times := [300500000000; 999000000000; 1500000000000] in
  params_valid p = true /\ periods_sane_from (mp_start p) (mp_minters p) /\ mp_denom_ok p = true /\ 0 <= mp_start p /\
  s_seq g = 1 /\ s_minted g = 0 /\ s_rem_prev g = 0 /\ s_last g <= 0 /\ increasing 0 times /\ Forall (fun t => t <= MAXI64) times /\
  winv 9 C4EProps.C03.ex_known (aw_distr w) /\
  exists tot w', app_run w times = Ok (tot, w') /\ tot = 1000.
Proof.
  cbv zeta. split; [reflexivity|]. split; [vm_compute; repeat split; reflexivity|].
  split; [reflexivity|]. split; [cbn; lia|]. split; [reflexivity|]. split; [reflexivity|]. split; [reflexivity|]. split; [cbn; lia|].
  split; [cbn; lia|]. split; [repeat constructor; unfold MAXI64; lia|].
  split; [exact (proj1 C4EProps.C03.C03_example_world_satisfies_invariant)|].
  eexists; eexists. split; [vm_compute; reflexivity|reflexivity].
Qed.
