(* C15 — signature registry: payload links are write-once, verification is sound.
   Hashing and the X.509 check are oracles (section variables): partial by nature. *)
From C4E Require Import Base Sig SigProofs.
Open Scope string_scope.

(* a published link can never be overwritten or removed by any later sequence of messages and queries *)
Theorem C15_links_are_write_once :
  forall H x509 ops w k v, sget k (sw_links w) = Some v -> sget k (sw_links (srun H x509 w ops)) = Some v.
Proof. intros H x509 ops. exact (link_write_once H x509 ops). Qed.
Print Assumptions C15_links_are_write_once.

Theorem C15_publish_on_present_key_is_refused :
  forall w key value v, sget key (sw_links w) = Some v -> publish w key value = None.
Proof. exact publish_refused_on_existing_key. Qed.
Print Assumptions C15_publish_on_present_key_is_refused.

Theorem C15_publish_stores_exactly_the_value :
  forall w key value w', publish w key value = Some w' ->
  sget key (sw_links w) = None /\ sget key (sw_links w') = Some value /\
  (forall k, k <> key -> sget k (sw_links w') = sget k (sw_links w)) /\ sw_sigs w' = sw_sigs w.
Proof. exact publish_stores_exactly. Qed.
Print Assumptions C15_publish_stores_exactly_the_value.

(* "valid" exactly when the stored signature verifies, under the stored certificate and algorithm,
   over hash(address : reference id : stored link); the stored fields are returned unchanged *)
Theorem C15_valid_iff_stored_signature_verifies :
  forall H x509 w addr ref r,
  verify H x509 w addr ref = Some r <->
  String.length ref = 64%nat /\ String.length addr <> 0%nat /\
  exists so link,
    sget (H (cat2 addr ref)) (sw_sigs w) = Some so /\ sget (H ref) (sw_links w) = Some link /\
    x509 (so_cert so) (so_alg so) (H (cat3 addr ref link)) (so_sig so) = true /\
    r = (so_sig so, so_alg so, so_cert so, so_ts so).
Proof. exact verify_sound. Qed.
Print Assumptions C15_valid_iff_stored_signature_verifies.

Theorem C15_malformed_request_is_an_error :
  forall H x509 w addr ref, (String.length ref <> 64%nat \/ String.length addr = 0%nat) -> verify H x509 w addr ref = None.
Proof. exact verify_rejects_malformed_request. Qed.
Print Assumptions C15_malformed_request_is_an_error.

(* tampering (under a collision-free hash): another address selects another signature slot; another
   link changes the payload the certificate must have signed *)
Theorem C15_other_address_other_slot :
  forall (H : string -> string) addr addr' ref, (forall x y, H x = H y -> x = y) -> addr <> addr' -> H (cat2 addr ref) <> H (cat2 addr' ref).
Proof. exact other_address_other_slot. Qed.
Print Assumptions C15_other_address_other_slot.

Theorem C15_other_link_other_payload :
  forall (H : string -> string) addr ref link link', (forall x y, H x = H y -> x = y) -> link <> link' -> H (cat3 addr ref link) <> H (cat3 addr ref link').
Proof. exact other_link_other_payload. Qed.
Print Assumptions C15_other_link_other_payload.

(* non-vacuity with toy oracles *)
Example C15_example :
  let H := fun s => "h(" ++ s ++ ")" in
  let x := fun c a p s => String.eqb s ("signed:" ++ p) in
  let ref := "0123456789012345678901234567890123456789012345678901234567890123" in
  let ops := [SPublish (H ref) "link1"; SPublish (H ref) "link2";
              SStore (H (cat2 "addr" ref)) (Some ("signed:" ++ H (cat3 "addr" ref "link1"), "alg", "cert")) "t0"] in
  let w := srun H x {| sw_links := []; sw_sigs := [] |} ops in
  sget (H ref) (sw_links w) = Some "link1" /\
  verify H x w "addr" ref = Some ("signed:" ++ H (cat3 "addr" ref "link1"), "alg", "cert", "t0") /\
  verify H x w "other" ref = None.
Proof. vm_compute. repeat split. Qed.
