(* C13 — only governance changes parameters, and stored parameters stay valid. *)
From C4E Require Import Base Minter Distributor Params.
Open Scope Z_scope.

(* any other signer is rejected and nothing changes — for each of the seven update messages *)
Theorem C13_only_the_authority_changes_parameters :
  forall w o, op_auth o = false -> pstep w o = (w, false).
Proof. exact non_authority_changes_nothing. Qed.
Print Assumptions C13_only_the_authority_changes_parameters.

(* whatever sequence of full or partial updates is applied (valid or not, by anyone), the stored
   distributor and minter parameters satisfy the modules' validation rules, the minter's current period
   exists in the stored configuration, and the vesting denomination is valid *)
Theorem C13_stored_parameters_stay_valid :
  forall ops w, PValid w -> PValid (prun w ops).
Proof. exact prun_keeps_valid. Qed.
Print Assumptions C13_stored_parameters_stay_valid.

Theorem C13_rejected_update_leaves_previous_parameters :
  forall w o, snd (pstep w o) = false -> fst (pstep w o) = w.
Proof. exact rejected_update_changes_nothing. Qed.
Print Assumptions C13_rejected_update_leaves_previous_parameters.

Theorem C13_vesting_denom_cannot_change_while_pools_exist :
  forall w auth ne, pw_pools_exist w = true -> pstep w (PVestDenom auth ne) = (w, false).
Proof. exact denom_fixed_while_pools_exist. Qed.
Print Assumptions C13_vesting_denom_cannot_change_while_pools_exist.

(* a parameter update never touches the minter's progress or the pools *)
Theorem C13_updates_touch_parameters_only :
  forall w o, pw_mstate (fst (pstep w o)) = pw_mstate w /\ pw_pools_exist (fst (pstep w o)) = pw_pools_exist w.
Proof. exact pstep_frame. Qed.
Print Assumptions C13_updates_touch_parameters_only.

(* an accepted update stores exactly a candidate that passed the complete validation *)
Theorem C13_accepted_candidate_was_validated :
  forall (T : Type) (valid : T -> bool) auth cand r,
  set_params valid auth cand = Some r -> auth = true /\ cand = Some r /\ valid r = true.
Proof. intros T. exact (@set_params_spec T). Qed.
Print Assumptions C13_accepted_candidate_was_validated.

(* non-vacuity: two share updates that are each fine but together reach 1 — the second is refused *)
Example C13_example :
  let main := {| da_type := T_MAIN; da_id := 0; da_key := 9; da_addr := -1 |} in
  let d1 := {| da_type := T_BASE; da_id := 1; da_key := 1; da_addr := 1 |} in
  let d2 := {| da_type := T_BASE; da_id := 2; da_key := 2; da_addr := 1 |} in
  let d3 := {| da_type := T_BASE; da_id := 3; da_key := 3; da_addr := 1 |} in
  let sd := {| ps_sd := {| sd_name := 1; sd_sources := [main]; sd_primary := d1; sd_burn := 0;
                           sd_shares := [{| sh_name := 2; sh_share := P / 10; sh_dest := d2 |}; {| sh_name := 3; sh_share := P / 10; sh_dest := d3 |}] |};
               ps_pname := 4 |} in
  let m := {| mp_denom_ok := true; mp_start := 0; mp_minters := [{| m_seq := 1; m_end := None; m_cfg := CNone |}] |} in
  let w := {| pw_distr := [sd]; pw_minter := m; pw_mstate := {| s_seq := 1; s_minted := 0; s_rem := 0; s_rem_prev := 0; s_last := 0 |};
              pw_vdenom_ok := true; pw_pools_exist := false |} in
  dparams_valid [sd] = true /\
  snd (pstep w (PDistrShare true 2 (P / 2))) = true /\
  snd (pstep (fst (pstep w (PDistrShare true 2 (P / 2)))) (PDistrShare true 3 (P / 2))) = false /\
  snd (pstep w (PDistrShare false 2 (P / 2))) = false /\
  snd (pstep w (PMinter true {| mp_denom_ok := true; mp_start := 0; mp_minters := [{| m_seq := 2; m_end := None; m_cfg := CNone |}] |} false)) = false.
Proof. vm_compute. repeat split. Qed.
