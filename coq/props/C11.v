(* C11 — replicas computing the same blocks reach the same state hash.
   What a proof can carry: every transition of the model is a function of (state, input) — the
   specification the implementation is compared with is deterministic by construction — and the one
   decision that iterates a Go map is independent of the iteration order.  Go-runtime nondeterminism
   (map order, wall clock, time zone, scheduling) is exhibited only by the multi-process runs. *)
From C4E Require Import Base Validate Minter Distributor Vest.
From Coq Require Import Permutation.
Open Scope Z_scope.

Theorem C11_validation_decision_independent_of_map_order :
  forall main l l', Permutation l l' -> accepts main l = accepts main l'.
Proof. exact decision_independent_of_map_order. Qed.
Print Assumptions C11_validation_decision_independent_of_map_order.

(* the error text is NOT order independent (defect F8): kept as a witness *)
Theorem C11_reported_id_depends_on_map_order_refuted :
  exists l l', Permutation l l' /\ first_bad l <> first_bad l'.
Proof. exact reported_id_depends_on_map_order. Qed.
Print Assumptions C11_reported_id_depends_on_map_order_refuted.

(* after the repair (F8: the account ids are visited in sorted order) the reported id is a function of the
   map's contents, whatever order Go ranges over it *)
Theorem C11_reported_id_after_fix_independent_of_map_order :
  forall l l', NoDup (map fst l) -> Permutation l l' -> first_bad (sort_entries l) = first_bad (sort_entries l').
Proof. exact reported_id_after_fix_independent_of_map_order. Qed.
Print Assumptions C11_reported_id_after_fix_independent_of_map_order.

(* block transitions of the three models are functions: equal inputs, equal results (stated so that a
   future relational or oracle-dependent reformulation of a model has to re-establish it) *)
Theorem C11_model_transitions_are_functions :
  (forall w now r1 r2, begin_block w now = r1 -> begin_block w now = r2 -> r1 = r2) /\
  (forall w faults r1 r2, dist_begin_block w faults = r1 -> dist_begin_block w faults = r2 -> r1 = r2) /\
  (forall w o r1 r2, step w o = r1 -> step w o = r2 -> r1 = r2).
Proof. repeat split; intros; congruence. Qed.
Print Assumptions C11_model_transitions_are_functions.

(* the distributor's store is iterated in key order whatever order the states were written in *)
