(* C09 — custom messages can never replace or alter an existing account (vesting-module part:
   pool send, direct vesting-account creation, split, move, move-by-denoms, pool creation, withdrawal).
   The signature module's account creation is covered by props/C09sig.v. *)
From C4E Require Import Base Vest VestFrame VestProofs SolventProofs SendProofs AccountsProofs SplitArith SplitProofs.
Open Scope Z_scope.

(* for every world, every message of the vesting module (any signer, any payload) and every address
   that already has an account: afterwards the address still has an account, and it is the same
   record — type, vesting amounts, delegation tracking, schedule — except that a successful split or
   move signed by that very address may have changed its original vesting (and nothing else).
   (ODelegate is x/staking's own message, not a custom-module message.) *)
Theorem C09_existing_account_unchanged :
  forall w o a acc,
  (forall x b amt, o <> ODelegate x b amt) ->
  aget a (w_acc w) = Some acc ->
  exists acc', aget a (w_acc (fst (step w o))) = Some acc' /\
    (acc' = acc \/
     (exists to c, split_like w o = Some (a, to, c) /\ same_but_ov acc acc')).
Proof. exact existing_account_unchanged. Qed.
Print Assumptions C09_existing_account_unchanged.

(* over whole histories: an account that exists at some point keeps its kind and schedule forever *)
Theorem C09_history :
  forall ops w a acc,
  Forall (fun o => forall x b amt, o <> ODelegate x b amt) ops ->
  aget a (w_acc w) = Some acc ->
  exists acc', aget a (w_acc (run w ops)) = Some acc' /\
    a_kind acc' = a_kind acc /\ a_start acc' = a_start acc /\ a_end acc' = a_end acc /\
    a_dv acc' = a_dv acc /\ a_df acc' = a_df acc.
Proof. exact existing_account_history. Qed.
Print Assumptions C09_history.

(* the only permitted change shrinks the sender's original vesting, never grows it *)
Theorem C09_split_only_reduces_original_vesting :
  forall w from to c w' x, split_vesting_coins w from to c = Some w' -> aget from (w_acc w) = Some x ->
  exists x', aget from (w_acc w') = Some x' /\ same_but_ov x x' /\
    forall d, camt d (a_ov x') = camt d (a_ov x) \/ (0 < coins_amt d c /\ camt d (a_ov x') = unlock_ov (a_start x) (a_end x) (unix (w_now w)) (camt d (a_ov x)) (coins_amt d c)).
Proof. exact split_changes_only_requested_ov. Qed.
Print Assumptions C09_split_only_reduces_original_vesting.

(* non-vacuity: a send to an existing address fails and leaves it alone; a send to an absent one succeeds *)
From C4EProps Require C05.
Example C09_example :
  aget 7 (w_acc (fst (step C4EProps.C05.ex_w (OSend 7 7 2 10 true)))) = Some base_acct /\
  fst (fst (snd (step C4EProps.C05.ex_w (OSend 7 9 2 10 true)))) = 1 /\
  aget 7 (w_acc (fst (step C4EProps.C05.ex_w (OSend 7 9 2 10 true)))) = Some base_acct.
Proof. vm_compute. repeat split. Qed.
