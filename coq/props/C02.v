(* C02 — emission follows the configured schedule, independent of block cadence. *)
From C4E Require Import Base Minter MinterProofs MinterWalk MinterFaults.
Open Scope Z_scope.

(* no block mints a negative amount, and what a block mints is exactly the growth of
   (totals of the periods finished in this block + the current period's counter): nothing is lost
   and nothing is emitted twice, for every parameter set, state and block time *)
Theorem C02_block_amount_is_growth_of_counters :
  forall p st now a st' h, mint p st now = Ok (a, st', h) ->
  0 <= a /\ a = hist_minted h + s_minted st' - s_minted st.
Proof. exact mint_accounting. Qed.
Print Assumptions C02_block_amount_is_growth_of_counters.

(* inside one period the counter after a block is the integer part of (schedule amount at the block
   time + carry), whatever the counter was before: so the cumulative amount does not depend on how
   time was cut into blocks *)
Theorem C02_counter_depends_on_block_time_only :
  forall f p st now cur start x,
  find_cur (mp_minters p) (s_seq st) None = Some cur -> period_start p (s_seq st) = Ok start ->
  amount_to_mint cur start now = Ok x -> mp_denom_ok p = true ->
  s_minted st <= dec_trunc_int (x + s_rem_prev st) ->
  match m_end cur with None => True | Some e => now < e end ->
  mint_rec (S f) p st now =
    Ok (dec_trunc_int (x + s_rem_prev st) - s_minted st,
        {| s_seq := s_seq st; s_minted := dec_trunc_int (x + s_rem_prev st);
           s_rem := (x + s_rem_prev st) - dec_trunc_dec (x + s_rem_prev st);
           s_rem_prev := s_rem_prev st; s_last := now |}, []).
Proof. exact mint_rec_same_period. Qed.
Print Assumptions C02_counter_depends_on_block_time_only.

(* hand-over: the finished period enters the history with its full counter; the next period starts
   at zero and inherits exactly the fractional remainder *)
Theorem C02_handover_carries_the_fraction :
  forall f p st now cur start x e,
  find_cur (mp_minters p) (s_seq st) None = Some cur -> period_start p (s_seq st) = Ok start ->
  amount_to_mint cur start now = Ok x -> mp_denom_ok p = true ->
  s_minted st <= dec_trunc_int (x + s_rem_prev st) ->
  m_end cur = Some e -> e <= now ->
  let expected := x + s_rem_prev st in
  let fin := {| s_seq := s_seq st; s_minted := dec_trunc_int expected; s_rem := expected - dec_trunc_dec expected;
                s_rem_prev := s_rem_prev st; s_last := now |} in
  let next := {| s_seq := s_seq st + 1; s_minted := 0; s_rem := 0; s_rem_prev := expected - dec_trunc_dec expected; s_last := now |} in
  mint_rec (S f) p st now =
    match mint_rec f p next now with
    | Ok (a2, st', h) => Ok (dec_trunc_int expected - s_minted st + a2, st', fin :: h)
    | Err => Err | Panic => Panic
    end.
Proof. exact mint_rec_handover. Qed.
Print Assumptions C02_handover_carries_the_fraction.

(* carries telescope: integer parts minted by consecutive periods add up to the integer part of the
   exact sum of the schedule amounts (the step that makes cumulative = floor(cumulative schedule)) *)
Theorem C02_carries_telescope :
  forall F1 f2 c1, 0 <= F1 -> 0 <= f2 -> 0 <= c1 < P ->
  let c2 := (F1 + c1) - dec_trunc_dec (F1 + c1) in
  dec_trunc_int (F1 + c1) + dec_trunc_int (f2 + c2) = dec_trunc_int (F1 + f2 + c1).
Proof. exact carry_telescopes. Qed.
Print Assumptions C02_carries_telescope.

(* a linear period: exactly its configured amount at its end and from then on, zero before its start,
   non-decreasing and never above the amount in between, never a division by zero (period >= 1 ms) *)
Theorem C02_linear_period :
  forall A start end_, 0 <= A -> unix_milli start < unix_milli end_ ->
  (forall now, end_ <= now -> linear_amount A start end_ now = Ok (dec_of_int A)) /\
  (forall now, now < start -> linear_amount A start end_ now = Ok 0) /\
  (forall t1 t2 x1 x2, start <= t1 <= t2 -> linear_amount A start end_ t1 = Ok x1 -> linear_amount A start end_ t2 = Ok x2 ->
      0 <= x1 <= x2 /\ x2 <= dec_of_int A) /\
  (forall now, exists x, linear_amount A start end_ now = Ok x).
Proof. exact linear_amount_spec. Qed.
Print Assumptions C02_linear_period.

(* exponential steps: epoch sums are non-negative and non-decreasing in the number of steps *)
Theorem C02_exponential_epoch_sums_monotone :
  forall n k a m, 0 <= a -> 0 <= m ->
  0 <= fst (exp_sum n a m) /\ 0 <= snd (exp_sum n a m) /\
  fst (exp_sum n a m) + snd (exp_sum n a m) <= fst (exp_sum (S n + k) a m).
Proof.
  intros n k a m Ha Hm. destruct (exp_sum_nonneg n a m Ha Hm). split; [assumption|]. split; [assumption|].
  apply exp_sum_mono; assumption.
Qed.
Print Assumptions C02_exponential_epoch_sums_monotone.

(* THE property, over whole histories: for every configuration accepted by validation (with linear
   periods spanning at least a millisecond), every genesis state with zero counters at the first
   period, and every strictly increasing sequence of block times after the genesis time (up to the
   int64 nanosecond range of time.Time): no BeginBlock fails, and the total minted is the integer
   part of the schedule's exact cumulative emission at the last block time — a function of that time
   only, so any two partitions of the same span mint the same total *)
Theorem C02_cumulative_mint_is_floor_of_schedule :
  forall p g ts Tl,
  params_valid p = true -> periods_sane_from (mp_start p) (mp_minters p) -> mp_denom_ok p = true -> 0 <= mp_start p ->
  match mp_minters p with cur :: _ => s_seq g = m_seq cur | [] => True end -> s_minted g = 0 -> s_rem_prev g = 0 ->
  s_last g <= Tl -> increasing Tl ts -> Forall (fun t => t <= MAXI64) ts -> ts <> [] ->
  exists st', run_blocks p g ts =
    Ok ((if last ts Tl <? mp_start p then 0 else dec_trunc_int (exact_sum (mp_start p) (mp_minters p) (last ts Tl))), st').
Proof.
  intros p g ts Tl Hv Hs Hd H0 Hg1 Hg2 Hg3 H1 H2 H3 H4.
  exact (partition_independence p (valid_chain _ _ _ Hv Hs) Hd H0 g Hg1 Hg2 Hg3 ts Tl H1 H2 H3 H4).
Qed.
Print Assumptions C02_cumulative_mint_is_floor_of_schedule.

Corollary C02_partition_independent :
  forall p g ts1 ts2 Tl,
  params_valid p = true -> periods_sane_from (mp_start p) (mp_minters p) -> mp_denom_ok p = true -> 0 <= mp_start p ->
  match mp_minters p with cur :: _ => s_seq g = m_seq cur | [] => True end -> s_minted g = 0 -> s_rem_prev g = 0 ->
  s_last g <= Tl -> increasing Tl ts1 -> increasing Tl ts2 ->
  Forall (fun t => t <= MAXI64) ts1 -> Forall (fun t => t <= MAXI64) ts2 -> ts1 <> [] -> ts2 <> [] ->
  last ts1 Tl = last ts2 Tl ->
  exists a st1 st2, run_blocks p g ts1 = Ok (a, st1) /\ run_blocks p g ts2 = Ok (a, st2).
Proof.
  intros p g ts1 ts2 Tl Hv Hs Hd H0 Hg1 Hg2 Hg3 H1 Hi1 Hi2 Hm1 Hm2 Hn1 Hn2 Hl.
  destruct (C02_cumulative_mint_is_floor_of_schedule p g ts1 Tl Hv Hs Hd H0 Hg1 Hg2 Hg3 H1 Hi1 Hm1 Hn1) as (s1 & E1).
  destruct (C02_cumulative_mint_is_floor_of_schedule p g ts2 Tl Hv Hs Hd H0 Hg1 Hg2 Hg3 H1 Hi2 Hm2 Hn2) as (s2 & E2).
  rewrite Hl in E1. eauto.
Qed.
Print Assumptions C02_partition_independent.

(* one BeginBlock in closed form: from any state sitting in a period of the validated list with a
   counter not ahead of the schedule, the block mints (closed-form total) - (already minted) *)
Theorem C02_one_block_closed_form :
  forall l pid pend now c, chain pid pend l -> 0 <= pend <= now -> now <= MAXI64 -> 0 <= c < P ->
  wtot (walk pend l now c) = dec_trunc_int (exact_sum pend l now + c) /\ 0 <= exact_sum pend l now.
Proof. exact walk_closed_form. Qed.
Print Assumptions C02_one_block_closed_form.

(* non-vacuity: linear 1000 over 1000 s followed by no-minting; blocks at 300.5 s, 999 s, 1500 s *)
Example C02_example :
  let p := {| mp_denom_ok := true; mp_start := 0;
              mp_minters := [{| m_seq := 1; m_end := Some (1000 * 1000000000); m_cfg := CLinear 1000 |};
                             {| m_seq := 2; m_end := None; m_cfg := CNone |}] |} in
  let g := {| s_seq := 1; s_minted := 0; s_rem := 0; s_rem_prev := 0; s_last := 0 |} in
  match mint p g 300500000000 with
  | Ok (a1, s1, _) => match mint p s1 999000000000 with
     | Ok (a2, s2, _) => match mint p s2 1500000000000 with
        | Ok (a3, s3, h) => [a1; a2; a3] = [300; 699; 1] /\ s_seq s3 = 2 /\ map s_minted h = [1000]
        | _ => False end
     | _ => False end
  | _ => False end
  /\ match mint p g 1500000000000 with Ok (a, s, h) => a = 1000 /\ s_seq s = 2 | _ => False end.
Proof. vm_compute. repeat split. Qed.

(* a node whose bank refuses the minter's calls in some blocks (BeginBlocker panics on the error; a block whose begin-blocker
   panics is never committed, and the node goes on from the state the last committed block left): for every validated
   configuration, every strictly increasing sequence of block times and every pattern of refusals that lets the last block
   through, the committed history minted the integer part of the schedule's exact cumulative emission at the last block time
   — the same total as a node whose bank refused nothing: a refused call neither loses an amount nor has it emitted twice *)
Theorem C02_refused_bank_calls_lose_nothing_and_emit_nothing_twice :
  forall p g bs Tl d T,
  params_valid p = true -> periods_sane_from (mp_start p) (mp_minters p) -> mp_denom_ok p = true -> 0 <= mp_start p ->
  match mp_minters p with cur :: _ => s_seq g = m_seq cur | [] => True end -> s_minted g = 0 -> s_rem_prev g = 0 ->
  s_last g <= Tl -> increasing Tl (map fst bs) -> Forall (fun t => t <= MAXI64) (map fst bs) -> bs <> [] -> last bs d = (T, false) ->
  exists st' st'',
    run_node p g bs = Ok ((if T <? mp_start p then 0 else dec_trunc_int (exact_sum (mp_start p) (mp_minters p) T)), st') /\
    run_blocks p g (map fst bs) = Ok ((if T <? mp_start p then 0 else dec_trunc_int (exact_sum (mp_start p) (mp_minters p) T)), st'').
Proof.
  intros p g bs Tl d T Hv Hs Hd H0 Hg1 Hg2 Hg3 H1 H2 H3 H4 H5.
  exact (refused_calls_made_up_by_the_next_block p (valid_chain _ _ _ Hv Hs) Hd H0 g Hg1 Hg2 Hg3 bs Tl d T H1 H2 H3 H4 H5).
Qed.
Print Assumptions C02_refused_bank_calls_lose_nothing_and_emit_nothing_twice.

(* the block that Mint leaves without reaching the bank changed nothing, so a refusal nobody noticed and one that stopped the
   block leave the same committed state (this is what makes [node_block] right for both) *)
Theorem C02_block_that_does_not_reach_the_bank_changes_nothing :
  forall p st now a st' h, mint p st now = Ok (a, st', h) -> s_last st' <> now -> a = 0 /\ st' = st /\ h = [].
Proof. exact unnoticed_refusal_changes_nothing. Qed.
Print Assumptions C02_block_that_does_not_reach_the_bank_changes_nothing.

(* non-vacuity: the example schedule with the block at 999 s refused: the last block makes up for it (700 = 699 + 1) *)
Example C02_refused_example :
  let p := {| mp_denom_ok := true; mp_start := 0;
              mp_minters := [{| m_seq := 1; m_end := Some (1000 * 1000000000); m_cfg := CLinear 1000 |};
                             {| m_seq := 2; m_end := None; m_cfg := CNone |}] |} in
  let g := {| s_seq := 1; s_minted := 0; s_rem := 0; s_rem_prev := 0; s_last := 0 |} in
  let bs := [(300500000000, false); (999000000000, true); (1500000000000, false)] in
  increasing 0 (map fst bs) /\ last bs (0, true) = (1500000000000, false) /\
  match node_block p g (300500000000, false) with
  | Ok (a1, s1) => match node_block p s1 (999000000000, true) with
     | Ok (a2, s2) => match node_block p s2 (1500000000000, false) with
        | Ok (a3, s3) => [a1; a2; a3] = [300; 0; 700] /\ s_seq s3 = 2
        | _ => False end
     | _ => False end
  | _ => False end /\
  match run_node p g bs with Ok (tot, _) => tot = 1000 | _ => False end.
Proof. vm_compute. repeat split; reflexivity. Qed.
