(* C20 — no message or query of the custom modules panics, whatever field values it carries. *)
From C4E Require Import Handlers HandlersSweep HandlersProofs.
Open Scope Z_scope.

(* ValidateBasic of every message type returns (accept or an error) for every raw value: nil or
   negative big integers and decimals of any magnitude, addresses that do not parse, empty or malformed
   denominations, nil slices, nil entries and unresolved Any values inside repeated fields, lists of
   any length *)
Theorem C20_validate_basic_never_panics :
  forall e m, validate_basic e m <> Panic.
Proof. exact validate_basic_never_panics. Qed.
Print Assumptions C20_validate_basic_never_panics.

(* every handler except MsgCreateAccount returns for every raw message and every state in which the
   stored vesting denomination is valid, pool amounts are non-negative, vesting types have 0 <= free <= 1
   and existing accounts hold at least their locked coins (objects referenced by the message may or may
   not exist) *)
Theorem C20_handlers_never_panic :
  forall e m, env_inv e -> is_create_account m = false -> handle e m <> Panic.
Proof. exact handlers_never_panic. Qed.
Print Assumptions C20_handlers_never_panic.

Theorem C20_accepted_message_never_crashes_its_handler :
  forall e m, env_inv e -> is_create_account m = false -> validate_basic e m = Ok tt -> handle e m <> Panic.
Proof. exact accepted_message_never_panics. Qed.
Print Assumptions C20_accepted_message_never_crashes_its_handler.

(* the full statement (no exception) is false of the faithful model: known finding K7.  The failing
   class is characterised exactly: MsgCreateAccount panics iff its account address parses and its
   public key unmarshals — every well-formed request *)
Theorem C20_accepted_message_never_crashes_refuted :
  forall e, exists m, validate_basic e m = Ok tt /\ handle e m = Panic.
Proof. exact accepted_create_account_refuted. Qed.
Print Assumptions C20_accepted_message_never_crashes_refuted.

Theorem C20_create_account_panics_exactly_when_well_formed :
  forall e creator acc pk_ok,
  handle e (MSigCreateAccount creator acc pk_ok) = Panic <-> (exists id, acc = AOk id) /\ pk_ok = true.
Proof. exact create_account_panics_iff. Qed.
Print Assumptions C20_create_account_panics_exactly_when_well_formed.

Theorem C20_queries_never_panic :
  forall e req_nil a, q_generic req_nil <> Panic /\ q_account_info e req_nil a <> Panic.
Proof. exact queries_never_panic. Qed.
Print Assumptions C20_queries_never_panic.

(* behind the front door: a raw parameter value that is accepted has no nil part, and on nil-free
   values the raw validation is exactly the decision of the well-formed models (Params.v, Minter.v) *)
Theorem C20_accepted_distributor_params_are_well_formed :
  forall l u, dparams_validate_raw l = Ok u ->
  exists low, all_some (map lower_sub l) = Some low /\ dparams_valid low = true.
Proof. exact dparams_validate_raw_sound. Qed.
Print Assumptions C20_accepted_distributor_params_are_well_formed.

Theorem C20_distributor_validation_refines_model :
  forall l low, all_some (map lower_sub l) = Some low ->
  dparams_validate_raw l = if dparams_valid low then Ok tt else Err.
Proof. exact dparams_validate_raw_refines. Qed.
Print Assumptions C20_distributor_validation_refines_model.

Theorem C20_minter_validation_refines_model :
  forall start ms l low, all_some ms = Some l -> l <> [] -> lower_minters (sort_minters l) = Some low ->
  validate_minters start ms = if minters_valid_from 0 start low then Ok tt else Err.
Proof. exact validate_minters_refines. Qed.
Print Assumptions C20_minter_validation_refines_model.

(* the repaired panics, on the guard order before each fix *)
Theorem C20_repaired_defects_were_panics :
  (forall e id, e_kind e id <> 0 -> e_haskey e id = false -> q_account_info_before_fix e false (AOk id) = Panic)
  /\ (forall id, contains_minter_before_fix id [None] = Panic)
  /\ (forall e, h_sig_publish_before_fix e 0 = Panic).
Proof. exact (conj account_info_before_fix_panics (conj contains_minter_before_fix_panics publish_before_fix_panics)). Qed.
Print Assumptions C20_repaired_defects_were_panics.

(* non-vacuity: the environment the sweep prepares satisfies the state hypotheses; a request with a
   nil amount, one with a malformed denomination and one from == to are turned away with an error,
   a well-formed one succeeds *)
Example C20_sweep_env_satisfies_hypotheses : env_inv sweep_env.
Proof.
  unfold env_inv, sweep_env; cbn [e_vest_denom e_pools e_vtype e_kind e_solvent]. split; [reflexivity|]. split; [|split].
  - intros o ps. destruct (o =? 4); [intros H; injection H as <-; reflexivity|]. destruct (o =? 7); intros H; [injection H as <-; reflexivity | discriminate].
  - intros n f. destruct (n =? 1); intros H; [injection H as <-; vm_compute; split; discriminate | discriminate].
  - reflexivity.
Qed.
Example C20_example :
  handle sweep_env (MCreatePool (AOk 3) 1 INil 3600 1) = Err
  /\ handle sweep_env (MCreatePool (AOk 3) 5 (IV 7) 3600 1) = Ok tt
  /\ validate_basic sweep_env (MMoveByDenoms (AOk 5) (AOk 2) [DBad]) = Err
  /\ handle sweep_env (MMoveByDenoms (AOk 5) (AOk 2) [DOk 1]) = Ok tt
  /\ handle sweep_env (MCreateVestingAccount (AOk 2) (AOk 2) (CL [(DOk 1, IV 5)]) 0 10) = Err
  /\ handle sweep_env (MMinterUpdateParams GOV (DOk 1) 0 [None]) = Err
  /\ handle sweep_env (MDistrUpdateSub GOV None) = Err.
Proof. vm_compute. repeat split. Qed.
