(* C06 — Pool time-lock: nothing is withdrawable before lock end, all of it once after.
   Statements only; every proof is a reference to a lemma of C4E.VestProofs. *)
From C4E Require Import Base Vest VestFrame VestProofs PoolsKept SendProofs SendWithdraw.
Open Scope Z_scope.

(* before a pool's lock end nothing can be withdrawn from it, for every pool and every time *)
Theorem C06_nothing_withdrawable_before_lock_end :
  forall now p, now < p_lock_end p -> withdrawable now p = 0 /\ pool_withdraw now p = p.
Proof. intros now p H. split; [exact (withdrawable_before now p H)|exact (pool_withdraw_before now p H)]. Qed.
Print Assumptions C06_nothing_withdrawable_before_lock_end.

(* at or after lock end a withdraw-all pays exactly the still-locked remainder of every matured pool
   (and nothing for the others), empties the matured pools and leaves locked pools untouched *)
Theorem C06_withdraw_pays_matured_remainder :
  forall w owner r, withdraw_all w owner = Some r ->
  exists ps, get_pools w owner = Some ps /\
    r_amount r = zsum (map (fun p => if p_lock_end p <=? w_now w then pool_currently_locked p else 0) ps) /\
    get_pools (r_world r) owner = Some (map (pool_withdraw (w_now w)) ps) /\
    Forall (fun p => if p_lock_end p <=? w_now w
                     then pool_currently_locked (pool_withdraw (w_now w) p) = 0
                     else pool_withdraw (w_now w) p = p) ps.
Proof. exact withdraw_pays_matured_remainder. Qed.
Print Assumptions C06_withdraw_pays_matured_remainder.

(* the coins paid arrive at the owner and leave the vesting module account, nothing else moves *)
Theorem C06_withdraw_moves_exactly_the_paid_amount :
  forall w owner r, withdraw_all w owner = Some r ->
  forall a d, bal (r_world r) a d = bal w a d
        - (if (a =? MODULE) && (d =? w_denom w) then Z.max 0 (r_amount r) else 0)
        + (if (a =? owner) && (d =? w_denom w) then Z.max 0 (r_amount r) else 0).
Proof.
  intros w owner r H. destruct (withdraw_all_spec w owner r H) as (ps & _ & _ & _ & _ & _ & _ & _ & _ & _ & _ & _ & Hb & _).
  exact Hb.
Qed.
Print Assumptions C06_withdraw_moves_exactly_the_paid_amount.

(* a repeated withdrawal pays zero; a matured pool never yields anything again at any later time *)
Theorem C06_repeated_withdrawal_pays_zero :
  forall w owner r r2, withdraw_all w owner = Some r -> withdraw_all (r_world r) owner = Some r2 -> r_amount r2 = 0.
Proof. exact repeated_withdraw_pays_zero. Qed.
Print Assumptions C06_repeated_withdrawal_pays_zero.

Theorem C06_matured_pool_stays_empty :
  forall now t p, p_lock_end p <= now -> withdrawable t (pool_withdraw now p) = 0.
Proof. exact matured_pool_stays_empty. Qed.
Print Assumptions C06_matured_pool_stays_empty.

(* the withdrawable amounts reported by the pool query equal, pool by pool, what a withdrawal in
   the same block pays *)
Theorem C06_query_equals_paid :
  forall w owner r, withdraw_all w owner = Some r ->
  exists ps qs, get_pools w owner = Some ps /\ query_withdrawable w owner = Some qs /\
    r_amount r = zsum qs /\
    get_pools (r_world r) owner = Some (map (pool_withdraw (w_now w)) ps) /\
    map (fun p => p_withdrawn (pool_withdraw (w_now w) p) - p_withdrawn p) ps = qs.
Proof. exact query_equals_paid. Qed.
Print Assumptions C06_query_equals_paid.

(* for every operation of the vesting world (any message by any signer with any arguments, or the
   passage of time) and every owner: each existing pool either stays as it is, is withdrawn (a no-op
   while locked), or — only for a send by its owner that created a brand-new continuous vesting
   account — additionally has [amount] added to its sent counter *)
Theorem C06_locked_pool_leaves_only_into_new_vesting_account :
  forall w o a ps, get_pools w a = Some ps ->
  exists ps' extra, get_pools (fst (step w o)) a = Some (ps' ++ extra) /\
    (Forall2 (pool_evolves (w_now w) None) ps ps' \/
     exists to name amount restart p0,
       o = OSend a to name amount restart /\ send_effect w (fst (step w o)) a to name amount /\
       Forall2 (fun p p' => pool_evolves (w_now w) None p p' \/
                            (pool_withdraw (w_now w) p = p0 /\ pool_evolves (w_now w) (Some amount) p p')) ps ps').
Proof. exact pools_evolution. Qed.
Print Assumptions C06_locked_pool_leaves_only_into_new_vesting_account.

Theorem C06_locked_pool_ledger :
  forall now sent p p', now < p_lock_end p -> pool_evolves now sent p p' ->
  p_locked p' = p_locked p /\ p_withdrawn p' = p_withdrawn p /\ p_lock_end p' = p_lock_end p /\ p_name p' = p_name p /\
  p_sent p' = p_sent p + match sent with Some a => a | None => 0 end.
Proof. exact pool_evolves_locked. Qed.
Print Assumptions C06_locked_pool_ledger.

(* non-vacuity: a world with one matured and one locked pool on which a withdrawal succeeds *)
Example C06_example :
  let p1 := {| p_name := 1; p_vtype := 1; p_lock_start := 0; p_lock_end := 100; p_locked := 1000; p_withdrawn := 10; p_sent := 90; p_genesis := false |} in
  let p2 := {| p_name := 2; p_vtype := 1; p_lock_start := 0; p_lock_end := 300; p_locked := 500; p_withdrawn := 0; p_sent := 0; p_genesis := true |} in
  let w := {| w_now := 200; w_denom := 0; w_bal := [(0, [(0, 1400)])]; w_acc := []; w_pools := [(7, [p1; p2])];
              w_vtypes := []; w_traces := []; w_blocked := [0] |} in
  match withdraw_all w 7 with
  | Some r => r_amount r = 900 /\ bal (r_world r) 7 0 = 900 /\ bal (r_world r) 0 0 = 500
  | None => False
  end.
Proof. vm_compute. repeat split. Qed.

(* a pool, once stored, is stored for ever: over any history of vesting messages (any signers, any payloads, accepted or rejected)
   and time steps, the names of an owner's pools at any point are a prefix of the names afterwards — so what a pool still locks
   always has a record standing for it *)
Theorem C06_stored_pools_are_never_dropped :
  forall ops w o, exists extra, pool_names (run w ops) o = pool_names w o ++ extra.
Proof. exact run_keeps_pool_names. Qed.
Print Assumptions C06_stored_pools_are_never_dropped.

(* a send out of a pool starts with the same withdrawal as a withdraw-all (the only other way coins leave the module for the
   owner): for every world, owner, recipient, pool, amount and flag, after a successful send every pool of the owner that had
   reached its lock end is empty, and a withdrawal repeated right after the send pays zero *)
Theorem C06_send_pays_matured_pools_in_full :
  forall w owner to name amount restart r,
  send_to_vesting_account w owner to name amount restart = Some r ->
  exists ps', get_pools (r_world r) owner = Some ps' /\
    Forall (fun p => p_lock_end p <= w_now w -> pool_currently_locked p = 0) ps'.
Proof. exact send_pays_matured_pools_in_full. Qed.
Print Assumptions C06_send_pays_matured_pools_in_full.

Theorem C06_withdrawal_repeated_after_a_send_pays_zero :
  forall w owner to name amount restart r r2,
  send_to_vesting_account w owner to name amount restart = Some r ->
  withdraw_all (r_world r) owner = Some r2 -> r_amount r2 = 0.
Proof. exact withdrawal_repeated_after_send_pays_zero. Qed.
Print Assumptions C06_withdrawal_repeated_after_a_send_pays_zero.

(* non-vacuity: the world of C06_example with a vesting type; a send of 200 from the locked pool pays the owner the 900 of the
   matured pool first, and the withdrawal after it succeeds and pays 0 *)
Example C06_send_example :
  let p1 := {| p_name := 1; p_vtype := 1; p_lock_start := 0; p_lock_end := 100; p_locked := 1000; p_withdrawn := 10; p_sent := 90; p_genesis := false |} in
  let p2 := {| p_name := 2; p_vtype := 1; p_lock_start := 0; p_lock_end := 300; p_locked := 500; p_withdrawn := 0; p_sent := 0; p_genesis := true |} in
  let w := {| w_now := 200; w_denom := 0; w_bal := [(0, [(0, 1400)])]; w_acc := []; w_pools := [(7, [p1; p2])];
              w_vtypes := [(1, {| vt_lockup := 10; vt_vesting := 20; vt_free := 0 |})]; w_traces := []; w_blocked := [0] |} in
  match send_to_vesting_account w 7 8 2 200 false with
  | Some r => r_amount r = 900 /\ bal (r_world r) 7 0 = 900 /\ bal (r_world r) 8 0 = 200 /\ bal (r_world r) 0 0 = 300 /\
              match withdraw_all (r_world r) 7 with Some r2 => r_amount r2 = 0 | None => False end
  | None => False
  end.
Proof. vm_compute. repeat split. Qed.
