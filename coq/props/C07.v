(* C07 — split / move of vesting is exact and preserves the release schedule. *)
From C4E Require Import LaterTime Base Vest VestFrame VestProofs SolventProofs SendProofs AccountsProofs SplitArith SplitProofs.
Open Scope Z_scope.

(* (1) the arithmetic core, for EVERY original vesting, schedule, block time and requested amount
   between 1 and the coins still vesting: the new original vesting computed by the code leaves exactly
   [u] fewer coins vesting — no magnitude bound, no assumption on how rounding ties fall *)
Theorem C07_unlock_is_exact :
  forall start end_ now_s ov u,
  0 <= ov -> 1 <= u <= vesting_amt start end_ now_s ov ->
  vesting_amt start end_ now_s (unlock_ov start end_ now_s ov u) = vesting_amt start end_ now_s ov - u /\
  0 <= unlock_ov start end_ now_s ov u <= ov - u.
Proof. exact unlock_ov_exact. Qed.
Print Assumptions C07_unlock_is_exact.

(* (2) a successful split / move / move-by-denoms (every message ending in splitVestingCoins), per
   denomination: sender's locked coins drop by exactly the amount, sender's spendable balance is
   unchanged, the recipient's locked coins equal the amount and it receives exactly the amount *)
Theorem C07_split_is_exact :
  forall w from to c w' x,
  split_vesting_coins w from to c = Some w' -> aget from (w_acc w) = Some x ->
  (forall d, 0 <= camt d (a_ov x) /\ 0 <= camt d (a_dv x)) ->
  forall d,
    locked w' from d = locked w from d - coins_amt d c /\
    spendable w' from d = spendable w from d /\
    locked w' to d = coins_amt d c /\
    bal w' to d = bal w to d + coins_amt d c.
Proof. exact split_exact. Qed.
Print Assumptions C07_split_is_exact.

(* (3) the recipient did not exist, becomes a continuous vesting account whose original vesting is
   the amount, nothing delegated, end = sender's end, start = max(now, sender's start); the sender
   keeps its type, schedule and delegation tracking; no third account changes; only the two balances move *)
Theorem C07_split_effect :
  forall w from to c w' x,
  split_vesting_coins w from to c = Some w' -> aget from (w_acc w) = Some x ->
  split_effect w w' from to c x.
Proof. exact split_coins_effect. Qed.
Print Assumptions C07_split_effect.

(* move: the amount is the sender's locked coins, so they drop to zero for the selected denominations *)
Theorem C07_move_leaves_zero_locked :
  forall w from to ds w' x,
  move_available w from to ds = Some w' -> aget from (w_acc w) = Some x ->
  (forall d, 0 <= camt d (a_ov x) /\ 0 <= camt d (a_dv x)) ->
  NoDup ds -> forall d, In d ds -> locked w' from d = 0.
Proof. exact move_leaves_zero_locked. Qed.
Print Assumptions C07_move_leaves_zero_locked.

(* (4) release schedule: at the block of the split the two accounts together have vesting exactly
   what the sender had, and from the common end time on all three amounts are zero.  Between those
   two instants the agreement "up to a few base units" is C07_later_time_agreement below. *)
Theorem C07_schedule_endpoints :
  forall w from to c w' x,
  split_vesting_coins w from to c = Some w' -> aget from (w_acc w) = Some x ->
  (forall d, 0 <= camt d (a_ov x) /\ 0 <= camt d (a_dv x)) ->
  forall d, exists x' y', aget from (w_acc w') = Some x' /\ aget to (w_acc w') = Some y' /\
    acct_vesting x' (unix (w_now w)) d + acct_vesting y' (unix (w_now w)) d = acct_vesting x (unix (w_now w)) d /\
    (forall t, a_end x <= t -> a_start x < t -> unix (w_now w) < t ->
       acct_vesting x' t d + acct_vesting y' t d = 0 /\ acct_vesting x t d = 0).
Proof. exact split_total_vesting_at_now. Qed.
Print Assumptions C07_schedule_endpoints.

(* (4') ... and at every time in between: for a split of U (between 1 and the sender's vesting coins) at
   time tau inside the schedule, at every later time t before the end, the vesting coins of the sender
   (with the original vesting the code computes) plus those of the recipient (original vesting U, start
   tau, same end) differ from what the unsplit sender would have had by at most
   3 + OV * (3*10^18 + 1) / 10^36 base units: three units of rounding plus three times the resolution of
   the SDK's 18-digit vesting scalar on the original vesting — for all magnitudes *)
Theorem C07_later_time_agreement :
  forall start end_ tau t OV U,
  1 <= OV -> start < tau -> tau < t -> t < end_ -> 1 <= U <= vesting_amt start end_ tau OV ->
  let OV' := unlock_ov start end_ tau OV U in
  let X := vesting_amt start end_ t OV' + vesting_amt tau end_ t U - vesting_amt start end_ t OV in
  - (3 * P * P + OV * (3 * P + 1)) <= P * P * X <= 3 * P * P + OV * (3 * P + 1).
Proof. exact later_time_agreement. Qed.
Print Assumptions C07_later_time_agreement.

(* a split before the schedule starts: the recipient inherits the sender's start, the original vesting
   drops by exactly U, and later the two together differ from the unsplit sender by at most one unit *)
Theorem C07_later_time_agreement_split_before_start :
  forall start end_ tau t OV U,
  1 <= OV -> tau <= start -> start < t -> t < end_ -> 1 <= U <= OV ->
  unlock_ov start end_ tau OV U = OV - U /\
  let X := vesting_amt start end_ t (OV - U) + vesting_amt start end_ t U - vesting_amt start end_ t OV in
  - 1 <= X <= 1.
Proof. exact later_time_agreement_before_start. Qed.
Print Assumptions C07_later_time_agreement_split_before_start.

(* (5) any amount up to the sender's locked, undelegated coins can be split *)
Theorem C07_any_amount_up_to_locked_can_be_split :
  forall w from to c x,
  aget from (w_acc w) = Some x -> a_kind x = 2 -> aget to (w_acc w) = None -> blocked w to = false ->
  c <> [] -> coins_valid c = true ->
  (forall d, 0 <= camt d (a_ov x) /\ 0 <= camt d (a_dv x)) ->
  (forall d, 0 < coins_amt d c -> coins_amt d c <= locked w from d /\ locked w from d <= bal w from d) ->
  exists w', split_vesting_coins w from to c = Some w'.
Proof. exact split_succeeds. Qed.
Print Assumptions C07_any_amount_up_to_locked_can_be_split.

(* the defect repaired by F1 (Dec.Quo instead of QuoTruncate) violates (1): regression witness *)
Theorem C07_refuted_with_Quo :
  exists start end_ now_s ov u, 0 <= ov /\ 1 <= u <= vesting_amt start end_ now_s ov /\
    vesting_amt start end_ now_s (unlock_ov_quo start end_ now_s ov u) <> vesting_amt start end_ now_s ov - u.
Proof. exact split_exact_refuted_with_Quo. Qed.
Print Assumptions C07_refuted_with_Quo.

(* non-vacuity: a half-vested account of 1001 coins, 300 delegated; split 150 *)
Example C07_example :
  let x := {| a_kind := 2; a_ov := [(0, 1001)]; a_dv := [(0, 300)]; a_df := []; a_start := 0; a_end := 2000 |} in
  let w := {| w_now := 1000 * NS; w_denom := 0; w_bal := [(5, [(0, 900)])]; w_acc := [(5, x)]; w_pools := [];
              w_vtypes := []; w_traces := []; w_blocked := [0] |} in
  match split_vesting_coins w 5 6 [(0, 150)] with
  | Some w' => locked w 5 0 = 201 /\ locked w' 5 0 = 51 /\ locked w' 6 0 = 150 /\ spendable w' 5 0 = spendable w 5 0
  | None => False
  end.
Proof. vm_compute. repeat split. Qed.
