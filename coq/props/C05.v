(* C05 — the vesting module account is always exactly backed by its pools. *)
From C4E Require Import Base Vest VestFrame VestProofs SolventProofs VestGenesis VestGenesisProofs PoolsKept.
Open Scope Z_scope.

(* Solvent w: pool owners are distinct keys, the module account is a blocked address, its balance in
   the vesting denomination equals the sum over all pools of (initially locked - sent - withdrawn),
   and every pool has withdrawn >= 0, sent >= 0, withdrawn + sent <= initially locked. *)

(* for every sequence of create-pool, send, withdraw, create-vesting-account, split, move,
   move-by-denoms messages by any signers (other than the key-less module account itself) with any
   arguments, delegations, and arbitrary passage of time *)
Theorem C05_module_account_backed_by_pools :
  forall ops w, Solvent w -> Forall op_wf ops -> Solvent (run w ops).
Proof. exact solvent_run. Qed.
Print Assumptions C05_module_account_backed_by_pools.

Theorem C05_one_step :
  forall w o, Solvent w -> op_wf o -> Solvent (fst (step w o)).
Proof. exact solvent_step. Qed.
Print Assumptions C05_one_step.

(* a rejected message changes nothing (the model of baseapp's cache-wrapped execution) *)
Theorem C05_rejected_message_changes_nothing :
  forall w o, fst (fst (snd (step w o))) = 0 -> fst (step w o) = w.
Proof. exact rejected_changes_nothing. Qed.
Print Assumptions C05_rejected_message_changes_nothing.

(* non-vacuity: a solvent world with two owners, and a history on which several messages succeed *)
Definition ex_w : world :=
  {| w_now := 200; w_denom := 0;
     w_bal := [(0, [(0, 1400)]); (7, [(0, 5000)])]; w_acc := [(7, base_acct)];
     w_pools := [(7, [{| p_name := 1; p_vtype := 1; p_lock_start := 0; p_lock_end := 100; p_locked := 1000; p_withdrawn := 10; p_sent := 90; p_genesis := false |};
                      {| p_name := 2; p_vtype := 1; p_lock_start := 0; p_lock_end := 300; p_locked := 500; p_withdrawn := 0; p_sent := 0; p_genesis := true |}])];
     w_vtypes := [(1, {| vt_lockup := 10; vt_vesting := 1000; vt_free := 100000000000000000 |})];
     w_traces := []; w_blocked := [0] |}.

Example C05_example_solvent : Solvent ex_w.
Proof.
  constructor.
  - repeat constructor; simpl; tauto.
  - reflexivity.
  - reflexivity.
  - repeat constructor; simpl; lia.
Qed.

Example C05_example_history :
  let ops := [OCreatePool 7 3 700 50 1; OSend 7 9 2 120 true; OTime 400; OWithdraw 7; OSend 7 9 2 1 false] in
  Forall op_wf ops /\
  map (fun o => fst (fst o)) (snd (fold_left (fun '(w, acc) o => let '(w', out) := step w o in (w', acc ++ [out])) ops (ex_w, [])))
    = [1; 1; 1; 1; 0] /\
  bal (run ex_w ops) 0 0 = 0 /\ bal (run ex_w ops) 9 0 = 120.
Proof.
  split; [repeat (first [apply Forall_cons|apply Forall_nil]); simpl; unfold MODULE; first [lia|exact I]|].
  vm_compute. repeat split.
Qed.

(* ---------------------------------------------------------------------------------------------------------------
   "at all times" starts at the first state of a chain: the genesis *)

(* InitGenesis refuses every genesis whose module account does not hold exactly what the listed pools still lock ... *)
Theorem C05_genesis_refuses_unbacked_module_account :
  forall g B, B <> genesis_locked g -> vgenesis_init g B = None.
Proof. exact init_refuses_unbacked_module_account. Qed.
Print Assumptions C05_genesis_refuses_unbacked_module_account.

(* ... in particular a funded module account when the genesis lists no pools at all *)
Theorem C05_genesis_refuses_funded_module_account_without_pools :
  forall g B, vg_owners g = [] -> B <> 0 -> vgenesis_init g B = None.
Proof. exact init_refuses_funded_module_account_without_pools. Qed.
Print Assumptions C05_genesis_refuses_funded_module_account_without_pools.

(* a genesis that validates and is accepted stores pools that back the module account exactly, each within its
   bounds, one entry per owner: the pool part of Solvent holds in the first state *)
Theorem C05_accepted_genesis_is_backed :
  forall g B s, vgenesis_valid g = true -> vgenesis_init g B = Some s ->
  B = all_pools_sum (vs_pools s) /\ pools_ok (vs_pools s) /\ NoDup (map fst (vs_pools s)).
Proof. exact accepted_genesis_is_backed. Qed.
Print Assumptions C05_accepted_genesis_is_backed.

(* a pool, once stored, is stored for ever: over any history of vesting messages (any signers, any payloads, accepted or rejected)
   and time steps, the names of an owner's pools at any point are a prefix of the names afterwards — so what a pool still locks
   always has a record standing for it *)
Theorem C05_stored_pools_are_never_dropped :
  forall ops w o, exists extra, pool_names (run w ops) o = pool_names w o ++ extra.
Proof. exact run_keeps_pool_names. Qed.
Print Assumptions C05_stored_pools_are_never_dropped.
