(* C08 — new vesting accounts get exactly the documented amount and schedule. *)
From C4E Require Import Base Vest VestFrame VestProofs SolventProofs SendProofs.
From C4EProps Require C05.
Open Scope Z_scope.

(* the amount subject to vesting computed by the code, trunc(amount - round18(amount*free)), is the
   documented integer part of amount * (1 - free), for every amount and every free fraction in [0,1] *)
Theorem C08_original_vesting_is_documented_integer_part :
  forall amount free, 0 <= amount -> 0 <= free <= P ->
  dec_trunc_int (dec_of_int amount - dec_mul (dec_of_int amount) free) = (amount * (P - free)) / P.
Proof. exact original_vesting_formula. Qed.
Print Assumptions C08_original_vesting_is_documented_integer_part.

(* a successful send: the recipient did not exist, receives exactly [amount], nothing else moves
   except the owner's own matured withdrawal, the request is within what is still locked, and the new
   account is a continuous vesting account with the computed original vesting and the schedule chosen
   by the restart flag *)
Theorem C08_send_creates_documented_account :
  forall w owner to name amount restart r,
  send_to_vesting_account w owner to name amount restart = Some r ->
  exists ps p vt,
    get_pools w owner = Some ps /\ In p ps /\ p_name p = name /\ aget (p_vtype p) (w_vtypes w) = Some vt /\
    aget to (w_acc w) = None /\
    (forall a d, bal (r_world r) a d = bal w a d
        - (if (a =? MODULE) && (d =? w_denom w) then Z.max 0 (r_amount r) + amount else 0)
        + (if (a =? owner) && (d =? w_denom w) then Z.max 0 (r_amount r) else 0)
        + (if (a =? to) && (d =? w_denom w) then amount else 0)) /\
    0 <= amount <= pool_currently_locked (pool_withdraw (w_now w) p) /\
    aget to (w_acc (r_world r)) =
      Some {| a_kind := 2;
              a_ov := one_coin (w_denom w) (dec_trunc_int (dec_of_int amount - dec_mul (dec_of_int amount) (vt_free vt)));
              a_dv := []; a_df := [];
              a_start := unix (let le := if restart then w_now w + vt_lockup vt else p_lock_end p in
                               if le <? w_now w then w_now w else le);
              a_end := unix (if restart then w_now w + vt_lockup vt + vt_vesting vt else p_lock_end p) |}.
Proof. exact send_creates_documented_account. Qed.
Print Assumptions C08_send_creates_documented_account.

(* a positive amount can only come out of a pool that is still locked, so without restart both
   start and end are the pool's lock end (the zero-amount send from a matured pool is finding K9) *)
Theorem C08_positive_send_comes_from_locked_pool :
  forall now p amount, 0 < amount <= pool_currently_locked (pool_withdraw now p) -> now < p_lock_end p.
Proof. exact send_positive_from_locked_pool. Qed.
Print Assumptions C08_positive_send_comes_from_locked_pool.

Theorem C08_sent_counter_grows_by_amount :
  forall w owner to name amount restart r,
  send_to_vesting_account w owner to name amount restart = Some r ->
  exists ps p0, get_pools w owner = Some ps /\
    find_pool name (map (pool_withdraw (w_now w)) ps) = Some p0 /\
    get_pools (r_world r) owner = Some (replace_last_pool name (pool_add_sent p0 amount) (map (pool_withdraw (w_now w)) ps)) /\
    pools_sum (replace_last_pool name (pool_add_sent p0 amount) (map (pool_withdraw (w_now w)) ps))
      = pools_sum (map (pool_withdraw (w_now w)) ps) - amount.
Proof. exact send_sent_counter_grows_by_amount. Qed.
Print Assumptions C08_sent_counter_grows_by_amount.

Theorem C08_request_above_locked_fails :
  forall w owner to name amount restart ps p0,
  get_pools w owner = Some ps -> find_pool name (map (pool_withdraw (w_now w)) ps) = Some p0 ->
  pool_currently_locked p0 < amount -> send_to_vesting_account w owner to name amount restart = None.
Proof. exact send_above_locked_fails. Qed.
Print Assumptions C08_request_above_locked_fails.

(* direct creation transfers exactly the given coins and vests all of them between start and end *)
Theorem C08_create_vesting_account :
  forall w from to c start end_ w',
  create_vesting_account w from to c start end_ = Some w' ->
  start <= end_ /\ aget to (w_acc w) = None /\ blocked w to = false /\ coins_valid c = true /\
  aget to (w_acc w') = Some {| a_kind := 2; a_ov := c; a_dv := []; a_df := []; a_start := start; a_end := end_ |} /\
  (forall a, a <> to -> aget a (w_acc w') = aget a (w_acc w)) /\
  (forall a d, bal w' a d = bal w a d - (if a =? from then coins_amt d c else 0) + (if a =? to then coins_amt d c else 0)).
Proof. exact create_vesting_account_spec. Qed.
Print Assumptions C08_create_vesting_account.

Theorem C08_create_vesting_account_rejects :
  forall w from to c start end_,
  (end_ < start \/ (exists x, aget to (w_acc w) = Some x) \/ blocked w to = true) ->
  create_vesting_account w from to c start end_ = None.
Proof. exact create_vesting_account_rejects. Qed.
Print Assumptions C08_create_vesting_account_rejects.

Theorem C08_continuous_vesting_endpoints :
  forall start end_ ov,
  (forall t, t <= start -> vested_amt start end_ t ov = 0) /\
  (forall t, start < t -> end_ <= t -> vested_amt start end_ t ov = ov).
Proof. exact continuous_vesting_endpoints. Qed.
Print Assumptions C08_continuous_vesting_endpoints.

(* non-vacuity *)
Example C08_example :
  match send_to_vesting_account C4EProps.C05.ex_w 7 9 2 125 true with
  | Some r => aget 9 (w_acc (r_world r)) =
      Some {| a_kind := 2; a_ov := [(0, 112)]; a_dv := []; a_df := []; a_start := 0; a_end := 0 |}
      /\ bal (r_world r) 9 0 = 125
  | None => False
  end.
Proof. vm_compute. split; reflexivity. Qed.
