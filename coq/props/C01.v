(* C01 — supply changes only by scheduled mint minus configured burn. *)
From C4E Require Import Base Minter MinterProofs Distributor DistrCoins DistrProofs SupplyProofs Vest VestFrame VestSupply MinterWalk AppBlock.
Open Scope Z_scope.

(* only the minter's BeginBlock creates coins: the supply grows by exactly the (non-negative) amount
   the block mints, which is the growth of the schedule's counters (C02) *)
Theorem C01_minter_block_adds_exactly_the_minted_amount :
  forall w now a w', begin_block w now = Ok (a, w') ->
  mw_supply w' = mw_supply w + a /\ 0 <= a /\
  exists h, mint (mw_params w) (mw_state w) now = Ok (a, mw_state w', h) /\ a = hist_minted h + s_minted (mw_state w') - s_minted (mw_state w).
Proof.
  intros w now a w' H. unfold begin_block in H.
  destruct (mint (mw_params w) (mw_state w) now) as [[[a0 st] h]| |] eqn:E; try discriminate.
  inversion H; subst. simpl. destruct (mint_accounting _ _ _ _ _ _ E) as [H1 H2].
  split; [reflexivity|]. split; [assumption|]. exists h. split; [reflexivity|assumption].
Qed.
Print Assumptions C01_minter_block_adds_exactly_the_minted_amount.

(* one whole BeginBlock of the distributor (all bank calls succeeding): sum of all balances plus
   everything burned is unchanged per denomination — coins leave circulation only through the burn *)
Theorem C01_distributor_block_conserves_coins :
  forall w w' evs calls,
  dist_begin_block w [] = Ok (w', evs, calls) ->
  bank_wf (dw_bal w) -> dc_wf (dw_burned w) -> states_wf (dw_states w) ->
  forall d, btotal d (dw_bal w') + dc_amt d (dw_burned w') = btotal d (dw_bal w) + dc_amt d (dw_burned w).
Proof. exact dist_block_conserves_coins. Qed.
Print Assumptions C01_distributor_block_conserves_coins.

Theorem C01_burn_is_the_only_sink :
  forall b from c ok b', burn b from c = (ok, b') ->
  (ok = true -> bk_burned b' = dc_add (bk_burned b) c) /\ (ok = false -> bk_burned b' = bk_burned b).
Proof. exact burn_only_increases_burned. Qed.
Print Assumptions C01_burn_is_the_only_sink.

Theorem C01_transfer_conserves :
  forall b from to c ok b', bank_ok b -> dc_wf c -> transfer b from to c = (ok, b') -> conserves b b'.
Proof. exact transfer_conserves. Qed.
Print Assumptions C01_transfer_conserves.

(* vesting-pool and vesting-account operations never create or destroy coins: every operation (any
   message, any signer, any payload, accepted or rejected), over histories of any length *)
Theorem C01_vesting_operations_conserve_coins :
  forall ops w d, wtotal (run w ops) d = wtotal w d.
Proof. exact run_conserves_coins. Qed.
Print Assumptions C01_vesting_operations_conserve_coins.

(* ... they only move them between the sender and the recipient of a bank send *)
Theorem C01_send_moves_between_two_accounts :
  forall w from to c w', send_coins w from to c = Some w' ->
  forall a d, bal w' a d = bal w a d - (if a =? from then coins_amt d c else 0) + (if a =? to then coins_amt d c else 0).
Proof. exact send_coins_bal. Qed.
Print Assumptions C01_send_moves_between_two_accounts.

(* the two begin-blockers in the order the application runs them (cfeminter mints the block's amount into
   distributor_main_account, cfedistributor routes and burns): per denomination the sum of all balances changes by
   exactly the schedule's amount for the block minus what the distribution burned, and the supply counter by the amount *)
Theorem C01_block_changes_supply_by_mint_minus_burn :
  forall w now a w', app_begin_block w now = Ok (a, w') -> 0 <= aw_mint_denom w ->
  bank_wf (dw_bal (aw_distr w)) -> dc_wf (dw_burned (aw_distr w)) -> states_wf (dw_states (aw_distr w)) ->
  0 <= a /\ mw_supply (aw_minter w') = mw_supply (aw_minter w) + a /\
  forall d, btotal d (dw_bal (aw_distr w')) - btotal d (dw_bal (aw_distr w)) =
            (if d =? aw_mint_denom w then a else 0) - (dc_amt d (dw_burned (aw_distr w')) - dc_amt d (dw_burned (aw_distr w))).
Proof. exact app_block_supply. Qed.
Print Assumptions C01_block_changes_supply_by_mint_minus_burn.

(* ... and over whole histories of blocks: Σ balances + burned grows by exactly what the schedule minted *)
Theorem C01_history_changes_supply_by_mint_minus_burn :
  forall times w tot w', app_run w times = Ok (tot, w') -> 0 <= aw_mint_denom w ->
  bank_wf (dw_bal (aw_distr w)) -> dc_wf (dw_burned (aw_distr w)) -> states_wf (dw_states (aw_distr w)) ->
  0 <= tot /\ mw_supply (aw_minter w') = mw_supply (aw_minter w) + tot /\
  forall d, btotal d (dw_bal (aw_distr w')) + dc_amt d (dw_burned (aw_distr w')) =
            btotal d (dw_bal (aw_distr w)) + dc_amt d (dw_burned (aw_distr w)) + (if d =? aw_mint_denom w then tot else 0).
Proof. exact app_history_supply. Qed.
Print Assumptions C01_history_changes_supply_by_mint_minus_burn.

(* C01 with C02: from a genesis with zero counters, after any strictly increasing sequence of block times, everything that
   exists in the mint denomination (all balances plus everything burned) has grown by exactly the integer part of the
   schedule's cumulative emission at the last block time, and nothing in any other denomination — for every validated
   schedule, every distributor configuration and state, every block cadence *)
Theorem C01_history_supply_is_initial_plus_schedule_minus_burn :
  forall times w tot w' Tl,
  app_run w times = Ok (tot, w') -> 0 <= aw_mint_denom w ->
  bank_wf (dw_bal (aw_distr w)) -> dc_wf (dw_burned (aw_distr w)) -> states_wf (dw_states (aw_distr w)) ->
  let p := mw_params (aw_minter w) in let g := mw_state (aw_minter w) in
  params_valid p = true -> periods_sane_from (mp_start p) (mp_minters p) -> mp_denom_ok p = true -> 0 <= mp_start p ->
  match mp_minters p with cur :: _ => s_seq g = m_seq cur | [] => True end -> s_minted g = 0 -> s_rem_prev g = 0 ->
  s_last g <= Tl -> increasing Tl times -> Forall (fun t => t <= MAXI64) times -> times <> [] ->
  tot = (if last times Tl <? mp_start p then 0 else dec_trunc_int (exact_sum (mp_start p) (mp_minters p) (last times Tl))) /\
  forall d, btotal d (dw_bal (aw_distr w')) + dc_amt d (dw_burned (aw_distr w')) =
            btotal d (dw_bal (aw_distr w)) + dc_amt d (dw_burned (aw_distr w)) + (if d =? aw_mint_denom w then tot else 0).
Proof. exact app_history_supply_is_schedule. Qed.
Print Assumptions C01_history_supply_is_initial_plus_schedule_minus_burn.

From C4EProps Require C03 C05.
Example C01_example :
  (match dist_begin_block C4EProps.C03.ex_dworld [] with
   | Ok (w1, _, _) => btotal 0 (dw_bal w1) + dc_amt 0 (dw_burned w1) = 1001 /\ 0 < dc_amt 0 (dw_burned w1)
   | _ => False end) /\
  wtotal (run C4EProps.C05.ex_w [OCreatePool 7 3 700 50 1; OSend 7 9 2 120 true; OTime 400; OWithdraw 7]) 0 = wtotal C4EProps.C05.ex_w 0.
Proof. vm_compute. repeat split. Qed.

(* non-vacuity of the history theorems: the schedule of C02's example feeding the graph of C03's example; blocks at 300.5 s,
   999 s and 1500 s mint 1000 in total, of which the distribution burns 10% *)
Example C01_history_example :
  let p := {| mp_denom_ok := true; mp_start := 0;
              mp_minters := [{| m_seq := 1; m_end := Some (1000 * 1000000000); m_cfg := CLinear 1000 |};
                             {| m_seq := 2; m_end := None; m_cfg := CNone |}] |} in
  let g := {| s_seq := 1; s_minted := 0; s_rem := 0; s_rem_prev := 0; s_last := 0 |} in
  let w := {| aw_minter := {| mw_params := p; mw_state := g; mw_hist := []; mw_supply := 1001 |};
              aw_distr := C4EProps.C03.ex_dworld; aw_mint_denom := 0 |} in
  match app_run w [300500000000; 999000000000; 1500000000000] with
  | Ok (tot, w') => tot = 1000 /\ mw_supply (aw_minter w') = 2001 /\
                    btotal 0 (dw_bal (aw_distr w')) = 1801 /\ dc_amt 0 (dw_burned (aw_distr w')) = 200
  | _ => False end.
Proof. vm_compute. repeat split. Qed.
