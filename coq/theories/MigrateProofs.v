(* MigrateProofs.v — the 2 -> 3 parameter migrations of the v1.2.0 upgrade: what is migrated validates, describes the
   same schedule / shares, and the migration is refused exactly when the new rules are stricter than the legacy ones. *)
From C4E Require Import Base Minter Distributor Params Migrate.
From Coq Require Import Lia ZifyBool.
Open Scope Z_scope.

(* ------------------------------------------------------------------ every legacy-valid minter is consistent *)
Lemma lminters_valid_all pid pend ms :
  lminters_valid_from pid pend ms = true -> forallb lminter_valid ms = true.
Proof.
  revert pid pend; induction ms as [|m t IH]; intros pid pend H; [discriminate H|].
  destruct t as [|m2 t2].
  - cbn [lminters_valid_from] in H. cbn [forallb].
    apply andb_true_iff in H as [_ H2]. rewrite H2. reflexivity.
  - change (lminters_valid_from pid pend (m :: m2 :: t2)) with
      ((if pid =? 0 then 0 <? lm_seq m else lm_seq m =? pid + 1)
       && match lm_end m with
          | Some e => (pend <? e) && lminter_valid m && lminters_valid_from (lm_seq m) e (m2 :: t2)
          | None => false end) in H.
    apply andb_true_iff in H as [_ H2].
    destruct (lm_end m) as [e|]; [|discriminate H2].
    apply andb_true_iff in H2 as [H2 H3]. apply andb_true_iff in H2 as [_ H2].
    change (forallb lminter_valid (m :: m2 :: t2)) with (lminter_valid m && forallb lminter_valid (m2 :: t2)).
    rewrite H2. cbn [andb]. exact (IH _ _ H3).
Qed.

(* for a minter the legacy rules accept, the type string and the configurations that are present agree *)
Lemma conv_is_view m : lminter_valid m = true -> conv_minter m = legacy_view_minter m.
Proof.
  unfold lminter_valid, conv_minter, legacy_view_minter. intros H.
  destruct (lm_type m =? 0) eqn:E0.
  - assert (lm_type m =? 2 = false) as -> by lia. assert (lm_type m =? 1 = false) as -> by lia.
    destruct (lm_lin m), (lm_exp m) as [[[? ?] ?]|]; try discriminate H; reflexivity.
  - destruct (lm_type m =? 1) eqn:E1.
    + assert (lm_type m =? 2 = false) as -> by lia.
      destruct (lm_exp m) as [[[? ?] ?]|]; [discriminate H|].
      destruct (lm_end m); [|discriminate H]. destruct (lm_lin m); [reflexivity|discriminate H].
    + destruct (lm_type m =? 2) eqn:E2; [|discriminate H].
      destruct (lm_lin m); [discriminate H|]. destruct (lm_exp m) as [[[? ?] ?]|]; [reflexivity|discriminate H].
Qed.

Lemma map_conv_is_view ms : forallb lminter_valid ms = true -> map conv_minter ms = map legacy_view_minter ms.
Proof.
  induction ms as [|m t IH]; cbn [forallb map]; intros H; [reflexivity|].
  apply andb_true_iff in H as [H1 H2]. rewrite (conv_is_view _ H1), (IH H2). reflexivity.
Qed.

(* ------------------------------------------------------------------ the migrated minter parameters *)
Theorem migrated_minter_params_validate c p :
  migrate_minter_v3 c = Ok p -> params_valid p = true /\ mp_denom_ok p = true.
Proof.
  unfold migrate_minter_v3. destruct (lconfig_valid c); cbn [negb]; [|discriminate].
  destruct (lc_denom_nonempty c); cbn [andb]; [|discriminate].
  destruct (lc_denom_ok c) eqn:D; cbn [andb]; [|discriminate].
  match goal with |- (if ?b then _ else _) = _ -> _ => destruct b eqn:V end; [|discriminate].
  intros H. injection H as <-. split; [exact V|reflexivity].
Qed.

Theorem migrated_minter_params_describe_the_legacy_schedule c p :
  migrate_minter_v3 c = Ok p -> p = legacy_view c.
Proof.
  unfold migrate_minter_v3. destruct (lconfig_valid c) eqn:L; cbn [negb]; [|discriminate].
  match goal with |- (if ?b then _ else _) = _ -> _ => destruct b end; [|discriminate].
  intros H. injection H as <-. unfold legacy_view. f_equal.
  apply map_conv_is_view. exact (lminters_valid_all _ _ _ L).
Qed.

(* consequently every block mints, and every inflation query answers, exactly what the legacy description gives *)
Corollary migrated_minter_behaves_like_legacy c p st now supply :
  migrate_minter_v3 c = Ok p ->
  mint p st now = mint (legacy_view c) st now /\
  current_inflation p st supply now = current_inflation (legacy_view c) st supply now.
Proof. intros H. rewrite (migrated_minter_params_describe_the_legacy_schedule _ _ H). split; reflexivity. Qed.

Corollary migrated_minter_keeps_ids_and_ends c p :
  migrate_minter_v3 c = Ok p ->
  mp_start p = lc_start c /\
  map m_seq (mp_minters p) = map lm_seq (lc_minters c) /\
  map m_end (mp_minters p) = map lm_end (lc_minters c).
Proof.
  intros H. rewrite (migrated_minter_params_describe_the_legacy_schedule _ _ H). unfold legacy_view. cbn [mp_start mp_minters].
  rewrite !map_map. repeat split.
Qed.

(* the state's minter is still there: sequence ids are kept *)
Corollary migrated_minter_keeps_current_period c p id :
  migrate_minter_v3 c = Ok p ->
  contains_minter p id = existsb (fun m => lm_seq m =? id) (lc_minters c).
Proof.
  intros H. rewrite (migrated_minter_params_describe_the_legacy_schedule _ _ H). unfold contains_minter, legacy_view. cbn [mp_minters].
  induction (lc_minters c) as [|m t IH]; cbn [map existsb]; [reflexivity|]. rewrite IH. reflexivity.
Qed.

(* ------------------------------------------------------------------ when is the migration refused? *)
(* the new rules differ from the legacy ones in one point: an exponential-step amount must be positive *)
Definition exp_amount_positive (m : lminter) : bool :=
  match lm_exp m with Some (a, _, _) => 0 <? a | None => true end.

Lemma cfg_valid_conv m :
  lminter_valid m = true -> cfg_valid (conv_minter m) = exp_amount_positive m.
Proof.
  intros H. rewrite (conv_is_view _ H). revert H.
  unfold lminter_valid, legacy_view_minter, cfg_valid, exp_amount_positive. cbn [m_cfg m_end].
  destruct (lm_type m =? 0).
  - destruct (lm_lin m), (lm_exp m) as [[[? ?] ?]|]; intros H; try discriminate H; reflexivity.
  - destruct (lm_type m =? 1).
    + destruct (lm_exp m) as [[[? ?] ?]|]; [discriminate|]. destruct (lm_end m); [|discriminate].
      destruct (lm_lin m); [|discriminate]. intros H. rewrite H. reflexivity.
    + destruct (lm_type m =? 2); [|discriminate]. destruct (lm_lin m); [discriminate|].
      destruct (lm_exp m) as [[[a s] mu]|]; [|discriminate]. intros H.
      apply andb_true_iff in H as [H H3]. apply andb_true_iff in H as [H1 H2]. rewrite H2, H3.
      destruct (0 <? a); reflexivity.
Qed.

Lemma new_rules_vs_legacy pid pend ms :
  lminters_valid_from pid pend ms = true ->
  minters_valid_from pid pend (map conv_minter ms) = forallb exp_amount_positive ms.
Proof.
  revert pid pend; induction ms as [|m t IH]; intros pid pend H; [discriminate H|].
  destruct t as [|m2 t2].
  - cbn [lminters_valid_from] in H. apply andb_true_iff in H as [H Hv]. apply andb_true_iff in H as [Hid He].
    cbn [map minters_valid_from forallb]. rewrite (cfg_valid_conv _ Hv).
    change (m_seq (conv_minter m)) with (lm_seq m). change (m_end (conv_minter m)) with (lm_end m).
    rewrite Hid, He. cbn [andb]. rewrite andb_true_r. reflexivity.
  - change (lminters_valid_from pid pend (m :: m2 :: t2)) with
      ((if pid =? 0 then 0 <? lm_seq m else lm_seq m =? pid + 1)
       && match lm_end m with
          | Some e => (pend <? e) && lminter_valid m && lminters_valid_from (lm_seq m) e (m2 :: t2)
          | None => false end) in H.
    apply andb_true_iff in H as [Hid H2].
    destruct (lm_end m) as [e|] eqn:Ee; [|discriminate H2].
    apply andb_true_iff in H2 as [H2 H3]. apply andb_true_iff in H2 as [Hpe Hv].
    change (map conv_minter (m :: m2 :: t2)) with (conv_minter m :: conv_minter m2 :: map conv_minter t2).
    change (minters_valid_from pid pend (conv_minter m :: conv_minter m2 :: map conv_minter t2)) with
      ((if pid =? 0 then 0 <? m_seq (conv_minter m) else m_seq (conv_minter m) =? pid + 1)
       && match m_end (conv_minter m) with
          | Some e => (pend <? e) && minters_valid_from (m_seq (conv_minter m)) e (conv_minter m2 :: map conv_minter t2)
          | None => false end
       && cfg_valid (conv_minter m)).
    change (m_seq (conv_minter m)) with (lm_seq m). change (m_end (conv_minter m)) with (lm_end m).
    rewrite Ee, Hid, Hpe, (cfg_valid_conv _ Hv). cbn [andb].
    change (conv_minter m2 :: map conv_minter t2) with (map conv_minter (m2 :: t2)).
    rewrite (IH _ _ H3).
    change (forallb exp_amount_positive (m :: m2 :: t2)) with (exp_amount_positive m && forallb exp_amount_positive (m2 :: t2)).
    apply andb_comm.
Qed.

Theorem minter_migration_refused_exactly_when c :
  lconfig_valid c = true ->
  (exists p, migrate_minter_v3 c = Ok p) <->
  lc_denom_nonempty c = true /\ lc_denom_ok c = true /\ forallb exp_amount_positive (lc_minters c) = true.
Proof.
  intros L. unfold migrate_minter_v3. rewrite L. cbn [negb]. unfold params_valid. cbn [mp_start mp_minters].
  unfold lconfig_valid in L. rewrite (new_rules_vs_legacy _ _ _ L).
  destruct (lc_denom_nonempty c), (lc_denom_ok c), (forallb exp_amount_positive (lc_minters c)); cbn [andb]; split;
    try (intros [p Hp]; discriminate Hp); try (intros (? & ? & ?); discriminate); try (intros _; eexists; reflexivity);
    intros _; repeat split.
Qed.

(* ------------------------------------------------------------------ distributor and vesting parameters *)
Theorem migrated_distr_params_are_the_legacy_ones subs s :
  migrate_distr_v3 subs = Ok s -> s = subs /\ dparams_valid s = true.
Proof.
  unfold migrate_distr_v3. destruct (dparams_valid subs) eqn:V; [|discriminate].
  intros H. injection H as <-. split; [reflexivity|exact V].
Qed.

Theorem distr_migration_refused_exactly_when subs :
  (exists s, migrate_distr_v3 subs = Ok s) <-> dparams_valid subs = true.
Proof.
  unfold migrate_distr_v3. destruct (dparams_valid subs); split; try (intros [? H]; discriminate H); try discriminate;
    intros _; [|eexists]; reflexivity.
Qed.

(* ------------------------------------------------------------------ v1.1.0: percent -> fraction *)
Theorem share_from_percent_is_percent_over_100 pct :
  0 <= pct -> -50 <= 100 * share_from_percent pct - pct <= 50.
Proof.
  intros Hp. unfold share_from_percent, dec_quo.
  set (q := Z.quot (pct * P * P) (100 * P)).
  pose proof (chop_round_bound q) as Hb.
  assert (HP : 0 < P) by exact P_pos.
  assert (Hq : q * (100 * P) <= pct * P * P < q * (100 * P) + 100 * P).
  { apply quot_nonneg_spec; nia. }
  remember (chop_round q) as s. clear Heqs.
  assert (H1 : 100 * q <= pct * P) by nia.
  assert (H2 : pct * P < 100 * q + 100) by nia.
  split.
  - assert (- 50 * P - 100 < (100 * s - pct) * P) by nia.
    assert (P > 100) by reflexivity. nia.
  - assert ((100 * s - pct) * P <= 50 * P) by nia. nia.
Qed.

(* v1.1.0: periodic reduction -> exponential step: one step is ReductionPeriodLength mint periods, provided the
   product of the two int32 values fits int32 (the code multiplies them as int32) *)
Theorem periodic_conversion_keeps_the_rate mp ma rpl f :
  0 < mp -> 0 < rpl -> mp * rpl < 2147483648 ->
  conv_periodic mp ma rpl f = CExp (ma * rpl) (mp * rpl * SECOND) f.
Proof.
  intros H1 H2 H3. unfold conv_periodic, wrap32. f_equal.
  rewrite Z.mod_small by nia. f_equal. lia.
Qed.

Example periodic_conversion_wraps_beyond_int32 :
  conv_periodic 31536000 1000 100 500000000000000000 = CExp 100000 (-1141367296 * SECOND) 500000000000000000.
Proof. vm_compute. reflexivity. Qed.

(* v1.1.0 store migration of the vesting pools: what a pool still locks is unchanged (value is preserved although the
   representation changes from "last modification" counters to initially-locked / sent / withdrawn) *)
Theorem v1_pool_migration_preserves_locked p :
  let '(l, w, se) := migrate_v1_pool p in l - se - w = v1_currently_locked p /\ w = v1_withdrawn p /\ l = v1_vested p.
Proof. unfold migrate_v1_pool, v1_currently_locked. repeat split; lia. Qed.

(* the new pool satisfies the solvency bounds exactly when the old counters were consistent *)
Theorem v1_pool_migration_bounds p :
  let '(l, w, se) := migrate_v1_pool p in
  (0 <= w /\ 0 <= se /\ w + se <= l) <-> (0 <= v1_withdrawn p /\ v1_lmv p - v1_lmw p <= v1_vested p - v1_withdrawn p /\ v1_lmw p <= v1_lmv p).
Proof. unfold migrate_v1_pool. lia. Qed.

Theorem v1_mstate_migration_keeps_counters po mi re rp s :
  migrate_v1_mstate po mi re rp = Some s -> s = (wrap_u32 po, mi, re, rp) /\ 0 <= mi /\ 0 <= re /\ 0 <= rp.
Proof. unfold migrate_v1_mstate. destruct ((mi <? 0) || (rp <? 0) || (re <? 0)) eqn:E; [discriminate|]. intros H; injection H as <-. repeat split; lia. Qed.

(* ------------------------------------------------------------------ non-vacuity *)
Example migrate_example :
  let c := {| lc_denom_nonempty := true; lc_denom_ok := true; lc_start := 1000;
              lc_minters := [ {| lm_seq := 2; lm_end := Some 5000; lm_type := 1; lm_lin := Some 777; lm_exp := None |};
                              {| lm_seq := 3; lm_end := None; lm_type := 2; lm_lin := None; lm_exp := Some (40, 100, 500000000000000000) |} ] |} in
  lconfig_valid c = true /\
  migrate_minter_v3 c = Ok {| mp_denom_ok := true; mp_start := 1000;
                              mp_minters := [ {| m_seq := 2; m_end := Some 5000; m_cfg := CLinear 777 |};
                                              {| m_seq := 3; m_end := None; m_cfg := CExp 40 100 500000000000000000 |} ] |}.
Proof. vm_compute. split; reflexivity. Qed.

Example migrate_refuses_zero_exponential_amount :
  let c := {| lc_denom_nonempty := true; lc_denom_ok := true; lc_start := 1000;
              lc_minters := [ {| lm_seq := 1; lm_end := None; lm_type := 2; lm_lin := None; lm_exp := Some (0, 100, 500000000000000000) |} ] |} in
  lconfig_valid c = true /\ migrate_minter_v3 c = Err.
Proof. vm_compute. split; reflexivity. Qed.

(* ------------------------------------------------------------------ v1.1.0: the distributor's state store *)
Definition dcoins_of (d : Z) (cs : list (Z * Z)) : Z := zsum (map snd (filter (fun c => fst c =? d) cs)).
Definition v1d_clean (s : v1dstate) : Prop :=
  forallb (fun c => 0 <=? snd c) (vd_coins s) = true /\ (vd_burn s = false -> vd_acct s <> None).

Lemma dkset_fresh_in {A} k (v : A) l e : In e (dkset k v l) -> e = (k, v) \/ In e l.
Proof.
  induction l as [|[k' v'] t IH]; cbn [dkset In]; [intuition|].
  destruct (k <? k'); cbn [In]; [intuition|]. destruct (k =? k'); cbn [In]; intuition.
Qed.

Lemma dkset_fresh {A} (f : A -> Z) k (v : A) l : ~ In k (map fst l) ->
  length (dkset k v l) = S (length l) /\ zsum (map (fun e => f (snd e)) (dkset k v l)) = f v + zsum (map (fun e => f (snd e)) l) /\
  In (k, v) (dkset k v l) /\ (forall e, In e l -> In e (dkset k v l)) /\ (forall x, In x (map fst (dkset k v l)) <-> x = k \/ In x (map fst l)).
Proof.
  induction l as [|[k' v'] t IH]; cbn [dkset map fst snd zsum In length]; intros H.
  - repeat split; try lia; try (left; reflexivity); intuition.
  - destruct (k <? k') eqn:E1; cbn [map fst snd zsum In length].
    + repeat split; try lia; try (left; reflexivity); intuition.
    + destruct (k =? k') eqn:E2; [exfalso; apply H; left; lia|]. cbn [map fst snd zsum In length].
      destruct IH as (A1 & A2 & A3 & A4 & A5); [tauto|]. split; [lia|]. split; [lia|]. split; [right; exact A3|].
      split; [intros e [He|He]; [left; exact He|right; apply A4; exact He]|]. intros x. rewrite A5. intuition.
Qed.

(* when no two old states map to the same new key, nothing is negative and every non-burn state has an account, the migration
   succeeds, stores exactly one new state per old state — under the key of its account, the burn state under the burn key
   without account —, and every state keeps its remains; per denomination the store holds together what it held before *)
Theorem v1_dstates_migration_keeps_remains bkey l :
  NoDup (map (v1d_newkey bkey) l) -> Forall v1d_clean l ->
  exists st, migrate_v1_dstates bkey l [] = Ok st /\ length st = length l /\
    (forall s, In s l -> In (v1d_newkey bkey s, (vd_burn s, negb (vd_burn s), vd_coins s)) st) /\
    forall d, zsum (map (fun e => dcoins_of d (snd (snd e))) st) = zsum (map (fun s => dcoins_of d (vd_coins s)) l).
Proof.
  intros Hnd Hcl.
  assert (G : forall l acc, NoDup (map (v1d_newkey bkey) l) -> Forall v1d_clean l ->
            (forall s, In s l -> ~ In (v1d_newkey bkey s) (map fst acc)) ->
            exists st, migrate_v1_dstates bkey l acc = Ok st /\ length st = (length l + length acc)%nat /\
              (forall s, In s l -> In (v1d_newkey bkey s, (vd_burn s, negb (vd_burn s), vd_coins s)) st) /\ (forall e, In e acc -> In e st) /\
              forall d, zsum (map (fun e => dcoins_of d (snd (snd e))) st) =
                        zsum (map (fun s => dcoins_of d (vd_coins s)) l) + zsum (map (fun e => dcoins_of d (snd (snd e))) acc)).
  { clear l Hnd Hcl. induction l as [|s t IH]; intros acc Hnd Hcl Hfr; cbn [migrate_v1_dstates map zsum length].
    - exists acc. split; [reflexivity|]. split; [reflexivity|]. split; [intros s []|]. split; [intros e He; exact He|]. intros d; lia.
    - inversion Hnd as [|? ? Hni Hnd']; subst. inversion Hcl as [|? ? [Hpos Hac] Hcl']; subst.
      replace (negb (vd_burn s) && match vd_acct s with None => true | Some _ => false end) with false
        by (destruct (vd_burn s); [reflexivity|]; destruct (vd_acct s); [reflexivity|]; exfalso; apply Hac; reflexivity).
      replace (existsb (fun c => snd c <? 0) (vd_coins s)) with false.
      2:{ symmetry. apply Bool.not_true_iff_false. intros Hex. apply existsb_exists in Hex as (c & Hc & Hn).
          rewrite forallb_forall in Hpos. specialize (Hpos c Hc). lia. }
      set (k := v1d_newkey bkey s). set (v := (vd_burn s, negb (vd_burn s), vd_coins s)).
      assert (Hk : ~ In k (map fst acc)) by (apply Hfr; left; reflexivity).
      destruct (IH (dkset k v acc) Hnd' Hcl') as (st & E & Hlen & Hin & Hacc & Hsum).
      { intros s' Hs' Hc. destruct (dkset_fresh (fun _ => 0) k v acc Hk) as (_ & _ & _ & _ & A5). apply A5 in Hc. destruct Hc as [Hc|Hc].
        - apply Hni. unfold k in Hc. rewrite <- Hc. apply in_map. exact Hs'.
        - apply (Hfr s'); [right; exact Hs'|exact Hc]. }
      exists st. split; [exact E|]. destruct (dkset_fresh (fun _ => 0) k v acc Hk) as (L1 & _ & I1 & I2 & _).
      split; [rewrite Hlen, L1; lia|]. split.
      + intros s' [<-|Hs']; [apply Hacc; exact I1|apply Hin; exact Hs'].
      + split; [intros e He; apply Hacc; apply I2; exact He|]. intros d. rewrite Hsum.
        destruct (dkset_fresh (fun x => dcoins_of d (snd x)) k v acc Hk) as (_ & S1 & _). rewrite S1. subst v. cbn [snd]. lia. }
  destruct (G l [] Hnd Hcl) as (st & E & Hlen & Hin & _ & Hsum); [intros s _ []|].
  exists st. split; [exact E|]. split; [rewrite Hlen; cbn [length]; lia|]. split; [exact Hin|]. intros d. rewrite Hsum. cbn [map zsum]. lia.
Qed.
