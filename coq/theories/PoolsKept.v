(* PoolsKept.v — no vesting message ever removes a stored pool: for every operation (any message, any signer, any payload, accepted
   or rejected) and every owner, the names of the owner's pools before the operation are a prefix of the names afterwards — pool
   creation appends, withdrawal and sending update counters in place, everything else leaves the pool store alone.  Over histories:
   a pool, once stored, is stored for ever (C05, C06: what it locks always has a record standing for it). *)
From C4E Require Import Base Vest VestFrame VestProofs SolventProofs.
From Coq Require Import Lia ZifyBool.
Open Scope Z_scope.

Definition pool_names (w : world) (o : Z) : list Z := map p_name (pools_of (w_pools w) o).

Lemma pools_of_aset_other l o o' (ps : list pool) : o' <> o -> pools_of (aset o ps l) o' = pools_of l o'.
Proof. intros H. unfold pools_of. rewrite aget_aset_other by exact H. reflexivity. Qed.

Lemma names_withdraw now ps : map p_name (map (pool_withdraw now) ps) = map p_name ps.
Proof. rewrite map_map. apply map_ext. intros p. reflexivity. Qed.

Lemma find_pool_name name ps p : find_pool name ps = Some p -> p_name p = name.
Proof.
  induction ps as [|q t IH]; cbn [find_pool]; [discriminate|].
  destruct (find_pool name t) as [r|]; [intros H; injection H as <-; apply IH; reflexivity|].
  destruct (p_name q =? name) eqn:E; [intros H; injection H as <-; lia|discriminate].
Qed.

Lemma names_replace_last name q ps : p_name q = name -> map p_name (replace_last_pool name q ps) = map p_name ps.
Proof.
  intros Hq. induction ps as [|p t IH]; cbn [replace_last_pool map]; [reflexivity|].
  destruct (find_pool name t); cbn [map]; [rewrite IH; reflexivity|].
  destruct (p_name p =? name) eqn:E; cbn [map]; [f_equal; lia|reflexivity].
Qed.

Theorem step_keeps_pool_names w op o : exists extra, pool_names (fst (step w op)) o = pool_names w o ++ extra.
Proof.
  assert (Same : forall w', w_pools w' = w_pools w -> exists extra, pool_names w' o = pool_names w o ++ extra).
  { intros w' H. exists []. unfold pool_names. rewrite H, app_nil_r. reflexivity. }
  destruct op as [t|owner name amount duration vt|owner|owner to name amount restart|from to c s e|from to c|from to ds|from to ds|a b amt]; cbn [step fst].
  - apply Same. reflexivity.
  - destruct (create_pool w owner name amount duration vt) as [w'|] eqn:E; cbn [fst]; [|apply Same; reflexivity].
    unfold create_pool in E. destruct (aget vt (w_vtypes w)); [|discriminate].
    destruct (name =? 0); [discriminate|]. destruct (amount <? 0); [discriminate|]. destruct (duration <=? 0); [discriminate|].
    destruct (owner <? 0); [discriminate|]. destruct (bal w owner (w_denom w) <? amount); [discriminate|].
    destruct (existsb _ _); [discriminate|].
    destruct (send_coins w owner MODULE (one_coin (w_denom w) amount)) as [w1|] eqn:Es; [|discriminate]. injection E as <-.
    pose proof (send_coins_static _ _ _ _ _ Es) as (_ & _ & Hp & _). unfold pool_names. rewrite pools_set_pools, Hp.
    destruct (Z.eq_dec o owner) as [->|Hne].
    + rewrite aget_aset_pools_of. unfold pools_of, get_pools. destruct (aget owner (w_pools w)) as [ps|]; rewrite map_app; eexists; reflexivity.
    + rewrite pools_of_aset_other by exact Hne. exists []. rewrite app_nil_r. reflexivity.
  - destruct (withdraw_all w owner) as [r|] eqn:E; cbn [fst]; [|apply Same; reflexivity].
    destruct (withdraw_all_pools _ _ _ E) as (ps & Hps & Hwp). unfold pool_names. rewrite Hwp. exists []. rewrite app_nil_r.
    destruct (Z.eq_dec o owner) as [->|Hne].
    + rewrite aget_aset_pools_of. unfold pools_of. unfold get_pools in Hps. rewrite Hps. apply names_withdraw.
    + rewrite pools_of_aset_other by exact Hne. reflexivity.
  - destruct (send_to_vesting_account w owner to name amount restart) as [r|] eqn:E; cbn [fst]; [|apply Same; reflexivity].
    destruct (send_pools _ _ _ _ _ _ _ E) as (ps & p0 & Hps & Hf & _ & Hwp). unfold pool_names. rewrite Hwp. exists []. rewrite app_nil_r.
    destruct (Z.eq_dec o owner) as [->|Hne].
    + rewrite aget_aset_pools_of. unfold pools_of. unfold get_pools in Hps. rewrite Hps.
      rewrite names_replace_last by (cbn [pool_add_sent p_name]; eapply find_pool_name; exact Hf). apply names_withdraw.
    + rewrite !pools_of_aset_other by exact Hne. reflexivity.
  - destruct (create_vesting_account w from to c s e) as [w'|] eqn:E; cbn [fst]; [|apply Same; reflexivity].
    unfold create_vesting_account in E. destruct (existsb _ c); [discriminate|]. destruct (e <? s); [discriminate|].
    destruct (from <? 0); [discriminate|]. destruct (to <? 0); [discriminate|]. destruct (blocked w to); [discriminate|].
    destruct (aget to (w_acc w)); [discriminate|].
    pose proof (send_coins_static _ _ _ _ _ E) as (_ & _ & Hp & _). apply Same. rewrite Hp. reflexivity.
  - destruct (split_vesting w from to c) as [w'|] eqn:E; cbn [fst]; [|apply Same; reflexivity].
    unfold split_vesting in E. destruct (negb (coins_valid c)); [discriminate|]. destruct (from <? 0); [discriminate|]. destruct (to <? 0); [discriminate|].
    apply Same. exact (proj1 (split_like_frame _ _ _ _ _ E)).
  - destruct (move_available w from to ds) as [w'|] eqn:E; cbn [fst]; [|apply Same; reflexivity].
    unfold move_available in E. destruct (from <? 0); [discriminate|]. destruct (to <? 0); [discriminate|].
    apply Same. exact (proj1 (split_like_frame _ _ _ _ _ E)).
  - destruct (move_by_denoms w from to ds) as [w'|] eqn:E; cbn [fst]; [|apply Same; reflexivity].
    unfold move_by_denoms in E. destruct (from <? 0); [discriminate|]. destruct (to <? 0); [discriminate|].
    destruct ds; [discriminate|]. destruct (has_dup _); [discriminate|].
    apply Same. exact (proj1 (split_like_frame _ _ _ _ _ E)).
  - destruct (delegate w a b amt) as [w'|] eqn:E; cbn [fst]; [|apply Same; reflexivity].
    unfold delegate in E. destruct (amt <=? 0); [discriminate|]. destruct (bal w a 0 <? amt); [discriminate|]. injection E as <-.
    apply Same. rewrite pools_set_bal.
    match goal with |- w_pools (match ?X with Some _ => _ | None => _ end) = _ => destruct X as [x|] end; [|reflexivity].
    destruct (a_kind x =? 2); reflexivity.
Qed.

(* over histories: a stored pool stays stored — the names an owner has at any point are a prefix of the names after any further
   operations, by any signers, with any payloads *)
Theorem run_keeps_pool_names ops : forall w o, exists extra, pool_names (run w ops) o = pool_names w o ++ extra.
Proof.
  induction ops as [|op t IH]; intros w o; unfold run; cbn [fold_left]; [exists []; rewrite app_nil_r; reflexivity|].
  destruct (step_keeps_pool_names w op o) as [e1 H1]. destruct (IH (fst (step w op)) o) as [e2 H2].
  exists (e1 ++ e2). unfold run in H2. rewrite H2, H1, app_assoc. reflexivity.
Qed.

Corollary stored_pool_is_never_dropped ops w o name : In name (pool_names w o) -> In name (pool_names (run w ops) o).
Proof. intros H. destruct (run_keeps_pool_names ops w o) as [e E]. rewrite E. apply in_or_app. left. exact H. Qed.
