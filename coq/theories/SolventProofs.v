(* SolventProofs.v — C05: the vesting module account is exactly backed by its pools, for every
   history of vesting-world operations; rejected messages change nothing. *)
From C4E Require Import Base Vest VestFrame VestProofs.
From Coq Require Import ZifyBool.
Open Scope Z_scope.

Definition pools_sum (ps : list pool) : Z := zsum (map pool_currently_locked ps).
Definition all_pools_sum (l : list (Z * list pool)) : Z := zsum (map (fun e => pools_sum (snd e)) l).
Definition pool_ok (p : pool) : Prop := 0 <= p_withdrawn p /\ 0 <= p_sent p /\ p_withdrawn p + p_sent p <= p_locked p.
Definition pools_ok (l : list (Z * list pool)) : Prop := Forall (fun e => Forall pool_ok (snd e)) l.

Record Solvent (w : world) : Prop := {
  sv_nodup : NoDup (map fst (w_pools w));
  sv_blocked : blocked w MODULE = true;
  sv_backed : bal w MODULE (w_denom w) = all_pools_sum (w_pools w);
  sv_ok : pools_ok (w_pools w) }.

(* signers are never the module account (it has no key); staking's bonded pool is another account *)
Definition op_wf (o : op) : Prop :=
  match o with
  | OCreatePool owner _ _ _ _ => owner <> MODULE
  | OCreateVA from _ _ _ _ => from <> MODULE
  | OSplit from _ _ | OMove from _ _ | OMoveDenoms from _ _ => from <> MODULE
  | ODelegate a b _ => a <> MODULE /\ b <> MODULE
  | _ => True
  end.

(* ---------------------------------------------------------------- assoc-list sums --------- *)
Lemma aset_keys {A} k (v : A) l : In k (map fst l) -> map fst (aset k v l) = map fst l.
Proof.
  induction l as [|[k' v'] t IH]; simpl; [tauto|].
  destruct (k =? k') eqn:E; simpl.
  - intros _. f_equal. lia.
  - intros [H|H]; [lia|]. f_equal. apply IH; assumption.
Qed.

Lemma aget_none_notin {A} k (l : list (Z * A)) : aget k l = None <-> ~ In k (map fst l).
Proof.
  induction l as [|[k' v'] t IH]; simpl; [tauto|].
  destruct (k =? k') eqn:E; split; intros H.
  - discriminate.
  - exfalso. apply H. left. lia.
  - intros [Hc|Hc]; [lia|]. apply IH in H. contradiction.
  - apply IH. intros Hc. apply H. right; assumption.
Qed.

Lemma aset_keys_new {A} k (v : A) l : ~ In k (map fst l) -> map fst (aset k v l) = map fst l ++ [k].
Proof.
  induction l as [|[k' v'] t IH]; simpl; [reflexivity|].
  intros H. destruct (k =? k') eqn:E; simpl.
  - exfalso. apply H. left. lia.
  - f_equal. apply IH. tauto.
Qed.

Lemma NoDup_snoc (l : list Z) k : NoDup l -> ~ In k l -> NoDup (l ++ [k]).
Proof.
  induction l as [|x t IH]; simpl; intros Hnd Hnin.
  - constructor; [tauto|constructor].
  - inversion Hnd; subst. constructor.
    + rewrite in_app_iff. simpl. intros [H|[H|[]]]; [contradiction|]. apply Hnin. left; congruence.
    + apply IH; tauto.
Qed.

Lemma NoDup_aset {A} k (v : A) l : NoDup (map fst l) -> NoDup (map fst (aset k v l)).
Proof.
  intros H. destruct (in_dec Z.eq_dec k (map fst l)) as [Hin|Hnin].
  - rewrite aset_keys by assumption. assumption.
  - rewrite aset_keys_new by assumption. apply NoDup_snoc; assumption.
Qed.

Definition pools_of (l : list (Z * list pool)) (o : Z) : list pool :=
  match aget o l with Some ps => ps | None => [] end.

Lemma all_pools_sum_aset l o ps : NoDup (map fst l) ->
  all_pools_sum (aset o ps l) = all_pools_sum l - pools_sum (pools_of l o) + pools_sum ps.
Proof.
  unfold all_pools_sum, pools_of. induction l as [|[k v] t IH]; simpl; intros Hnd.
  - unfold pools_sum. simpl. lia.
  - inversion Hnd; subst. destruct (o =? k) eqn:E; simpl.
    + lia.
    + rewrite IH by assumption. lia.
Qed.

Lemma pools_ok_aset l o ps : pools_ok l -> Forall pool_ok ps -> pools_ok (aset o ps l).
Proof.
  unfold pools_ok. induction l as [|[k v] t IH]; simpl; intros Hl Hps.
  - constructor; [assumption|constructor].
  - inversion Hl; subst. destruct (o =? k); constructor; auto.
Qed.

Lemma pools_ok_get l o ps : pools_ok l -> aget o l = Some ps -> Forall pool_ok ps.
Proof.
  unfold pools_ok. induction l as [|[k v] t IH]; simpl; intros Hl H; [discriminate|].
  inversion Hl; subst. destruct (o =? k); [inversion H; subst; assumption|auto].
Qed.

(* ---------------------------------------------------------------- pool arithmetic --------- *)
Lemma pool_ok_locked_nonneg p : pool_ok p -> 0 <= pool_currently_locked p.
Proof. unfold pool_ok, pool_currently_locked. lia. Qed.

Lemma withdrawable_nonneg now p : pool_ok p -> 0 <= withdrawable now p.
Proof. intros H. unfold withdrawable. destruct (p_lock_end p <=? now); [apply pool_ok_locked_nonneg; assumption|lia]. Qed.

Lemma pool_withdraw_ok now p : pool_ok p -> pool_ok (pool_withdraw now p).
Proof.
  intros H. pose proof (withdrawable_nonneg now p H) as Hn. unfold pool_ok in *. simpl.
  unfold withdrawable in *. destruct (p_lock_end p <=? now); unfold pool_currently_locked in *; lia.
Qed.

Lemma pool_withdraw_locked now p : pool_currently_locked (pool_withdraw now p) = pool_currently_locked p - withdrawable now p.
Proof. unfold pool_currently_locked; simpl. lia. Qed.

Lemma pools_sum_withdraw now ps : pools_sum (map (pool_withdraw now) ps) = pools_sum ps - total_withdrawable now ps.
Proof.
  unfold pools_sum, total_withdrawable. induction ps as [|p t IH]; simpl; [reflexivity|].
  rewrite IH, pool_withdraw_locked. lia.
Qed.

Lemma total_withdrawable_nonneg now ps : Forall pool_ok ps -> 0 <= total_withdrawable now ps.
Proof.
  unfold total_withdrawable. induction 1 as [|p t Hp Ht IH]; simpl; [lia|].
  pose proof (withdrawable_nonneg now p Hp). lia.
Qed.

Lemma Forall_map_withdraw now ps : Forall pool_ok ps -> Forall pool_ok (map (pool_withdraw now) ps).
Proof. induction 1; simpl; constructor; auto using pool_withdraw_ok. Qed.

Lemma replace_last_sum name p0 amount ps : find_pool name ps = Some p0 ->
  pools_sum (replace_last_pool name (pool_add_sent p0 amount) ps) = pools_sum ps - amount.
Proof.
  unfold pools_sum. induction ps as [|p t IH]; simpl; [discriminate|].
  destruct (find_pool name t) as [q|] eqn:E.
  - intros H; inversion H; subst. simpl. rewrite IH by reflexivity. lia.
  - destruct (p_name p =? name); [|discriminate]. intros H; inversion H; subst. simpl.
    unfold pool_currently_locked; simpl. lia.
Qed.

Lemma Forall2_replace_ok p0 q l l' :
  Forall2 (fun x y => y = x \/ (x = p0 /\ y = q)) l l' -> pool_ok q -> Forall pool_ok l -> Forall pool_ok l'.
Proof.
  intros HR Hq. induction HR as [|x y l l' Hxy HR IH]; intros Hok; constructor.
  - inversion Hok; subst. destruct Hxy as [->|[_ ->]]; assumption.
  - inversion Hok; subst. apply IH; assumption.
Qed.

Lemma replace_last_ok name p0 amount ps : find_pool name ps = Some p0 ->
  0 <= amount <= pool_currently_locked p0 -> Forall pool_ok ps ->
  Forall pool_ok (replace_last_pool name (pool_add_sent p0 amount) ps).
Proof.
  intros Hf Ha Hok. pose proof (replace_last_rel name (pool_add_sent p0 amount) p0 ps Hf) as HR.
  assert (Hp0 : pool_ok p0). { destruct (find_pool_in _ _ _ Hf) as [Hin _]. rewrite Forall_forall in Hok. auto. }
  eapply Forall2_replace_ok; [exact HR| |exact Hok].
  unfold pool_ok, pool_currently_locked in *; simpl. lia.
Qed.

(* ---------------------------------------------------------------- w_pools per handler ----- *)
Lemma withdraw_all_pools w owner r : withdraw_all w owner = Some r ->
  exists ps, get_pools w owner = Some ps /\ w_pools (r_world r) = aset owner (map (pool_withdraw (w_now w)) ps) (w_pools w).
Proof.
  unfold withdraw_all. destruct (owner <? 0); [discriminate|].
  destruct (get_pools w owner) as [ps|] eqn:Eps; [|discriminate].
  destruct ps as [|p0 pt]; [discriminate|]. set (ps := p0 :: pt) in *.
  destruct (0 <? total_withdrawable (w_now w) ps).
  - destruct (send_module_to_account _ _ _) as [w1|] eqn:Es; [|discriminate].
    intros H; inversion H; subst; clear H. exists ps. split; [reflexivity|]. simpl.
    destruct (send_m2a_static _ _ _ _ Es) as (_ & _ & Hp & _). rewrite Hp. reflexivity.
  - intros H; inversion H; subst; clear H. exists ps. split; reflexivity.
Qed.

Lemma send_pools w owner to name amount restart r :
  send_to_vesting_account w owner to name amount restart = Some r ->
  exists ps p0, get_pools w owner = Some ps /\
    find_pool name (map (pool_withdraw (w_now w)) ps) = Some p0 /\ 0 <= amount <= pool_currently_locked p0 /\
    w_pools (r_world r) = aset owner (replace_last_pool name (pool_add_sent p0 amount) (map (pool_withdraw (w_now w)) ps))
                               (aset owner (map (pool_withdraw (w_now w)) ps) (w_pools w)).
Proof.
  unfold send_to_vesting_account.
  destruct (name =? 0); [discriminate|].
  destruct (amount <? 0) eqn:Eamt; [discriminate|].
  destruct (owner =? to); [discriminate|]. destruct (owner <? 0); [discriminate|]. destruct (to <? 0); [discriminate|].
  destruct (withdraw_all w owner) as [r0|] eqn:Ew; [|discriminate].
  destruct (withdraw_all_pools _ _ _ Ew) as (ps & Hps & Hwp).
  destruct (withdraw_all_spec _ _ _ Ew) as (ps' & Hps' & _ & _ & _ & Hps1 & _).
  rewrite Hps in Hps'. inversion Hps'; subst ps'. rewrite Hps1.
  destruct (map (pool_withdraw (w_now w)) ps) as [|m0 mt] eqn:Em; [discriminate|].
  destruct (find_pool name (m0 :: mt)) as [p0|] eqn:Ef; [|discriminate].
  destruct (pool_currently_locked p0 <? amount) eqn:Ecl; [discriminate|].
  destruct (aget (p_vtype p0) (w_vtypes (r_world r0))) as [vt|]; [|discriminate].
  set (created := if restart then _ else _).
  destruct created as [w2|] eqn:Ec; [|discriminate].
  assert (Hnv : exists le ve, new_vesting_account (r_world r0) to amount (vt_free vt) le ve = Some w2).
  { subst created. destruct restart; eauto. }
  destruct Hnv as (le & ve & Hnv).
  destruct (new_vesting_account_spec _ _ _ _ _ _ _ Hnv) as ((_ & _ & Hp2 & _) & _).
  intros H; inversion H; subst; clear H. cbn [r_world].
  exists ps, p0. split; [assumption|]. split; [rewrite Em; assumption|]. split; [lia|].
  rewrite Em. unfold set_trace, set_pools; simpl w_pools. rewrite Hp2, Hwp. reflexivity.
Qed.

Lemma aget_aset_pools_of l o (ps : list pool) : pools_of (aset o ps l) o = ps.
Proof. unfold pools_of. rewrite aget_aset_same. reflexivity. Qed.

(* ---------------------------------------------------------------- one step ---------------- *)
Lemma split_like_frame w from to c w' :
  split_vesting_coins w from to c = Some w' ->
  w_pools w' = w_pools w /\ w_denom w' = w_denom w /\ w_blocked w' = w_blocked w /\ blocked w to = false /\
  forall a d, a <> from -> a <> to -> bal w' a d = bal w a d.
Proof.
  unfold split_vesting_coins. destruct c as [|c0 ct]; [discriminate|]. set (c := c0 :: ct) in *.
  destruct (blocked w to) eqn:Eb; [discriminate|]. destruct (aget to (w_acc w)); [discriminate|].
  destruct (negb (coins_valid c)); [discriminate|].
  destruct (aget from (w_acc w)) as [x|]; [|discriminate].
  destruct (negb (a_kind x =? 2)); [discriminate|].
  destruct (negb (all_lte_locked _ _ _)); [discriminate|].
  match goal with |- context [send_coins ?W ?F ?T ?C] => destruct (send_coins W F T C) as [w3|] eqn:Es; [|discriminate] end.
  pose proof (send_coins_static _ _ _ _ _ Es) as (_ & Hd & Hp & _ & _ & Hb).
  pose proof (send_coins_bal _ _ _ _ _ Es) as Hbal.
  intros H.
  assert (Hw : w_pools w' = w_pools w3 /\ w_denom w' = w_denom w3 /\ w_blocked w' = w_blocked w3 /\ forall a d, bal w' a d = bal w3 a d).
  { destruct (aget from (w_traces w3)); inversion H; subst; repeat split. }
  destruct Hw as (H1 & H2 & H3 & H4).
  split; [rewrite H1, Hp; reflexivity|]. split; [rewrite H2, Hd; reflexivity|]. split; [rewrite H3, Hb; reflexivity|].
  split; [reflexivity|].
  intros a d Hf Ht. rewrite H4, Hbal. unfold new_cva. rewrite !bal_set_acc.
  destruct (a =? from) eqn:E1; [lia|]. destruct (a =? to) eqn:E2; [lia|]. lia.
Qed.

Lemma blocked_not_module w to : blocked w MODULE = true -> blocked w to = false -> to <> MODULE.
Proof. intros H1 H2 ->. congruence. Qed.

Lemma solvent_frame w w' :
  Solvent w -> w_pools w' = w_pools w -> w_denom w' = w_denom w -> w_blocked w' = w_blocked w ->
  bal w' MODULE (w_denom w) = bal w MODULE (w_denom w) -> Solvent w'.
Proof.
  intros [H1 H2 H3 H4] Hp Hd Hb Hbal. constructor.
  - rewrite Hp; assumption.
  - unfold blocked in *. rewrite Hb; assumption.
  - rewrite Hd, Hp, Hbal. assumption.
  - rewrite Hp; assumption.
Qed.

Theorem solvent_step w o : Solvent w -> op_wf o -> Solvent (fst (step w o)).
Proof.
  intros HS Hwf. pose proof HS as [Hnd Hbl Hbk Hok].
  destruct o; simpl in *.
  - (* time *) apply (solvent_frame w); auto.
  - (* create pool *)
    destruct (create_pool w owner name amount duration vt) as [w'|] eqn:E; simpl; [|assumption].
    unfold create_pool in E.
    destruct (aget vt (w_vtypes w)); [|discriminate].
    destruct (name =? 0); [discriminate|]. destruct (amount <? 0) eqn:Ea; [discriminate|].
    destruct (duration <=? 0); [discriminate|]. destruct (owner <? 0); [discriminate|].
    destruct (bal w owner (w_denom w) <? amount); [discriminate|].
    destruct (existsb _ _); [discriminate|].
    destruct (send_coins w owner MODULE (one_coin (w_denom w) amount)) as [w1|] eqn:Es; [|discriminate].
    inversion E; subst; clear E.
    pose proof (send_coins_static _ _ _ _ _ Es) as (_ & Hd & Hp & _ & _ & Hb).
    pose proof (send_coins_bal _ _ _ _ _ Es MODULE (w_denom w)) as Hbal. rewrite coins_amt_one, Z.eqb_refl in Hbal.
    destruct (MODULE =? owner) eqn:Emo; [lia|]. rewrite Z.eqb_refl in Hbal.
    constructor; simpl.
    + rewrite Hp. apply NoDup_aset; assumption.
    + unfold blocked in *; simpl. rewrite Hb; assumption.
    + rewrite Hd, bal_set_pools, Hbal, Hp, all_pools_sum_aset by assumption.
      unfold pools_of, get_pools. destruct (aget owner (w_pools w)) as [ps|] eqn:Eps.
      * unfold pools_sum at 2. rewrite map_app, zsum_app. simpl. unfold pool_currently_locked at 2; simpl.
        unfold pools_sum. lia.
      * unfold pools_sum; simpl. unfold pool_currently_locked; simpl. lia.
    + rewrite Hp. apply pools_ok_aset; [assumption|].
      apply Forall_app. split.
      * unfold get_pools. destruct (aget owner (w_pools w)) as [ps|] eqn:Eps; [|constructor].
        eapply pools_ok_get; eassumption.
      * constructor; [|constructor]. unfold pool_ok; simpl. lia.
  - (* withdraw *)
    destruct (withdraw_all w owner) as [r|] eqn:E; simpl; [|assumption].
    destruct (withdraw_all_pools _ _ _ E) as (ps & Hps & Hwp).
    destruct (withdraw_all_spec _ _ _ E) as (ps' & Hps' & _ & Ham & _ & _ & _ & _ & Hd & Hb & _ & _ & Hbal & Hnb & _).
    rewrite Hps in Hps'. inversion Hps'; subst ps'.
    assert (Hpok : Forall pool_ok ps) by (eapply pools_ok_get; eassumption).
    pose proof (total_withdrawable_nonneg (w_now w) ps Hpok) as Hnn.
    assert (Hmod : owner = MODULE -> r_amount r = 0).
    { intros ->. destruct (Z_lt_le_dec 0 (r_amount r)) as [Hpos|]; [|lia]. apply Hnb in Hpos. congruence. }
    constructor.
    + rewrite Hwp. apply NoDup_aset; assumption.
    + unfold blocked in *. rewrite Hb; assumption.
    + rewrite Hd, Hbal, Hwp, all_pools_sum_aset by assumption. rewrite !Z.eqb_refl.
      unfold pools_of. unfold get_pools in Hps. rewrite Hps. rewrite pools_sum_withdraw.
      destruct (MODULE =? owner) eqn:Emo; cbn [andb]; [assert (owner = MODULE) by lia|]; lia.
    + rewrite Hwp. apply pools_ok_aset; [assumption|]. apply Forall_map_withdraw; assumption.
  - (* send *)
    destruct (send_to_vesting_account w owner to name amount restart) as [r|] eqn:E; simpl; [|assumption].
    destruct (send_pools _ _ _ _ _ _ _ E) as (ps & p0 & Hps & Hf & Ha & Hwp).
    destruct (send_spec _ _ _ _ _ _ _ E) as (Heff & _ & _ & Hd & Hb & Hne & Hbal & (ps' & Hps' & Ham)).
    rewrite Hps in Hps'. inversion Hps'; subst ps'.
    assert (Hmod : owner = MODULE -> r_amount r = 0).
    { intros ->. revert E. unfold send_to_vesting_account.
      destruct (name =? 0); [discriminate|]. destruct (amount <? 0); [discriminate|].
      destruct (MODULE =? to); [discriminate|]. destruct (MODULE <? 0); [discriminate|]. destruct (to <? 0); [discriminate|].
      destruct (withdraw_all w MODULE) as [r0|] eqn:Ew; [|discriminate].
      destruct (withdraw_all_spec _ _ _ Ew) as (_ & _ & _ & _ & _ & _ & _ & _ & _ & _ & _ & _ & _ & Hnb0 & _).
      destruct (get_pools (r_world r0) MODULE) as [[|m0 mt]|]; try discriminate.
      destruct (find_pool name (m0 :: mt)) as [q|]; [|discriminate].
      destruct (pool_currently_locked q <? amount); [discriminate|].
      destruct (aget (p_vtype q) (w_vtypes (r_world r0))) as [vt|]; [|discriminate].
      match goal with |- context [match ?X with Some _ => _ | None => None end] => destruct X; [|discriminate] end.
      intros H; inversion H; subst; clear H. cbn [r_amount] in *.
      destruct (Z_lt_le_dec 0 (r_amount r0)) as [Hpos|]; [apply Hnb0 in Hpos; congruence|].
      pose proof (total_withdrawable_nonneg (w_now w) ps ltac:(eapply pools_ok_get; eassumption)). lia. }
    assert (Hpok : Forall pool_ok ps) by (eapply pools_ok_get; eassumption).
    pose proof (total_withdrawable_nonneg (w_now w) ps Hpok) as Hnn.
    assert (Hto : to <> MODULE).
    { destruct Heff as [_ Habs _ _]. intros ->.
      (* the module account is blocked, so new_vesting_account would have failed *)
      revert E. unfold send_to_vesting_account.
      destruct (name =? 0); [discriminate|]. destruct (amount <? 0); [discriminate|].
      destruct (owner =? MODULE); [discriminate|]. destruct (owner <? 0); [discriminate|]. destruct (MODULE <? 0); [discriminate|].
      destruct (withdraw_all w owner) as [r0|] eqn:Ew; [|discriminate].
      destruct (withdraw_all_spec _ _ _ Ew) as (_ & _ & _ & _ & _ & _ & _ & _ & _ & Hb0 & _).
      destruct (get_pools (r_world r0) owner) as [[|m0 mt]|]; try discriminate.
      destruct (find_pool name (m0 :: mt)) as [q|]; [|discriminate].
      destruct (pool_currently_locked q <? amount); [discriminate|].
      destruct (aget (p_vtype q) (w_vtypes (r_world r0))) as [vt|]; [|discriminate].
      assert (Hbm : blocked (r_world r0) MODULE = true) by (unfold blocked in *; rewrite Hb0; assumption).
      unfold new_vesting_account. rewrite Hbm. destruct restart; discriminate. }
    constructor.
    + rewrite Hwp. apply NoDup_aset, NoDup_aset; assumption.
    + unfold blocked in *. rewrite Hb; assumption.
    + rewrite Hd, Hbal, Hwp. rewrite !all_pools_sum_aset by (try apply NoDup_aset; assumption).
      rewrite aget_aset_pools_of. rewrite !Z.eqb_refl.
      unfold pools_of. unfold get_pools in Hps. rewrite Hps.
      rewrite replace_last_sum by assumption. rewrite pools_sum_withdraw.
      destruct (MODULE =? owner) eqn:Emo, (MODULE =? to) eqn:Emt; cbn [andb]; try (assert (owner = MODULE) by lia); lia.
    + rewrite Hwp. apply pools_ok_aset; [apply pools_ok_aset; [assumption|apply Forall_map_withdraw; assumption]|].
      apply replace_last_ok; [assumption|lia|apply Forall_map_withdraw; assumption].
  - (* create vesting account *)
    destruct (create_vesting_account w from to c start end_) as [w'|] eqn:E; simpl; [|assumption].
    unfold create_vesting_account in E.
    destruct (existsb _ c); [discriminate|]. destruct (end_ <? start); [discriminate|].
    destruct (from <? 0); [discriminate|]. destruct (to <? 0); [discriminate|].
    destruct (blocked w to) eqn:Eb; [discriminate|]. destruct (aget to (w_acc w)); [discriminate|].
    pose proof (send_coins_static _ _ _ _ _ E) as (_ & Hd & Hp & _ & _ & Hb).
    pose proof (send_coins_bal _ _ _ _ _ E MODULE (w_denom w)) as Hbal.
    pose proof (blocked_not_module _ _ Hbl Eb) as Hto.
    apply (solvent_frame w); auto.
    rewrite Hbal. unfold new_cva. rewrite bal_set_acc.
    destruct (MODULE =? from) eqn:E1; [lia|]. destruct (MODULE =? to) eqn:E2; [lia|]. lia.
  - (* split *)
    destruct (split_vesting w from to c) as [w'|] eqn:E; simpl; [|assumption].
    unfold split_vesting in E. destruct (negb (coins_valid c)); [discriminate|].
    destruct (from <? 0); [discriminate|]. destruct (to <? 0); [discriminate|].
    destruct (split_like_frame _ _ _ _ _ E) as (Hp & Hd & Hb & Hbt & Hbal).
    apply (solvent_frame w); auto. apply Hbal; [congruence|]. pose proof (blocked_not_module _ _ Hbl Hbt). congruence.
  - (* move *)
    destruct (move_available w from to denoms_all) as [w'|] eqn:E; simpl; [|assumption].
    unfold move_available in E. destruct (from <? 0); [discriminate|]. destruct (to <? 0); [discriminate|].
    destruct (split_like_frame _ _ _ _ _ E) as (Hp & Hd & Hb & Hbt & Hbal).
    apply (solvent_frame w); auto. apply Hbal; [congruence|]. pose proof (blocked_not_module _ _ Hbl Hbt). congruence.
  - (* move by denoms *)
    destruct (move_by_denoms w from to denoms) as [w'|] eqn:E; simpl; [|assumption].
    unfold move_by_denoms in E. destruct (from <? 0); [discriminate|]. destruct (to <? 0); [discriminate|].
    destruct denoms; [discriminate|]. destruct (has_dup _); [discriminate|].
    destruct (split_like_frame _ _ _ _ _ E) as (Hp & Hd & Hb & Hbt & Hbal).
    apply (solvent_frame w); auto. apply Hbal; [congruence|]. pose proof (blocked_not_module _ _ Hbl Hbt). congruence.
  - (* delegate *)
    destruct (delegate w a bonded amt) as [w'|] eqn:E; simpl; [|assumption].
    destruct Hwf as [Ha Hbd].
    unfold delegate in E. destruct (amt <=? 0); [discriminate|]. destruct (bal w a 0 <? amt); [discriminate|].
    inversion E; subst; clear E.
    match goal with |- Solvent (set_bal ?W _ _ _) => set (w2 := W) end.
    assert (H2 : w_pools w2 = w_pools w /\ w_denom w2 = w_denom w /\ w_blocked w2 = w_blocked w /\
                 forall x d, bal w2 x d = bal (set_bal w a 0 (bal w a 0 - amt)) x d).
    { subst w2. match goal with |- context [match ?X with Some _ => _ | None => _ end] => destruct X as [x|] end;
        [|repeat split; intros; reflexivity].
      destruct (a_kind x =? 2); repeat split; intros; reflexivity. }
    destruct H2 as (Hp & Hd & Hb & Hbal).
    apply (solvent_frame w); simpl; auto.
    rewrite bal_set_bal_other by (intros Hc; inversion Hc; congruence).
    rewrite Hbal. rewrite bal_set_bal_other by (intros Hc; inversion Hc; congruence). reflexivity.
Qed.

Theorem solvent_run ops : forall w, Solvent w -> Forall op_wf ops -> Solvent (run w ops).
Proof.
  unfold run. induction ops as [|o t IH]; simpl; intros w HS Hwf; [assumption|].
  inversion Hwf; subst. apply IH; [apply solvent_step; assumption|assumption].
Qed.

(* a rejected message (result code 0) leaves the world exactly as it was *)
Theorem rejected_changes_nothing w o : fst (fst (snd (step w o))) = 0 -> fst (step w o) = w.
Proof.
  destruct o; simpl.
  - discriminate.
  - destruct (create_pool _ _ _ _ _ _); simpl; [discriminate|reflexivity].
  - destruct (withdraw_all _ _); simpl; [discriminate|reflexivity].
  - destruct (send_to_vesting_account _ _ _ _ _ _); simpl; [discriminate|reflexivity].
  - destruct (create_vesting_account _ _ _ _ _ _); simpl; [discriminate|reflexivity].
  - destruct (split_vesting _ _ _ _); simpl; [discriminate|reflexivity].
  - destruct (move_available _ _ _ _); simpl; [discriminate|reflexivity].
  - destruct (move_by_denoms _ _ _ _); simpl; [discriminate|reflexivity].
  - destruct (delegate _ _ _ _); simpl; [discriminate|reflexivity].
Qed.
