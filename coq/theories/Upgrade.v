(* Upgrade.v — C16: the v1.2.0 upgrade of the vesting state (ModifyVestingPoolsState,
   ModifyVestingAccountsState) and the v2 -> v3 pool migration, transcribed from
   app/upgrades/v120/{vestings_upgrades,accounts_upgrades}.go and x/cfevesting/migrations/v3/store.go.
   Names, amounts and calendar shifts are parameters, so the theorems hold for any constants. *)
From C4E Require Export Base Vest VestFrame VestProofs SolventProofs.
From Coq Require Import ZifyBool.
Open Scope Z_scope.

(* ---------------------------------------------------------------- v2 -> v3 pool migration -- *)
(* field-for-field copy; the new genesis flag starts false *)
Definition migrate_pool (p : pool) : pool :=
  {| p_name := p_name p; p_vtype := p_vtype p; p_lock_start := p_lock_start p; p_lock_end := p_lock_end p;
     p_locked := p_locked p; p_withdrawn := p_withdrawn p; p_sent := p_sent p; p_genesis := false |}.

Theorem migration_preserves_value ps :
  pools_sum (map migrate_pool ps) = pools_sum ps /\
  map (fun p => (p_name p, p_locked p, p_sent p, p_withdrawn p, p_lock_start p, p_lock_end p, p_vtype p)) (map migrate_pool ps)
  = map (fun p => (p_name p, p_locked p, p_sent p, p_withdrawn p, p_lock_start p, p_lock_end p, p_vtype p)) ps /\
  (Forall pool_ok ps -> Forall pool_ok (map migrate_pool ps)).
Proof.
  split; [|split].
  - unfold pools_sum. rewrite map_map. induction ps as [|p t IH]; simpl; [reflexivity|]. rewrite IH. reflexivity.
  - rewrite map_map. reflexivity.
  - intros H. apply Forall_forall. intros x Hx. apply in_map_iff in Hx. destruct Hx as (p & <- & Hp).
    apply (proj1 (Forall_forall _ _) H) in Hp. exact Hp.
Qed.

(* ---------------------------------------------------------------- validators-pool split ---- *)
Record split_consts := {
  k_val_pool : Z; k_adv_pool : Z;              (* names of the old validators / advisors pools *)
  k_round_pool : Z; k_round_type : Z;          (* new name and vesting type of the validators pool *)
  k_new : list (Z * Z * Z * Z) }.              (* the new pools: (name, vesting type, amount, lock end) *)

Definition k_sum (k : split_consts) : Z := zsum (map (fun e => snd (fst e)) (k_new k)).

(* the loop keeps the LAST pool carrying the validators-pool name *)
Fixpoint find_last (name : Z) (ps : list pool) : option pool :=
  match ps with
  | [] => None
  | p :: t => match find_last name t with Some q => Some q | None => if p_name p =? name then Some p else None end
  end.

Definition set_genesis (p : pool) : pool :=
  {| p_name := p_name p; p_vtype := p_vtype p; p_lock_start := p_lock_start p; p_lock_end := p_lock_end p;
     p_locked := p_locked p; p_withdrawn := p_withdrawn p; p_sent := p_sent p; p_genesis := true |}.

Definition reduce_validators (k : split_consts) (p : pool) : pool :=
  {| p_name := k_round_pool k; p_vtype := k_round_type k; p_lock_start := p_lock_start p; p_lock_end := p_lock_end p;
     p_locked := p_locked p - k_sum k; p_withdrawn := p_withdrawn p; p_sent := p_sent p; p_genesis := true |}.

Definition new_pool (start : Z) (e : Z * Z * Z * Z) : pool :=
  {| p_name := fst (fst (fst e)); p_vtype := snd (fst (fst e)); p_lock_start := start; p_lock_end := snd e;
     p_locked := snd (fst e); p_withdrawn := 0; p_sent := 0; p_genesis := true |}.

(* rewrite the last validators pool, flag advisors pools as genesis pools *)
Fixpoint rewrite_pools (k : split_consts) (ps : list pool) : list pool :=
  match ps with
  | [] => []
  | p :: t =>
      match find_last (k_val_pool k) t with
      | Some _ => (if p_name p =? k_adv_pool k then set_genesis p else p) :: rewrite_pools k t
      | None => if p_name p =? k_val_pool k then reduce_validators k p :: map (fun q => if p_name q =? k_adv_pool k then set_genesis q else q) t
                else (if p_name p =? k_adv_pool k then set_genesis p else p) :: rewrite_pools k t
      end
  end.

(* ModifyVestingPoolsState on the owner's pools: None = nothing is written (owner's pools or the
   validators pool missing, not enough locked, or the old vesting type missing) *)
Definition upgrade_pools (k : split_consts) (ps : list pool) (old_type_exists : bool) : option (list pool) :=
  match find_last (k_val_pool k) ps with
  | None => None
  | Some vp =>
      if pool_currently_locked vp <? k_sum k then None
      else if negb old_type_exists then None
      else Some (rewrite_pools k ps ++ map (new_pool (p_lock_start vp)) (k_new k))
  end.

Lemma pools_sum_app a b : pools_sum (a ++ b) = pools_sum a + pools_sum b.
Proof. unfold pools_sum. rewrite map_app, zsum_app. reflexivity. Qed.

Lemma pools_sum_new start l : pools_sum (map (new_pool start) l) = zsum (map (fun e => snd (fst e)) l).
Proof. unfold pools_sum. rewrite map_map. induction l as [|e t IH]; simpl; [reflexivity|]. rewrite IH. unfold pool_currently_locked; simpl. lia. Qed.

Lemma locked_flag p : pool_currently_locked (if p_name p =? 0 then set_genesis p else p) = pool_currently_locked p.
Proof. destruct (p_name p =? 0); reflexivity. Qed.

Lemma pools_sum_flag adv t : pools_sum (map (fun q => if p_name q =? adv then set_genesis q else q) t) = pools_sum t.
Proof.
  unfold pools_sum. rewrite map_map. induction t as [|q t IH]; simpl; [reflexivity|]. rewrite IH.
  destruct (p_name q =? adv); reflexivity.
Qed.

Lemma rewrite_pools_sum k ps vp : find_last (k_val_pool k) ps = Some vp ->
  pools_sum (rewrite_pools k ps) = pools_sum ps - k_sum k.
Proof.
  revert vp. induction ps as [|p t IH]; intros vp H; [discriminate|].
  cbn [find_last rewrite_pools] in *. destruct (find_last (k_val_pool k) t) as [q|] eqn:E.
  - unfold pools_sum in *. cbn [map zsum]. rewrite (IH q eq_refl). destruct (p_name p =? k_adv_pool k); unfold pool_currently_locked; simpl; lia.
  - destruct (p_name p =? k_val_pool k) eqn:En; [|discriminate].
    unfold pools_sum at 1 2. cbn [map zsum]. fold (pools_sum (map (fun q => if p_name q =? k_adv_pool k then set_genesis q else q) t)). fold (pools_sum t).
    rewrite pools_sum_flag. unfold pool_currently_locked, reduce_validators; simpl. lia.
Qed.

(* C16: when the split is applied the total locked over the owner's pools is unchanged ... *)
Theorem upgrade_preserves_total_locked k ps te ps' :
  upgrade_pools k ps te = Some ps' -> pools_sum ps' = pools_sum ps.
Proof.
  unfold upgrade_pools. destruct (find_last (k_val_pool k) ps) as [vp|] eqn:E; [|discriminate].
  destruct (pool_currently_locked vp <? k_sum k); [discriminate|]. destruct (negb te); [discriminate|].
  intros H; inversion H; subst. rewrite pools_sum_app, pools_sum_new, (rewrite_pools_sum k ps vp E). unfold k_sum. lia.
Qed.

(* ... every pre-existing pool keeps its sent / withdrawn history, its lock period, and all but the
   validators pool their initially-locked amount; the validators pool loses exactly the sum ... *)
Lemma rewrite_pools_history k ps : 
  map (fun p => (p_sent p, p_withdrawn p, p_lock_start p, p_lock_end p)) (rewrite_pools k ps)
  = map (fun p => (p_sent p, p_withdrawn p, p_lock_start p, p_lock_end p)) ps /\
  Forall2 (fun p p' => p_locked p' = p_locked p \/ (p_name p = k_val_pool k /\ p_locked p' = p_locked p - k_sum k /\ p_name p' = k_round_pool k)) ps (rewrite_pools k ps).
Proof.
  induction ps as [|p t [IH1 IH2]]; [split; [reflexivity|constructor]|].
  cbn [rewrite_pools]. destruct (find_last (k_val_pool k) t).
  - split; [cbn [map]; rewrite IH1; destruct (p_name p =? k_adv_pool k); reflexivity|].
    constructor; [left; destruct (p_name p =? k_adv_pool k); reflexivity|exact IH2].
  - destruct (p_name p =? k_val_pool k) eqn:En.
    + split.
      * cbn [map]. f_equal. rewrite map_map. clear. induction t as [|q t IH]; simpl; [reflexivity|]. rewrite IH. destruct (p_name q =? k_adv_pool k); reflexivity.
      * constructor; [right; simpl; repeat split; lia|].
        clear. induction t as [|q t IH]; simpl; constructor; [left; destruct (p_name q =? k_adv_pool k); reflexivity|exact IH].
    + split; [cbn [map]; rewrite IH1; destruct (p_name p =? k_adv_pool k); reflexivity|].
      constructor; [left; destruct (p_name p =? k_adv_pool k); reflexivity|exact IH2].
Qed.

Theorem upgrade_structure k ps te ps' :
  upgrade_pools k ps te = Some ps' ->
  exists vp, find_last (k_val_pool k) ps = Some vp /\ k_sum k <= pool_currently_locked vp /\ te = true /\
    ps' = rewrite_pools k ps ++ map (new_pool (p_lock_start vp)) (k_new k) /\
    Forall (fun q => p_sent q = 0 /\ p_withdrawn q = 0 /\ p_genesis q = true) (map (new_pool (p_lock_start vp)) (k_new k)).
Proof.
  unfold upgrade_pools. destruct (find_last (k_val_pool k) ps) as [vp|] eqn:E; [|discriminate].
  destruct (pool_currently_locked vp <? k_sum k) eqn:El; [discriminate|]. destruct te; [|discriminate].
  intros H; inversion H; subst. exists vp. split; [reflexivity|]. split; [lia|]. split; [reflexivity|]. split; [reflexivity|].
  apply Forall_forall. intros q Hq. apply in_map_iff in Hq. destruct Hq as (e & <- & _). simpl. auto.
Qed.

(* ... and pool solvency (C05's per-pool bounds) is preserved, the new pools being sound when the
   configured amounts are non-negative *)
Lemma find_last_in name ps p : find_last name ps = Some p -> In p ps /\ p_name p = name.
Proof.
  induction ps as [|q t IH]; simpl; [discriminate|]. destruct (find_last name t) as [r|].
  - intros H; inversion H; subst. destruct (IH eq_refl). auto.
  - destruct (p_name q =? name) eqn:E; [|discriminate]. intros H; inversion H; subst. split; [left; reflexivity|lia].
Qed.

Lemma rewrite_pools_ok k ps vp : find_last (k_val_pool k) ps = Some vp -> k_sum k <= pool_currently_locked vp ->
  Forall pool_ok ps -> Forall pool_ok (rewrite_pools k ps).
Proof.
  revert vp. induction ps as [|p t IH]; intros vp Hf Hs H; [constructor|]. inversion H as [|? ? Hp Ht]; subst.
  cbn [find_last rewrite_pools] in *. destruct (find_last (k_val_pool k) t) as [q|] eqn:E.
  - inversion Hf; subst. constructor; [destruct (p_name p =? k_adv_pool k); exact Hp|apply (IH vp eq_refl Hs Ht)].
  - destruct (p_name p =? k_val_pool k) eqn:En; [|discriminate]. inversion Hf; subst.
    constructor.
    + unfold pool_ok, reduce_validators in *; simpl. unfold pool_currently_locked in Hs. lia.
    + apply Forall_forall. intros x Hx. apply in_map_iff in Hx. destruct Hx as (y & <- & Hy).
      apply (proj1 (Forall_forall _ _) Ht) in Hy. destruct (p_name y =? k_adv_pool k); exact Hy.
Qed.

Theorem upgrade_preserves_pool_bounds k ps te ps' :
  upgrade_pools k ps te = Some ps' -> Forall pool_ok ps -> Forall (fun e => 0 <= snd (fst e)) (k_new k) -> Forall pool_ok ps'.
Proof.
  intros H Hok Hk. destruct (upgrade_structure _ _ _ _ H) as (vp & Hf & Hs & _ & -> & _).
  apply Forall_app. split; [eapply rewrite_pools_ok; eassumption|].
  apply Forall_forall. intros q Hq. apply in_map_iff in Hq. destruct Hq as (e & <- & He).
  apply (proj1 (Forall_forall _ _) Hk) in He. unfold pool_ok, new_pool; simpl. lia.
Qed.

(* all-or-nothing: whenever the pre-check holds the complete split is applied (no individual split can
   fail afterwards); otherwise nothing is written *)
Theorem upgrade_all_or_nothing k ps te :
  match upgrade_pools k ps te with
  | None => True
  | Some ps' => length ps' = (length ps + length (k_new k))%nat
  end.
Proof.
  destruct (upgrade_pools k ps te) as [ps'|] eqn:E; [|exact I].
  destruct (upgrade_structure _ _ _ _ E) as (vp & _ & _ & _ & -> & _). rewrite app_length, map_length. f_equal.
  clear. induction ps as [|p t IH]; [reflexivity|]. cbn [rewrite_pools]. destruct (find_last (k_val_pool k) t); simpl; [rewrite IH; reflexivity|].
  destruct (p_name p =? k_val_pool k); simpl; [rewrite map_length; reflexivity|rewrite IH; reflexivity].
Qed.

(* ---------------------------------------------------------------- shifted accounts ---------- *)
Section Accounts.
  Variable add_year : Z -> Z.                     (* calendar arithmetic on unix seconds: an oracle *)
  Definition shift_account (x : acct) : acct :=
    if a_kind x =? 2 then {| a_kind := 2; a_ov := a_ov x; a_dv := a_dv x; a_df := a_df x; a_start := add_year (a_start x); a_end := add_year (a_end x) |}
    else x.

  (* accounts whose schedule is shifted keep their amounts; other account kinds are not touched *)
  Theorem shift_keeps_amounts x :
    a_ov (shift_account x) = a_ov x /\ a_dv (shift_account x) = a_dv x /\ a_df (shift_account x) = a_df x /\ a_kind (shift_account x) = a_kind x /\
    (a_kind x <> 2 -> shift_account x = x).
  Proof.
    unfold shift_account. destruct (a_kind x =? 2) eqn:E; simpl; repeat split; try reflexivity; try lia; intros H; lia.
  Qed.
End Accounts.

(* ---------------------------------------------------------------- case checking ------------- *)
Definition pool_code (p : pool) : list Z :=
  [p_name p; p_vtype p; p_lock_start p; p_lock_end p; p_locked p; p_withdrawn p; p_sent p; b2z (p_genesis p)].

Record ucase := { uc_id : Z; uc_consts : split_consts; uc_pools : option (list pool); uc_type_exists : bool;
                  uc_expected : list Z }.      (* code of the owner's pools after the upgrade; [-1] when the owner has none *)

Definition ucase_got (c : ucase) : list Z :=
  match uc_pools c with
  | None => [-1]
  | Some ps => let ps' := match upgrade_pools (uc_consts c) ps (uc_type_exists c) with Some r => r | None => ps end in
               Z.of_nat (length ps') :: flat_map pool_code ps'
  end.

Definition umismatches (cs : list ucase) : list (Z * Z * list Z) :=
  flat_map (fun c => if zlist_eqb (ucase_got c) (uc_expected c) then [] else [(uc_id c, 0, ucase_got c)]) cs.
