(* VestGenesis.v — executable model of the vesting module's genesis: types.GenesisState.Validate
   (x/cfevesting/types/genesis.go, account_vesting_pool.go, vesting_account.go), InitGenesis with
   ValidateAccountsOnGenesis (x/cfevesting/genesis.go: the module account must hold exactly what the pools still lock)
   and ExportGenesis.  The KV store is a list kept in key order; owners and trace addresses are identified by the rank
   of their address string (the store key), names by interned integers (0 = the empty string).  Definitions only. *)
From C4E Require Export Vest.
Open Scope Z_scope.

Record gvtype := { gv_name : Z; gv_lock_unit : Z; gv_lock : Z; gv_vest_unit : Z; gv_vest : Z; gv_free : Z }.  (* units: 0 day 1 hour 2 minute 3 second, else unknown *)
Record gtrace := { gt_id : Z; gt_addr : Z; gt_addr_ok : bool; gt_flags : trace }.
Record gowner := { go_owner : Z; go_addr_ok : bool; go_pools : list pool }.
Record vgenesis := { vg_denom : Z; vg_denom_nonempty : bool; vg_denom_ok : bool; vg_vtypes : list gvtype; vg_owners : list gowner;
                     vg_traces : list gtrace; vg_trace_count : Z }.

(* vg_denom: the vesting denomination of Params, as a number the harness assigns to the string (0 for the empty string) *)

(* ------------------------------------------------------------------ GenesisState.Validate *)
Definition count_eq (x : Z) (l : list Z) : Z := Z.of_nat (length (filter (Z.eqb x) l)).
Definition all_unique (l : list Z) : bool := forallb (fun x => count_eq x l <=? 1) l.

Definition G_SEC : Z := 1000000000.
Definition units_duration (unit v : Z) : option Z :=
  if unit =? 0 then Some (24 * 3600 * G_SEC * v) else if unit =? 1 then Some (3600 * G_SEC * v)
  else if unit =? 2 then Some (60 * G_SEC * v) else if unit =? 3 then Some (G_SEC * v) else None.

Definition gvtype_valid (t : gvtype) : bool :=
  negb (gv_name t =? 0)
  && match units_duration (gv_lock_unit t) (gv_lock t) with Some d => 0 <=? d | None => false end
  && match units_duration (gv_vest_unit t) (gv_vest t) with Some d => 0 <=? d | None => false end
  && (0 <=? gv_free t) && (gv_free t <=? P).

Definition gpool_valid (p : pool) : bool :=
  negb (p_name p =? 0) && (0 <=? p_locked p) && (0 <=? p_withdrawn p) && (0 <=? p_sent p) && (0 <=? pool_currently_locked p).

Definition gowner_valid (vts : list Z) (o : gowner) : bool :=
  go_addr_ok o && forallb gpool_valid (go_pools o) && all_unique (map p_name (go_pools o))
  && forallb (fun p => existsb (Z.eqb (p_vtype p)) vts) (go_pools o).

(* the trace loop: a duplicate id or an id not below the count is refused, then the address must parse *)
Fixpoint gtraces_valid (seen : list Z) (count : Z) (l : list gtrace) : bool :=
  match l with
  | [] => true
  | t :: r => negb (existsb (Z.eqb (gt_id t)) seen) && (gt_id t <? count) && gt_addr_ok t && gtraces_valid (gt_id t :: seen) count r
  end.

Definition vgenesis_valid (g : vgenesis) : bool :=
  gtraces_valid [] (vg_trace_count g) (vg_traces g)
  && all_unique (map gv_name (vg_vtypes g)) && forallb gvtype_valid (vg_vtypes g)
  && forallb (gowner_valid (map gv_name (vg_vtypes g))) (vg_owners g) && all_unique (map go_owner (vg_owners g))
  && vg_denom_nonempty g && vg_denom_ok g.

(* ------------------------------------------------------------------ the store: a list in key order *)
Fixpoint kset {A} (k : Z) (v : A) (l : list (Z * A)) : list (Z * A) :=
  match l with
  | [] => [(k, v)]
  | (k', v') :: t => if k <? k' then (k, v) :: l else if k =? k' then (k, v) :: t else (k', v') :: kset k v t
  end.

Record vstore := { vs_pools : list (Z * list pool); vs_traces : list (Z * gtrace); vs_trace_count : Z;
                   vs_vtypes : list (Z * (Z * Z * Z));
                   vs_denom : Z }.        (* name -> (lock-up ns, vesting ns, free); names are ranked by their string *)

(* a genesis vesting type as it is stored: the periods converted to nanoseconds (DurationFromUnits) *)
Definition gvtype_entry (t : gvtype) : option (Z * (Z * Z * Z)) :=
  match units_duration (gv_lock_unit t) (gv_lock t), units_duration (gv_vest_unit t) (gv_vest t) with
  | Some a, Some b => Some (gv_name t, (a, b, gv_free t)) | _, _ => None end.
Definition vtypes_store (es : list (option (Z * (Z * Z * Z)))) : list (Z * (Z * Z * Z)) :=
  fold_left (fun s x => match x with Some e => kset (fst e) (snd e) s | None => s end) es [].

Definition genesis_locked (g : vgenesis) : Z :=
  zsum (map (fun o => zsum (map pool_currently_locked (go_pools o))) (vg_owners g)).

(* InitGenesis: refuses (panics) unless the module account's balance of the vesting denomination equals what the pools lock;
   bank.GetBalance panics on a malformed denomination, DurationFromUnits fails on an unknown unit, and a vesting type
   without a name has an empty store key *)
Definition vgenesis_init (g : vgenesis) (module_balance : Z) : option vstore :=
  if negb (vg_denom_nonempty g && vg_denom_ok g) then None
  else if negb (genesis_locked g =? module_balance) then None
  else if existsb (fun t => gv_name t =? 0) (vg_vtypes g) then None
  else
    let vts := map gvtype_entry (vg_vtypes g) in
    if existsb (fun x => match x with None => true | Some _ => false end) vts then None
    else Some {| vs_pools := fold_left (fun s o => kset (go_owner o) (go_pools o) s) (vg_owners g) [];
                 vs_traces := fold_left (fun s t => kset (gt_addr t) t s) (vg_traces g) [];
                 vs_trace_count := vg_trace_count g;
                 vs_vtypes := vtypes_store vts;
                 vs_denom := vg_denom g |}.

(* ExportGenesis: pools and traces in store order *)
Definition vstore_export_owners (s : vstore) : list gowner :=
  map (fun e => {| go_owner := fst e; go_addr_ok := true; go_pools := snd e |}) (vs_pools s).
Definition vstore_export_traces (s : vstore) : list gtrace := map snd (vs_traces s).

(* ExportGenesis, vesting types: the periods in the largest unit that divides them (UnitsFromDuration: 0 day, 1 hour, 2 minute,
   3 second), in store order *)
Definition g_units_from_duration (d : Z) : Z * Z :=
  if Z.rem d (24 * 3600 * G_SEC) =? 0 then (0, Z.quot d (24 * 3600 * G_SEC))
  else if Z.rem d (3600 * G_SEC) =? 0 then (1, Z.quot d (3600 * G_SEC))
  else if Z.rem d (60 * G_SEC) =? 0 then (2, Z.quot d (60 * G_SEC))
  else (3, Z.quot d G_SEC).
Definition export_vtype (e : Z * (Z * Z * Z)) : gvtype :=
  match snd e with (a, b, f) =>
    {| gv_name := fst e; gv_lock_unit := fst (g_units_from_duration a); gv_lock := snd (g_units_from_duration a);
       gv_vest_unit := fst (g_units_from_duration b); gv_vest := snd (g_units_from_duration b); gv_free := f |} end.
Definition vstore_export_vtypes (s : vstore) : list gvtype := map export_vtype (vs_vtypes s).

(* ------------------------------------------------------------------ comparison with the implementation *)
Definition gpool_code (p : pool) : list Z :=
  [p_name p; p_vtype p; p_lock_start p; p_lock_end p; p_locked p; p_withdrawn p; p_sent p; b2z (p_genesis p)].
Definition vstore_code (s : vstore) : list Z :=
  Z.of_nat (length (vs_pools s)) :: flat_map (fun e => fst e :: Z.of_nat (length (snd e)) :: flat_map gpool_code (snd e)) (vs_pools s)
  ++ Z.of_nat (length (vs_traces s)) :: flat_map (fun e => [gt_id (snd e); fst e; b2z (t_genesis (gt_flags (snd e)));
                                                            b2z (t_from_pool (gt_flags (snd e))); b2z (t_from_acct (gt_flags (snd e)))]) (vs_traces s)
  ++ vs_trace_count s :: Z.of_nat (length (vs_vtypes s)) :: flat_map (fun e => [fst e; fst (fst (snd e)); snd (fst (snd e)); snd (snd e)]) (vs_vtypes s)
  (* ... and the vesting types as ExportGenesis lists them *)
  ++ flat_map (fun t => [gv_name t; gv_lock_unit t; gv_lock t; gv_vest_unit t; gv_vest t; gv_free t]) (vstore_export_vtypes s)
  (* ... and the denomination of the parameters ExportGenesis writes *)
  ++ [vs_denom s].

(* expected: [validation decision] ++ ([0] when InitGenesis panicked | 1 :: code of the store read back through the keeper) *)
Record vgcase := { vgc_id : Z; vgc_genesis : vgenesis; vgc_module_balance : Z; vgc_expected : list Z }.

Definition vgcase_got (c : vgcase) : list Z :=
  b2z (vgenesis_valid (vgc_genesis c)) ::
  match vgenesis_init (vgc_genesis c) (vgc_module_balance c) with
  | None => [0]
  | Some s => 1 :: vstore_code s
  end.

Definition vgmismatches (cs : list vgcase) : list (Z * Z * list Z) :=
  flat_map (fun c => let got := vgcase_got c in if zlist_eqb got (vgc_expected c) then [] else [(vgc_id c, 0, got)]) cs.
