From C4E Require Import Base Minter MinterProofs.
From Coq Require Import Lia ZifyBool.
Open Scope Z_scope.

Lemma floor_bounds a b : 0 < b -> b * (a / b) <= a < b * (a / b) + b.
Proof. intros Hb. pose proof (Z.mul_div_le a b Hb). pose proof (Z.mul_succ_div_gt a b Hb). lia. Qed.

(* the arithmetic core of C19: an amount K spread evenly over pm units; E = what the schedule emits
   between offsets p1 <= p2 (difference of two floors); y = the reported rate, K annualised over the
   period length D and divided by the supply S (two floors); dt = the same interval in the unit of D.
   Then E and y*S*dt/YEAR differ by less than one unit plus the resolution of the rate. *)
Lemma rate_vs_emission K pm D p1 p2 dt S Y :
  0 <= K -> 0 < pm -> 0 < D -> 0 <= p1 <= p2 -> 0 < S -> 0 < Y -> 0 <= dt -> dt * pm = (p2 - p1) * D ->
  let E := K * p2 / pm - K * p1 / pm in
  let y := (K * Y / D) / S in
  - Y < E * Y - y * S * dt < Y + (S + 1) * dt.
Proof.
  intros HK Hpm HD Hp HS HY Hdt Hal E y.
  pose proof (floor_bounds (K * p2) pm Hpm) as [A1 A2]. pose proof (floor_bounds (K * p1) pm Hpm) as [B1 B2].
  set (Q := K * Y / D) in *. pose proof (floor_bounds (K * Y) D HD) as [C1 C2]. fold Q in C1, C2.
  pose proof (floor_bounds Q S HS) as [D1 D2]. fold y in D1, D2.
  set (E2 := K * p2 / pm) in *. set (E1 := K * p1 / pm) in *.
  assert (HE : E = E2 - E1) by reflexivity.
  (* pm*E within pm of K*(p2-p1) *)
  assert (U1 : pm * E < K * (p2 - p1) + pm) by (rewrite HE; nia).
  assert (L1 : K * (p2 - p1) - pm < pm * E) by (rewrite HE; nia).
  (* y*S within S+1 below K*Y/D *)
  assert (U2 : D * (S * y) <= K * Y) by nia.
  assert (L2 : K * Y < D * (S * y) + D * S + D) by nia.
  assert (HyS : 0 <= y) by (apply Z.div_pos; [apply Z.div_pos; nia | lia]).
  split.
  - (* -Y < E*Y - y*S*dt : multiply by pm*D > 0 *)
    assert (pm * D * (- Y) < pm * D * (E * Y - y * S * dt)); [|nia].
    assert (H1 : pm * D * (E * Y) > D * Y * (K * (p2 - p1) - pm)) by nia.
    assert (H2 : pm * D * (y * S * dt) <= pm * dt * (K * Y)) by nia.
    assert (H3 : pm * dt * (K * Y) = (p2 - p1) * D * (K * Y)) by (rewrite <- Hal; ring).
    nia.
  - assert (pm * D * (E * Y - y * S * dt) < pm * D * (Y + (S + 1) * dt)); [|nia].
    assert (H1 : pm * D * (E * Y) < D * Y * (K * (p2 - p1) + pm)) by nia.
    assert (H2 : pm * dt * (K * Y) < pm * dt * (D * (S * y) + D * S + D) \/ dt = 0) by (destruct (Z.eq_dec dt 0); [right; assumption | left; nia]).
    assert (H3 : pm * dt * (K * Y) = (p2 - p1) * D * (K * Y)) by (rewrite <- Hal; ring).
    destruct H2 as [H2|H2]; [nia|]. subst dt. assert (p2 = p1) by nia. subst p2. nia.
Qed.

Lemma unix_milli_aligned m : unix_milli (m * MS) = m.
Proof. unfold unix_milli. apply Z.div_mul. unfold MS; lia. Qed.

(* C19, linear period, the numeric statement: for millisecond-aligned instants start <= t1 <= t2 <= end
   of a millisecond-aligned period, what the schedule emits over (t1, t2] (in 10^-18 units) differs
   from rate * supply * (t2 - t1) / year by less than one such unit plus (supply+1)*(t2-t1)/year units —
   the resolution of the 18-digit rate times the supply *)
Theorem linear_emission_matches_rate A ms me m1 m2 S :
  0 <= A -> 0 < S -> ms <= m1 <= m2 -> m2 <= me -> ms < me -> (me - ms) * MS <= MAXI64 ->
  let start := ms * MS in let e := me * MS in let t1 := m1 * MS in let t2 := m2 * MS in
  exists a1 a2 y,
    linear_amount A start e t1 = Ok a1 /\ linear_amount A start e t2 = Ok a2 /\
    calc_inflation {| m_seq := 1; m_end := Some e; m_cfg := CLinear A |} S start t1 = Ok y /\
    - YEAR < (a2 - a1) * YEAR - y * S * (t2 - t1) < YEAR + (S + 1) * (t2 - t1).
Proof.
  intros HA HS H1 H2 Hse Hmax. cbv zeta.
  assert (HMS : 0 < MS) by (unfold MS; lia).
  assert (Hlin : forall m, ms <= m <= me -> linear_amount A (ms * MS) (me * MS) (m * MS) = Ok (A * P * (m - ms) / (me - ms))).
  { intros m Hm. unfold linear_amount. replace (me * MS <? m * MS) with false by nia. replace (m * MS <? ms * MS) with false by nia.
    rewrite !unix_milli_aligned. replace (me - ms =? 0) with false by lia.
    unfold dec_quo_int, dec_mul_int, dec_of_int. pose proof P_pos as HP0.
    assert (Hnn : 0 <= A * P * (m - ms)) by (apply Z.mul_nonneg_nonneg; [apply Z.mul_nonneg_nonneg; lia | lia]).
    rewrite Z.quot_div_nonneg by lia. reflexivity. }
  exists (A * P * (m1 - ms) / (me - ms)), (A * P * (m2 - ms) / (me - ms)), ((A * P * YEAR / (me * MS - ms * MS)) / S).
  split; [apply Hlin; lia|]. split; [apply Hlin; lia|].
  split; [apply linear_inflation_value; try assumption; nia|].
  pose proof P_pos as HP.
  pose proof (rate_vs_emission (A * P) (me - ms) (me * MS - ms * MS) (m1 - ms) (m2 - ms) (m2 * MS - m1 * MS) S YEAR) as H.
  cbv zeta in H. apply H; try nia; try (unfold YEAR; lia).
Qed.

(* C19, exponential-step period: inside one step (and before the period's end) the emission over
   (t1, t2] and rate * supply * (t2 - t1) / year differ by less than a unit plus the rate's resolution *)
Theorem exp_emission_matches_rate A step mult start end_ t1 t2 S :
  0 <= A -> 0 <= mult -> 0 < S -> 0 < step -> start <= t1 <= t2 -> t2 - start <= MAXI64 ->
  (t1 - start) / step = (t2 - start) / step ->
  match end_ with Some e => t2 < e | None => True end ->
  exists a1 a2 y,
    exp_amount A step mult start end_ t1 = Ok a1 /\ exp_amount A step mult start end_ t2 = Ok a2 /\
    calc_inflation {| m_seq := 1; m_end := end_; m_cfg := CExp A step mult |} S start t1 = Ok y /\
    - YEAR < (a2 - a1) * YEAR - y * S * (t2 - t1) < YEAR + (S + 1) * (t2 - t1).
Proof.
  intros HA Hm HS Hst Ht Hmax Hsame Hend.
  set (n := (t1 - start) / step) in *.
  pose proof P_pos as HP.
  destruct (exp_sum_nonneg (Z.to_nat n) (dec_of_int A) mult ltac:(unfold dec_of_int; nia) Hm) as [_ Hcur].
  assert (Hamt : forall t, start <= t <= t2 -> (t - start) / step = n -> match end_ with Some e => t < e | None => True end ->
            exp_amount A step mult start end_ t =
            Ok (fst (exp_sum (Z.to_nat n) (dec_of_int A) mult) + snd (exp_sum (Z.to_nat n) (dec_of_int A) mult) * (t - (start + n * step)) / step)).
  { intros t Htt Hn He. unfold exp_amount.
    assert (Hnow : match end_ with Some e => if e <? t then e else t | None => t end = t).
    { destruct end_ as [e|]; [|reflexivity]. replace (e <? t) with false by lia. reflexivity. }
    rewrite Hnow.
    assert (Hg : go_sub t start = t - start) by (unfold go_sub, MAXI64 in *; lia). rewrite Hg.
    replace (step =? 0) with false by lia. rewrite Z.quot_div_nonneg by lia. rewrite Hn.
    destruct (exp_sum (Z.to_nat n) (dec_of_int A) mult) as [s c] eqn:Es. cbn [fst snd] in *.
    assert (Hr : 0 <= t - (start + n * step) < step).
    { pose proof (floor_bounds (t - start) step Hst) as [B1 B2]. rewrite Hn in B1, B2. lia. }
    assert (Hn0 : 0 <= n * step) by (apply Z.mul_nonneg_nonneg; [rewrite <- Hn; apply Z.div_pos; lia | lia]).
    assert (Hg2 : go_sub t (start + n * step) = t - (start + n * step)) by (unfold go_sub, MAXI64 in *; lia). rewrite Hg2.
    unfold dec_quo_int, dec_mul_int. rewrite Z.quot_div_nonneg by nia. reflexivity. }
  set (s := fst (exp_sum (Z.to_nat n) (dec_of_int A) mult)) in *.
  set (c := snd (exp_sum (Z.to_nat n) (dec_of_int A) mult)) in *.
  exists (s + c * (t1 - (start + n * step)) / step), (s + c * (t2 - (start + n * step)) / step), ((c * YEAR / step) / S).
  assert (He1 : match end_ with Some e => t1 < e | None => True end) by (destruct end_; [lia | exact I]).
  split; [apply Hamt; [lia | reflexivity | exact He1]|].
  split; [apply Hamt; [lia | symmetry; exact Hsame | exact Hend]|].
  split.
  - rewrite (exp_inflation_uses_step_amount A step mult start end_ S t1 HS Hst ltac:(lia) ltac:(lia) He1). fold n. fold c.
    assert (0 <= c * YEAR) by (unfold YEAR; nia).
    rewrite (Z.quot_div_nonneg (c * YEAR)) by lia. rewrite Z.quot_div_nonneg; [reflexivity | apply Z.div_pos; lia | lia].
  - assert (Hr1 : 0 <= t1 - (start + n * step)).
    { pose proof (floor_bounds (t1 - start) step Hst) as [B1 B2]. fold n in B1, B2. lia. }
    pose proof (rate_vs_emission c step step (t1 - (start + n * step)) (t2 - (start + n * step)) (t2 - t1) S YEAR) as H.
    cbv zeta in H.
    replace (s + c * (t2 - (start + n * step)) / step - (s + c * (t1 - (start + n * step)) / step))
      with (c * (t2 - (start + n * step)) / step - c * (t1 - (start + n * step)) / step) by lia.
    apply H; try lia; try (unfold YEAR; lia).
Qed.

(* C19 composed with C02: the cumulative amount minted up to a block time T is the integer part of the schedule's
   cumulative emission X(T) (C02_cumulative_mint_is_floor_of_schedule), so what the blocks between T1 and T2 actually mint
   is M = floor(X2) - floor(X1), which differs from the emission E = X2 - X1 by less than one base unit; combined with the
   theorems above: the minted integer amount times 10^18 and rate * supply * interval / year differ by less than one base
   unit (10^18 of the small units) plus the bound above *)
Theorem minted_matches_rate X1 X2 y S dt :
  0 <= X1 <= X2 ->
  - YEAR < (X2 - X1) * YEAR - y * S * dt < YEAR + (S + 1) * dt ->
  let M := dec_trunc_int X2 - dec_trunc_int X1 in
  - (P + 1) * YEAR < M * P * YEAR - y * S * dt < (P + 1) * YEAR + (S + 1) * dt.
Proof.
  intros HX HE M. subst M. unfold dec_trunc_int.
  pose proof P_pos as HP.
  pose proof (chop_trunc_spec X1 ltac:(lia)) as [A1 B1].
  pose proof (chop_trunc_spec X2 ltac:(lia)) as [A2 B2].
  set (f1 := chop_trunc X1) in *. set (f2 := chop_trunc X2) in *.
  assert (HY : 0 < YEAR) by (unfold YEAR; lia).
  assert (H1 : (f2 - f1) * P - (X2 - X1) < P) by lia.
  assert (H2 : - P < (f2 - f1) * P - (X2 - X1)) by lia.
  assert (H3 : ((f2 - f1) * P - (X2 - X1)) * YEAR < P * YEAR) by nia.
  assert (H4 : - P * YEAR < ((f2 - f1) * P - (X2 - X1)) * YEAR) by nia.
  split; nia.
Qed.
