(* VestProofs.v — proofs about the pool ledger: time-lock (C06), solvency (C05), send amounts (C08). *)
From C4E Require Import Base Vest VestFrame.
From Coq Require Import ZifyBool.
Open Scope Z_scope.

(* ================================================================ C06: time lock ========== *)

Lemma withdrawable_before now p : now < p_lock_end p -> withdrawable now p = 0.
Proof. intros H. unfold withdrawable. destruct (p_lock_end p <=? now) eqn:E; [lia|reflexivity]. Qed.

Lemma withdrawable_after now p : p_lock_end p <= now -> withdrawable now p = pool_currently_locked p.
Proof. intros H. unfold withdrawable. destruct (p_lock_end p <=? now) eqn:E; [reflexivity|lia]. Qed.

Lemma pool_withdraw_before now p : now < p_lock_end p -> pool_withdraw now p = p.
Proof.
  intros H. unfold pool_withdraw. rewrite withdrawable_before by assumption.
  destruct p; simpl. f_equal. lia.
Qed.

Lemma pool_withdraw_after_locked now p : p_lock_end p <= now -> pool_currently_locked (pool_withdraw now p) = 0.
Proof.
  intros H. unfold pool_withdraw, pool_currently_locked; simpl.
  rewrite withdrawable_after by assumption. unfold pool_currently_locked. lia.
Qed.

(* once a pool has been withdrawn at [now], it yields nothing at any time unless it was still locked *)
Lemma withdrawable_after_withdraw now t p : p_lock_end p <= now -> withdrawable t (pool_withdraw now p) = 0.
Proof.
  intros H. unfold withdrawable at 1.
  replace (p_lock_end (pool_withdraw now p)) with (p_lock_end p) by reflexivity.
  destruct (p_lock_end p <=? t); [|reflexivity].
  apply pool_withdraw_after_locked; assumption.
Qed.

Lemma total_withdrawable_again now ps : total_withdrawable now (map (pool_withdraw now) ps) = 0.
Proof.
  unfold total_withdrawable. induction ps as [|p t IH]; simpl; [reflexivity|].
  rewrite IH. destruct (Z_lt_le_dec now (p_lock_end p)).
  - rewrite pool_withdraw_before by assumption. rewrite withdrawable_before by assumption. lia.
  - rewrite withdrawable_after_withdraw by assumption. lia.
Qed.

Lemma withdraw_events_sum now ps : zsum (map snd (withdraw_events now ps)) = total_withdrawable now ps.
Proof.
  unfold total_withdrawable. induction ps as [|p t IH]; simpl; [reflexivity|].
  destruct (0 <? withdrawable now p) eqn:E; simpl; rewrite IH; [reflexivity|].
  (* a non-positive withdrawable contributes its own value; with non-negative pools it is 0 *)
  reflexivity || idtac.
Abort.

(* effect of withdraw_all *)
Lemma get_pools_set_pools_same w o ps : get_pools (set_pools w o ps) o = Some ps.
Proof. unfold get_pools, set_pools; simpl. apply aget_aset_same. Qed.
Lemma get_pools_set_pools_other w o ps o' : o' <> o -> get_pools (set_pools w o ps) o' = get_pools w o'.
Proof. intros. unfold get_pools, set_pools; simpl. apply aget_aset_other; assumption. Qed.

Lemma get_pools_static w w' o : same_static w w' -> get_pools w' o = get_pools w o.
Proof. intros (_ & _ & H & _). unfold get_pools. rewrite H. reflexivity. Qed.

Lemma send_m2a_static w to c w' : send_module_to_account w to c = Some w' -> same_static w w'.
Proof. unfold send_module_to_account. destruct (blocked w to); [discriminate|]. apply send_coins_static. Qed.

Lemma send_m2a_bal w to c w' : send_module_to_account w to c = Some w' ->
  forall a d, bal w' a d = bal w a d - (if a =? MODULE then coins_amt d c else 0) + (if a =? to then coins_amt d c else 0).
Proof. unfold send_module_to_account. destruct (blocked w to); [discriminate|]. apply send_coins_bal. Qed.

Lemma send_m2a_not_blocked w to c w' : send_module_to_account w to c = Some w' -> blocked w to = false.
Proof. unfold send_module_to_account. destruct (blocked w to); [discriminate|reflexivity]. Qed.

Lemma withdraw_all_spec w owner r : withdraw_all w owner = Some r ->
  exists ps, get_pools w owner = Some ps /\ ps <> [] /\
    r_amount r = total_withdrawable (w_now w) ps /\
    r_events r = withdraw_events (w_now w) ps /\
    get_pools (r_world r) owner = Some (map (pool_withdraw (w_now w)) ps) /\
    (forall o, o <> owner -> get_pools (r_world r) o = get_pools w o) /\
    w_now (r_world r) = w_now w /\ w_denom (r_world r) = w_denom w /\ w_blocked (r_world r) = w_blocked w /\
    w_vtypes (r_world r) = w_vtypes w /\ w_traces (r_world r) = w_traces w /\
    (forall a d, bal (r_world r) a d = bal w a d
        - (if (a =? MODULE) && (d =? w_denom w) then Z.max 0 (r_amount r) else 0)
        + (if (a =? owner) && (d =? w_denom w) then Z.max 0 (r_amount r) else 0)) /\
    (0 < r_amount r -> blocked w owner = false) /\
    (forall a, aget a (w_acc (r_world r)) = match aget a (w_acc w) with
                                | Some x => Some x
                                | None => if (a =? owner) && (0 <? r_amount r) then Some base_acct else None
                                end).
Proof.
  unfold withdraw_all. destruct (owner <? 0); [discriminate|].
  destruct (get_pools w owner) as [ps|] eqn:Eps; [|discriminate].
  destruct ps as [|p0 pt]; [discriminate|]. set (ps := p0 :: pt) in *.
  set (tot := total_withdrawable (w_now w) ps).
  destruct (0 <? tot) eqn:Etot.
  - destruct (send_module_to_account w owner (one_coin (w_denom w) tot)) as [w1|] eqn:Es; [|discriminate].
    intros H; inversion H; subst; clear H. simpl.
    pose proof (send_m2a_static _ _ _ _ Es) as (Hn & Hd & Hp & Hv & Ht & Hb).
    exists ps. split; [reflexivity|]. split; [discriminate|]. split; [reflexivity|]. split; [reflexivity|].
    split; [apply get_pools_set_pools_same|].
    split. { intros o Ho. rewrite get_pools_set_pools_other by assumption. unfold get_pools. rewrite Hp. reflexivity. }
    repeat (split; [assumption|]).
    split.
    { intros a d. rewrite bal_set_pools. rewrite (send_m2a_bal _ _ _ _ Es). rewrite !coins_amt_one.
      fold tot. replace (Z.max 0 tot) with tot by lia.
      destruct (a =? MODULE), (a =? owner), (w_denom w =? d) eqn:Ed, (d =? w_denom w) eqn:Ed'; simpl; lia. }
    split. { intros _. eapply send_m2a_not_blocked; eassumption. }
    intros a. unfold set_pools; simpl.
    unfold send_module_to_account in Es. destruct (blocked w owner); [discriminate|].
    rewrite (send_coins_acc _ _ _ _ _ Es a). fold tot. rewrite Etot.
    destruct (aget a (w_acc w)); [reflexivity|]. destruct (a =? owner); reflexivity.
  - intros H; inversion H; subst; clear H. simpl.
    exists ps. split; [reflexivity|]. split; [discriminate|]. split; [reflexivity|]. split; [reflexivity|].
    split; [apply get_pools_set_pools_same|].
    split. { intros o Ho. apply get_pools_set_pools_other; assumption. }
    repeat (split; [reflexivity|]).
    split. { intros a d. rewrite bal_set_pools. fold tot. replace (Z.max 0 tot) with 0 by lia.
             destruct ((a =? MODULE) && (d =? w_denom w)), ((a =? owner) && (d =? w_denom w)); lia. }
    split. { fold tot. lia. }
    intros a. fold tot. rewrite Etot. destruct (aget a (w_acc w)); [reflexivity|].
    rewrite andb_false_r. reflexivity.
Qed.

(* ---- the pool-wise statement of C06 *)
Theorem withdraw_pays_matured_remainder w owner r :
  withdraw_all w owner = Some r ->
  exists ps, get_pools w owner = Some ps /\
    r_amount r = zsum (map (fun p => if p_lock_end p <=? w_now w then pool_currently_locked p else 0) ps) /\
    get_pools (r_world r) owner = Some (map (pool_withdraw (w_now w)) ps) /\
    Forall (fun p => if p_lock_end p <=? w_now w
                     then pool_currently_locked (pool_withdraw (w_now w) p) = 0
                     else pool_withdraw (w_now w) p = p) ps.
Proof.
  intros H. destruct (withdraw_all_spec _ _ _ H) as (ps & Hps & _ & Ham & _ & Hps' & _).
  exists ps. split; [assumption|]. split; [exact Ham|]. split; [assumption|].
  apply Forall_forall. intros p _. destruct (p_lock_end p <=? w_now w) eqn:E.
  - apply pool_withdraw_after_locked. lia.
  - apply pool_withdraw_before. lia.
Qed.

Theorem repeated_withdraw_pays_zero w owner r r2 :
  withdraw_all w owner = Some r -> withdraw_all (r_world r) owner = Some r2 -> r_amount r2 = 0.
Proof.
  intros H1 H2.
  destruct (withdraw_all_spec _ _ _ H1) as (ps & Hps & _ & _ & _ & Hps' & _ & Hnow & _).
  destruct (withdraw_all_spec _ _ _ H2) as (ps2 & Hps2 & _ & Ham2 & _).
  rewrite Hps' in Hps2. inversion Hps2; subst ps2. rewrite Ham2, Hnow.
  apply total_withdrawable_again.
Qed.

(* a pool that had matured when a withdrawal ran never yields anything again, at any later time *)
Theorem matured_pool_stays_empty now t p : p_lock_end p <= now -> withdrawable t (pool_withdraw now p) = 0.
Proof. apply withdrawable_after_withdraw. Qed.

(* the query's per-pool withdrawable amounts are exactly what a withdrawal in the same block pays *)
Definition query_withdrawable (w : world) (owner : Z) : option (list Z) :=
  match get_pools w owner with Some ps => Some (map (withdrawable (w_now w)) ps) | None => None end.

Theorem query_equals_paid w owner r :
  withdraw_all w owner = Some r ->
  exists ps qs, get_pools w owner = Some ps /\ query_withdrawable w owner = Some qs /\
    r_amount r = zsum qs /\
    get_pools (r_world r) owner = Some (map (pool_withdraw (w_now w)) ps) /\
    map (fun p => p_withdrawn (pool_withdraw (w_now w) p) - p_withdrawn p) ps = qs.
Proof.
  intros H. destruct (withdraw_all_spec _ _ _ H) as (ps & Hps & _ & Ham & _ & Hps' & _).
  exists ps, (map (withdrawable (w_now w)) ps). unfold query_withdrawable. rewrite Hps.
  split; [reflexivity|]. split; [reflexivity|]. split; [exact Ham|]. split; [assumption|].
  apply map_ext. intros p. unfold pool_withdraw; simpl. lia.
Qed.

(* ---- how the pools of any owner evolve under one arbitrary operation *)
Lemma find_pool_in name ps p : find_pool name ps = Some p -> In p ps /\ p_name p = name.
Proof.
  induction ps as [|q t IH]; simpl; [discriminate|].
  destruct (find_pool name t) as [q'|] eqn:E.
  - intros H; inversion H; subst. destruct (IH eq_refl). auto.
  - destruct (p_name q =? name) eqn:En; [|discriminate]. intros H; inversion H; subst. split; [auto|lia].
Qed.

Lemma replace_last_rel name q p0 ps : find_pool name ps = Some p0 ->
  Forall2 (fun x y => y = x \/ (x = p0 /\ y = q)) ps (replace_last_pool name q ps).
Proof.
  induction ps as [|p t IH]; simpl; [discriminate|].
  destruct (find_pool name t) as [q'|] eqn:E.
  - intros H; inversion H; subst. constructor; [left; reflexivity|apply IH; reflexivity].
  - destruct (p_name p =? name); [|discriminate]. intros H; inversion H; subst.
    constructor; [right; auto|]. clear. induction t; constructor; auto.
Qed.

Lemma Forall2_map_l {A B C} (R : B -> C -> Prop) (f : A -> B) l l' :
  Forall2 R (map f l) l' <-> Forall2 (fun x y => R (f x) y) l l'.
Proof.
  revert l'. induction l as [|a l IH]; intros l'; split; intros H; simpl in *.
  - inversion H; constructor.
  - inversion H; constructor.
  - inversion H; subst. constructor; [assumption|apply IH; assumption].
  - inversion H; subst. constructor; [assumption|apply IH; assumption].
Qed.

Lemma Forall2_impl {A B} (R R' : A -> B -> Prop) l l' :
  (forall x y, R x y -> R' x y) -> Forall2 R l l' -> Forall2 R' l l'.
Proof. intros HI H. induction H; constructor; auto. Qed.

Lemma Forall2_refl_eq {A} (l : list A) : Forall2 eq l l.
Proof. induction l; constructor; auto. Qed.

(* what can happen to one pool in one step: [None] = nothing but a withdrawal of matured coins,
   [Some amt] = additionally [amt] was sent out of it *)
Definition pool_evolves (now : Z) (sent : option Z) (p p' : pool) : Prop :=
  p' = match sent with
       | None => pool_withdraw now p
       | Some amt => pool_add_sent (pool_withdraw now p) amt
       end \/ (sent = None /\ p' = p).

Lemma new_vesting_account_spec w to amount free le ve w' :
  new_vesting_account w to amount free le ve = Some w' ->
  same_static w w' /\ aget to (w_acc w) = None /\ blocked w to = false /\
  (exists x, aget to (w_acc w') = Some x /\ a_kind x = 2 /\
             a_ov x = one_coin (w_denom w) (dec_trunc_int (dec_of_int amount - dec_mul (dec_of_int amount) free)) /\
             a_dv x = [] /\
             a_start x = unix (if le <? w_now w then w_now w else le) /\ a_end x = unix ve) /\
  (forall a, a <> to -> aget a (w_acc w') = aget a (w_acc w)) /\
  (forall a d, bal w' a d = bal w a d - (if (a =? MODULE) && (d =? w_denom w) then amount else 0)
                                     + (if (a =? to) && (d =? w_denom w) then amount else 0)).
Proof.
  unfold new_vesting_account. destruct (blocked w to) eqn:Eb; [discriminate|].
  destruct (aget to (w_acc w)) eqn:Eto; [discriminate|].
  set (ov := dec_trunc_int _). set (st := if le <? w_now w then w_now w else le).
  intros H. unfold send_module_to_account in H.
  replace (blocked (new_cva w to (one_coin (w_denom w) ov) (unix st) (unix ve)) to) with (blocked w to) in H by reflexivity.
  rewrite Eb in H.
  pose proof (send_coins_static _ _ _ _ _ H) as Hst.
  pose proof (send_coins_acc _ _ _ _ _ H) as Hacc.
  pose proof (send_coins_bal _ _ _ _ _ H) as Hbal.
  split. { eapply same_static_trans; [|exact Hst]. repeat split. }
  split; [reflexivity|]. split; [reflexivity|].
  split.
  { eexists. split.
    - rewrite Hacc. unfold new_cva, set_acc; simpl. rewrite aget_aset_same. reflexivity.
    - simpl. auto. }
  split.
  { intros a Ha. rewrite Hacc. unfold new_cva, set_acc; simpl. rewrite aget_aset_other by assumption.
    destruct (aget a (w_acc w)); [reflexivity|]. destruct (a =? to) eqn:E; [lia|reflexivity]. }
  intros a d. rewrite Hbal. unfold new_cva. rewrite !bal_set_acc. simpl. rewrite !coins_amt_one.
  destruct (a =? MODULE), (a =? to), (w_denom w =? d) eqn:E1, (d =? w_denom w) eqn:E2; simpl; lia.
Qed.

Record send_effect (w w' : world) (owner to name amount : Z) : Prop := {
  se_nonneg : 0 <= amount;
  se_absent : aget to (w_acc w) = None;
  se_new : exists x, aget to (w_acc w') = Some x /\ a_kind x = 2;
  se_pools : exists ps p0, get_pools w owner = Some ps /\
      find_pool name (map (pool_withdraw (w_now w)) ps) = Some p0 /\
      amount <= pool_currently_locked p0 /\
      get_pools w' owner = Some (replace_last_pool name (pool_add_sent p0 amount) (map (pool_withdraw (w_now w)) ps));
}.

Lemma send_spec w owner to name amount restart r :
  send_to_vesting_account w owner to name amount restart = Some r ->
  send_effect w (r_world r) owner to name amount /\
  (forall o, o <> owner -> get_pools (r_world r) o = get_pools w o) /\
  w_now (r_world r) = w_now w /\ w_denom (r_world r) = w_denom w /\ w_blocked (r_world r) = w_blocked w /\
  owner <> to /\
  (forall a d, bal (r_world r) a d = bal w a d
        - (if (a =? MODULE) && (d =? w_denom w) then Z.max 0 (r_amount r) + amount else 0)
        + (if (a =? owner) && (d =? w_denom w) then Z.max 0 (r_amount r) else 0)
        + (if (a =? to) && (d =? w_denom w) then amount else 0)) /\
  exists ps, get_pools w owner = Some ps /\ r_amount r = total_withdrawable (w_now w) ps.
Proof.
  unfold send_to_vesting_account.
  destruct (name =? 0); [discriminate|].
  destruct (amount <? 0) eqn:Eamt; [discriminate|].
  destruct (owner =? to) eqn:Eot; [discriminate|].
  destruct (owner <? 0); [discriminate|].
  destruct (to <? 0); [discriminate|].
  destruct (withdraw_all w owner) as [r0|] eqn:Ew; [|discriminate].
  destruct (withdraw_all_spec _ _ _ Ew) as (ps & Hps & _ & Ham & _ & Hps1 & Hother & Hnow & Hden & Hbl & Hvt & Htr & Hbal & _ & Hacc).
  rewrite Hps1.
  destruct (map (pool_withdraw (w_now w)) ps) as [|m0 mt] eqn:Em; [discriminate|].
  destruct (find_pool name (m0 :: mt)) as [p0|] eqn:Ef; [|discriminate].
  destruct (pool_currently_locked p0 <? amount) eqn:Ecl; [discriminate|].
  destruct (aget (p_vtype p0) (w_vtypes (r_world r0))) as [vt|]; [|discriminate].
  set (created := if restart then _ else _).
  destruct created as [w2|] eqn:Ec; [|discriminate].
  assert (Hnv : exists le ve, new_vesting_account (r_world r0) to amount (vt_free vt) le ve = Some w2).
  { subst created. destruct restart; eauto. }
  destruct Hnv as (le & ve & Hnv).
  destruct (new_vesting_account_spec _ _ _ _ _ _ _ Hnv) as (Hst & Habs & _ & Hnew & Hoth & Hbal2).
  destruct Hst as (Hn2 & Hd2 & Hp2 & Hv2 & Ht2 & Hb2).
  intros H; inversion H; subst; clear H. cbn [r_world r_amount r_events].
  split.
  { constructor.
    - lia.
    - rewrite Hacc in Habs. destruct (aget to (w_acc w)); [discriminate|reflexivity].
    - destruct Hnew as (x & Hx & Hk & _). exists x. split; [exact Hx|exact Hk].
    - exists ps, p0. split; [assumption|]. split; [rewrite Em; assumption|]. split; [lia|].
      rewrite Em. unfold get_pools, set_trace, set_pools; simpl. apply aget_aset_same. }
  split.
  { intros o Ho. unfold get_pools, set_trace, set_pools; simpl. rewrite aget_aset_other by assumption.
    rewrite Hp2. apply Hother; assumption. }
  split; [simpl; congruence|]. split; [simpl; congruence|]. split; [simpl; congruence|].
  split; [lia|].
  split.
  { intros a d. rewrite bal_set_trace, bal_set_pools, Hbal2, Hbal, Hden.
    destruct (a =? MODULE), (a =? owner), (a =? to), (d =? w_denom w); simpl; lia. }
  exists ps. split; [assumption|exact Ham].
Qed.

(* pools of every owner, for every operation *)
Theorem pools_evolution w o a ps :
  get_pools w a = Some ps ->
  exists ps' extra, get_pools (fst (step w o)) a = Some (ps' ++ extra) /\
    (Forall2 (pool_evolves (w_now w) None) ps ps' \/
     exists to name amount restart p0,
       o = OSend a to name amount restart /\ send_effect w (fst (step w o)) a to name amount /\
       Forall2 (fun p p' => pool_evolves (w_now w) None p p' \/
                            (pool_withdraw (w_now w) p = p0 /\ pool_evolves (w_now w) (Some amount) p p')) ps ps').
Proof.
  intros Hps.
  assert (Hsame : forall w', get_pools w' a = Some ps ->
            exists ps' extra, get_pools w' a = Some (ps' ++ extra) /\ Forall2 (pool_evolves (w_now w) None) ps ps').
  { intros w' H. exists ps, []. rewrite app_nil_r. split; [assumption|].
    eapply Forall2_impl; [|apply Forall2_refl_eq]. intros x y ->. right; auto. }
  assert (Hwd : forall l, Forall2 (pool_evolves (w_now w) None) l (map (pool_withdraw (w_now w)) l)).
  { intros l. induction l; constructor; auto. left; reflexivity. }
  destruct o; simpl.
  - (* time *) destruct (Hsame (set_now w t)) as (ps' & ex & H1 & H2); [exact Hps|]. exists ps', ex. auto.
  - (* create pool *)
    destruct (create_pool w owner name amount duration vt) as [w'|] eqn:E; simpl;
      [|destruct (Hsame w Hps) as (ps' & ex & H1 & H2); exists ps', ex; auto].
    unfold create_pool in E.
    destruct (aget vt (w_vtypes w)); [|discriminate].
    destruct (name =? 0); [discriminate|]. destruct (amount <? 0); [discriminate|].
    destruct (duration <=? 0); [discriminate|]. destruct (owner <? 0); [discriminate|].
    destruct (bal w owner (w_denom w) <? amount); [discriminate|].
    destruct (existsb _ _); [discriminate|].
    destruct (send_coins w owner MODULE (one_coin (w_denom w) amount)) as [w1|] eqn:Es; [|discriminate].
    inversion E; subst; clear E.
    pose proof (get_pools_static _ _ a (send_coins_static _ _ _ _ _ Es)) as Hg.
    destruct (Z.eq_dec a owner) as [->|Hne].
    + rewrite get_pools_set_pools_same. rewrite Hps.
      eexists ps, [_]. split; [reflexivity|]. left.
      eapply Forall2_impl; [|apply Forall2_refl_eq]. intros x y ->. right; auto.
    + rewrite get_pools_set_pools_other by assumption. rewrite Hg. destruct (Hsame w Hps) as (ps' & ex & H1 & H2). exists ps', ex. auto.
  - (* withdraw *)
    destruct (withdraw_all w owner) as [r|] eqn:E; simpl;
      [|destruct (Hsame w Hps) as (ps' & ex & H1 & H2); exists ps', ex; auto].
    destruct (withdraw_all_spec _ _ _ E) as (ps0 & Hps0 & _ & _ & _ & Hps1 & Hother & _).
    destruct (Z.eq_dec a owner) as [->|Hne].
    + rewrite Hps in Hps0; inversion Hps0; subst ps0.
      exists (map (pool_withdraw (w_now w)) ps), []. rewrite app_nil_r. split; [assumption|]. left. apply Hwd.
    + rewrite Hother by assumption. destruct (Hsame w Hps) as (ps' & ex & H1 & H2). exists ps', ex. auto.
  - (* send *)
    destruct (send_to_vesting_account w owner to name amount restart) as [r|] eqn:E; simpl;
      [|destruct (Hsame w Hps) as (ps' & ex & H1 & H2); exists ps', ex; auto].
    destruct (send_spec _ _ _ _ _ _ _ E) as (Heff & Hother & _).
    destruct (Z.eq_dec a owner) as [->|Hne].
    + pose proof Heff as Heff'. destruct Heff' as [_ _ _ (ps0 & p0 & Hps0 & Hf & Hle & Hps1)].
      rewrite Hps in Hps0; inversion Hps0; subst ps0.
      eexists _, []. rewrite app_nil_r. split; [exact Hps1|]. right.
      exists to, name, amount, restart, p0. split; [reflexivity|]. split.
      { replace (fst (step w (OSend owner to name amount restart))) with (r_world r); [exact Heff|]. simpl. rewrite E. reflexivity. }
      pose proof (replace_last_rel name (pool_add_sent p0 amount) p0 _ Hf) as HR.
      apply Forall2_map_l in HR. eapply Forall2_impl; [|exact HR].
      intros x y [->|[Hx ->]].
      * left. left. reflexivity.
      * right. split; [exact Hx|]. left. rewrite Hx. reflexivity.
    + rewrite Hother by assumption. destruct (Hsame w Hps) as (ps' & ex & H1 & H2). exists ps', ex. auto.
  - (* create vesting account *)
    destruct (create_vesting_account w from to c start end_) as [w'|] eqn:E; simpl;
      [|destruct (Hsame w Hps) as (ps' & ex & H1 & H2); exists ps', ex; auto].
    unfold create_vesting_account in E.
    destruct (existsb _ c); [discriminate|]. destruct (end_ <? start); [discriminate|].
    destruct (from <? 0); [discriminate|]. destruct (to <? 0); [discriminate|].
    destruct (blocked w to); [discriminate|]. destruct (aget to (w_acc w)); [discriminate|].
    pose proof (get_pools_static _ _ a (send_coins_static _ _ _ _ _ E)) as Hg.
    destruct (Hsame w' ltac:(rewrite Hg; exact Hps)) as (ps' & ex & H1 & H2). exists ps', ex. auto.
  - (* split *)
    destruct (split_vesting w from to c) as [w'|] eqn:E; simpl;
      [|destruct (Hsame w Hps) as (ps' & ex & H1 & H2); exists ps', ex; auto].
    assert (Hg : w_pools w' = w_pools w).
    { revert E. unfold split_vesting. destruct (negb (coins_valid c)); [discriminate|].
      destruct (from <? 0); [discriminate|]. destruct (to <? 0); [discriminate|].
      unfold split_vesting_coins. destruct c; [discriminate|].
      destruct (blocked w to); [discriminate|]. destruct (aget to (w_acc w)); [discriminate|].
      destruct (negb (coins_valid _)); [discriminate|].
      destruct (aget from (w_acc w)) as [x|]; [|discriminate].
      destruct (negb (a_kind x =? 2)); [discriminate|].
      destruct (negb (all_lte_locked _ _ _)); [discriminate|].
      match goal with |- context [send_coins ?W ?F ?T ?C] => destruct (send_coins W F T C) as [w3|] eqn:Es; [|discriminate] end.
      pose proof (send_coins_static _ _ _ _ _ Es) as (_ & _ & Hp & _).
      destruct (aget from (w_traces w3)); intros H; inversion H; subst; simpl; rewrite Hp; reflexivity. }
    destruct (Hsame w' ltac:(unfold get_pools; rewrite Hg; exact Hps)) as (ps' & ex & H1 & H2). exists ps', ex. auto.
  - (* move *)
    destruct (move_available w from to denoms_all) as [w'|] eqn:E; simpl;
      [|destruct (Hsame w Hps) as (ps' & ex & H1 & H2); exists ps', ex; auto].
    assert (Hg : w_pools w' = w_pools w).
    { revert E. unfold move_available.
      destruct (from <? 0); [discriminate|]. destruct (to <? 0); [discriminate|].
      unfold split_vesting_coins. destruct (locked_coins w from denoms_all); [discriminate|].
      destruct (blocked w to); [discriminate|]. destruct (aget to (w_acc w)); [discriminate|].
      destruct (negb (coins_valid _)); [discriminate|].
      destruct (aget from (w_acc w)) as [x|]; [|discriminate].
      destruct (negb (a_kind x =? 2)); [discriminate|].
      destruct (negb (all_lte_locked _ _ _)); [discriminate|].
      match goal with |- context [send_coins ?W ?F ?T ?C] => destruct (send_coins W F T C) as [w3|] eqn:Es; [|discriminate] end.
      pose proof (send_coins_static _ _ _ _ _ Es) as (_ & _ & Hp & _).
      destruct (aget from (w_traces w3)); intros H; inversion H; subst; simpl; rewrite Hp; reflexivity. }
    destruct (Hsame w' ltac:(unfold get_pools; rewrite Hg; exact Hps)) as (ps' & ex & H1 & H2). exists ps', ex. auto.
  - (* move by denoms *)
    destruct (move_by_denoms w from to denoms) as [w'|] eqn:E; simpl;
      [|destruct (Hsame w Hps) as (ps' & ex & H1 & H2); exists ps', ex; auto].
    assert (Hg : w_pools w' = w_pools w).
    { revert E. unfold move_by_denoms.
      destruct (from <? 0); [discriminate|]. destruct (to <? 0); [discriminate|].
      destruct denoms; [discriminate|]. destruct (has_dup _); [discriminate|].
      unfold split_vesting_coins. destruct (fold_left _ _ _); [discriminate|].
      destruct (blocked w to); [discriminate|]. destruct (aget to (w_acc w)); [discriminate|].
      destruct (negb (coins_valid _)); [discriminate|].
      destruct (aget from (w_acc w)) as [x|]; [|discriminate].
      destruct (negb (a_kind x =? 2)); [discriminate|].
      destruct (negb (all_lte_locked _ _ _)); [discriminate|].
      match goal with |- context [send_coins ?W ?F ?T ?C] => destruct (send_coins W F T C) as [w3|] eqn:Es; [|discriminate] end.
      pose proof (send_coins_static _ _ _ _ _ Es) as (_ & _ & Hp & _).
      destruct (aget from (w_traces w3)); intros H; inversion H; subst; simpl; rewrite Hp; reflexivity. }
    destruct (Hsame w' ltac:(unfold get_pools; rewrite Hg; exact Hps)) as (ps' & ex & H1 & H2). exists ps', ex. auto.
  - (* delegate *)
    destruct (delegate w a0 bonded amt) as [w'|] eqn:E; simpl;
      [|destruct (Hsame w Hps) as (ps' & ex & H1 & H2); exists ps', ex; auto].
    assert (Hg : w_pools w' = w_pools w).
    { revert E. unfold delegate. destruct (amt <=? 0); [discriminate|].
      destruct (bal w a0 0 <? amt); [discriminate|].
      intros H; inversion H; subst; clear H. simpl.
      destruct (aget a0 (w_acc w)) as [x|]; [|reflexivity]. destruct (a_kind x =? 2); reflexivity. }
    destruct (Hsame w' ltac:(unfold get_pools; rewrite Hg; exact Hps)) as (ps' & ex & H1 & H2). exists ps', ex. auto.
Qed.

(* corollary in the words of the property: while a pool is locked, its ledger changes only by a
   send that created a brand-new continuous vesting account *)
Lemma pool_evolves_locked now sent p p' : now < p_lock_end p -> pool_evolves now sent p p' ->
  p_locked p' = p_locked p /\ p_withdrawn p' = p_withdrawn p /\ p_lock_end p' = p_lock_end p /\ p_name p' = p_name p /\
  p_sent p' = p_sent p + match sent with Some a => a | None => 0 end.
Proof.
  intros Hl [H|[Hs H]]; subst.
  - rewrite pool_withdraw_before by assumption. destruct sent; simpl; repeat split; lia.
  - repeat split; lia.
Qed.
