(* LedgerExample.v — non-vacuity of the hypotheses of LedgerProofs.v: a concrete configuration (main -> 30% to an internal
   account, 10% burned, rest to a base account; the internal account passes everything on to the base account), a world with
   1000.000...7 coins on the main account, and two histories that differ only in which payouts fail. *)
From C4E Require Import Base Minter Distributor DistrCoins DistrProofs SupplyProofs Books Credited DistrNz Ledger LedgerProofs.
From Coq Require Import Lia ZifyBool.
Open Scope Z_scope.

Definition xa1 : dacct := {| da_type := T_BASE; da_id := 1; da_key := 1; da_addr := 1 |}.
Definition xa2 : dacct := {| da_type := T_INTERNAL; da_id := 2; da_key := 2; da_addr := -1 |}.
Definition xmain : dacct := {| da_type := T_MAIN; da_id := 0; da_key := 8; da_addr := -1 |}.
Definition XAcct (a : dacct) : Prop := a = xa1 \/ a = xa2.
Definition xbk : Z := 9.

Lemma x_universe : acct_universe XAcct xbk.
Proof.
  constructor.
  - intros a [->| ->]; cbn; discriminate.
  - intros a [->| ->]; cbn; intros; try discriminate; contradiction.
  - intros a [->| ->]; cbn; discriminate.
  - intros a [->| ->]; cbn; discriminate.
  - intros a a' [->| ->] [->| ->]; cbn; split; intros H; try reflexivity; discriminate.
  - intros a a' [->| ->] [->| ->]; cbn; intros H; try discriminate; split; reflexivity.
  - intros a a' [->| ->] [->| ->]; cbn; intros; try reflexivity; try contradiction; discriminate.
Qed.

Definition xsubs : list subdist :=
  [ {| sd_name := 1; sd_sources := [xmain]; sd_primary := xa1; sd_burn := P / 10;
       sd_shares := [ {| sh_name := 1; sh_share := 3 * (P / 10); sh_dest := xa2 |} ] |};
    {| sd_name := 2; sd_sources := [xa2]; sd_primary := xa1; sd_burn := 0; sd_shares := [] |} ].

Definition xworld : dworld :=
  {| dw_subs := xsubs; dw_states := []; dw_bal := [(MAINADDR, [(0, 1007)])]; dw_burned := []; dw_burnkey := xbk |}.

Definition xst (d : Z) : aled := {| aL := fun _ => 0; aB := 0; aU := if d =? 0 then 1007 * P else 0 |}.

Lemma x_bal a : bal_of (dw_bal xworld) a = if a =? MAINADDR then [(0, 1007)] else [].
Proof. unfold bal_of, xworld. cbn [dw_bal aget]. destruct (a =? MAINADDR); reflexivity. Qed.

Lemma x_lwinv : lwinv XAcct xbk xworld.
Proof.
  constructor.
  - constructor.
    + constructor.
      * constructor.
      * constructor.
      * constructor.
      * intros a. change (bk_bal (wbank xworld)) with (dw_bal xworld). rewrite x_bal. destruct (a =? MAINADDR); cbn; [split; [lia|exact I]|exact I].
      * intros a d. change (bk_bal (wbank xworld)) with (dw_bal xworld). rewrite x_bal. destruct (a =? MAINADDR); cbn [dc_amt]; [destruct (d =? 0); lia|lia].
      * exact I.
    + split; constructor.
    + constructor.
    + split; [|constructor]. intros a. change (bk_bal (wbank xworld)) with (dw_bal xworld). rewrite x_bal.
      destruct (a =? MAINADDR); [constructor; [cbn; lia|constructor]|constructor].
  - exact I.
  - reflexivity.
  - unfold xworld, xsubs. cbn [dw_subs]. constructor; [|constructor; [|constructor]].
    + split; [cbn; split; [left; reflexivity|constructor]|]. split.
      * split; [constructor; [split; [cbn; unfold P; lia|right; right; reflexivity]|constructor]|]. split; [cbn; unfold P; lia|right; left; reflexivity].
      * split; [constructor; [cbn; unfold P; lia|constructor]|]. split; [cbn; unfold P; lia|]. unfold shares_total. cbn. unfold P. lia.
    + split; [cbn; split; [right; right; reflexivity|constructor]|]. split.
      * split; [constructor|]. split; [cbn; lia|right; left; reflexivity].
      * split; [constructor|]. split; [cbn; lia|]. unfold shares_total. cbn. unfold P. lia.
  - intros d. unfold unbooked, mainbal, remsum. cbn [dw_states xworld map zsum]. change (bk_bal (wbank xworld)) with (dw_bal xworld).
    rewrite x_bal. cbn [dc_amt Z.eqb MAINADDR]. destruct (d =? 0); unfold P; lia.
Qed.

Lemma x_rep : forall d, LRep XAcct xbk d (xst d) xworld.
Proof.
  intros d. unfold LRep, RepF, xst. cbn [aL aB aU dw_states xworld]. split; [|split].
  - intros a Ha. unfold ledA. rewrite remk_nil. change (bk_bal (wbank xworld)) with (dw_bal xworld). rewrite x_bal.
    destruct Ha as [->| ->]; cbn; lia.
  - unfold ledB. rewrite remk_nil. cbn. lia.
  - unfold unbooked, mainbal, remsum. cbn [map zsum]. change (bk_bal (wbank xworld)) with (dw_bal xworld). rewrite x_bal.
    cbn [dc_amt Z.eqb MAINADDR]. destruct (d =? 0); lia.
Qed.

(* two blocks; in the first run both bank calls of the first block's payout phase fail *)
Definition xops1 : list lop := [LBlock [true; true]; LBlock []].
Definition xops2 : list lop := [LBlock []; LBlock []].

Example failing_payouts_are_made_up :
  exists w1 w2, lrun xworld xops1 = Ok w1 /\ lrun xworld xops2 = Ok w2 /\
    (* the two runs really differ after the first block ... *)
    (exists v1 v2, lrun xworld [LBlock [true; true]] = Ok v1 /\ lrun xworld [LBlock []] = Ok v2 /\ dw_bal v1 <> dw_bal v2) /\
    (* ... and agree on what everybody holds after the second *)
    dw_bal w1 = dw_bal w2 /\ dw_burned w1 = dw_burned w2 /\
    forall d a, XAcct a -> ledA a (dw_states w1) (wbank w1) d = ledA a (dw_states w2) (wbank w2) d.
Proof.
  destruct (ledger_independent_of_failures XAcct xbk x_universe xops1 xops2 xworld xst x_lwinv) as (w1 & w2 & E1 & E2 & H).
  - constructor; [exact I|constructor; [exact I|constructor]].
  - constructor; [exact I|constructor; [exact I|constructor]].
  - constructor; [exact I|constructor; [exact I|constructor]].
  - exact x_rep.
  - exists w1, w2. split; [exact E1|]. split; [exact E2|].
    assert (V1 : exists v, lrun xworld xops1 = Ok v /\ dw_bal v = [(0, [(0, 1)]); (1, [(0, 906)])] /\ dw_burned v = [(0, 100)]) by (eexists; vm_compute; repeat split).
    assert (V2 : exists v, lrun xworld xops2 = Ok v /\ dw_bal v = [(0, [(0, 1)]); (1, [(0, 906)])] /\ dw_burned v = [(0, 100)]) by (eexists; vm_compute; repeat split).
    destruct V1 as (v1 & F1 & B1 & C1). destruct V2 as (v2 & F2 & B2 & C2). rewrite E1 in F1. rewrite E2 in F2. injection F1 as <-. injection F2 as <-.
    split.
    { eexists; eexists. split; [vm_compute; reflexivity|]. split; [vm_compute; reflexivity|]. vm_compute. discriminate. }
    split; [rewrite B1, B2; reflexivity|]. split; [rewrite C1, C2; reflexivity|].
    intros d a Ha. apply (proj1 (H d) a Ha).
Qed.
