(* The recorded vesting accounts ("traces") through the v1.2.0 upgrade (C17, C16):
   x/cfevesting/migrations/v3/store.go migrateVestingAccountTrace — the records (id, address), keyed by id in the v1.1.0 layout,
   are read in key order, deleted, and written again keyed by address with all lineage flags false;
   app/upgrades/v120/vestings_upgrades.go UpdateVestingAccountTraces — every record of the new layout whose address is on the
   list of genesis accounts gets Genesis, otherwise every one on the list of accounts created from genesis pools gets
   FromGenesisPool; all records are written back.
   Addresses are numbers; the two lists are the classes 0..19 and 100..103 (the harness maps the 24 documented addresses to
   them and every other address to 1000 and above). *)
From C4E Require Import Base.
Open Scope Z_scope.

Record trec := { tr_id : Z; tr_addr : Z; tr_genesis : bool; tr_from_pool : bool; tr_from_acct : bool }.

(* the store: the v1.1.0 layout (id -> address, in key order) and the v1.2.0 layout (address -> record) *)
Record tstore := { ts_old : list (Z * Z); ts_new : list (Z * trec) }.

Definition listed_genesis (a : Z) : bool := (0 <=? a) && (a <? 20).
Definition listed_from_pool (a : Z) : bool := (100 <=? a) && (a <? 104).

Definition migrate_traces (s : tstore) : tstore :=
  {| ts_old := [];
     ts_new := fold_left (fun acc ia => aset (snd ia) {| tr_id := fst ia; tr_addr := snd ia; tr_genesis := false;
                                                          tr_from_pool := false; tr_from_acct := false |} acc)
                         (ts_old s) (ts_new s) |}.

Definition mark_one (t : trec) : trec :=
  if listed_genesis (tr_addr t)
  then {| tr_id := tr_id t; tr_addr := tr_addr t; tr_genesis := true; tr_from_pool := tr_from_pool t; tr_from_acct := tr_from_acct t |}
  else if listed_from_pool (tr_addr t)
  then {| tr_id := tr_id t; tr_addr := tr_addr t; tr_genesis := tr_genesis t; tr_from_pool := true; tr_from_acct := tr_from_acct t |}
  else t.

(* the records are written back under their own address: in place *)
Definition mark_traces (s : tstore) : tstore :=
  {| ts_old := ts_old s; ts_new := map (fun kt => (fst kt, mark_one (snd kt))) (ts_new s) |}.

(* the handler: module migrations first, then the marking *)
Definition upgrade_traces (s : tstore) : tstore := mark_traces (migrate_traces s).
(* the other order (what a reordering of the handler's statements gives) *)
Definition upgrade_traces_marking_first (s : tstore) : tstore := migrate_traces (mark_traces s).

Definition documented (id a : Z) : trec :=
  {| tr_id := id; tr_addr := a; tr_genesis := listed_genesis a;
     tr_from_pool := negb (listed_genesis a) && listed_from_pool a; tr_from_acct := false |}.

(* ---------------------------------------------------------------- correspondence --------- *)
(* a case: the recorded accounts of the legacy store (id, address class) and, per legacy record in the same order, what the
   implementation holds under that address after the upgrade: [found; id; genesis; from pool; from account], then the number
   of records *)
Definition code_of (o : option trec) : list Z :=
  match o with
  | None => [0; 0; 0; 0; 0]
  | Some t => [1; tr_id t; if tr_genesis t then 1 else 0; if tr_from_pool t then 1 else 0; if tr_from_acct t then 1 else 0]
  end.

Record tcase := { tc_id : Z; tc_legacy : list (Z * Z); tc_expected : list Z }.

Definition tcase_got (c : tcase) : list Z :=
  let s := upgrade_traces {| ts_old := tc_legacy c; ts_new := [] |} in
  flat_map (fun ia => code_of (aget (snd ia) (ts_new s))) (tc_legacy c) ++ [Z.of_nat (length (ts_new s))].

Fixpoint zlist_eqb (a b : list Z) : bool :=
  match a, b with
  | [], [] => true
  | x :: a', y :: b' => (x =? y) && zlist_eqb a' b'
  | _, _ => false
  end.

Definition tmismatches (cs : list tcase) : list (Z * Z * list Z) :=
  flat_map (fun c => let g := tcase_got c in if zlist_eqb g (tc_expected c) then [] else [(tc_id c, 1, g)]) cs.

(* ---------------------------------------------------------------- proofs ------------------ *)
Definition fresh_rec (ia : Z * Z) : trec :=
  {| tr_id := fst ia; tr_addr := snd ia; tr_genesis := false; tr_from_pool := false; tr_from_acct := false |}.

Lemma migrate_new_eq s : ts_new (migrate_traces s) = fold_left (fun acc ia => aset (snd ia) (fresh_rec ia) acc) (ts_old s) (ts_new s).
Proof. reflexivity. Qed.

Lemma find_app_ {A} (f : A -> bool) (l1 l2 : list A) :
  find f (l1 ++ l2) = match find f l1 with Some x => Some x | None => find f l2 end.
Proof. induction l1 as [|x t IH]; [reflexivity|]. cbn [app find]. destruct (f x); [reflexivity|exact IH]. Qed.

(* looking up an address after the migration: the last legacy record with that address, else what the new layout held *)
Lemma aget_fold_aset a : forall (old : list (Z * Z)) (acc : list (Z * trec)),
  aget a (fold_left (fun acc ia => aset (snd ia) (fresh_rec ia) acc) old acc) =
  match find (fun ia => snd ia =? a) (rev old) with
  | Some ia => Some (fresh_rec ia)
  | None => aget a acc
  end.
Proof.
  induction old as [|[i b] t IH]; intros acc; [reflexivity|].
  cbn [fold_left]. rewrite IH. cbn [rev]. rewrite find_app_.
  destruct (find (fun ia => snd ia =? a) (rev t)) as [ia|]; [reflexivity|].
  cbn [find snd]. destruct (b =? a) eqn:E.
  - assert (b = a) by lia. subst b. apply aget_aset_same.
  - apply aget_aset_other. lia.
Qed.

Lemma aget_map_mark a : forall l, aget a (map (fun kt : Z * trec => (fst kt, mark_one (snd kt))) l) = option_map mark_one (aget a l).
Proof.
  induction l as [|[k v] t IH]; [reflexivity|]. cbn [map aget fst snd]. destruct (a =? k); [reflexivity|exact IH].
Qed.

Lemma mark_fresh i a : mark_one (fresh_rec (i, a)) = documented i a.
Proof.
  unfold mark_one, fresh_rec, documented. cbn [fst snd tr_addr tr_id tr_genesis tr_from_pool tr_from_acct].
  destruct (listed_genesis a); [reflexivity|]. destruct (listed_from_pool a); reflexivity.
Qed.

Lemma find_rev_nodup (old : list (Z * Z)) i a :
  NoDup (map snd old) -> In (i, a) old -> find (fun ia => snd ia =? a) (rev old) = Some (i, a).
Proof.
  induction old as [|[j b] t IH]; intros Hnd Hin; [contradiction|].
  cbn [map snd] in Hnd. inversion Hnd as [|? ? Hnot Hnd']; subst.
  cbn [rev]. rewrite find_app_. destruct Hin as [Heq|Hin].
  - inversion Heq; subst.
    destruct (find (fun ia => snd ia =? a) (rev t)) as [[j' b']|] eqn:Ef.
    + apply find_some in Ef. destruct Ef as [Hin' Hb]. cbn [snd] in Hb. assert (b' = a) by lia. subst b'.
      exfalso. apply Hnot. apply in_rev in Hin'. apply (in_map snd) in Hin'. exact Hin'.
    + cbn [find snd]. rewrite Z.eqb_refl. reflexivity.
  - rewrite (IH Hnd' Hin). reflexivity.
Qed.

Lemma length_aset_fresh {A} k (v : A) l : aget k l = None -> length (aset k v l) = S (length l).
Proof.
  induction l as [|[k' v'] t IH]; intros H; [reflexivity|]. cbn [aget] in H. cbn [aset].
  destruct (k =? k'); [discriminate|]. cbn [length]. rewrite IH by assumption. reflexivity.
Qed.

Lemma aget_none_fold a : forall (old : list (Z * Z)) acc,
  ~ In a (map snd old) -> aget a acc = None ->
  aget a (fold_left (fun acc ia => aset (snd ia) (fresh_rec ia) acc) old acc) = None.
Proof.
  intros old acc Hn Ha. rewrite aget_fold_aset.
  destruct (find (fun ia => snd ia =? a) (rev old)) as [[j b]|] eqn:Ef; [|exact Ha].
  apply find_some in Ef. destruct Ef as [Hin Hb]. cbn [snd] in Hb. assert (b = a) by lia. subst b.
  exfalso. apply Hn. apply in_rev in Hin. apply (in_map snd) in Hin. exact Hin.
Qed.

Lemma length_fold_nodup : forall (old : list (Z * Z)) acc,
  NoDup (map snd old) -> (forall a, In a (map snd old) -> aget a acc = None) ->
  length (fold_left (fun acc ia => aset (snd ia) (fresh_rec ia) acc) old acc) = (length acc + length old)%nat.
Proof.
  induction old as [|[i a] t IH]; intros acc Hnd Hfree; [cbn; lia|].
  cbn [map snd] in Hnd. inversion Hnd as [|? ? Hnot Hnd']; subst.
  cbn [fold_left snd]. rewrite IH; [| exact Hnd' |].
  - rewrite length_aset_fresh by (apply Hfree; left; reflexivity). cbn [length]. lia.
  - intros b Hb. rewrite aget_aset_other; [apply Hfree; right; exact Hb|]. intros ->. contradiction.
Qed.

(* C17: on a v1.1.0 store (nothing in the new layout yet) whose recorded addresses are pairwise different, after the upgrade every
   recorded account is recorded under its address with its id and exactly the documented lineage, and nothing else is recorded *)
Theorem upgrade_records_documented_lineage (old : list (Z * Z)) :
  NoDup (map snd old) ->
  let s := upgrade_traces {| ts_old := old; ts_new := [] |} in
  (forall i a, In (i, a) old -> aget a (ts_new s) = Some (documented i a)) /\
  length (ts_new s) = length old /\ ts_old s = [].
Proof.
  intros Hnd s. split; [|split].
  - intros i a Hin. unfold s, upgrade_traces, mark_traces. cbn [ts_new]. rewrite aget_map_mark, migrate_new_eq. cbn [ts_old ts_new].
    rewrite aget_fold_aset. rewrite (find_rev_nodup old i a Hnd Hin). cbn [option_map]. rewrite mark_fresh. reflexivity.
  - unfold s, upgrade_traces, mark_traces. cbn [ts_new]. rewrite map_length, migrate_new_eq. cbn [ts_old ts_new].
    rewrite length_fold_nodup; [reflexivity|exact Hnd|reflexivity].
  - reflexivity.
Qed.

(* the marking sees only the new layout: run before the migration on a v1.1.0 store it marks nothing, and the migration then
   records every account with all flags false *)
Theorem marking_before_migration_marks_nothing (old : list (Z * Z)) i a :
  NoDup (map snd old) -> In (i, a) old ->
  aget a (ts_new (upgrade_traces_marking_first {| ts_old := old; ts_new := [] |})) = Some (fresh_rec (i, a)).
Proof.
  intros Hnd Hin. unfold upgrade_traces_marking_first, mark_traces. cbn [ts_old ts_new map]. rewrite migrate_new_eq. cbn [ts_old ts_new].
  rewrite aget_fold_aset. rewrite (find_rev_nodup old i a Hnd Hin). reflexivity.
Qed.
