(* C06: a send from a pool first pays the owner what has matured, exactly like a withdraw-all; a withdrawal repeated right
   after it pays nothing, and every pool that had reached its lock end is empty. *)
From C4E Require Import Base Vest VestFrame VestProofs SendProofs.
Open Scope Z_scope.

Lemma withdrawable_of_withdrawn now p : withdrawable now (pool_withdraw now p) = 0.
Proof.
  destruct (Z_lt_le_dec now (p_lock_end p)) as [H|H].
  - rewrite pool_withdraw_before by assumption. apply withdrawable_before. assumption.
  - apply withdrawable_after_withdraw. assumption.
Qed.

(* the pool the send takes from: after the withdrawal it either is still locked (nothing withdrawable) or has matured and is
   empty, and then the guard [amount <= currently locked] leaves only amount = 0 *)
Lemma withdrawable_of_sent_from now p amount :
  0 <= amount -> amount <= pool_currently_locked (pool_withdraw now p) ->
  withdrawable now (pool_add_sent (pool_withdraw now p) amount) = 0.
Proof.
  intros H0 H1. unfold withdrawable. replace (p_lock_end (pool_add_sent (pool_withdraw now p) amount)) with (p_lock_end p) by reflexivity.
  destruct (p_lock_end p <=? now) eqn:E; [|reflexivity].
  assert (Hz : pool_currently_locked (pool_withdraw now p) = 0) by (apply pool_withdraw_after_locked; lia).
  unfold pool_currently_locked in *. cbn [pool_add_sent p_locked p_withdrawn p_sent] in *. lia.
Qed.

Lemma total_withdrawable_replace_last name q now : forall ps,
  Forall (fun p => withdrawable now p = 0) ps -> withdrawable now q = 0 ->
  total_withdrawable now (replace_last_pool name q ps) = 0.
Proof.
  unfold total_withdrawable. induction ps as [|p t IH]; intros Hall Hq; [reflexivity|].
  inversion Hall as [|? ? Hp Ht]; subst. cbn [replace_last_pool].
  destruct (find_pool name t).
  - cbn [map zsum]. rewrite IH by assumption. lia.
  - assert (Hts : zsum (map (withdrawable now) t) = 0).
    { clear -Ht. induction Ht as [|x l Hx _ IHl]; [reflexivity|]. cbn [map zsum]. lia. }
    destruct (p_name p =? name); cbn [map zsum]; lia.
Qed.

Theorem withdrawal_repeated_after_send_pays_zero w owner to name amount restart r r2 :
  send_to_vesting_account w owner to name amount restart = Some r ->
  withdraw_all (r_world r) owner = Some r2 -> r_amount r2 = 0.
Proof.
  intros Hs Hw.
  destruct (send_unfold _ _ _ _ _ _ _ Hs) as (r0 & ps & p0 & vt & w2 & _ & Hamt & _ & Hw0 & Hps & Hf & Hle & _ & Hnew & Hr & _).
  destruct (withdraw_all_spec _ _ _ Hw0) as (_ & _ & _ & _ & _ & _ & _ & Hnow0 & _).
  destruct (new_vesting_account_spec _ _ _ _ _ _ _ Hnew) as ((Hnow2 & _) & _).
  destruct (withdraw_all_spec _ _ _ Hw) as (ps2 & Hps2 & _ & Ham2 & _).
  rewrite Hr in Hps2, Ham2.
  assert (Hn : w_now (set_trace (set_pools w2 owner (replace_last_pool name (pool_add_sent p0 amount) (map (pool_withdraw (w_now w)) ps))) to
                        {| t_genesis := false; t_from_pool := p_genesis p0; t_from_acct := false |}) = w_now w).
  { cbn [set_trace set_pools w_now]. congruence. }
  rewrite Hn in Ham2.
  assert (Hg : ps2 = replace_last_pool name (pool_add_sent p0 amount) (map (pool_withdraw (w_now w)) ps)).
  { unfold get_pools in Hps2. cbn [set_trace w_pools] in Hps2. fold (get_pools (set_pools w2 owner (replace_last_pool name (pool_add_sent p0 amount) (map (pool_withdraw (w_now w)) ps))) owner) in Hps2.
    rewrite get_pools_set_pools_same in Hps2. inversion Hps2. reflexivity. }
  rewrite Ham2, Hg. apply total_withdrawable_replace_last.
  - apply Forall_forall. intros q Hq. apply in_map_iff in Hq. destruct Hq as (p & <- & _). apply withdrawable_of_withdrawn.
  - destruct (find_pool_map_withdraw _ _ _ _ Hf) as (p & _ & -> & _). apply withdrawable_of_sent_from; assumption.
Qed.

(* every pool of the owner that had reached its lock end is empty after the send *)
Theorem send_pays_matured_pools_in_full w owner to name amount restart r :
  send_to_vesting_account w owner to name amount restart = Some r ->
  exists ps', get_pools (r_world r) owner = Some ps' /\
    Forall (fun p => p_lock_end p <= w_now w -> pool_currently_locked p = 0) ps'.
Proof.
  intros Hs.
  destruct (send_unfold _ _ _ _ _ _ _ Hs) as (r0 & ps & p0 & vt & w2 & _ & Hamt & _ & Hw0 & Hps & Hf & Hle & _ & Hnew & Hr & _).
  exists (replace_last_pool name (pool_add_sent p0 amount) (map (pool_withdraw (w_now w)) ps)). split.
  - rewrite Hr. unfold get_pools. cbn [set_trace w_pools].
    fold (get_pools (set_pools w2 owner (replace_last_pool name (pool_add_sent p0 amount) (map (pool_withdraw (w_now w)) ps))) owner).
    apply get_pools_set_pools_same.
  - assert (Hq0 : p_lock_end (pool_add_sent p0 amount) <= w_now w -> pool_currently_locked (pool_add_sent p0 amount) = 0).
    { destruct (find_pool_map_withdraw _ _ _ _ Hf) as (p & _ & -> & _). intros Hm.
      change (p_lock_end (pool_add_sent (pool_withdraw (w_now w) p) amount)) with (p_lock_end p) in Hm.
      pose proof (withdrawable_of_sent_from (w_now w) p amount Hamt Hle) as Hz. unfold withdrawable in Hz.
      replace (p_lock_end (pool_add_sent (pool_withdraw (w_now w) p) amount)) with (p_lock_end p) in Hz by reflexivity.
      destruct (p_lock_end p <=? w_now w) eqn:E; [exact Hz|lia]. }
    assert (Hall : Forall (fun p => p_lock_end p <= w_now w -> pool_currently_locked p = 0) (map (pool_withdraw (w_now w)) ps)).
    { apply Forall_forall. intros q Hq. apply in_map_iff in Hq. destruct Hq as (p & <- & _). intros Hm.
      apply pool_withdraw_after_locked. exact Hm. }
    revert Hall. generalize (map (pool_withdraw (w_now w)) ps). induction l as [|p t IH]; intros Hall; [constructor|].
    inversion Hall as [|? ? Hp Ht]; subst. cbn [replace_last_pool]. destruct (find_pool name t).
    + constructor; [exact Hp|apply IH; exact Ht].
    + destruct (p_name p =? name); constructor; assumption.
Qed.
