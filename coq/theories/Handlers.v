(* Handlers.v — C20: the "front door" of every message and query of the four custom modules.

   A message arrives with raw field values: big integers and decimals may be nil, addresses may not
   parse, denominations may be malformed, pointers inside repeated fields may be nil, Any values may be
   unresolved.  This file models, for every message type, (a) ValidateBasic and (b) the handler up to
   and including every operation on such a raw value that panics in Go when its operand is not well
   formed (the SDK layer below: arithmetic or comparison on a nil Int/Dec, NewCoin / AmountOf with an
   invalid denomination or a negative amount, KVStore.Set with an empty key, dereferencing a nil
   pointer, bank.SendCoins from an account whose locked coins exceed its balance).  The guards and the
   dangerous operations appear in the order in which the Go code executes them; the outcome is
   Ok / Err (an error is returned) / Panic.  Behind the front door the handlers continue into the
   well-formed cores modelled in Vest.v, Params.v (distributor validation, dparams_valid) and Minter.v
   (minters_valid_from); the lowering functions below connect the raw values to those models.

   Transcribed from x/cfevesting/types/message_*.go, x/cfevesting/keeper/{msg_server_*,vesting,
   vesting_account_split}.go, x/cfeminter/types/{minter,message_update_params}.go,
   x/cfeminter/keeper/msg_server_update_params.go, x/cfedistributor/types/{sub_distributor,params,
   message_update_params}.go, x/cfedistributor/keeper/msg_server_update_params.go,
   x/cfesignature/keeper/{msg_server_*,grpc_query_*}.go.  Definitions only. *)
From C4E Require Export Params.
Open Scope Z_scope.

(* ================================================================ raw values ============== *)
Inductive ival := INil | IV (z : Z).                (* sdk.Int: the zero value has a nil *big.Int *)
Inductive dval := DNil | DV (z : Z).                (* sdk.Dec, scaled by 10^18 *)
Inductive addr := ABad (s : Z) | AOk (id : Z).      (* a string that does not / does parse as bech32; s = 0: "" *)
Inductive denom := DEmpty | DBad | DOk (id : Z).    (* "", a string rejected by sdk.ValidateDenom, a valid denomination *)
Definition coin := (denom * ival)%type.
Inductive coinsv := CNil | CL (l : list coin).      (* nil slice / non-nil slice (both may have length 0) *)
Definition coins_list (c : coinsv) : list coin := match c with CNil => [] | CL l => l end.

Definition bind {A B} (r : outcome A) (f : A -> outcome B) : outcome B :=
  match r with Ok a => f a | Err => Err | Panic => Panic end.
Notation "'do' x <- r ; k" := (bind r (fun x => k)) (at level 200, x name, r at level 100, k at level 200).
Definition guard (b : bool) : outcome unit := if b then Ok tt else Err.   (* "if !b { return err }" *)
Definition must (b : bool) : outcome unit := if b then Ok tt else Panic.  (* an operation that panics unless b *)

(* ---------------------------------------------------------------- SDK layer --------------- *)
Definition i_is_nil (i : ival) : bool := match i with INil => true | IV _ => false end.
(* Sign, IsNegative, IsPositive, LT, GT, Add, String ... on a nil Int dereference a nil *big.Int *)
Definition i_val (i : ival) : outcome Z := match i with INil => Panic | IV z => Ok z end.
Definition d_is_nil (d : dval) : bool := match d with DNil => true | DV _ => false end.
Definition d_val (d : dval) : outcome Z := match d with DNil => Panic | DV z => Ok z end.
Definition parse (a : addr) : outcome Z := match a with ABad _ => Err | AOk id => Ok id end.   (* sdk.AccAddressFromBech32 *)
Definition addr_eqb (a b : addr) : bool :=                                                    (* string equality *)
  match a, b with ABad x, ABad y => x =? y | AOk x, AOk y => x =? y | _, _ => false end.
Definition denom_ok (d : denom) : bool := match d with DOk _ => true | _ => false end.        (* sdk.ValidateDenom == nil *)
Definition denom_empty (d : denom) : bool := match d with DEmpty => true | _ => false end.
Definition denom_eqb (a b : denom) : bool :=
  match a, b with DEmpty, DEmpty => true | DBad, DBad => true | DOk x, DOk y => x =? y | _, _ => false end.
(* sdk.NewCoin panics on an invalid denomination and on a negative (or nil) amount *)
Definition new_coin (d : denom) (a : ival) : outcome unit := do z <- i_val a; must (denom_ok d && (0 <=? z)).
(* Coins.AmountOf panics on an invalid denomination (mustValidateDenom) *)
Definition amount_of (d : denom) : outcome unit := must (denom_ok d).
(* telemetry.SetGaugeWithLabels(.., float32(x.Int64()), ..) under "if x.IsInt64()": Int.Int64 panics outside the int64 range *)
Definition is_int64 (z : Z) : bool := (- MAXI64 - 1 <=? z) && (z <=? MAXI64).
Definition gauge (z : Z) : outcome unit := if is_int64 z then must (is_int64 z) else Ok tt.
Fixpoint gauges (l : list Z) : outcome unit := match l with [] => Ok tt | z :: t => do _ <- gauge z; gauges t end.
(* a deferred function runs whatever the body returned; a panic in either wins *)
Definition deferred {A} (d : outcome unit) (body : outcome A) : outcome A :=
  match body with Panic => Panic | r => match d with Panic => Panic | _ => r end end.
Definition opt_deref {A} (o : option A) : outcome A := match o with Some x => Ok x | None => Panic end.
Definition is_some {A} (o : option A) : bool := match o with Some _ => true | None => false end.

Definition coins_any_nil (l : list coin) : bool := existsb (fun c => i_is_nil (snd c)) l.      (* Coins.IsAnyNil *)
(* Coins.IsAnyNegative: coin.Amount.IsNegative() for each coin in turn *)
Fixpoint coins_any_negative (l : list coin) : outcome bool :=
  match l with
  | [] => Ok false
  | c :: t => do z <- i_val (snd c); if z <? 0 then Ok true else coins_any_negative t
  end.
(* Coins.Validate: denominations valid and strictly increasing, amounts positive; the first coin is
   checked denomination then amount, the others duplicate / denomination / order / amount *)
Definition denom_id (d : denom) : Z := match d with DOk id => id | _ => -1 end.
Fixpoint coins_validate_from (low : Z) (l : list coin) : outcome bool :=
  match l with
  | [] => Ok true
  | (d, a) :: t =>
      if negb (denom_ok d) then Ok false
      else if denom_id d <=? low then Ok false
      else do z <- i_val a; if z <=? 0 then Ok false else coins_validate_from (denom_id d) t
  end.
Definition coins_validate (l : list coin) : outcome bool := coins_validate_from (-1) l.
(* the same decision on the slice sorted by denomination (Coins.Sort sorts in place): valid
   denominations, no duplicate, positive amounts; only used behind a passed IsAnyNil guard *)
Fixpoint denoms_nodup (l : list Z) : bool :=
  match l with [] => true | x :: t => negb (existsb (Z.eqb x) t) && denoms_nodup t end.
Fixpoint coins_positive_valid (nodup : bool) (k : list coin) : outcome bool :=
  match k with
  | [] => Ok nodup
  | (d, a) :: t => do z <- i_val a; if negb (denom_ok d) || (z <=? 0) then Ok false else coins_positive_valid nodup t
  end.
Definition coins_valid_sorted (l : list coin) : outcome bool :=
  coins_positive_valid (denoms_nodup (map (fun c => denom_id (fst c)) l)) l.

(* ================================================================ state =================== *)
Record pool_st := { pl_name : Z; pl_cur : Z; pl_matured : bool; pl_vt : Z }.   (* pl_cur: GetCurrentlyLocked *)
Record env := {
  e_gov : Z;                                  (* the governance authority (interned string) *)
  e_vest_denom : denom;                       (* stored cfevesting Params.Denom *)
  e_vtype : Z -> option Z;                    (* vesting type name -> Free (Dec) *)
  e_pools : Z -> option (list pool_st);       (* owner -> AccountVestingPools *)
  e_kind : Z -> Z;                            (* account at the address: 0 none, 1 base, 2 continuous vesting, 3 other *)
  e_haskey : Z -> bool;                       (* the account has a public key *)
  e_blocked : Z -> bool;                      (* bank.BlockedAddr *)
  e_balance : Z -> Z;                         (* balance of the vesting denomination *)
  e_spendable : Z -> Z;
  e_solvent : Z -> bool;                      (* balance >= locked coins in every denomination *)
  e_can_send : Z -> list (Z * Z) -> bool;     (* spendable balance covers the (valid) coins *)
  e_locked : Z -> list (Z * Z);               (* bank.LockedCoins: valid coins *)
  e_can_unlock : Z -> list (Z * Z) -> bool;   (* coins.IsAllLTE(locked) *)
  e_send_enabled : bool;
  e_module_balance : Z;                       (* cfevesting module account, vesting denomination *)
  e_minter_seq : Z;                           (* MinterState.SequenceId *)
  e_minter_denom_ok : bool;                   (* stored cfeminter MintDenom is valid *)
  e_subs : list psub;                         (* stored distributor parameters *)
  e_has_link : Z -> bool;                     (* cfesignature: a payload link is stored under the key *)
  e_any_pools : bool;                         (* GetAllAccountVestingPools is not empty *)
}.

(* the part of the state the handlers rely on: what genesis / parameter validation and the solvency
   theorems (C05, C06) establish for every reachable state *)
Definition pool_ok (p : pool_st) : bool := 0 <=? pl_cur p.
Definition env_inv (e : env) : Prop :=
  denom_ok (e_vest_denom e) = true
  /\ (forall o ps, e_pools e o = Some ps -> forallb pool_ok ps = true)
  /\ (forall n f, e_vtype e n = Some f -> 0 <= f <= P)
  /\ (forall a, e_kind e a <> 0 -> e_solvent e a = true).

(* ================================================================ cfevesting ============== *)
Definition validate_create_pool (owner : addr) (name : Z) (amount : ival) (dur : Z) : outcome Z :=
  do _ <- guard (negb (name =? 0));
  do _ <- guard (negb (i_is_nil amount));
  do z <- i_val amount;
  do _ <- guard (0 <=? z);
  do _ <- guard (0 <? dur);
  parse owner.

Definition pool_named (n : Z) (p : pool_st) : bool := pl_name p =? n.
Definition lower_coin (c : coin) : Z * Z := (denom_id (fst c), match snd c with IV z => z | INil => 0 end).

Definition h_create_pool (e : env) (owner : addr) (name : Z) (amount : ival) (dur vt : Z) : outcome unit :=
  do _ <- guard (negb (i_is_nil amount));                       (* msg server *)
  do _ <- guard (is_some (e_vtype e vt));                       (* GetVestingType *)
  do a <- validate_create_pool owner name amount dur;
  do z <- i_val amount;
  do _ <- guard (z <=? e_balance e a);                          (* balance.Amount.LT(amount) *)
  do _ <- guard (negb (existsb (pool_named name) (match e_pools e a with Some ps => ps | None => [] end)));
  do _ <- new_coin (e_vest_denom e) amount;
  do _ <- must ((z =? 0) || e_solvent e a || (e_kind e a =? 0));  (* SendCoinsFromAccountToModule -> subUnlockedCoins *)
  do _ <- guard (z <=? e_spendable e a);
  gauge z.

(* Keeper.WithdrawAllAvailable: Ok (total withdrawn, pools afterwards) *)
Definition withdrawable (p : pool_st) : Z := if pl_matured p then pl_cur p else 0.
Definition after_withdraw (p : pool_st) : pool_st :=
  {| pl_name := pl_name p; pl_cur := pl_cur p - withdrawable p; pl_matured := pl_matured p; pl_vt := pl_vt p |}.
Definition k_withdraw_all (e : env) (owner : addr) : outcome (Z * list pool_st) :=
  do a <- parse owner;
  match e_pools e a with
  | None => Err
  | Some [] => Err
  | Some ps =>
      let total := zsum (map withdrawable ps) in
      do _ <- (if 0 <? total then (do _ <- new_coin (e_vest_denom e) (IV total); guard (total <=? e_module_balance e)) else Ok tt);
      do _ <- new_coin (e_vest_denom e) (IV total);             (* result := sdk.NewCoin(denom, toWithdraw) *)
      do _ <- (if 0 <? total then gauge total else Ok tt);      (* deferred gauge under toWithdraw.IsPositive() && IsInt64() *)
      Ok (total, map after_withdraw ps)
  end.
Definition h_withdraw (e : env) (owner : addr) : outcome unit := do w <- k_withdraw_all e owner; gauge (fst w).

Definition validate_send_to_vesting (owner to : addr) (name : Z) (amount : ival) : outcome (Z * Z) :=
  do _ <- guard (negb (name =? 0));
  do _ <- guard (negb (i_is_nil amount));
  do z <- i_val amount;
  do _ <- guard (0 <=? z);
  do _ <- guard (negb (addr_eqb owner to));
  do o <- parse owner;
  do t <- parse to;
  Ok (o, t).

Fixpoint find_last_pool (n : Z) (ps : list pool_st) (acc : option pool_st) : option pool_st :=
  match ps with [] => acc | p :: t => find_last_pool n t (if pool_named n p then Some p else acc) end.

(* Keeper.newVestingAccount *)
Definition k_new_vesting_account (e : env) (to : Z) (amount free : Z) : outcome unit :=
  do _ <- new_coin (e_vest_denom e) (IV amount);
  do _ <- guard (e_send_enabled e);
  do _ <- guard (negb (e_blocked e to));
  do _ <- guard (e_kind e to =? 0);
  let dec := dec_of_int amount in
  do _ <- new_coin (e_vest_denom e) (IV (dec_trunc_int (dec - dec_mul dec free)));
  guard true.

Definition h_send_to_vesting (e : env) (owner to : addr) (name : Z) (amount : ival) (restart : bool) : outcome unit :=
  do _ <- guard (negb (i_is_nil amount));
  do za <- i_val amount;
  deferred (gauge za) (
  do ot <- validate_send_to_vesting owner to name amount;
  do w <- k_withdraw_all e owner;
  match snd w with
  | [] => Err
  | ps =>
      match find_last_pool name ps None with
      | None => Err
      | Some p =>
          do z <- i_val amount;
          do _ <- guard (z <=? pl_cur p);                       (* available.LT(amount) *)
          match e_vtype e (pl_vt p) with
          | None => Err
          | Some free => k_new_vesting_account e (snd ot) z free
          end
      end
  end).

Definition validate_create_vesting_account (from to : addr) (amt : coinsv) (start end_ : Z) : outcome (Z * Z) :=
  match amt with
  | CNil => Err
  | CL l =>
      do _ <- guard (negb (coins_any_nil l));
      do neg <- coins_any_negative l;
      do _ <- guard (negb neg);
      do _ <- guard (start <=? end_);
      do f <- parse from;
      do t <- parse to;
      do _ <- guard (negb (f =? t));                            (* F10 *)
      Ok (f, t)
  end.

Definition h_create_vesting_account (e : env) (from to : addr) (amt : coinsv) (start end_ : Z) : outcome unit :=
  do _ <- guard (match amt with CNil => false | CL l => negb (coins_any_nil l) end);
  deferred (gauges (map (fun c => snd (lower_coin c)) (coins_list amt))) (
  do ft <- validate_create_vesting_account from to amt start end_;
  let l := coins_list amt in
  do _ <- guard (e_send_enabled e);
  do _ <- guard (negb (e_blocked e (snd ft)));
  do _ <- guard (e_kind e (snd ft) =? 0);
  (* newContinuousVestingAccount(to, amount.Sort()); bank.SendCoins(from, to, amount) *)
  do ok <- coins_valid_sorted l;
  do _ <- guard ok;                                             (* !amt.IsValid() *)
  match l with
  | [] => Ok tt
  | _ => do _ <- must (negb (fst ft =? snd ft) && (e_solvent e (fst ft) || (e_kind e (fst ft) =? 0)));
         guard (e_can_send e (fst ft) (map lower_coin l))
  end).

Definition validate_addresses (from to : addr) : outcome (Z * Z) := do f <- parse from; do t <- parse to; Ok (f, t).

Definition validate_split (from to : addr) (amt : coinsv) : outcome (Z * Z) :=
  match amt with
  | CNil => Err
  | CL l =>
      do _ <- guard (negb (coins_any_nil l));
      do ok <- coins_validate l;
      do _ <- guard ok;
      validate_addresses from to
  end.

(* msgServer.splitVestingCoins on an already parsed pair of addresses *)
Definition k_split_coins (e : env) (from to : Z) (l : list coin) : outcome unit :=
  do _ <- guard (negb (match l with [] => true | _ => false end));
  do _ <- guard (negb (coins_any_nil l));
  do _ <- guard (e_send_enabled e);
  do _ <- guard (negb (e_blocked e to));
  do _ <- guard (e_kind e to =? 0);
  do ok <- coins_validate l;                                    (* UnlockUnbondedContinuousVestingAccountCoins *)
  do _ <- guard ok;
  do _ <- guard (negb (e_kind e from =? 0));
  do _ <- guard (e_kind e from =? 2);
  do _ <- guard (e_can_unlock e from (map lower_coin l));
  do _ <- must (e_solvent e from);                              (* bank.SendCoins(from, to, amount) *)
  guard (e_can_send e from (map lower_coin l)).

Definition h_split (e : env) (from to : addr) (amt : coinsv) : outcome unit :=
  do ft <- validate_split from to amt;
  do _ <- k_split_coins e (fst ft) (snd ft) (coins_list amt);
  gauges (map (fun c => snd (lower_coin c)) (coins_list amt)).

Definition raise_coin (c : Z * Z) : coin := (DOk (fst c), IV (snd c)).
Definition h_move (e : env) (from to : addr) : outcome unit :=
  do ft <- validate_addresses from to;
  do _ <- k_split_coins e (fst ft) (snd ft) (map raise_coin (e_locked e (fst ft)));
  gauges (map snd (e_locked e (fst ft))).

Fixpoint validate_denoms (seen : list denom) (ds : list denom) : outcome unit :=
  match ds with
  | [] => Ok tt
  | d :: t =>
      do _ <- guard (negb (denom_empty d));
      do _ <- guard (denom_ok d);                               (* F11 *)
      do _ <- guard (negb (existsb (denom_eqb d) seen));
      validate_denoms (d :: seen) t
  end.
Definition validate_move_by_denoms (from to : addr) (ds : list denom) : outcome (Z * Z) :=
  do ft <- validate_addresses from to;
  do _ <- guard (negb (match ds with [] => true | _ => false end));
  do _ <- validate_denoms [] ds;
  Ok ft.

(* the handler's loop: locked.AmountOf(denom), NewCoin when positive *)
Fixpoint collect_denoms (locked : list (Z * Z)) (ds : list denom) (acc : list (Z * Z)) : outcome (list (Z * Z)) :=
  match ds with
  | [] => Ok acc
  | d :: t =>
      do _ <- guard (negb (denom_empty d));
      do _ <- amount_of d;
      let a := zget (denom_id d) locked in
      if 0 <? a then (do _ <- new_coin d (IV a); collect_denoms locked t (acc ++ [(denom_id d, a)]))
      else collect_denoms locked t acc
  end.
Definition h_move_by_denoms (e : env) (from to : addr) (ds : list denom) : outcome unit :=
  do ft <- validate_move_by_denoms from to ds;
  do amount <- collect_denoms (e_locked e (fst ft)) ds [];
  do _ <- k_split_coins e (fst ft) (snd ft) (map raise_coin amount);
  gauges (map snd amount).

Definition denom_validate (d : denom) : outcome unit :=        (* Params.Validate: F5 *)
  do _ <- guard (negb (denom_empty d)); guard (denom_ok d).
(* ================================================================ cfeminter =============== *)
Inductive cfg_raw := RNilCfg | RUnresolved | RNone | RLinear (a : ival) | RExp (a : ival) (mult : dval) (step : Z).
Record minter_raw := { r_seq : Z; r_end : option Z; r_cfg : cfg_raw }.

(* Minter.validate *)
Definition cfg_validate (m : minter_raw) : outcome unit :=
  match r_cfg m with
  | RNilCfg => Err                                              (* "minter config is nil" *)
  | RUnresolved => Err                                          (* cached value is not a MinterConfigI *)
  | RNone => Ok tt
  | RLinear a =>
      do _ <- guard (is_some (r_end m));
      do _ <- guard (negb (i_is_nil a));
      do z <- i_val a;
      guard (0 <=? z)
  | RExp a mult step =>
      do _ <- guard (negb (i_is_nil a));
      do z <- i_val a;
      do _ <- guard (0 <=? z);
      do _ <- guard (0 <? z);
      do _ <- guard (negb (d_is_nil mult));
      do x <- d_val mult;
      do _ <- guard (0 <=? x);
      guard (0 <? step)
  end.

(* the loop of ValidateParamsMinters over the (sorted) list; multi: lastPos > 0 *)
Fixpoint minters_loop (multi : bool) (start : Z) (first : bool) (prev_end : option Z) (id : Z) (ms : list minter_raw) : outcome unit :=
  match ms with
  | [] => Ok tt
  | m :: t =>
      let is_last := match t with [] => true | _ => false end in
      do _ <- guard (if id =? 0 then 0 <? r_seq m else r_seq m =? id + 1);
      do _ <- guard (negb (is_last && is_some (r_end m)));
      do _ <- guard (negb (negb is_last && negb (is_some (r_end m))));
      do _ <- (if multi then
                 if first then (do en <- opt_deref (r_end m); guard (start <? en))
                 else if negb is_last then (do en <- opt_deref (r_end m); do pe <- opt_deref prev_end; guard (pe <? en))
                 else Ok tt
               else Ok tt);
      do _ <- cfg_validate m;
      minters_loop multi start false (r_end m) (r_seq m) t
  end.

Fixpoint insert_minter (m : minter_raw) (l : list minter_raw) : list minter_raw :=
  match l with [] => [m] | x :: t => if r_seq m <? r_seq x then m :: x :: t else x :: insert_minter m t end.
Definition sort_minters (l : list minter_raw) : list minter_raw := fold_right insert_minter [] l.
Fixpoint all_some {A} (l : list (option A)) : option (list A) :=
  match l with
  | [] => Some []
  | None :: _ => None
  | Some x :: t => match all_some t with Some t' => Some (x :: t') | None => None end
  end.

(* Params.ValidateParamsMinters *)
Definition validate_minters (start : Z) (ms : list (option minter_raw)) : outcome unit :=
  do _ <- guard (negb (match ms with [] => true | _ => false end));
  match all_some ms with
  | None => Err                                                 (* "minter on position %d cannot be nil" *)
  | Some l => minters_loop (1 <? Z.of_nat (length l)) start true None 0 (sort_minters l)
  end.
Definition validate_minter_params (d : denom) (start : Z) (ms : list (option minter_raw)) : outcome unit :=
  do _ <- denom_validate d; validate_minters start ms.

(* Params.ContainsMinter (F12: nil entries are skipped) *)
Definition contains_minter_raw (id : Z) (ms : list (option minter_raw)) : bool :=
  existsb (fun o => match o with Some m => r_seq m =? id | None => false end) ms.
(* ... and before the fix: the nil entry is dereferenced when it is reached before a match *)
Fixpoint contains_minter_before_fix (id : Z) (ms : list (option minter_raw)) : outcome bool :=
  match ms with
  | [] => Ok false
  | None :: _ => Panic
  | Some m :: t => if r_seq m =? id then Ok true else contains_minter_before_fix id t
  end.

(* Keeper.UpdateParams; stored_denom: MsgUpdateMintersParams keeps the stored denomination *)
Definition k_minter_update (e : env) (auth : Z) (d : denom) (start : Z) (ms : list (option minter_raw)) : outcome unit :=
  do _ <- guard (auth =? e_gov e);
  do _ <- guard (contains_minter_raw (e_minter_seq e) ms);
  validate_minter_params d start ms.
Definition stored_minter_denom (e : env) : denom := if e_minter_denom_ok e then DOk 0 else DBad.

(* lowering to Minter.v *)
Definition lower_cfg (c : cfg_raw) : option mconfig :=
  match c with
  | RNone => Some CNone
  | RLinear (IV a) => Some (CLinear a)
  | RExp (IV a) (DV mult) step => Some (CExp a step mult)
  | _ => None
  end.
Definition lower_minter (m : minter_raw) : option minter :=
  match lower_cfg (r_cfg m) with Some c => Some {| m_seq := r_seq m; m_end := r_end m; m_cfg := c |} | None => None end.

(* ================================================================ cfedistributor ========== *)
Record share_raw := { rs_name : Z; rs_share : dval; rs_dest : dacct }.
Record sub_raw := { rr_name : Z; rr_pname : Z; rr_sources : list (option dacct); rr_primary : dacct;
                    rr_burn : dval; rr_shares : list (option share_raw) }.

Definition share_validate_raw (pname : Z) (s : share_raw) : outcome unit :=
  do _ <- guard (negb (rs_name s =? 0));
  do _ <- guard (negb (rs_name s =? pname));
  do _ <- guard (negb (d_is_nil (rs_share s)));
  do x <- d_val (rs_share s);
  do _ <- guard (negb ((P <=? x) || (x <? 0)));
  guard (acct_valid (rs_dest s)).

Fixpoint shares_validate_raw (pname : Z) (l : list (option share_raw)) : outcome unit :=
  match l with
  | [] => Ok tt
  | None :: _ => Err                                            (* "destination share on position %d cannot be nil" *)
  | Some s :: t => do _ <- share_validate_raw pname s; shares_validate_raw pname t
  end.

(* CheckIfSharesSumIsBetween0And1: shareSum.Add(share.Share) dereferences the entry and the decimal *)
Fixpoint shares_sum_raw (acc : Z) (l : list (option share_raw)) : outcome Z :=
  match l with
  | [] => Ok acc
  | o :: t => do s <- opt_deref o; do x <- d_val (rs_share s); shares_sum_raw (acc + x) t
  end.

Definition destinations_validate_raw (r : sub_raw) : outcome unit :=
  do _ <- guard (negb (d_is_nil (rr_burn r)));
  do b <- d_val (rr_burn r);
  do _ <- guard (negb ((P <=? b) || (b <? 0)));
  do _ <- shares_validate_raw (rr_pname r) (rr_shares r);
  do _ <- guard (acct_valid (rr_primary r));
  do tot <- shares_sum_raw b (rr_shares r);
  guard (negb ((P <=? tot) || (tot <? 0))).

Fixpoint sources_validate_raw (l : list (option dacct)) : outcome unit :=
  match l with
  | [] => Ok tt
  | None :: _ => Err                                            (* "source on position %d cannot be nil" *)
  | Some a :: t => do _ <- guard (acct_valid a); sources_validate_raw t
  end.

(* SubDistributor.Validate *)
Definition sub_validate_raw (r : sub_raw) : outcome unit :=
  do _ <- guard (negb (rr_name r =? 0));
  do _ <- destinations_validate_raw r;
  do _ <- guard (negb (match rr_sources r with [] => true | _ => false end));
  sources_validate_raw (rr_sources r).

Definition lower_share (s : share_raw) : option dshare :=
  match rs_share s with DV x => Some {| sh_name := rs_name s; sh_share := x; sh_dest := rs_dest s |} | DNil => None end.
Definition opt_bind {A B} (o : option A) (f : A -> option B) : option B := match o with Some a => f a | None => None end.
Definition lower_sub (r : sub_raw) : option psub :=
  match rr_burn r, all_some (rr_sources r), opt_bind (all_some (rr_shares r)) (fun l => all_some (map lower_share l)) with
  | DV b, Some srcs, Some shs =>
      Some {| ps_sd := {| sd_name := rr_name r; sd_sources := srcs; sd_primary := rr_primary r; sd_burn := b; sd_shares := shs |};
              ps_pname := rr_pname r |}
  | _, _, _ => None
  end.

Fixpoint subs_validate_raw (l : list sub_raw) : outcome unit :=
  match l with [] => Ok tt | r :: t => do _ <- sub_validate_raw r; subs_validate_raw t end.

(* the order checks (ValidateSubDistributors + validateLastOccurrence) on the lowered value *)
Definition order_ok (l : list psub) : bool :=
  match validate_order {| v_last := []; v_idx := []; v_sdnames := []; v_shnames := [] |} l 1 with
  | Some v => last_occurrence_ok v | None => false end.

(* Params.Validate of the distributor on raw values: ValidateSubDistributors dereferences every
   source and share pointer *)
Definition dparams_validate_raw (l : list sub_raw) : outcome unit :=
  do _ <- subs_validate_raw l;
  do low <- opt_deref (all_some (map lower_sub l));
  guard (order_ok low).

Definition h_distr_update_params (e : env) (auth : Z) (l : list sub_raw) : outcome unit :=
  do _ <- guard (auth =? e_gov e); dparams_validate_raw l.
Definition vb_distr_update_params (e : env) (auth : Z) (l : list sub_raw) : outcome unit :=
  do _ <- guard (auth =? e_gov e); dparams_validate_raw l.

Definition vb_distr_update_sub (e : env) (auth : Z) (o : option sub_raw) : outcome unit :=
  do _ <- guard (auth =? e_gov e);
  match o with
  | None => Err                                                 (* F13 *)
  | Some r => sub_validate_raw r
  end.

(* the stored parameters with one sub-distributor replaced by the raw one *)
Fixpoint replace_sub_raw (stored : list psub) (r : sub_raw) : option (list (psub + sub_raw)) :=
  match stored with
  | [] => None
  | s :: t => if sd_name (ps_sd s) =? rr_name r then Some (inr r :: map inl t)
              else match replace_sub_raw t r with Some t' => Some (inl s :: t') | None => None end
  end.
(* SetParams validates the stored, well-formed sub-distributors with the Params.v decision and the raw one with the raw validation *)
Fixpoint mixed_validate (l : list (psub + sub_raw)) : outcome unit :=
  match l with
  | [] => Ok tt
  | inl s :: t => do _ <- guard (sub_valid s); mixed_validate t
  | inr r :: t => do _ <- sub_validate_raw r; mixed_validate t
  end.
Definition mixed_lower (l : list (psub + sub_raw)) : option (list psub) :=
  all_some (map (fun x => match x with inl s => Some s | inr r => lower_sub r end) l).
Definition h_distr_update_sub (e : env) (auth : Z) (o : option sub_raw) : outcome unit :=
  do _ <- guard (auth =? e_gov e);
  match o with
  | None => Err                                                 (* F13 *)
  | Some r =>
      match replace_sub_raw (e_subs e) r with
      | None => Err                                             (* "distributor not found" *)
      | Some cand =>
          do _ <- mixed_validate cand;
          do low <- opt_deref (mixed_lower cand);
          guard (order_ok low)
      end
  end.

Definition vb_distr_update_share (e : env) (auth sdname dname : Z) (share : dval) : outcome unit :=
  do _ <- guard (auth =? e_gov e);
  do _ <- guard (negb (sdname =? 0));
  do _ <- guard (negb (dname =? 0));
  do _ <- guard (negb (d_is_nil share));
  do x <- d_val share;
  guard (negb ((P <=? x) || (x <? 0))).

(* the share named dname of the first sub-distributor that has one is overwritten with the raw
   decimal; SetParams then validates: the raw decimal first meets IsNil in DestinationShare.validate *)
Fixpoint has_share (l : list psub) (dname : Z) : bool :=
  match l with [] => false | s :: t => existsb (fun sh => sh_name sh =? dname) (sd_shares (ps_sd s)) || has_share t dname end.
Definition h_distr_update_share (e : env) (auth dname : Z) (share : dval) : outcome unit :=
  do _ <- guard (auth =? e_gov e);
  do _ <- guard (has_share (e_subs e) dname);
  do _ <- guard (negb (d_is_nil share));                        (* SetParams -> DestinationShare.validate *)
  do x <- d_val share;
  match replace_share (e_subs e) dname x with
  | Some cand => guard (dparams_valid cand)
  | None => Err
  end.

Definition vb_distr_update_burn (e : env) (auth sdname : Z) (burn : dval) : outcome unit :=
  do _ <- guard (auth =? e_gov e);
  do _ <- guard (negb (sdname =? 0));
  do _ <- guard (negb (d_is_nil burn));
  do x <- d_val burn;
  guard (negb ((P <=? x) || (x <? 0))).
Definition h_distr_update_burn (e : env) (auth sdname : Z) (burn : dval) : outcome unit :=
  do _ <- guard (auth =? e_gov e);
  do _ <- guard (existsb (fun s => sd_name (ps_sd s) =? sdname) (e_subs e));
  do _ <- guard (negb (d_is_nil burn));                         (* SetParams -> Destinations.Validate *)
  do x <- d_val burn;
  match replace_burn (e_subs e) sdname x with
  | Some cand => guard (dparams_valid cand)
  | None => Err
  end.

(* ================================================================ cfesignature ============ *)
(* MsgCreateAccount: the handler formats the new account for a debug log line; BaseAccount.String
   asserts the (failed) YAML result to a string: every request that reaches that line panics (K7) *)
Definition h_sig_create_account (acc : addr) (pk_ok : bool) : outcome unit :=
  do _ <- parse acc;
  do _ <- guard pk_ok;                                          (* UnmarshalInterfaceJSON *)
  must false.
(* KVStore.Set / Get / Has panic on an empty key *)
Definition h_sig_publish (e : env) (key : Z) : outcome unit :=
  do _ <- guard (negb (key =? 0));                              (* F14 *)
  do _ <- must (negb (key =? 0));                               (* store.Has(key) *)
  do _ <- guard (negb (e_has_link e key));
  must (negb (key =? 0)).                                       (* store.Set(key, ..) *)
Definition h_sig_store (key : Z) (json_ok : bool) : outcome unit :=
  do _ <- guard (negb (key =? 0));                              (* F14 *)
  do _ <- guard json_ok;
  must (negb (key =? 0)).
Definition h_sig_publish_before_fix (e : env) (key : Z) : outcome unit :=
  do _ <- must (negb (key =? 0));
  do _ <- guard (negb (e_has_link e key));
  must (negb (key =? 0)).

(* ================================================================ messages ================ *)
Inductive msg :=
| MCreatePool (owner : addr) (name : Z) (amount : ival) (dur vt : Z)
| MWithdraw (owner : addr)
| MSendToVesting (owner to : addr) (name : Z) (amount : ival) (restart : bool)
| MCreateVestingAccount (from to : addr) (amt : coinsv) (start end_ : Z)
| MSplit (from to : addr) (amt : coinsv)
| MMove (from to : addr)
| MMoveByDenoms (from to : addr) (ds : list denom)
| MUpdateDenom (auth : Z) (d : denom)
| MMinterUpdateParams (auth : Z) (d : denom) (start : Z) (ms : list (option minter_raw))
| MMinterUpdateMinters (auth : Z) (start : Z) (ms : list (option minter_raw))
| MDistrUpdateParams (auth : Z) (l : list sub_raw)
| MDistrUpdateSub (auth : Z) (o : option sub_raw)
| MDistrUpdateShare (auth sdname dname : Z) (share : dval)
| MDistrUpdateBurn (auth sdname : Z) (burn : dval)
| MSigCreateAccount (creator acc : addr) (pk_ok : bool)
| MSigPublish (creator : addr) (key : Z)
| MSigStore (creator : addr) (key : Z) (json_ok : bool).

Definition unit_of {A} (r : outcome A) : outcome unit := do _ <- r; Ok tt.

(* ValidateBasic (the governance authority is a constant of the binary: it is read from e_gov) *)
Definition validate_basic (e : env) (m : msg) : outcome unit :=
  match m with
  | MCreatePool owner name amount dur _ => unit_of (validate_create_pool owner name amount dur)
  | MWithdraw owner => unit_of (parse owner)
  | MSendToVesting owner to name amount _ => unit_of (validate_send_to_vesting owner to name amount)
  | MCreateVestingAccount from to amt s en => unit_of (validate_create_vesting_account from to amt s en)
  | MSplit from to amt => unit_of (validate_split from to amt)
  | MMove from to => unit_of (validate_addresses from to)
  | MMoveByDenoms from to ds => unit_of (validate_move_by_denoms from to ds)
  | MUpdateDenom auth d => do _ <- guard (auth =? e_gov e); denom_validate d
  | MMinterUpdateParams auth d start ms => do _ <- guard (auth =? e_gov e); validate_minter_params d start ms
  | MMinterUpdateMinters auth start ms => do _ <- guard (auth =? e_gov e); validate_minters start ms
  | MDistrUpdateParams auth l => vb_distr_update_params e auth l
  | MDistrUpdateSub auth o => vb_distr_update_sub e auth o
  | MDistrUpdateShare auth sdname dname share => vb_distr_update_share e auth sdname dname share
  | MDistrUpdateBurn auth sdname burn => vb_distr_update_burn e auth sdname burn
  | MSigCreateAccount creator _ _ => unit_of (parse creator)
  | MSigPublish creator _ => unit_of (parse creator)
  | MSigStore creator _ _ => unit_of (parse creator)
  end.

Definition handle (e : env) (m : msg) : outcome unit :=
  match m with
  | MCreatePool owner name amount dur vt => h_create_pool e owner name amount dur vt
  | MWithdraw owner => h_withdraw e owner
  | MSendToVesting owner to name amount restart => h_send_to_vesting e owner to name amount restart
  | MCreateVestingAccount from to amt s en => h_create_vesting_account e from to amt s en
  | MSplit from to amt => h_split e from to amt
  | MMove from to => h_move e from to
  | MMoveByDenoms from to ds => h_move_by_denoms e from to ds
  | MUpdateDenom auth d => do _ <- guard (auth =? e_gov e); do _ <- guard (negb (e_any_pools e)); denom_validate d
  | MMinterUpdateParams auth d start ms => k_minter_update e auth d start ms
  | MMinterUpdateMinters auth start ms => k_minter_update e auth (stored_minter_denom e) start ms
  | MDistrUpdateParams auth l => h_distr_update_params e auth l
  | MDistrUpdateSub auth o => h_distr_update_sub e auth o
  | MDistrUpdateShare auth _ dname share => h_distr_update_share e auth dname share
  | MDistrUpdateBurn auth sdname burn => h_distr_update_burn e auth sdname burn
  | MSigCreateAccount _ acc pk_ok => h_sig_create_account acc pk_ok
  | MSigPublish _ key => h_sig_publish e key
  | MSigStore _ key json_ok => h_sig_store key json_ok
  end.

Definition is_create_account (m : msg) : bool := match m with MSigCreateAccount _ _ _ => true | _ => false end.

(* ================================================================ queries ================= *)
(* every query starts with "if req == nil { return error }" and only then reads fields of req;
   GetAccountInfo additionally formats the public key of the account it found (F6: nil-safe) *)
Definition q_generic (req_nil : bool) : outcome unit :=
  do _ <- guard (negb req_nil); must (negb req_nil).
Definition q_account_info (e : env) (req_nil : bool) (a : addr) : outcome unit :=
  do _ <- guard (negb req_nil);
  do _ <- must (negb req_nil);
  match a with
  | ABad _ => Ok tt                                             (* the parse error is ignored; the empty address is not found *)
  | AOk id => if e_kind e id =? 0 then Ok tt else if e_haskey e id then Ok tt else Ok tt   (* F6 *)
  end.
Definition q_account_info_before_fix (e : env) (req_nil : bool) (a : addr) : outcome unit :=
  do _ <- guard (negb req_nil);
  match a with
  | ABad _ => Ok tt
  | AOk id => if e_kind e id =? 0 then Ok tt else must (e_haskey e id)   (* accountInfo.GetPubKey().String() *)
  end.
