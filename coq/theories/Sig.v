(* Sig.v — executable model of x/cfesignature: the payload-link registry (write-once), the signature
   store, CreateStorageKey and VerifySignature.  Hashing (sha256 + hex) and the X.509 check
   (base64 decode, algorithm lookup, PEM / certificate parsing, CheckSignature) are oracles: section
   variables in the theorems, finite tables computed by the harness with Go's crypto in the cases.
   Transcribed from x/cfesignature/keeper/{signature,msg_server_*,grpc_query_verify_signature,
   grpc_query_create_storage_key}.go and util/utils.go. *)
From Coq Require Export String Ascii.
From C4E Require Export Base.
Open Scope string_scope.

Record sigobj := { so_sig : string; so_alg : string; so_cert : string; so_ts : string }.

Record sworld := { sw_links : list (string * string); sw_sigs : list (string * sigobj) }.

Fixpoint sget {A} (k : string) (l : list (string * A)) : option A :=
  match l with [] => None | (k', v) :: t => if String.eqb k k' then Some v else sget k t end.
Fixpoint sset {A} (k : string) (v : A) (l : list (string * A)) : list (string * A) :=
  match l with [] => [(k, v)] | (k', v') :: t => if String.eqb k k' then (k, v) :: t else (k', v') :: sset k v t end.

(* util.HashConcat *)
Definition cat2 (a b : string) : string := a ++ ":" ++ b.
Definition cat3 (a b c : string) : string := a ++ ":" ++ b ++ ":" ++ c.

Section Oracles.
  Variable H : string -> string.                                   (* util.CalculateHash *)
  Variable x509 : string -> string -> string -> string -> bool.    (* certificate, algorithm, payload, signature *)

  (* MsgPublishReferencePayloadLink: refused when something is stored at the key *)
  Definition publish (w : sworld) (key value : string) : option sworld :=
    match sget key (sw_links w) with
    | Some _ => None
    | None => Some {| sw_links := sset key value (sw_links w); sw_sigs := sw_sigs w |}
    end.

  (* MsgStoreSignature with the three fields already extracted from the JSON (None = JSON does not parse) *)
  Definition store_signature (w : sworld) (skey : string) (fields : option (string * string * string)) (ts : string) : option sworld :=
    match fields with
    | None => None
    | Some (s, a, c) =>
        Some {| sw_links := sw_links w;
                sw_sigs := sset skey {| so_sig := s; so_alg := a; so_cert := c; so_ts := ts |} (sw_sigs w) |}
    end.

  (* CreateStorageKey *)
  Definition storage_key (addr ref : string) : option string :=
    if negb (Nat.eqb (String.length ref) 64) then None
    else if Nat.eqb (String.length addr) 0 then None
    else Some (H (cat2 addr ref)).

  (* VerifySignature: Some (signature, algorithm, certificate, timestamp) = "valid"; None = error *)
  Definition verify (w : sworld) (addr ref : string) : option (string * string * string * string) :=
    match storage_key addr ref with
    | None => None
    | Some sk =>
        match sget sk (sw_sigs w) with
        | None => None
        | Some so =>
            match sget (H ref) (sw_links w) with
            | None => None
            | Some link =>
                if x509 (so_cert so) (so_alg so) (H (cat3 addr ref link)) (so_sig so)
                then Some (so_sig so, so_alg so, so_cert so, so_ts so)
                else None
            end
        end
    end.

  Inductive sop :=
  | SPublish (key value : string)
  | SStore (skey : string) (fields : option (string * string * string)) (ts : string)
  | SVerify (addr ref : string).

  Definition sstep (w : sworld) (o : sop) : sworld * option (list string) :=
    match o with
    | SPublish k v => match publish w k v with Some w' => (w', Some []) | None => (w, None) end
    | SStore k f ts => match store_signature w k f ts with Some w' => (w', Some []) | None => (w, None) end
    | SVerify a r => match verify w a r with Some (s, al, c, t) => (w, Some [s; al; c; t]) | None => (w, None) end
    end.

  Definition srun (w : sworld) (ops : list sop) : sworld := fold_left (fun w o => fst (sstep w o)) ops w.
End Oracles.

(* ---------------------------------------------------------------- case checking ----------- *)
(* finite oracle tables *)
Definition table_H (t : list (string * string)) (s : string) : string :=
  match sget s t with Some h => h | None => "?unhashed?" ++ s end.
Fixpoint table_x509 (t : list (string * string * string * string * bool)) (c a p s : string) : bool :=
  match t with
  | [] => false
  | (c', a', p', s', r) :: rest =>
      if String.eqb c c' && String.eqb a a' && String.eqb p p' && String.eqb s s' then r else table_x509 rest c a p s
  end.

Definition strs_eqb (a b : list string) : bool := list_eqb String.eqb a b.

Definition res_eqb (a b : option (list string)) : bool :=
  match a, b with
  | None, None => true
  | Some x, Some y => strs_eqb x y
  | _, _ => false
  end.

(* expected: the implementation's result class and returned fields, and the raw link stored at the key afterwards *)
Fixpoint check_sops (Ht : list (string * string)) (Xt : list (string * string * string * string * bool))
  (w : sworld) (ops : list (sop * option (list string))) (i : Z) : option Z :=
  match ops with
  | [] => None
  | (o, expected) :: t =>
      let '(w', got) := sstep (table_H Ht) (table_x509 Xt) w o in
      if res_eqb got expected then check_sops Ht Xt w' t (i + 1) else Some i
  end.

Record scase := { sc_id : Z; sc_H : list (string * string); sc_X : list (string * string * string * string * bool);
                  sc_ops : list (sop * option (list string));
                  sc_final_links : list (string * string) }.

Definition links_eqb (a b : list (string * string)) : bool :=
  list_eqb (fun x y => String.eqb (fst x) (fst y) && String.eqb (snd x) (snd y)) a b.

Definition check_scase (c : scase) : option (Z * Z * list Z) :=
  match check_sops (sc_H c) (sc_X c) {| sw_links := []; sw_sigs := [] |} (sc_ops c) 0 with
  | Some i => Some (sc_id c, i, [])
  | None =>
      let w := srun (table_H (sc_H c)) (table_x509 (sc_X c)) {| sw_links := []; sw_sigs := [] |} (map fst (sc_ops c)) in
      (* every link the implementation holds at the end is what the model holds (raw store values) *)
      if forallb (fun kv => match sget (fst kv) (sw_links w) with Some v => String.eqb v (snd kv) | None => false end) (sc_final_links c)
      then None else Some (sc_id c, -1, [])
  end.

Definition smismatches (cs : list scase) : list (Z * Z * list Z) :=
  flat_map (fun c => match check_scase c with None => [] | Some m => [m] end) cs.
