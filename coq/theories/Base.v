(* Base.v — shared substrate of the c4e-chain model: arithmetic of sdk.Dec / sdk.Int,
   association lists used as stores, and small list utilities.  Definitions and their
   basic lemmas; no property theorem lives here. *)
From Coq Require Export ZArith List Bool Lia.
From Coq Require Import ZifyBool.
Export ListNotations.
Open Scope Z_scope.

(* ------------------------------------------------------------------------------------------ *)
(* sdk.Dec = integer scaled by 10^18 (cosmos-sdk types/decimal.go, Precision = 18).           *)
Definition P : Z := 1000000000000000000.

Lemma P_pos : 0 < P. Proof. reflexivity. Qed.
Lemma P_even : P = 2 * 500000000000000000. Proof. reflexivity. Qed.

(* chopPrecisionAndRound: divide by 10^18 with banker's rounding, sign handled by symmetry *)
Definition chop_round_nonneg (x : Z) : Z :=
  let q := x / P in
  let r := x mod P in
  if 2 * r <? P then q
  else if P <? 2 * r then q + 1
  else if Z.even q then q else q + 1.

Definition chop_round (x : Z) : Z :=
  if x <? 0 then - chop_round_nonneg (- x) else chop_round_nonneg x.

(* chopPrecisionAndTruncate: big.Int.Quo truncates toward zero *)
Definition chop_trunc (x : Z) : Z := Z.quot x P.

Definition dec_of_int (i : Z) : Z := i * P.            (* sdk.NewDecFromInt / NewDec *)
Definition dec_mul (a b : Z) : Z := chop_round (a * b).            (* Dec.Mul *)
Definition dec_mul_trunc (a b : Z) : Z := chop_trunc (a * b).      (* Dec.MulTruncate *)
Definition dec_quo (a b : Z) : Z := chop_round (Z.quot (a * P * P) b).      (* Dec.Quo *)
Definition dec_quo_trunc (a b : Z) : Z := chop_trunc (Z.quot (a * P * P) b). (* Dec.QuoTruncate *)
Definition dec_mul_int (a i : Z) : Z := a * i.                     (* Dec.MulInt / MulInt64 *)
Definition dec_quo_int (a i : Z) : Z := Z.quot a i.                (* Dec.QuoInt / QuoInt64 *)
Definition dec_trunc_int (a : Z) : Z := chop_trunc a.              (* Dec.TruncateInt *)
Definition dec_round_int (a : Z) : Z := chop_round a.              (* Dec.RoundInt *)
Definition dec_trunc_dec (a : Z) : Z := chop_trunc a * P.          (* Dec.TruncateDec *)

(* ------------------------------------------------------------------------------------------ *)
(* Basic facts about the rounding primitives                                                   *)

Lemma chop_round_nonneg_bound x : 0 <= x ->
  - P <= 2 * P * chop_round_nonneg x - 2 * x <= P.
Proof.
  intros Hx. unfold chop_round_nonneg.
  pose proof P_pos as HP.
  pose proof (Z.div_mod x P ltac:(lia)) as Hdm.
  pose proof (Z.mod_pos_bound x P HP) as Hmb.
  destruct (2 * (x mod P) <? P) eqn:E1; [nia|].
  destruct (P <? 2 * (x mod P)) eqn:E2; [nia|].
  destruct (Z.even (x / P)); nia.
Qed.

Lemma chop_round_nonneg_nonneg x : 0 <= x -> 0 <= chop_round_nonneg x.
Proof.
  intros Hx. unfold chop_round_nonneg.
  pose proof P_pos as HP.
  assert (0 <= x / P) by (apply Z.div_pos; lia).
  destruct (2 * (x mod P) <? P); [lia|].
  destruct (P <? 2 * (x mod P)); [lia|].
  destruct (Z.even (x / P)); lia.
Qed.

Lemma chop_round_bound x : - P <= 2 * P * chop_round x - 2 * x <= P.
Proof.
  unfold chop_round. destruct (x <? 0) eqn:E.
  - pose proof (chop_round_nonneg_bound (- x) ltac:(lia)). lia.
  - apply chop_round_nonneg_bound. lia.
Qed.

Lemma chop_round_nonneg' x : 0 <= x -> 0 <= chop_round x.
Proof.
  intros Hx. unfold chop_round. destruct (x <? 0) eqn:E; [lia|].
  apply chop_round_nonneg_nonneg; lia.
Qed.

Lemma chop_round_exact i : chop_round (i * P) = i.
Proof.
  pose proof P_pos as HP.
  assert (Hnn : forall j, 0 <= j -> chop_round_nonneg (j * P) = j).
  { intros j Hj. unfold chop_round_nonneg.
    rewrite Z.div_mul by lia. rewrite Z.mod_mul by lia.
    destruct (2 * 0 <? P) eqn:E; [reflexivity|lia]. }
  unfold chop_round. destruct (i * P <? 0) eqn:E.
  - replace (- (i * P)) with ((- i) * P) by ring. rewrite Hnn by nia. lia.
  - apply Hnn. nia.
Qed.

Lemma chop_trunc_exact i : chop_trunc (i * P) = i.
Proof. unfold chop_trunc. apply Z.quot_mul. pose proof P_pos; lia. Qed.

Lemma chop_trunc_nonneg x : 0 <= x -> chop_trunc x = x / P.
Proof. intros. unfold chop_trunc. apply Z.quot_div_nonneg; [lia|apply P_pos]. Qed.

Lemma chop_trunc_spec x : 0 <= x -> chop_trunc x * P <= x < chop_trunc x * P + P.
Proof.
  intros Hx. rewrite chop_trunc_nonneg by lia. pose proof P_pos as HP.
  pose proof (Z.div_mod x P ltac:(lia)). pose proof (Z.mod_pos_bound x P HP). lia.
Qed.

Lemma chop_trunc_add_int x i : 0 <= x -> 0 <= x + i * P -> chop_trunc (x + i * P) = chop_trunc x + i.
Proof.
  intros Hx Hxi. rewrite !chop_trunc_nonneg by lia.
  apply Z.div_add. pose proof P_pos; lia.
Qed.

Lemma chop_trunc_mono x y : 0 <= x <= y -> chop_trunc x <= chop_trunc y.
Proof.
  intros H. rewrite !chop_trunc_nonneg by lia. apply Z.div_le_mono; [apply P_pos|lia].
Qed.

Lemma quot_nonneg_spec a b : 0 <= a -> 0 < b -> Z.quot a b * b <= a < Z.quot a b * b + b.
Proof.
  intros Ha Hb. rewrite Z.quot_div_nonneg by lia.
  pose proof (Z.div_mod a b ltac:(lia)). pose proof (Z.mod_pos_bound a b Hb). lia.
Qed.

Lemma quot_nonneg_mono a a' b : 0 <= a <= a' -> 0 < b -> Z.quot a b <= Z.quot a' b.
Proof.
  intros H Hb. rewrite !Z.quot_div_nonneg by lia. apply Z.div_le_mono; lia.
Qed.

Lemma quot_nonneg_nonneg a b : 0 <= a -> 0 < b -> 0 <= Z.quot a b.
Proof. intros. rewrite Z.quot_div_nonneg by lia. apply Z.div_pos; lia. Qed.

(* ------------------------------------------------------------------------------------------ *)
(* Association lists keyed by Z: the model's KV stores.  [aget] returns the first binding,     *)
(* [aset] replaces it in place or appends (store order for new keys is fixed by the caller).   *)

Section Assoc.
  Context {A : Type}.
  Fixpoint aget (k : Z) (l : list (Z * A)) : option A :=
    match l with
    | [] => None
    | (k', v) :: t => if k =? k' then Some v else aget k t
    end.
  Fixpoint aset (k : Z) (v : A) (l : list (Z * A)) : list (Z * A) :=
    match l with
    | [] => [(k, v)]
    | (k', v') :: t => if k =? k' then (k, v) :: t else (k', v') :: aset k v t
    end.
  Lemma aget_aset_same k v l : aget k (aset k v l) = Some v.
  Proof.
    induction l as [|[k' v'] t IH]; simpl.
    - rewrite Z.eqb_refl. reflexivity.
    - destruct (k =? k') eqn:E; simpl; [rewrite Z.eqb_refl; reflexivity|rewrite E; exact IH].
  Qed.
  Lemma aget_aset_other k k' v l : k' <> k -> aget k' (aset k v l) = aget k' l.
  Proof.
    intros Hne. induction l as [|[k0 v0] t IH]; simpl.
    - destruct (k' =? k) eqn:E; [lia|reflexivity].
    - destruct (k =? k0) eqn:E; simpl.
      + assert (k = k0) by lia. subst k0.
        destruct (k' =? k) eqn:E2; [lia|reflexivity].
      + destruct (k' =? k0); [reflexivity|exact IH].
  Qed.
End Assoc.

Definition zget (k : Z) (l : list (Z * Z)) : Z :=
  match aget k l with Some v => v | None => 0 end.

Lemma zget_aset_same k v l : zget k (aset k v l) = v.
Proof. unfold zget. rewrite aget_aset_same. reflexivity. Qed.
Lemma zget_aset_other k k' v l : k' <> k -> zget k' (aset k v l) = zget k' l.
Proof. intros. unfold zget. rewrite aget_aset_other by assumption. reflexivity. Qed.

(* ------------------------------------------------------------------------------------------ *)
(* list helpers *)
Fixpoint zsum (l : list Z) : Z := match l with [] => 0 | x :: t => x + zsum t end.

Lemma zsum_app a b : zsum (a ++ b) = zsum a + zsum b.
Proof. induction a; simpl; lia. Qed.

Fixpoint list_eqb {A} (eqb : A -> A -> bool) (a b : list A) : bool :=
  match a, b with
  | [], [] => true
  | x :: a', y :: b' => eqb x y && list_eqb eqb a' b'
  | _, _ => false
  end.

Definition zlist_eqb := list_eqb Z.eqb.

Lemma zlist_eqb_eq a b : zlist_eqb a b = true <-> a = b.
Proof.
  unfold zlist_eqb. revert b. induction a as [|x a IH]; destruct b as [|y b]; simpl; split; intros H;
    try reflexivity; try discriminate.
  - apply andb_true_iff in H. destruct H as [H1 H2]. apply Z.eqb_eq in H1. apply IH in H2. congruence.
  - inversion H; subst. rewrite Z.eqb_refl. simpl. apply IH. reflexivity.
Qed.

Definition b2z (b : bool) : Z := if b then 1 else 0.
