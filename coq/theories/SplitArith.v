(* SplitArith.v — C07: arithmetic of UnlockUnbondedContinuousVestingAccountCoins.
   The vesting coins of a continuous vesting account with original vesting n at a fixed time are
   V(n) = n - rnd(n) where rnd(n) = round-half-even(n * sigma / 10^18) and sigma is the SDK's
   18-digit scalar (now-start)/(end-start).  The results below hold for ANY rounding function within
   half a unit of n*sigma/P, so they do not depend on how ties are broken. *)
From C4E Require Import Base Vest.
From Coq Require Import ZifyBool.
Open Scope Z_scope.

Section Abstract.
Variable sigma : Z.  Hypothesis Hs : 0 <= sigma <= P.
Variable rnd : Z -> Z.
Hypothesis rnd_bound : forall n, 0 <= n -> - P <= 2*P*rnd n - 2*n*sigma <= P.
Definition Vab n := n - rnd n.

Lemma claimA OV U D :
  0 <= OV -> 1 <= U <= Vab OV -> D * Vab OV <= U * OV < (D+1) * Vab OV -> 0 <= D <= OV ->
  U - 1 <= Vab OV - Vab (OV - D) <= U.
Proof.
  intros HOV HU HD HDr. unfold Vab in *. pose proof P_pos as HP.
  pose proof (rnd_bound OV HOV) as B0.
  pose proof (rnd_bound (OV - D) ltac:(lia)) as B1.
  set (r0 := rnd OV) in *. set (r1 := rnd (OV - D)) in *.
  set (Vv := OV - r0) in *.
  assert (2*P*(D - r0 + r1)*Vv < 2*P*(U+1)*Vv) by nia.
  assert (2*P*(D - r0 + r1)*Vv > 2*P*(U-2)*Vv) by nia.
  nia.
Qed.

Lemma claimB OV U D :
  0 <= OV -> 1 <= U <= Vab OV -> D * Vab OV <= U * OV < (D+1) * Vab OV -> 0 <= D < OV ->
  Vab OV - Vab (OV - D) = U - 1 -> Vab OV - Vab (OV - D - 1) = U.
Proof.
  intros HOV HU HD HDr Heq. unfold Vab in *. pose proof P_pos as HP.
  pose proof (rnd_bound OV HOV) as B0.
  pose proof (rnd_bound (OV - D) ltac:(lia)) as B1.
  pose proof (rnd_bound (OV - D - 1) ltac:(lia)) as B2.
  set (r0 := rnd OV) in *. set (r1 := rnd (OV - D)) in *. set (r2 := rnd (OV - D - 1)) in *.
  remember (2*P*r0 - 2*OV*sigma) as e eqn:He.
  remember (2*P*r1 - 2*(OV-D)*sigma) as e1 eqn:He1.
  remember (2*P*r2 - 2*(OV-D-1)*sigma) as e2 eqn:He2.
  assert (K1 : 2*P*(OV - r0) = 2*OV*(P - sigma) - e) by (subst e; ring).
  assert (K2 : 2*P*(U-1) = 2*D*(P-sigma) - e + e1) by (subst e e1; rewrite <- Heq; ring).
  destruct HD as [_ HD2].
  assert (K3 : 2*P*U*OV < (D+1) * (2*OV*(P - sigma) - e)).
  { rewrite <- K1. clear - HD2 HP. nia. }
  assert (K3' : OV * e1 < e * (OV - D - 1) - 2*sigma*OV).
  { clear - K2 K3.
    assert (H : 2*P*U = 2*P + 2*D*(P-sigma) - e + e1) by lia.
    assert (H2: 2*P*U*OV = (2*P + 2*D*(P-sigma) - e + e1) * OV) by (rewrite <- H; ring).
    rewrite H2 in K3. ring_simplify in K3. ring_simplify. lia. }
  assert (K4 : e1 < P - 2*sigma).
  { clear - K3' B0 HDr HOV HP Hs.
    assert (e * (OV - D - 1) <= P * OV) by nia.
    nia. }
  assert (K6 : 2*P*(r2 - r1) = e2 - e1 - 2*sigma) by (subst e1 e2; ring).
  assert (r2 = r1).
  { clear - K6 K4 B1 B2 HP Hs He1.
    assert (H : -2*P < 2*P*(r2-r1)) by lia.
    assert (H0 : 2*P*(r2-r1) <= 2*P) by lia.
    assert (H1 : r2 - r1 <= 1) by nia. assert (H2 : -1 < r2 - r1) by nia.
    assert (H3 : r2 - r1 = 0 \/ r2 - r1 = 1) by lia.
    destruct H3 as [H3|H3]; [lia|].
    exfalso. rewrite H3 in K6. assert (Hz : sigma = 0) by lia. assert (Hm1 : e1 = - P) by lia.
    rewrite Hz, Hm1 in He1. assert (Hm : P * (2*r1+1) = 0) by lia. apply Z.mul_eq_0 in Hm. lia. }
  lia.
Qed.

Lemma rnd0 : rnd 0 = 0.
Proof. pose proof (rnd_bound 0 ltac:(lia)). pose proof P_pos. nia. Qed.

Lemma Vab_nonneg n : 0 <= n -> 0 <= Vab n.
Proof. intros Hn. unfold Vab. pose proof (rnd_bound n Hn). pose proof P_pos. nia. Qed.

(* the abstract unlock step: D = floor(U*OV / V OV) (what QuoTruncate computes), then the single
   compensation step of the code *)
Definition unlock_ab (OV U : Z) : Z :=
  let v := Vab OV in
  let ov1 := OV - (U * OV) / v in
  if v - Vab ov1 <? U then ov1 - 1 else ov1.

Theorem unlock_ab_exact OV U :
  0 <= OV -> 1 <= U <= Vab OV ->
  Vab (unlock_ab OV U) = Vab OV - U /\ 0 <= unlock_ab OV U <= OV - U.
Proof.
  intros HOV HU. unfold unlock_ab. cbn zeta.
  set (v := Vab OV) in *. set (D := (U * OV) / v).
  assert (Hv : 0 < v) by lia.
  assert (HD : D * v <= U * OV < (D + 1) * v).
  { unfold D. pose proof (Z.div_mod (U*OV) v ltac:(lia)). pose proof (Z.mod_pos_bound (U*OV) v Hv). nia. }
  assert (HvOV : v <= OV).
  { unfold v, Vab. pose proof (rnd_bound OV HOV). pose proof P_pos. nia. }
  assert (HDr : 0 <= D <= OV).
  { split; [unfold D; apply Z.div_pos; nia|]. nia. }
  assert (HDU : U <= D) by nia.
  pose proof (claimA OV U D HOV HU HD HDr) as HA. fold v in HA.
  destruct (v - Vab (OV - D) <? U) eqn:E.
  - assert (Heq : v - Vab (OV - D) = U - 1) by lia.
    assert (HDlt : D < OV).
    { destruct (Z.eq_dec D OV) as [->|]; [|lia]. exfalso.
      replace (OV - OV) with 0 in Heq by lia. unfold Vab in Heq at 1. rewrite rnd0 in Heq. lia. }
    pose proof (claimB OV U D HOV HU HD ltac:(lia) Heq) as HB. fold v in HB.
    split; [lia|]. lia.
  - split; [lia|]. lia.
Qed.
End Abstract.

(* ---------------------------------------------------------------- instantiation ----------- *)
Lemma chop_round_mul_P i : chop_round (i * P) = i. Proof. apply chop_round_exact. Qed.

Lemma dec_mul_of_int n s : dec_mul (dec_of_int n) s = n * s.
Proof. unfold dec_mul, dec_of_int. replace (n * P * s) with (n * s * P) by ring. apply chop_round_exact. Qed.

(* the vesting scalar: 0 <= s <= 1 *)
Lemma scalar_range x y : 0 < x -> x < y ->
  0 <= dec_quo (dec_of_int x) (dec_of_int y) <= P.
Proof.
  intros Hx Hy. unfold dec_quo, dec_of_int. pose proof P_pos as HP.
  set (q := Z.quot (x * P * P * P) (y * P)).
  assert (Hq : 0 <= q < P * P).
  { unfold q. rewrite Z.quot_div_nonneg by nia.
    split; [apply Z.div_pos; nia|].
    apply Z.div_lt_upper_bound; nia. }
  split; [apply chop_round_nonneg'; lia|].
  pose proof (chop_round_bound q). nia.
Qed.

Definition rnd_of (sigma n : Z) : Z := chop_round (n * sigma).

Lemma rnd_of_bound sigma n : - P <= 2 * P * rnd_of sigma n - 2 * n * sigma <= P.
Proof. unfold rnd_of. pose proof (chop_round_bound (n * sigma)). lia. Qed.

Definition sigma_of (start end_ now_s : Z) : Z := dec_quo (dec_of_int (now_s - start)) (dec_of_int (end_ - start)).

Lemma vesting_amt_mid start end_ now_s ov : start < now_s -> now_s < end_ ->
  vesting_amt start end_ now_s ov = Vab (rnd_of (sigma_of start end_ now_s)) ov.
Proof.
  intros H1 H2. unfold vesting_amt, vested_amt, Vab, rnd_of, sigma_of.
  destruct (now_s <=? start) eqn:E1; [lia|]. destruct (end_ <=? now_s) eqn:E2; [lia|].
  unfold dec_round_int. rewrite dec_mul_of_int. reflexivity.
Qed.

Lemma vesting_amt_before start end_ now_s ov : now_s <= start -> vesting_amt start end_ now_s ov = ov.
Proof. intros H. unfold vesting_amt, vested_amt. destruct (now_s <=? start) eqn:E; lia. Qed.

Lemma vesting_amt_after start end_ now_s ov : start < now_s -> end_ <= now_s -> vesting_amt start end_ now_s ov = 0.
Proof.
  intros H1 H2. unfold vesting_amt, vested_amt. destruct (now_s <=? start) eqn:E; [lia|].
  destruct (end_ <=? now_s) eqn:E2; lia.
Qed.

Lemma vesting_amt_range start end_ now_s ov : 0 <= ov -> 0 <= vesting_amt start end_ now_s ov <= ov.
Proof.
  intros Hov. destruct (Z_le_gt_dec now_s start) as [Hb|Ha]; [rewrite vesting_amt_before by lia; lia|].
  destruct (Z_le_gt_dec end_ now_s) as [He|He]; [rewrite vesting_amt_after by lia; lia|].
  rewrite vesting_amt_mid by lia.
  assert (Hx : 0 < now_s - start) by lia. assert (Hy : now_s - start < end_ - start) by lia.
  pose proof (scalar_range _ _ Hx Hy) as Hs. fold (sigma_of start end_ now_s) in Hs.
  set (sg := sigma_of start end_ now_s) in *.
  split; [apply (Vab_nonneg sg Hs (rnd_of sg) (fun n _ => rnd_of_bound sg n)); assumption|].
  unfold Vab, rnd_of. assert (0 <= chop_round (ov * sg)) by (apply chop_round_nonneg'; nia). lia.
Qed.

(* D as computed by the code: TruncateInt(QuoTruncate(Mul(u, ov), v)) = floor(u*ov / v) *)
Lemma unlock_diff u ov v : 0 <= u -> 0 <= ov -> 0 < v ->
  dec_trunc_int (dec_quo_trunc (dec_mul (dec_of_int u) (dec_of_int ov)) (dec_of_int v)) = (u * ov) / v.
Proof.
  intros Hu Hov Hv. pose proof P_pos as HP.
  rewrite dec_mul_of_int. unfold dec_trunc_int, dec_quo_trunc, dec_of_int.
  assert (Hn : 0 <= u * ov) by nia.
  rewrite (Z.quot_div_nonneg (u * (ov * P) * P * P) (v * P)) by nia.
  replace (u * (ov * P) * P * P) with ((u * ov * P * P) * P) by ring.
  rewrite Z.div_mul_cancel_r by lia.
  rewrite (chop_trunc_nonneg (u * ov * P * P / v)) by (apply Z.div_pos; nia).
  rewrite Z.div_div by lia.
  replace (u * ov * P * P) with ((u * ov * P) * P) by ring.
  rewrite Z.div_mul_cancel_r by lia.
  rewrite chop_trunc_nonneg by (apply Z.div_pos; nia).
  rewrite Z.div_div by lia.
  rewrite Z.div_mul_cancel_r by lia. reflexivity.
Qed.

(* C07 (1): for every original vesting, schedule, time and every requested amount between 1 and the
   account's vesting coins, the new original vesting leaves exactly [u] fewer coins vesting *)
Theorem unlock_ov_exact start end_ now_s ov u :
  0 <= ov -> 1 <= u <= vesting_amt start end_ now_s ov ->
  vesting_amt start end_ now_s (unlock_ov start end_ now_s ov u) = vesting_amt start end_ now_s ov - u /\
  0 <= unlock_ov start end_ now_s ov u <= ov - u.
Proof.
  intros Hov Hu. unfold unlock_ov. cbn zeta.
  destruct (Z_le_gt_dec now_s start) as [Hb|Ha].
  - (* not started: everything is vesting *)
    rewrite !vesting_amt_before in * by assumption.
    rewrite unlock_diff by lia. rewrite Z.div_mul by lia.
    rewrite ?vesting_amt_before by assumption.
    destruct (ov - (ov - u) <? u) eqn:E; [lia|]. rewrite ?vesting_amt_before by assumption. lia.
  - destruct (Z_le_gt_dec end_ now_s) as [He|He].
    + rewrite vesting_amt_after in Hu by lia. lia.
    + assert (Hx : 0 < now_s - start) by lia. assert (Hy : now_s - start < end_ - start) by lia.
      pose proof (scalar_range _ _ Hx Hy) as Hs. fold (sigma_of start end_ now_s) in Hs.
      set (sg := sigma_of start end_ now_s) in *.
      pose proof (unlock_ab_exact sg Hs (rnd_of sg) (fun n _ => rnd_of_bound sg n) ov u Hov) as HX.
      rewrite (vesting_amt_mid start end_ now_s ov) in * by lia. fold sg in Hu |- *.
      specialize (HX Hu). unfold unlock_ab in HX. cbn zeta in HX.
      rewrite unlock_diff by lia.
      rewrite !(vesting_amt_mid start end_ now_s) by lia. fold sg.
      exact HX.
Qed.
