(* SigProofs.v — C15: payload links are write-once; verification is sound w.r.t. the stored record. *)
From C4E Require Import Base Sig.
Open Scope string_scope.

Lemma sget_sset_same {A} k (v : A) l : sget k (sset k v l) = Some v.
Proof.
  induction l as [|[k' v'] t IH]; simpl.
  - rewrite String.eqb_refl. reflexivity.
  - destruct (String.eqb k k') eqn:E; simpl; [rewrite String.eqb_refl; reflexivity|rewrite E; exact IH].
Qed.

Lemma sget_sset_other {A} k k' (v : A) l : k' <> k -> sget k' (sset k v l) = sget k' l.
Proof.
  intros Hne. induction l as [|[k0 v0] t IH]; simpl.
  - destruct (String.eqb k' k) eqn:E; [apply String.eqb_eq in E; contradiction|reflexivity].
  - destruct (String.eqb k k0) eqn:E; simpl.
    + apply String.eqb_eq in E. subst k0.
      destruct (String.eqb k' k) eqn:E2; [apply String.eqb_eq in E2; contradiction|reflexivity].
    + destruct (String.eqb k' k0); [reflexivity|exact IH].
Qed.

Section Proofs.
  Variable H : string -> string.
  Variable x509 : string -> string -> string -> string -> bool.

  (* ------------------------------------------------------------ write-once ---------------- *)
  Theorem link_write_once_step w o k v :
    sget k (sw_links w) = Some v -> sget k (sw_links (fst (sstep H x509 w o))) = Some v.
  Proof.
    intros Hk. destruct o as [key value|skey fields ts|addr ref]; simpl.
    - unfold publish. destruct (sget key (sw_links w)) eqn:E; simpl; [assumption|].
      destruct (String.eqb k key) eqn:Ek.
      + apply String.eqb_eq in Ek. subst. congruence.
      + rewrite sget_sset_other; [assumption|]. intros ->. rewrite String.eqb_refl in Ek. discriminate.
    - unfold store_signature. destruct fields as [[[s a] c]|]; simpl; assumption.
    - destruct (verify H x509 w addr ref) as [[[[? ?] ?] ?]|]; simpl; assumption.
  Qed.

  (* once a link is published under a key it stays, unchanged, whatever messages follow — including
     the empty link *)
  Theorem link_write_once ops : forall w k v,
    sget k (sw_links w) = Some v -> sget k (sw_links (srun H x509 w ops)) = Some v.
  Proof.
    induction ops as [|o ops IH]; intros w k v Hk; [exact Hk|].
    simpl. apply IH. apply link_write_once_step. exact Hk.
  Qed.

  Theorem publish_refused_on_existing_key w key value v :
    sget key (sw_links w) = Some v -> publish w key value = None.
  Proof. intros Hk. unfold publish. rewrite Hk. reflexivity. Qed.

  Theorem publish_stores_exactly w key value w' :
    publish w key value = Some w' ->
    sget key (sw_links w) = None /\ sget key (sw_links w') = Some value /\
    (forall k, k <> key -> sget k (sw_links w') = sget k (sw_links w)) /\ sw_sigs w' = sw_sigs w.
  Proof.
    unfold publish. destruct (sget key (sw_links w)) eqn:E; [discriminate|]. intros Hw; inversion Hw; subst; simpl.
    split; [reflexivity|]. split; [apply sget_sset_same|]. split; [|reflexivity].
    intros k Hne. apply sget_sset_other. assumption.
  Qed.

  (* ------------------------------------------------------------ verification -------------- *)
  (* valid exactly when: the request is well-formed, a signature object is stored under
     hash(addr:ref), a link is stored under hash(ref), and the X.509 check of the stored signature under
     the stored certificate and algorithm over hash(addr:ref:link) succeeds; the response then carries
     the stored signature, algorithm, certificate and timestamp unchanged *)
  Theorem verify_sound w addr ref r :
    verify H x509 w addr ref = Some r <->
    String.length ref = 64%nat /\ String.length addr <> 0%nat /\
    exists so link,
      sget (H (cat2 addr ref)) (sw_sigs w) = Some so /\ sget (H ref) (sw_links w) = Some link /\
      x509 (so_cert so) (so_alg so) (H (cat3 addr ref link)) (so_sig so) = true /\
      r = (so_sig so, so_alg so, so_cert so, so_ts so).
  Proof.
    unfold verify, storage_key. split.
    - destruct (Nat.eqb (String.length ref) 64) eqn:E1; [|discriminate]. cbn [negb].
      destruct (Nat.eqb (String.length addr) 0) eqn:E2; [discriminate|].
      destruct (sget (H (cat2 addr ref)) (sw_sigs w)) as [so|] eqn:Es; [|discriminate].
      destruct (sget (H ref) (sw_links w)) as [link|] eqn:El; [|discriminate].
      destruct (x509 (so_cert so) (so_alg so) (H (cat3 addr ref link)) (so_sig so)) eqn:Ex; [|discriminate].
      intros Hr; inversion Hr; subst. apply Nat.eqb_eq in E1. apply Nat.eqb_neq in E2.
      split; [assumption|]. split; [assumption|]. exists so, link. auto.
    - intros (H1 & H2 & so & link & Hs & Hl & Hx & ->).
      apply Nat.eqb_eq in H1. apply Nat.eqb_neq in H2. rewrite H1, H2. cbn [negb]. rewrite Hs, Hl, Hx. reflexivity.
  Qed.

  Theorem verify_rejects_malformed_request w addr ref :
    (String.length ref <> 64%nat \/ String.length addr = 0%nat) -> verify H x509 w addr ref = None.
  Proof.
    intros [Hr|Ha]; unfold verify, storage_key.
    - apply Nat.eqb_neq in Hr. rewrite Hr. reflexivity.
    - destruct (Nat.eqb (String.length ref) 64); [|reflexivity]. cbn [negb]. apply Nat.eqb_eq in Ha. rewrite Ha. reflexivity.
  Qed.

  (* queries never change the registry *)
  Theorem verify_is_read_only w addr ref : fst (sstep H x509 w (SVerify addr ref)) = w.
  Proof. simpl. destruct (verify H x509 w addr ref) as [[[[? ?] ?] ?]|]; reflexivity. Qed.

  (* ------------------------------------------------------------ tampering ----------------- *)
  Lemma las_app a b : list_ascii_of_string (a ++ b) = (list_ascii_of_string a ++ list_ascii_of_string b)%list.
  Proof. induction a as [|c a IH]; simpl; [reflexivity|rewrite IH; reflexivity]. Qed.

  Lemma append_cancel_r a b s : a ++ s = b ++ s -> a = b.
  Proof.
    intros Heq. apply (f_equal list_ascii_of_string) in Heq. rewrite !las_app in Heq.
    apply app_inv_tail in Heq. rewrite <- (string_of_list_ascii_of_string a), <- (string_of_list_ascii_of_string b), Heq. reflexivity.
  Qed.

  (* with a collision-free hash (on the strings involved) a different account address selects a
     different signature slot: the signature stored for one address is never used for another *)
  Theorem other_address_other_slot addr addr' ref :
    (forall x y, H x = H y -> x = y) -> addr <> addr' ->
    H (cat2 addr ref) <> H (cat2 addr' ref).
  Proof.
    intros Hinj Hne Heq. apply Hinj in Heq. unfold cat2 in Heq. apply append_cancel_r in Heq. contradiction.
  Qed.

  (* ... and the payload that the certificate must have signed binds address, reference id and link:
     a changed link (hence a changed stored value under hash(ref)) changes the checked payload *)
  Theorem other_link_other_payload addr ref link link' :
    (forall x y, H x = H y -> x = y) -> link <> link' ->
    H (cat3 addr ref link) <> H (cat3 addr ref link').
  Proof.
    intros Hinj Hne Heq. apply Hinj in Heq. unfold cat3 in Heq.
    apply (f_equal list_ascii_of_string) in Heq. rewrite !las_app in Heq.
    repeat apply app_inv_head in Heq.
    apply Hne. rewrite <- (string_of_list_ascii_of_string link), <- (string_of_list_ascii_of_string link'), Heq. reflexivity.
  Qed.
End Proofs.
