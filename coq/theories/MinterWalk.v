(* MinterWalk.v — the emission schedule over whole histories (C02, C10 minter part, C13 minter part):
   structure of validated parameters, lookups by sequence id, properties of AmountToMint, the closed
   form of one BeginBlock (walk), composition of blocks, and the partition-independence theorem. *)
From C4E Require Import Base Minter MinterProofs.
From Coq Require Import ZifyBool.
Open Scope Z_scope.

(* ---------------------------------------------------------------- structure ---------------- *)
Definition id_ok (pid : Z) (m : minter) : Prop := if pid =? 0 then 0 < m_seq m else m_seq m = pid + 1.

(* sane magnitudes of the property: a linear period spans at least one millisecond boundary *)
Definition period_ok (pend : Z) (m : minter) : Prop :=
  match m_cfg m, m_end m with
  | CLinear _, Some e => unix_milli pend < unix_milli e
  | _, _ => True
  end.

Inductive chain : Z -> Z -> list minter -> Prop :=
| chain_last m pid pend : id_ok pid m -> m_end m = None -> cfg_valid m = true -> chain pid pend [m]
| chain_cons m e t pid pend : id_ok pid m -> m_end m = Some e -> pend < e -> cfg_valid m = true -> period_ok pend m ->
    t <> [] -> chain (m_seq m) e t -> chain pid pend (m :: t).

Fixpoint periods_sane_from (pend : Z) (ms : list minter) : Prop :=
  match ms with
  | [] => True
  | m :: t => period_ok pend m /\ match m_end m with Some e => periods_sane_from e t | None => True end
  end.

Lemma valid_chain ms : forall pid pend, minters_valid_from pid pend ms = true -> periods_sane_from pend ms -> chain pid pend ms.
Proof.
  induction ms as [|m t IH]; intros pid pend H Hs; [discriminate|].
  destruct t as [|m2 t2].
  - simpl in H. apply andb_true_iff in H. destruct H as [H Hc]. apply andb_true_iff in H. destruct H as [Hid He].
    apply chain_last; [unfold id_ok; destruct (pid =? 0); lia|destruct (m_end m); [discriminate|reflexivity]|assumption].
  - change (minters_valid_from pid pend (m :: m2 :: t2)) with
      ((if pid =? 0 then 0 <? m_seq m else m_seq m =? pid + 1)
       && match m_end m with Some e => (pend <? e) && minters_valid_from (m_seq m) e (m2 :: t2) | None => false end
       && cfg_valid m) in H.
    apply andb_true_iff in H. destruct H as [H Hc]. apply andb_true_iff in H. destruct H as [Hid He].
    destruct (m_end m) as [e|] eqn:Ee; [|discriminate]. apply andb_true_iff in He. destruct He as [Hpe Hv].
    destruct Hs as [Hp Hs']. rewrite Ee in Hs'.
    eapply chain_cons; [unfold id_ok; destruct (pid =? 0); lia|exact Ee|lia|assumption|assumption|discriminate|].
    apply IH; assumption.
Qed.

Fixpoint incr (lo : Z) (l : list minter) : Prop :=
  match l with [] => True | m :: t => lo < m_seq m /\ incr (m_seq m) t end.

Lemma chain_incr pid pend l : chain pid pend l -> 0 <= pid -> incr pid l.
Proof.
  intros H. induction H as [m pid pend Hid He Hc|m e t pid pend Hid He Hlt Hc Hp Hne Ht IH]; intros Hp0; simpl.
  - split; [unfold id_ok in Hid; destruct (pid =? 0) eqn:E; lia|exact I].
  - assert (pid < m_seq m) by (unfold id_ok in Hid; destruct (pid =? 0) eqn:E; lia).
    split; [assumption|apply IH; lia].
Qed.

Lemma incr_weaken lo lo' l : lo' <= lo -> incr lo l -> incr lo' l.
Proof. destruct l as [|m t]; simpl; [tauto|]. intros H [H1 H2]. split; [lia|assumption]. Qed.

Lemma incr_all_gt lo l : incr lo l -> Forall (fun m => lo < m_seq m) l.
Proof.
  revert lo. induction l as [|m t IH]; intros lo H; [constructor|]. simpl in H. destruct H as [H1 H2].
  constructor; [assumption|]. eapply Forall_impl; [|apply (IH _ H2)]. intros a Ha. simpl in Ha. lia.
Qed.

Lemma incr_app lo pre cur post : incr lo (pre ++ cur :: post) ->
  incr lo pre /\ Forall (fun m => m_seq m < m_seq cur) pre /\ lo < m_seq cur /\ incr (m_seq cur) post.
Proof.
  revert lo. induction pre as [|m t IH]; intros lo H; simpl in *.
  - destruct H as [H1 H2]. repeat split; auto.
  - destruct H as [H1 H2]. destruct (IH _ H2) as (A & B & C & D).
    split; [split; assumption|]. split; [constructor; [lia|assumption]|]. split; [lia|assumption].
Qed.

(* ---------------------------------------------------------------- lookups ------------------ *)
Lemma find_cur_app a b id acc : find_cur (a ++ b) id acc = find_cur b id (find_cur a id acc).
Proof. revert acc. induction a as [|m t IH]; intros acc; simpl; [reflexivity|apply IH]. Qed.

Lemma find_cur_nomatch l id acc : Forall (fun m => m_seq m <> id) l -> find_cur l id acc = acc.
Proof.
  intros H. revert acc. induction H as [|m t Hm Ht IH]; intros acc; simpl; [reflexivity|].
  destruct (m_seq m =? id) eqn:E; [lia|apply IH].
Qed.

Lemma find_prev_app a b id acc : find_prev (a ++ b) id acc = find_prev b id (find_prev a id acc).
Proof. revert acc. induction a as [|m t IH]; intros acc; simpl; [reflexivity|apply IH]. Qed.

Lemma find_prev_none_below l id acc : Forall (fun m => id <= m_seq m) l -> find_prev l id acc = acc.
Proof.
  intros H. revert acc. induction H as [|m t Hm Ht IH]; intros acc; simpl; [reflexivity|].
  destruct acc as [p|].
  - assert (E : (m_seq m <? id) = false) by lia. rewrite E. simpl. apply IH.
  - assert (E : (m_seq m <? id) = false) by lia. rewrite E. apply IH.
Qed.

Definition last_opt (l : list minter) : option minter := match rev l with [] => None | m :: _ => Some m end.

Lemma last_opt_cons m t : last_opt (m :: t) = match last_opt t with Some x => Some x | None => Some m end.
Proof.
  unfold last_opt. simpl. destruct (rev t) as [|x r] eqn:E; simpl; reflexivity.
Qed.

Lemma find_prev_all_below pre id : forall lo acc, incr lo pre -> Forall (fun m => m_seq m < id) pre ->
  match acc with None => True | Some p => m_seq p <= lo end ->
  find_prev pre id acc = match last_opt pre with Some x => Some x | None => acc end.
Proof.
  induction pre as [|m t IH]; intros lo acc Hi Hb Hacc; [reflexivity|].
  simpl in Hi. destruct Hi as [H1 H2]. inversion Hb as [|? ? Hm Ht]; subst.
  cbn [find_prev]. rewrite last_opt_cons.
  assert (Hacc' : (match acc with
                   | None => if m_seq m <? id then Some m else None
                   | Some p => if (m_seq m <? id) && (m_seq p <? m_seq m) then Some m else acc end) = Some m).
  { destruct acc as [p|].
    - assert (E1 : (m_seq m <? id) = true) by lia. assert (E2 : (m_seq p <? m_seq m) = true) by lia. rewrite E1, E2. reflexivity.
    - assert (E1 : (m_seq m <? id) = true) by lia. rewrite E1. reflexivity. }
  rewrite Hacc'. rewrite (IH (m_seq m) (Some m) H2 Ht ltac:(simpl; lia)).
  destruct (last_opt t); reflexivity.
Qed.

(* the start of the period whose predecessors are [pre] *)
Definition start_after (start : Z) (pre : list minter) : Z :=
  match last_opt pre with Some pm => match m_end pm with Some e => e | None => start end | None => start end.

Lemma chain_split pre : forall pid pend cur post, chain pid pend (pre ++ cur :: post) ->
  exists pid', chain pid' (start_after pend pre) (cur :: post) /\ (pre = [] -> pid' = pid) /\
               (forall pm, last_opt pre = Some pm -> pid' = m_seq pm /\ exists e, m_end pm = Some e).
Proof.
  induction pre as [|m t IH]; intros pid pend cur post H.
  - exists pid. simpl in H. unfold start_after, last_opt; simpl. split; [assumption|]. split; [reflexivity|]. intros pm Hc; discriminate.
  - simpl in H. inversion H as [? ? ? Hid He Hc Heq|? e ? ? ? Hid He Hlt Hc Hp Hne Ht]; subst.
    + destruct t; discriminate.
    + destruct (IH _ _ _ _ Ht) as (pid' & Hch & Hnil & Hlast).
      exists pid'. unfold start_after in *. rewrite last_opt_cons.
      destruct (last_opt t) as [x|] eqn:El.
      * destruct (Hlast x eq_refl) as (Hx1 & e' & He'). rewrite He' in *.
        split; [exact Hch|]. split; [discriminate|]. intros pm Hpm. injection Hpm as <-. split; [exact Hx1|exists e'; exact He'].
      * assert (t = []). { unfold last_opt in El. destruct (rev t) eqn:Er; [|discriminate]. apply (f_equal (@rev minter)) in Er. rewrite rev_involutive in Er. exact Er. }
        subst t. rewrite He. split; [exact Hch|]. split; [discriminate|].
        intros pm Hpm. injection Hpm as <-. split; [apply Hnil; reflexivity|eauto].
Qed.

Theorem lookup_in_valid_params p pre cur post :
  chain 0 (mp_start p) (mp_minters p) -> mp_minters p = pre ++ cur :: post ->
  find_cur (mp_minters p) (m_seq cur) None = Some cur /\
  period_start p (m_seq cur) = Ok (start_after (mp_start p) pre) /\
  exists pid', chain pid' (start_after (mp_start p) pre) (cur :: post).
Proof.
  intros Hch Heq. pose proof (chain_incr _ _ _ Hch ltac:(lia)) as Hi. rewrite Heq in Hi, Hch.
  destruct (incr_app _ _ _ _ Hi) as (Hpre & Hlt & Hlo & Hpost).
  destruct (chain_split _ _ _ _ _ Hch) as (pid' & Hc' & _ & Hlast).
  split; [|split; [|eauto]].
  - rewrite Heq, find_cur_app. simpl. rewrite Z.eqb_refl.
    apply find_cur_nomatch. eapply Forall_impl; [|apply (incr_all_gt _ _ Hpost)]. intros a Ha. simpl in Ha. lia.
  - unfold period_start. rewrite Heq, find_prev_app.
    rewrite (find_prev_all_below pre (m_seq cur) 0 None Hpre Hlt I).
    rewrite find_prev_none_below.
    + unfold start_after. destruct (last_opt pre) as [pm|] eqn:El; [|reflexivity].
      destruct (Hlast pm eq_refl) as (_ & e & He). rewrite He. reflexivity.
    + constructor; [lia|]. eapply Forall_impl; [|apply (incr_all_gt _ _ Hpost)]. intros a Ha. simpl in Ha. lia.
Qed.

(* ---------------------------------------------------------------- AmountToMint ------------- *)
Definition amt (m : minter) (start now : Z) : Z := match amount_to_mint m start now with Ok x => x | _ => 0 end.

Definition exp_val (A step mult passed : Z) : Z :=
  let n := passed / step in
  let sc := exp_sum (Z.to_nat n) (dec_of_int A) mult in
  fst sc + Z.quot (snd sc * (passed - n * step)) step.

Lemma go_sub_id a b : - MAXI64 - 1 <= a - b <= MAXI64 -> go_sub a b = a - b.
Proof. unfold go_sub. lia. Qed.

Lemma exp_amount_val A step mult start end_ now :
  0 < step -> 0 <= start -> now <= MAXI64 -> start <= now ->
  match end_ with Some e => start <= e | None => True end ->
  exp_amount A step mult start end_ now =
    Ok (exp_val A step mult ((match end_ with Some e => if e <? now then e else now | None => now end) - start)).
Proof.
  intros Hst Hs Hn Hsn He. unfold exp_amount.
  set (now' := match end_ with Some e => if e <? now then e else now | None => now end).
  assert (Hn' : start <= now' <= now).
  { unfold now'. destruct end_ as [e|]; [|lia]. destruct (e <? now) eqn:E; lia. }
  rewrite go_sub_id by (unfold MAXI64 in *; lia).
  destruct (step =? 0) eqn:E0; [lia|].
  rewrite Z.quot_div_nonneg by lia.
  unfold exp_val. cbv zeta.
  pose proof (Z.div_mod (now' - start) step ltac:(lia)) as Hdm. pose proof (Z.mod_pos_bound (now' - start) step Hst) as Hmb.
  assert (Hq : 0 <= (now' - start) / step) by (apply Z.div_pos; lia).
  rewrite go_sub_id by (unfold MAXI64 in *; nia).
  destruct (exp_sum (Z.to_nat ((now' - start) / step)) (dec_of_int A) mult) as [s cur]. cbn [fst snd].
  unfold dec_quo_int, dec_mul_int. f_equal. f_equal.
  replace (now' - (start + (now' - start) / step * step)) with (now' - start - (now' - start) / step * step) by lia.
  reflexivity.
Qed.

Lemma exp_val_nonneg A step mult passed : 0 <= A -> 0 <= mult -> 0 < step -> 0 <= passed -> 0 <= exp_val A step mult passed.
Proof.
  intros HA Hm Hst Hp. unfold exp_val. cbv zeta.
  pose proof (exp_sum_nonneg (Z.to_nat (passed / step)) (dec_of_int A) mult ltac:(unfold dec_of_int; pose proof P_pos; nia) Hm) as [H1 H2].
  pose proof (Z.div_mod passed step ltac:(lia)). pose proof (Z.mod_pos_bound passed step Hst).
  assert (0 <= snd (exp_sum (Z.to_nat (passed / step)) (dec_of_int A) mult) * (passed - passed / step * step)) by nia.
  rewrite Z.quot_div_nonneg by lia.
  assert (0 <= (snd (exp_sum (Z.to_nat (passed / step)) (dec_of_int A) mult) * (passed - passed / step * step)) / step) by (apply Z.div_pos; lia).
  lia.
Qed.

Lemma exp_val_mono A step mult p1 p2 : 0 <= A -> 0 <= mult -> 0 < step -> 0 <= p1 <= p2 ->
  exp_val A step mult p1 <= exp_val A step mult p2.
Proof.
  intros HA Hm Hst Hp. unfold exp_val. cbv zeta.
  assert (Ha : 0 <= dec_of_int A) by (unfold dec_of_int; pose proof P_pos; nia).
  pose proof (Z.div_mod p1 step ltac:(lia)) as D1. pose proof (Z.mod_pos_bound p1 step Hst) as M1.
  pose proof (Z.div_mod p2 step ltac:(lia)) as D2. pose proof (Z.mod_pos_bound p2 step Hst) as M2.
  assert (Hn : 0 <= p1 / step <= p2 / step) by (split; [apply Z.div_pos; lia|apply Z.div_le_mono; lia]).
  set (n1 := p1 / step) in *. set (n2 := p2 / step) in *.
  pose proof (exp_sum_nonneg (Z.to_nat n1) _ mult Ha Hm) as [S1 C1].
  pose proof (exp_sum_nonneg (Z.to_nat n2) _ mult Ha Hm) as [S2 C2].
  rewrite !Z.quot_div_nonneg; try lia; try nia.
  destruct (Z.eq_dec n1 n2) as [Heq|Hne].
  - rewrite <- Heq in *. apply Z.add_le_mono_l. apply Z.div_le_mono; [lia|]. nia.
  - assert (HN : (Z.to_nat n2 = S (Z.to_nat n1) + (Z.to_nat n2 - S (Z.to_nat n1)))%nat) by lia.
    pose proof (exp_sum_mono (Z.to_nat n1) (Z.to_nat n2 - S (Z.to_nat n1)) _ mult Ha Hm) as Hmono. rewrite <- HN in Hmono.
    set (sc1 := exp_sum (Z.to_nat n1) (dec_of_int A) mult) in *. set (sc2 := exp_sum (Z.to_nat n2) (dec_of_int A) mult) in *.
    assert (H1 : (snd sc1 * (p1 - n1 * step)) / step <= snd sc1).
    { apply Z.div_le_upper_bound; [lia|]. nia. }
    assert (H2 : 0 <= (snd sc2 * (p2 - n2 * step)) / step) by (apply Z.div_pos; [nia|lia]).
    lia.
Qed.

(* the facts about AmountToMint used below, for one validated period starting at [pend] *)
Record amt_facts (m : minter) (pend : Z) : Prop := {
  af_ok : forall now, pend <= now <= MAXI64 -> amount_to_mint m pend now = Ok (amt m pend now);
  af_nonneg : forall now, pend <= now <= MAXI64 -> 0 <= amt m pend now;
  af_mono : forall t1 t2, pend <= t1 <= t2 -> t2 <= MAXI64 -> amt m pend t1 <= amt m pend t2;
  af_const : forall e t1 t2, m_end m = Some e -> e <= t1 <= t2 -> t2 <= MAXI64 -> amt m pend t1 = amt m pend t2 }.

Lemma amt_facts_valid m pend :
  cfg_valid m = true -> period_ok pend m -> 0 <= pend -> match m_end m with Some e => pend < e | None => True end ->
  amt_facts m pend.
Proof.
  intros Hc Hp H0 He. unfold cfg_valid in Hc. unfold period_ok in Hp. unfold amt, amount_to_mint.
  destruct (m_cfg m) as [|A|A step mult] eqn:Ecfg.
  - constructor; unfold amt, amount_to_mint; rewrite Ecfg; intros; simpl; try reflexivity; lia.
  - apply andb_true_iff in Hc. destruct Hc as [HA Hend]. destruct (m_end m) as [e|] eqn:Ee; [|discriminate].
    destruct (linear_amount_spec A pend e ltac:(lia) Hp) as (L1 & L2 & L3 & L4).
    constructor; unfold amt, amount_to_mint; rewrite Ecfg, ?Ee.
    + intros now Hn. destruct (L4 now) as [x Hx]. rewrite Hx. reflexivity.
    + intros now Hn. destruct (L4 now) as [x Hx]. rewrite Hx. destruct (L3 now now x x ltac:(lia) Hx Hx). lia.
    + intros t1 t2 Ht Hm. destruct (L4 t1) as [x1 H1]. destruct (L4 t2) as [x2 H2]. rewrite H1, H2.
      destruct (L3 t1 t2 x1 x2 Ht H1 H2). lia.
    + intros e' t1 t2 Hee Ht Hm. inversion Hee; subst e'. rewrite (L1 t1), (L1 t2) by lia. reflexivity.
  - apply andb_true_iff in Hc. destruct Hc as [Hc Hst]. apply andb_true_iff in Hc. destruct Hc as [HA Hmu].
    assert (Hval : forall now, pend <= now <= MAXI64 ->
              exp_amount A step mult pend (m_end m) now =
              Ok (exp_val A step mult ((match m_end m with Some e => if e <? now then e else now | None => now end) - pend))).
    { intros now Hn. apply exp_amount_val; try lia. destruct (m_end m); lia. }
    constructor; unfold amt, amount_to_mint; rewrite Ecfg.
    + intros now Hn. rewrite Hval by assumption. reflexivity.
    + intros now Hn. rewrite Hval by assumption. apply exp_val_nonneg; try lia.
      destruct (m_end m) as [e|]; [destruct (e <? now) eqn:E; lia|lia].
    + intros t1 t2 Ht Hm. rewrite !Hval by lia. apply exp_val_mono; try lia.
      destruct (m_end m) as [e|]; [destruct (e <? t1) eqn:E1; destruct (e <? t2) eqn:E2; lia|lia].
    + intros e t1 t2 Hee Ht Hm. rewrite Hee in He. rewrite !Hval by lia. rewrite Hee.
      destruct (Z.eq_dec e t1) as [->|Hne1].
      * destruct (t1 <? t1) eqn:E1; [lia|]. destruct (t1 <? t2) eqn:E2; [reflexivity|]. replace t2 with t1 by lia. reflexivity.
      * assert (E1 : (e <? t1) = true) by lia. assert (E2 : (e <? t2) = true) by lia. rewrite E1, E2. reflexivity.
Qed.

(* ---------------------------------------------------------------- one BeginBlock in closed form *)
Definition period_state (m : minter) (x c now : Z) : mstate :=
  {| s_seq := m_seq m; s_minted := dec_trunc_int x; s_rem := x - dec_trunc_dec x; s_rem_prev := c; s_last := now |}.

(* from a fresh (counter 0) state of the first period of [l], carrying [c]: total minted, final
   state, state-history entries written *)
Fixpoint walk (pend : Z) (l : list minter) (now c : Z) : Z * mstate * list mstate :=
  match l with
  | [] => (0, period_state {| m_seq := 0; m_end := None; m_cfg := CNone |} 0 c now, [])
  | cur :: post =>
      let x := amt cur pend now + c in
      let st1 := period_state cur x c now in
      match m_end cur with
      | None => (dec_trunc_int x, st1, [])
      | Some e =>
          if now <? e then (dec_trunc_int x, st1, [])
          else let '(a, st', h) := walk e post now (x - dec_trunc_dec x) in (dec_trunc_int x + a, st', st1 :: h)
      end
  end.

Lemma walk_cons pend cur post now c :
  walk pend (cur :: post) now c =
    let x := amt cur pend now + c in
    let st1 := period_state cur x c now in
    match m_end cur with
    | None => (dec_trunc_int x, st1, [])
    | Some e => if now <? e then (dec_trunc_int x, st1, [])
                else let '(a, st', h) := walk e post now (x - dec_trunc_dec x) in (dec_trunc_int x + a, st', st1 :: h)
    end.
Proof. reflexivity. Qed.

Definition wtot (r : Z * mstate * list mstate) : Z := fst (fst r).
Definition wst (r : Z * mstate * list mstate) : mstate := snd (fst r).
Definition whist (r : Z * mstate * list mstate) : list mstate := snd r.

Lemma frac_range x : 0 <= x -> 0 <= x - dec_trunc_dec x < P.
Proof. intros H. apply (trunc_frac_spec x H). Qed.

Lemma trunc_nonneg x : 0 <= x -> 0 <= dec_trunc_int x.
Proof. intros H. unfold dec_trunc_int. pose proof (chop_trunc_spec x H). pose proof P_pos. nia. Qed.

Lemma trunc_mono x y : 0 <= x <= y -> dec_trunc_int x <= dec_trunc_int y.
Proof. intros H. unfold dec_trunc_int. apply chop_trunc_mono. exact H. Qed.

Section WithParams.
  Variable p : mparams.
  Hypothesis Hchain : chain 0 (mp_start p) (mp_minters p).
  Hypothesis Hdenom : mp_denom_ok p = true.
  Hypothesis Hstart0 : 0 <= mp_start p.

  Lemma chain_start_nonneg pid pend l : chain pid pend l -> 0 <= pend ->
    forall pre cur post, l = pre ++ cur :: post -> 0 <= start_after pend pre.
  Proof.
    intros H H0 pre. revert pid pend l H H0. induction pre as [|m t IH]; intros pid pend l H H0 cur post Heq.
    - unfold start_after, last_opt; simpl. assumption.
    - subst l. simpl in H. inversion H as [? ? ? Hid He Hc Hq|? e ? ? ? Hid He Hlt Hc Hp Hne Ht]; subst; [destruct t; discriminate|].
      specialize (IH _ _ _ Ht ltac:(lia) cur post eq_refl).
      unfold start_after in *. rewrite last_opt_cons. destruct (last_opt t) as [x|]; [destruct (m_end x); [assumption|lia]|]. rewrite He. lia.
  Qed.

  (* the main lemma: BeginBlock from a state sitting in the first period of a suffix of the validated
     list, with a counter not ahead of the schedule, is the walk minus what was already minted *)
  Lemma mint_rec_walk post : forall pre cur st now fuel pid,
    mp_minters p = pre ++ cur :: post ->
    chain pid (start_after (mp_start p) pre) (cur :: post) ->
    s_seq st = m_seq cur -> 0 <= s_rem_prev st < P ->
    start_after (mp_start p) pre <= now <= MAXI64 ->
    s_minted st <= dec_trunc_int (amt cur (start_after (mp_start p) pre) now + s_rem_prev st) ->
    (length post < fuel)%nat ->
    let r := walk (start_after (mp_start p) pre) (cur :: post) now (s_rem_prev st) in
    mint_rec fuel p st now = Ok (wtot r - s_minted st, wst r, whist r).
  Proof.
    induction post as [|nxt post IH]; intros pre cur st now fuel pid Heq Hch Hseq Hc Hnow Hm Hfuel; cbv zeta.
    - (* last period *)
      destruct (lookup_in_valid_params p pre cur [] Hchain Heq) as (Hfc & Hps & _).
      inversion Hch as [? ? ? Hid He Hcv|? e ? ? ? Hid He]; subst; [|congruence].
      set (pend := start_after (mp_start p) pre) in *.
      assert (H0p : 0 <= pend) by (eapply (chain_start_nonneg _ _ _ Hchain Hstart0); exact Heq).
      pose proof (amt_facts_valid cur pend Hcv ltac:(unfold period_ok; destruct (m_cfg cur); try exact I; rewrite He; exact I) H0p ltac:(rewrite He; exact I)) as F.
      destruct fuel as [|f]; [simpl in Hfuel; lia|].
      rewrite (mint_rec_same_period f p st now cur pend (amt cur pend now)); try assumption.
      + rewrite walk_cons. cbv zeta. unfold wtot, wst, whist. rewrite He. cbn [fst snd]. unfold period_state. rewrite Hseq. reflexivity.
      + rewrite <- Hseq in Hfc. exact Hfc.
      + rewrite Hseq. exact Hps.
      + apply (af_ok _ _ F). assumption.
      + rewrite He. exact I.
    - destruct (lookup_in_valid_params p pre cur (nxt :: post) Hchain Heq) as (Hfc & Hps & _).
      inversion Hch as [|? e ? ? ? Hid He Hlt Hcv Hpo Hne Ht]; subst.
      set (pend := start_after (mp_start p) pre) in *.
      assert (H0p : 0 <= pend) by (eapply (chain_start_nonneg _ _ _ Hchain Hstart0); exact Heq).
      pose proof (amt_facts_valid cur pend Hcv Hpo H0p ltac:(rewrite He; exact Hlt)) as F.
      destruct fuel as [|f]; [simpl in Hfuel; lia|].
      pose proof (af_nonneg _ _ F now Hnow) as Hann.
      rewrite walk_cons. cbv zeta. rewrite He. destruct (now <? e) eqn:Ene.
      + rewrite (mint_rec_same_period f p st now cur pend (amt cur pend now)); try assumption.
        * unfold wtot, wst, whist. cbn [fst snd]. unfold period_state. rewrite Hseq. reflexivity.
        * rewrite <- Hseq in Hfc. exact Hfc.
        * rewrite Hseq. exact Hps.
        * apply (af_ok _ _ F). assumption.
        * rewrite He. lia.
      + pose proof (mint_rec_handover f p st now cur pend (amt cur pend now) e) as Hh. cbv zeta in Hh.
        rewrite Hh; try assumption; clear Hh.
        * (* the next period *)
          set (x := amt cur pend now + s_rem_prev st) in *.
          set (st2 := {| s_seq := s_seq st + 1; s_minted := 0; s_rem := 0; s_rem_prev := x - dec_trunc_dec x; s_last := now |}).
          assert (Hx0 : 0 <= x) by (unfold x; lia).
          assert (Hpre' : mp_minters p = (pre ++ [cur]) ++ nxt :: post) by (rewrite <- app_assoc; exact Heq).
          assert (Hsa : start_after (mp_start p) (pre ++ [cur]) = e).
          { unfold start_after, last_opt. rewrite rev_app_distr. simpl. rewrite He. reflexivity. }
          assert (Hidn : m_seq nxt = m_seq cur + 1).
          { inversion Ht as [? ? ? Hidn|? ? ? ? ? Hidn]; subst; unfold id_ok in Hidn;
              (destruct (m_seq cur =? 0) eqn:E0; [pose proof (chain_incr _ _ _ Hch) as Hi; simpl in Hi; exfalso|exact Hidn]).
            - pose proof (chain_incr _ _ _ Hchain ltac:(lia)) as Hi0. rewrite Heq in Hi0. destruct (incr_app _ _ _ _ Hi0) as (_ & _ & Hlo & _). lia.
            - pose proof (chain_incr _ _ _ Hchain ltac:(lia)) as Hi0. rewrite Heq in Hi0. destruct (incr_app _ _ _ _ Hi0) as (_ & _ & Hlo & _). lia. }
          pose proof (IH (pre ++ [cur]) nxt st2 now f (m_seq cur) Hpre' ltac:(rewrite Hsa; exact Ht)
                         ltac:(unfold st2; simpl; lia) ltac:(unfold st2; cbn [s_rem_prev]; apply frac_range; assumption)
                         ltac:(rewrite Hsa; lia)) as IH'.
          rewrite Hsa in IH'. cbv zeta in IH'.
          assert (Hm2 : s_minted st2 <= dec_trunc_int (amt nxt e now + s_rem_prev st2)).
          { unfold st2; cbn [s_minted s_rem_prev]. apply trunc_nonneg.
            assert (Hfn : amt_facts nxt e).
            { inversion Ht as [? ? ? ? Hen Hcn|? e2 ? ? ? ? Hen Hlt2 Hcn Hpn]; subst.
              - apply amt_facts_valid; [assumption|unfold period_ok; destruct (m_cfg nxt); try exact I; rewrite Hen; exact I|lia|rewrite Hen; exact I].
              - apply amt_facts_valid; [assumption|assumption|lia|rewrite Hen; exact Hlt2]. }
            pose proof (af_nonneg _ _ Hfn now ltac:(lia)). pose proof (frac_range x Hx0). lia. }
          specialize (IH' Hm2 ltac:(simpl in Hfuel; lia)).
          fold st2. rewrite IH'. unfold st2. cbn [s_minted s_rem_prev].
          destruct (walk e (nxt :: post) now (x - dec_trunc_dec x)) as [[a st'] h] eqn:Ew.
          unfold wtot, wst, whist. cbn [fst snd].
          unfold period_state. rewrite Hseq. do 2 f_equal. f_equal. lia.
        * rewrite <- Hseq in Hfc. exact Hfc.
        * rewrite Hseq. exact Hps.
        * apply (af_ok _ _ F). assumption.
        * lia.
  Qed.
End WithParams.

(* ---------------------------------------------------------------- closed form -------------- *)
(* the schedule's exact cumulative emission (18-digit fixed point, no integer truncation, no carries) *)
Fixpoint exact_sum (pend : Z) (l : list minter) (now : Z) : Z :=
  match l with
  | [] => 0
  | cur :: post =>
      match m_end cur with
      | None => amt cur pend now
      | Some e => if now <? e then amt cur pend now else amt cur pend now + exact_sum e post now
      end
  end.

Lemma chain_amt_facts pid pend l : chain pid pend l -> 0 <= pend ->
  match l with cur :: _ => amt_facts cur pend | [] => True end.
Proof.
  intros H H0. inversion H as [? ? ? Hid He Hc|? e ? ? ? Hid He Hlt Hc Hp]; subst.
  - apply amt_facts_valid; [assumption|unfold period_ok; destruct (m_cfg m); try exact I; rewrite He; exact I|assumption|rewrite He; exact I].
  - apply amt_facts_valid; [assumption|assumption|assumption|rewrite He; exact Hlt].
Qed.

Theorem walk_closed_form l : forall pid pend now c,
  chain pid pend l -> 0 <= pend <= now -> now <= MAXI64 -> 0 <= c < P ->
  wtot (walk pend l now c) = dec_trunc_int (exact_sum pend l now + c) /\ 0 <= exact_sum pend l now.
Proof.
  induction l as [|cur post IH]; intros pid pend now c Hch Hp Hn Hc; [inversion Hch|].
  pose proof (chain_amt_facts _ _ _ Hch ltac:(lia)) as F. cbn beta iota in F.
  pose proof (af_nonneg _ _ F now ltac:(lia)) as Ha.
  rewrite walk_cons. cbv zeta. cbn [exact_sum].
  inversion Hch as [? ? ? Hid He Hcv|? e ? ? ? Hid He Hlt Hcv Hpo Hne Ht]; subst; rewrite He.
  - unfold wtot; simpl. split; [reflexivity|assumption].
  - destruct (now <? e) eqn:E; [unfold wtot; simpl; split; [reflexivity|assumption]|].
    assert (Hfr : 0 <= amt cur pend now + c - dec_trunc_dec (amt cur pend now + c) < P) by (apply frac_range; lia).
    destruct (IH _ e now _ Ht ltac:(lia) Hn Hfr) as [IH1 IH2].
    destruct (walk e post now (amt cur pend now + c - dec_trunc_dec (amt cur pend now + c))) as [[a st'] h] eqn:Ew.
    unfold wtot in *. cbn [fst] in *. rewrite IH1. split; [|lia].
    pose proof (carry_telescopes (amt cur pend now) (exact_sum e post now) c Ha IH2 Hc) as Ht'. cbv zeta in Ht'.
    rewrite Ht'. f_equal; lia.
Qed.

Lemma walk_last l : forall pend now c, l <> [] -> s_last (wst (walk pend l now c)) = now.
Proof.
  induction l as [|cur post IH]; intros pend now c Hne; [contradiction|].
  rewrite walk_cons. cbv zeta. destruct (m_end cur) as [e|]; [|reflexivity].
  destruct (now <? e); [reflexivity|].
  destruct post as [|n2 post']; [reflexivity|].
  specialize (IH e now (amt cur pend now + c - dec_trunc_dec (amt cur pend now + c)) ltac:(discriminate)).
  destruct (walk e (n2 :: post') now _) as [[a st'] h]. unfold wst in *. simpl in *. exact IH.
Qed.

(* ---------------------------------------------------------------- two consecutive blocks ---- *)
Definition hkey (s : mstate) : Z * Z * Z * Z := (s_seq s, s_minted s, s_rem s, s_rem_prev s).

Section Compose.
  Variable p : mparams.
  Hypothesis Hchain : chain 0 (mp_start p) (mp_minters p).
  Hypothesis Hdenom : mp_denom_ok p = true.
  Hypothesis Hstart0 : 0 <= mp_start p.

  Lemma compose post : forall pre cur pid c T1 T2 fuel,
    mp_minters p = pre ++ cur :: post ->
    chain pid (start_after (mp_start p) pre) (cur :: post) ->
    0 <= c < P -> start_after (mp_start p) pre <= T1 -> T1 <= T2 -> T2 <= MAXI64 ->
    (length post < fuel)%nat ->
    let pend := start_after (mp_start p) pre in
    let r1 := walk pend (cur :: post) T1 c in
    let r2 := walk pend (cur :: post) T2 c in
    exists h2, mint_rec fuel p (wst r1) T2 = Ok (wtot r2 - wtot r1, wst r2, h2) /\
               map hkey (whist r1 ++ h2) = map hkey (whist r2).
  Proof.
    induction post as [|nxt post IH]; intros pre cur pid c T1 T2 fuel Heq Hch Hc H1 H12 H2 Hfuel; cbv zeta.
    - set (pend := start_after (mp_start p) pre) in *.
      assert (H0p : 0 <= pend) by (eapply (chain_start_nonneg p Hdenom _ _ _ Hchain Hstart0); exact Heq).
      pose proof (chain_amt_facts _ _ _ Hch H0p) as F. cbn beta iota in F.
      inversion Hch as [? ? ? Hid He Hcv|? e ? ? ? Hid He Hlt Hcv Hpo Hne]; subst; [|congruence].
      pose proof (mint_rec_walk p Hchain Hdenom Hstart0 [] pre cur (wst (walk pend [cur] T1 c)) T2 fuel pid Heq Hch) as Hm. cbv zeta in Hm. fold pend in Hm.
      rewrite (walk_cons pend cur [] T1 c) in *. cbv zeta in *. rewrite He in *. unfold wst, wtot, whist in *. cbn [fst snd] in *.
      unfold period_state in Hm at 1 2 3 4. cbn [s_seq s_rem_prev s_minted] in Hm.
      specialize (Hm eq_refl Hc ltac:(lia)).
      assert (Hmono : dec_trunc_int (amt cur pend T1 + c) <= dec_trunc_int (amt cur pend T2 + c)).
      { apply trunc_mono. pose proof (af_nonneg _ _ F T1 ltac:(lia)). pose proof (af_mono _ _ F T1 T2 ltac:(lia) H2). lia. }
      specialize (Hm Hmono Hfuel).
      eexists. split; [exact Hm|]. reflexivity.
    - set (pend := start_after (mp_start p) pre) in *.
      assert (H0p : 0 <= pend) by (eapply (chain_start_nonneg p Hdenom _ _ _ Hchain Hstart0); exact Heq).
      pose proof (chain_amt_facts _ _ _ Hch H0p) as F. cbn beta iota in F.
      inversion Hch as [|? e ? ? ? Hid He Hlt Hcv Hpo Hne Ht]; subst.
      destruct (Z_lt_ge_dec T1 e) as [Hlt1|Hge1].
      + (* the first block stays in this period *)
        pose proof (mint_rec_walk p Hchain Hdenom Hstart0 (nxt :: post) pre cur (wst (walk pend (cur :: nxt :: post) T1 c)) T2 fuel pid Heq Hch) as Hm.
        cbv zeta in Hm. fold pend in Hm.
        rewrite (walk_cons pend cur (nxt :: post) T1 c) in *. cbv zeta in *. rewrite He in *.
        assert (E1 : (T1 <? e) = true) by lia. rewrite E1 in *. unfold wst, wtot, whist in *. cbn [fst snd] in *.
        unfold period_state in Hm at 1 2 3 4. cbn [s_seq s_rem_prev s_minted] in Hm.
        specialize (Hm eq_refl Hc ltac:(lia)).
        assert (Hmono : dec_trunc_int (amt cur pend T1 + c) <= dec_trunc_int (amt cur pend T2 + c)).
        { apply trunc_mono. pose proof (af_nonneg _ _ F T1 ltac:(lia)). pose proof (af_mono _ _ F T1 T2 ltac:(lia) H2). lia. }
        specialize (Hm Hmono Hfuel).
        eexists. split; [exact Hm|]. reflexivity.
      + (* the first block already left this period: both blocks see the same finished period *)
        assert (Hconst : amt cur pend T1 = amt cur pend T2) by (apply (af_const _ _ F e T1 T2 He); lia).
        assert (Hpre' : mp_minters p = (pre ++ [cur]) ++ nxt :: post) by (rewrite <- app_assoc; exact Heq).
        assert (Hsa : start_after (mp_start p) (pre ++ [cur]) = e).
        { unfold start_after, last_opt. rewrite rev_app_distr. simpl. rewrite He. reflexivity. }
        set (x := amt cur pend T1 + c) in *.
        assert (Hx0 : 0 <= x) by (unfold x; pose proof (af_nonneg _ _ F T1 ltac:(lia)); lia).
        pose proof (IH (pre ++ [cur]) nxt (m_seq cur) (x - dec_trunc_dec x) T1 T2 fuel Hpre' ltac:(rewrite Hsa; exact Ht)
                       (frac_range x Hx0) ltac:(rewrite Hsa; lia) H12 H2 ltac:(simpl in Hfuel; lia)) as IH'.
        cbv zeta in IH'. rewrite Hsa in IH'. destruct IH' as (h2 & Hm & Hh).
        rewrite (walk_cons pend cur (nxt :: post) T1 c), (walk_cons pend cur (nxt :: post) T2 c). cbv zeta. rewrite He.
        assert (E1 : (T1 <? e) = false) by lia. assert (E2 : (T2 <? e) = false) by lia. rewrite E1, E2.
        rewrite <- Hconst. fold x.
        destruct (walk e (nxt :: post) T1 (x - dec_trunc_dec x)) as [[a1 s1] hh1] eqn:Ew1.
        destruct (walk e (nxt :: post) T2 (x - dec_trunc_dec x)) as [[a2 s2] hh2] eqn:Ew2.
        unfold wst, wtot, whist in *. cbn [fst snd] in *.
        exists h2. split.
        * rewrite Hm. do 2 f_equal. f_equal. lia.
        * cbn [app map]. rewrite Hh. reflexivity.
  Qed.
End Compose.

(* ---------------------------------------------------------------- whole histories ---------- *)
Fixpoint run_blocks (p : mparams) (st : mstate) (ts : list Z) : outcome (Z * mstate) :=
  match ts with
  | [] => Ok (0, st)
  | t :: rest =>
      match mint p st t with
      | Ok (a, st', _) => match run_blocks p st' rest with
                          | Ok (b, st'') => Ok (a + b, st'') | Err => Err | Panic => Panic end
      | Err => Err | Panic => Panic
      end
  end.

Fixpoint increasing (lo : Z) (ts : list Z) : Prop :=
  match ts with [] => True | t :: r => lo < t /\ increasing t r end.

Lemma last_indep {A} (l : list A) : forall d d', l <> [] -> last l d = last l d'.
Proof.
  induction l as [|x t IH]; intros d d' H; [contradiction|]. destruct t as [|y t']; [reflexivity|].
  change (last (x :: y :: t') d) with (last (y :: t') d). change (last (x :: y :: t') d') with (last (y :: t') d').
  apply IH. discriminate.
Qed.

Lemma last_cons {A} (x y : A) l : last (x :: l) y = last l x.
Proof. destruct l as [|z t]; [reflexivity|]. change (last (x :: z :: t) y) with (last (z :: t) y). apply last_indep. discriminate. Qed.

Lemma start_after_nil s : start_after s [] = s.
Proof. reflexivity. Qed.

Lemma increasing_last rest : forall t, increasing t rest -> t <= last rest t.
Proof.
  induction rest as [|r rs IH]; intros t H; [simpl; lia|]. simpl in H. destruct H as [H1 H2].
  rewrite last_cons. specialize (IH r H2). lia.
Qed.

Section Histories.
  Variable p : mparams.
  Hypothesis Hchain : chain 0 (mp_start p) (mp_minters p).
  Hypothesis Hdenom : mp_denom_ok p = true.
  Hypothesis Hstart0 : 0 <= mp_start p.

  Let ms := mp_minters p.
  Let start := mp_start p.

  Lemma ms_cons : exists cur post, mp_minters p = cur :: post.
  Proof. inversion Hchain; eauto. Qed.

  Lemma fuel_ok cur post : mp_minters p = cur :: post -> (length post < mint_fuel p)%nat.
  Proof. intros H. unfold mint_fuel. rewrite H. simpl. lia. Qed.

  Lemma run_blocks_B ts : forall Tl, start <= Tl -> increasing Tl ts -> Forall (fun t => t <= MAXI64) ts ->
    run_blocks p (wst (walk start ms Tl 0)) ts =
      Ok (wtot (walk start ms (last ts Tl) 0) - wtot (walk start ms Tl 0), wst (walk start ms (last ts Tl) 0)).
  Proof.
    destruct ms_cons as (cur & post & Hms). unfold ms. rewrite Hms.
    induction ts as [|t rest IH]; intros Tl HTl Hinc Hmax.
    - simpl. f_equal. f_equal. lia.
    - simpl in Hinc. destruct Hinc as [Hlt Hinc]. inversion Hmax as [|? ? Ht Hrest]; subst.
      cbn [run_blocks]. unfold mint.
      assert (E1 : (t <? mp_start p) = false) by (unfold start in *; lia). rewrite E1.
      rewrite (walk_last (cur :: post) start Tl 0 ltac:(discriminate)).
      assert (E2 : (t <=? Tl) = false) by lia. rewrite E2.
      destruct (compose p Hchain Hdenom Hstart0 post [] cur 0 0 Tl t (mint_fuel p) Hms
                  ltac:(rewrite start_after_nil, <- Hms; exact Hchain)
                  ltac:(pose proof P_pos; lia) ltac:(rewrite start_after_nil; unfold start in *; lia) ltac:(lia) Ht (fuel_ok _ _ Hms))
        as (h2 & Hm & _).
      cbv zeta in Hm. rewrite start_after_nil in Hm. fold start in Hm. rewrite Hm.
      rewrite (IH t ltac:(lia) Hinc Hrest).
      rewrite (last_cons t Tl rest).
      f_equal. f_equal. lia.
  Qed.

  Variable g : mstate.          (* the genesis minter state *)
  Hypothesis Hg_seq : match ms with cur :: _ => s_seq g = m_seq cur | [] => True end.
  Hypothesis Hg_minted : s_minted g = 0.
  Hypothesis Hg_carry : s_rem_prev g = 0.

  Definition schedule_total (T : Z) : Z := if T <? start then 0 else wtot (walk start ms T 0).

  Lemma run_blocks_A ts : forall Tl, s_last g <= Tl -> increasing Tl ts -> Forall (fun t => t <= MAXI64) ts -> ts <> [] ->
    exists st', run_blocks p g ts = Ok (schedule_total (last ts Tl), st').
  Proof.
    destruct ms_cons as (cur & post & Hms). unfold schedule_total, ms in *. rewrite Hms in Hg_seq |- *.
    induction ts as [|t rest IH]; intros Tl HTl Hinc Hmax Hne; [contradiction|].
    simpl in Hinc. destruct Hinc as [Hlt Hinc]. inversion Hmax as [|? ? Ht Hrest]; subst.
    cbn [run_blocks]. unfold mint. fold start.
    destruct (t <? start) eqn:E1.
    - (* before the start time: nothing happens *)
      destruct rest as [|t2 rest'].
      + simpl. rewrite E1. eexists; reflexivity.
      + destruct (IH t ltac:(lia) Hinc Hrest ltac:(discriminate)) as (st' & Hr). rewrite Hr.
        rewrite (last_cons t Tl (t2 :: rest')). eexists. reflexivity.
    - assert (E2 : (t <=? s_last g) = false) by lia. rewrite E2.
      pose proof (mint_rec_walk p Hchain Hdenom Hstart0 post [] cur g t (mint_fuel p) 0 Hms
                    ltac:(rewrite start_after_nil, <- Hms; exact Hchain) Hg_seq
                    ltac:(rewrite Hg_carry; pose proof P_pos; lia)
                    ltac:(rewrite start_after_nil; fold start; lia)) as Hm.
      cbv zeta in Hm. rewrite start_after_nil in Hm. fold start in Hm. rewrite Hg_carry, Hg_minted in Hm.
      assert (Hnn : 0 <= dec_trunc_int (amt cur start t + 0)).
      { apply trunc_nonneg. pose proof (chain_amt_facts _ _ _ Hchain Hstart0) as F. rewrite Hms in F. cbn beta iota in F.
        pose proof (af_nonneg _ _ F t ltac:(fold start; lia)). fold start in H. lia. }
      specialize (Hm Hnn (fuel_ok _ _ Hms)). rewrite Hm.
      pose proof (run_blocks_B rest t ltac:(lia) Hinc Hrest) as HB. unfold ms in HB. rewrite Hms in HB. rewrite HB.
      rewrite (last_cons t Tl rest).
      assert (E3 : (last rest t <? start) = false).
      { pose proof (increasing_last rest t Hinc). lia. }
      rewrite E3. eexists. f_equal. f_equal. lia.
  Qed.

  (* C02: for every validated configuration, every genesis state with zero counters, and every
     strictly increasing sequence of block times after the genesis time: BeginBlock never fails, and
     the total minted is the integer part of the schedule's exact cumulative emission at the last block
     time — whatever the partition into blocks *)
  Theorem partition_independence ts Tl :
    s_last g <= Tl -> increasing Tl ts -> Forall (fun t => t <= MAXI64) ts -> ts <> [] ->
    exists st', run_blocks p g ts = Ok ((if last ts Tl <? start then 0 else dec_trunc_int (exact_sum start ms (last ts Tl))), st').
  Proof.
    intros H1 H2 H3 H4. destruct (run_blocks_A ts Tl H1 H2 H3 H4) as (st' & Hr). exists st'. rewrite Hr.
    unfold schedule_total. destruct (last ts Tl <? start) eqn:E; [reflexivity|].
    assert (Hl : last ts Tl <= MAXI64).
    { clear -H3 H4. induction ts as [|t r IH]; [contradiction|]. inversion H3; subst. destruct r; simpl; [assumption|]. apply IH; [assumption|discriminate]. }
    destruct (walk_closed_form ms 0 start (last ts Tl) 0 Hchain ltac:(lia) Hl ltac:(pose proof P_pos; lia)) as [Hc _].
    rewrite Hc. do 3 f_equal. lia.
  Qed.
End Histories.

(* ---------------------------------------------------------------- C10 / C13 (minter) ------- *)
Lemma find_cur_some_iff ms id : forall acc,
  (exists m, find_cur ms id acc = Some m) <-> (existsb (fun m => m_seq m =? id) ms = true \/ exists m, acc = Some m).
Proof.
  induction ms as [|m t IH]; intros acc; simpl.
  - split; [intros [x Hx]; right; eauto|intros [H|H]; [discriminate|exact H]].
  - rewrite IH. destruct (m_seq m =? id); simpl; split; intros [H|H]; auto; try (left; reflexivity); right; eauto.
Qed.

(* Mint can only report an error when a period of the hand-over chain is missing from the parameters
   (or when the parameters contain at least [fuel] consecutive ids from the current one on: excluded for
   fuel = S (length minters) whenever ids are distinct) *)
Theorem mint_rec_err_only_if_period_missing fuel : forall p st now,
  mint_rec fuel p st now = Err ->
  (exists k, 0 <= k /\ contains_minter p (s_seq st + k) = false) \/
  (forall k, 0 <= k < Z.of_nat fuel -> contains_minter p (s_seq st + k) = true).
Proof.
  induction fuel as [|f IH]; intros p st now H; [right; intros k Hk; lia|].
  cbn [mint_rec] in H.
  destruct (find_cur (mp_minters p) (s_seq st) None) as [cur|] eqn:Ec.
  - assert (Hin : contains_minter p (s_seq st) = true).
    { unfold contains_minter. destruct (find_cur_some_iff (mp_minters p) (s_seq st) None) as [Hf _].
      destruct (Hf (ex_intro _ cur Ec)) as [Hx|[m Hm]]; [exact Hx|discriminate]. }
    destruct (period_start p (s_seq st)) as [start| |] eqn:Ep; try discriminate.
    + destruct (amount_to_mint cur start now) as [x| |] eqn:Ea; try discriminate.
      * cbv zeta in H. destruct (_ <? 0); [discriminate|]. destruct (negb (mp_denom_ok p)); [discriminate|].
        destruct (match m_end cur with None => true | Some e => now <? e end); [discriminate|].
        match type of H with context [mint_rec f p ?S2 now] => destruct (mint_rec f p S2 now) as [[[a2 s2] h2]| |] eqn:E2; try discriminate; set (st2 := S2) in * end.
        destruct (IH _ _ _ E2) as [(k & Hk & Hc)|Hall].
        -- left. exists (k + 1). split; [lia|]. unfold st2 in Hc. cbn [s_seq] in Hc. replace (s_seq st + (k + 1)) with (s_seq st + 1 + k) by lia. exact Hc.
        -- right. intros k Hk. destruct (Z.eq_dec k 0) as [->|Hne]; [replace (s_seq st + 0) with (s_seq st) by lia; exact Hin|].
           specialize (Hall (k - 1) ltac:(lia)). unfold st2 in Hall. cbn [s_seq] in Hall. replace (s_seq st + 1 + (k - 1)) with (s_seq st + k) in Hall by lia. exact Hall.
      * unfold amount_to_mint in Ea. destruct (m_cfg cur); [discriminate| |].
        -- destruct (m_end cur); [|discriminate]. unfold linear_amount in Ea. destruct (_ <? now); [discriminate|]. destruct (now <? start); [discriminate|]. destruct (_ =? 0); discriminate.
        -- unfold exp_amount in Ea. destruct (step =? 0); [discriminate|]. destruct (exp_sum _ _ _); discriminate.
    + unfold period_start in Ep. destruct (find_prev _ _ _) as [pm|]; [destruct (m_end pm); discriminate|discriminate].
  - left. exists 0. split; [lia|]. replace (s_seq st + 0) with (s_seq st) by lia. unfold contains_minter.
    destruct (existsb (fun m => m_seq m =? s_seq st) (mp_minters p)) eqn:Ee; [|reflexivity].
    assert (Hex : exists m, find_cur (mp_minters p) (s_seq st) None = Some m) by (apply find_cur_some_iff; left; exact Ee).
    destruct Hex as [m Hm]. congruence.
Qed.

(* UpdateParams keeps the current period inside the parameters (the guard of C10 / C13) *)
Theorem update_keeps_current_period st newp valid :
  update_params st newp valid = true -> contains_minter newp (s_seq st) = true /\ valid = true.
Proof. unfold update_params. intros H. apply andb_true_iff in H. exact H. Qed.

(* for validated parameters and states produced by BeginBlock, every later BeginBlock succeeds *)
Theorem validated_schedule_never_fails p :
  chain 0 (mp_start p) (mp_minters p) -> mp_denom_ok p = true -> 0 <= mp_start p ->
  forall ts Tl, mp_start p <= Tl -> increasing Tl ts -> Forall (fun t => t <= MAXI64) ts ->
  exists r, run_blocks p (wst (walk (mp_start p) (mp_minters p) Tl 0)) ts = Ok r.
Proof. intros Hc Hd H0 ts Tl H1 H2 H3. eexists. apply (run_blocks_B p Hc Hd H0 ts Tl H1 H2 H3). Qed.
