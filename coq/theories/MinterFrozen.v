(* MinterFrozen.v — finding K13: a running linear period whose (updated) amount is below what the period has already
   minted never mints again and never hands over: Keeper.mint returns early (negative amount) on every block. *)
From C4E Require Import Base Minter MinterProofs.
From Coq Require Import Lia ZifyBool.
Open Scope Z_scope.

Lemma linear_amount_upper A start e now :
  0 <= A -> unix_milli start < unix_milli e ->
  exists x, linear_amount A start e now = Ok x /\ 0 <= x <= dec_of_int A.
Proof.
  intros HA Hper. destruct (linear_amount_spec A start e HA Hper) as (Hend & Hbefore & Hmid & Hex).
  destruct (Hex now) as [x Hx]. exists x. split; [exact Hx|].
  destruct (Z_lt_ge_dec now start) as [Hlt|Hge].
  - rewrite (Hbefore now Hlt) in Hx. injection Hx as <-. unfold dec_of_int. pose proof P_pos. nia.
  - destruct (Hmid now now x x ltac:(lia) Hx Hx) as [[H1 _] H2]. lia.
Qed.

Theorem lowered_amount_freezes_the_schedule p st cur start A e :
  find_cur (mp_minters p) (s_seq st) None = Some cur -> period_start p (s_seq st) = Ok start ->
  m_cfg cur = CLinear A -> m_end cur = Some e -> 0 <= A -> unix_milli start < unix_milli e ->
  0 <= s_rem_prev st < P -> A < s_minted st ->
  forall now, mint p st now = Ok (0, st, []).
Proof.
  intros Hc Hs Hcfg He HA Hper Hr Hm now. unfold mint.
  destruct (now <? mp_start p); [reflexivity|]. destruct (now <=? s_last st); [reflexivity|].
  unfold mint_fuel. cbn [mint_rec]. rewrite Hc, Hs. unfold amount_to_mint. rewrite Hcfg, He.
  destruct (linear_amount_upper A start e now HA Hper) as (x & Hx & Hb). rewrite Hx.
  assert (Hneg : dec_trunc_int (x + s_rem_prev st) - s_minted st < 0).
  { unfold dec_trunc_int. pose proof P_pos as HP.
    assert (chop_trunc (x + s_rem_prev st) <= chop_trunc (s_rem_prev st + A * P)).
    { apply chop_trunc_mono. unfold dec_of_int in Hb. lia. }
    rewrite chop_trunc_add_int in H by lia.
    assert (chop_trunc (s_rem_prev st) = 0).
    { rewrite chop_trunc_nonneg by lia. apply Z.div_small. lia. }
    lia. }
  destruct (dec_trunc_int (x + s_rem_prev st) - s_minted st <? 0) eqn:E; [reflexivity|lia].
Qed.
