(* DistrCoins.v — algebra of the DecCoins / Coins operations of the distributor model, stated
   pointwise per denomination through [dc_amt]; canonical form = strictly sorted by denomination. *)
From C4E Require Import Base Minter Distributor.
From Coq Require Import ZifyBool.
Open Scope Z_scope.

Fixpoint dc_sorted (lo : Z) (c : dcoins) : Prop :=
  match c with [] => True | (d, _) :: t => lo < d /\ dc_sorted d t end.

Lemma dc_sorted_weaken lo lo' c : lo' <= lo -> dc_sorted lo c -> dc_sorted lo' c.
Proof. destruct c as [|[d v] t]; simpl; [tauto|]. intros H [H1 H2]. split; [lia|assumption]. Qed.

Lemma dc_amt_above c : forall lo d, dc_sorted lo c -> d <= lo -> dc_amt d c = 0.
Proof.
  induction c as [|[d0 v] t IH]; intros lo d H Hd; [reflexivity|]. simpl in *. destruct H as [H1 H2].
  destruct (d =? d0) eqn:E; [lia|]. apply (IH d0); [assumption|lia].
Qed.

(* ---------------------------------------------------------------- Add ---------------------- *)
Lemma dc_add_nil_r a : dc_add a [] = a.
Proof. destruct a as [|[d v] t]; reflexivity. Qed.

Lemma dc_add_cons da va ta db vb tb :
  dc_add ((da, va) :: ta) ((db, vb) :: tb) =
    if da <? db then (da, va) :: dc_add ta ((db, vb) :: tb)
    else if db <? da then (db, vb) :: dc_add ((da, va) :: ta) tb
    else if va + vb =? 0 then dc_add ta tb else (da, va + vb) :: dc_add ta tb.
Proof. reflexivity. Qed.

Lemma dc_add_spec a : forall b lo, dc_sorted lo a -> dc_sorted lo b ->
  dc_sorted lo (dc_add a b) /\ forall d, dc_amt d (dc_add a b) = dc_amt d a + dc_amt d b.
Proof.
  induction a as [|[da va] ta IHa]; intros b lo Ha Hb.
  - simpl. destruct b; split; auto; intros; simpl; lia.
  - revert lo Ha Hb. induction b as [|[db vb] tb IHb]; intros lo Ha Hb.
    + rewrite dc_add_nil_r. split; [assumption|]. intros d. simpl. lia.
    + pose proof Ha as Ha'. pose proof Hb as Hb'. simpl in Ha, Hb. destruct Ha as [Ha1 Ha2]. destruct Hb as [Hb1 Hb2].
      rewrite dc_add_cons.
      destruct (da <? db) eqn:E1.
      * destruct (IHa ((db, vb) :: tb) da Ha2 ltac:(simpl; split; [lia|assumption])) as [Hs Hamt].
        split; [simpl; split; assumption|]. intros d. cbn [dc_amt]. rewrite Hamt. cbn [dc_amt].
        destruct (d =? da) eqn:Ed; [|reflexivity].
        assert (d = da) by lia. subst d.
        destruct (da =? db) eqn:Edb; [lia|]. rewrite (dc_amt_above tb db da Hb2) by lia. lia.
      * destruct (db <? da) eqn:E2.
        -- destruct (IHb db ltac:(simpl; split; [lia|assumption]) Hb2) as [Hs Hamt].
           split; [simpl; split; assumption|]. intros d. cbn [dc_amt]. rewrite Hamt. cbn [dc_amt].
           destruct (d =? db) eqn:Ed; [|reflexivity].
           assert (d = db) by lia. subst d.
           destruct (db =? da) eqn:Edb; [lia|]. rewrite (dc_amt_above ta da db Ha2) by lia. lia.
        -- assert (da = db) by lia. subst db.
           destruct (IHa tb da Ha2 Hb2) as [Hs Hamt].
           destruct (va + vb =? 0) eqn:E3.
           ++ split; [apply (dc_sorted_weaken da lo); [lia|assumption]|].
              intros d. rewrite Hamt. cbn [dc_amt]. destruct (d =? da) eqn:Ed; [|reflexivity].
              assert (d = da) by lia. subst d. rewrite (dc_amt_above ta da da Ha2), (dc_amt_above tb da da Hb2) by lia. lia.
           ++ split; [simpl; split; assumption|]. intros d. cbn [dc_amt]. rewrite Hamt.
              destruct (d =? da) eqn:Ed; [|reflexivity]. lia.
Qed.

Definition dc_wf (c : dcoins) : Prop := dc_sorted (-1) c.

Lemma dc_add_wf a b : dc_wf a -> dc_wf b -> dc_wf (dc_add a b).
Proof. intros Ha Hb. apply (dc_add_spec a b (-1) Ha Hb). Qed.
Lemma dc_add_amt a b d : dc_wf a -> dc_wf b -> dc_amt d (dc_add a b) = dc_amt d a + dc_amt d b.
Proof. intros Ha Hb. apply (dc_add_spec a b (-1) Ha Hb). Qed.

(* ---------------------------------------------------------------- Neg / Sub --------------- *)
Lemma dc_neg_sorted c : forall lo, dc_sorted lo c -> dc_sorted lo (dc_neg c).
Proof. induction c as [|[d v] t IH]; intros lo H; simpl in *; [exact I|]. destruct H; split; [assumption|apply IH; assumption]. Qed.
Lemma dc_neg_amt c d : dc_amt d (dc_neg c) = - dc_amt d c.
Proof. induction c as [|[d0 v] t IH]; simpl; [reflexivity|]. destruct (d =? d0); [reflexivity|exact IH]. Qed.

Lemma dc_any_neg_false c : dc_any_neg c = false -> forall d, 0 <= dc_amt d c.
Proof.
  induction c as [|[d0 v] t IH]; intros H d; simpl in *; [lia|].
  apply orb_false_iff in H. destruct H as [H1 H2]. destruct (d =? d0); [lia|apply IH; assumption].
Qed.

Lemma dc_sub_spec a b r : dc_wf a -> dc_wf b -> dc_sub a b = Ok r ->
  dc_wf r /\ forall d, dc_amt d r = dc_amt d a - dc_amt d b /\ 0 <= dc_amt d r.
Proof.
  intros Ha Hb. unfold dc_sub. destruct (dc_any_neg (dc_add a (dc_neg b))) eqn:E; [discriminate|].
  intros H; inversion H; subst r. pose proof (dc_neg_sorted b (-1) Hb) as Hn.
  split; [apply dc_add_wf; assumption|]. intros d. rewrite dc_add_amt, dc_neg_amt by assumption.
  split; [lia|]. pose proof (dc_any_neg_false _ E d) as H0. rewrite dc_add_amt, dc_neg_amt in H0 by assumption. lia.
Qed.

(* ---------------------------------------------------------------- flat_map-based ops ------ *)
Definition dc_map0 (g : Z -> Z) (c : dcoins) : dcoins :=
  flat_map (fun e => if g (snd e) =? 0 then [] else [(fst e, g (snd e))]) c.

Lemma dc_map0_spec (g : Z -> Z) (c : dcoins) : g 0 = 0 -> forall lo, dc_sorted lo c ->
  dc_sorted lo (dc_map0 g c) /\ forall d, dc_amt d (dc_map0 g c) = g (dc_amt d c).
Proof.
  intros Hg. induction c as [|[d0 v] t IH]; intros lo H; [split; [exact I|intros; simpl; auto]|].
  simpl in H. destruct H as [H1 H2]. destruct (IH d0 H2) as [Hs Ha]. unfold dc_map0 in *. cbn [flat_map fst snd].
  destruct (g v =? 0) eqn:E; cbn [app].
  - split; [apply (dc_sorted_weaken d0 lo); [lia|assumption]|]. intros d. rewrite Ha. cbn [dc_amt].
    destruct (d =? d0) eqn:Ed; [|reflexivity].
    assert (d = d0) by lia. subst d. rewrite (dc_amt_above t d0 d0 H2) by lia. lia.
  - split; [simpl; split; assumption|]. intros d. cbn [dc_amt]. destruct (d =? d0); [reflexivity|apply Ha].
Qed.

Lemma dc_mul_trunc_spec c share : dc_wf c ->
  dc_wf (dc_mul_trunc c share) /\ forall d, dc_amt d (dc_mul_trunc c share) = dec_mul_trunc (dc_amt d c) share.
Proof.
  intros H. apply (dc_map0_spec (fun v => dec_mul_trunc v share) c); [|exact H].
  unfold dec_mul_trunc, chop_trunc. reflexivity.
Qed.

Lemma dc_trunc_spec c : dc_wf c ->
  dc_wf (fst (dc_trunc c)) /\ dc_wf (snd (dc_trunc c)) /\
  forall d, dc_amt d (fst (dc_trunc c)) = chop_trunc (dc_amt d c) /\
            dc_amt d (snd (dc_trunc c)) = dc_amt d c - chop_trunc (dc_amt d c) * P.
Proof.
  intros H. unfold dc_trunc; cbn [fst snd].
  destruct (dc_map0_spec chop_trunc c ltac:(reflexivity) (-1) H) as [H1 H2].
  destruct (dc_map0_spec (fun v => v - chop_trunc v * P) c ltac:(reflexivity) (-1) H) as [H3 H4].
  split; [exact H1|]. split; [exact H3|]. intros d. split; [apply H2|apply H4].
Qed.

Lemma dc_of_coins_spec c : dc_wf c -> dc_wf (dc_of_coins c) /\ forall d, dc_amt d (dc_of_coins c) = dc_amt d c * P.
Proof.
  unfold dc_wf. generalize (-1). induction c as [|[d0 v] t IH]; intros lo H; [split; [exact I|reflexivity]|].
  simpl in H. destruct H as [H1 H2]. destruct (IH d0 H2) as [Hs Ha]. cbn [dc_of_coins map fst snd].
  split; [simpl; split; assumption|]. intros d. cbn [dc_amt]. destruct (d =? d0); [reflexivity|apply Ha].
Qed.

(* calculatePercentage, pointwise: the truncated share of the inflow, or nothing when the inflow is
   not all-positive *)
Lemma calc_share_spec share c : dc_wf c ->
  dc_wf (calc_share share c) /\
  forall d, dc_amt d (calc_share share c) = if dc_all_positive c then dec_mul_trunc (dc_amt d c) share else 0.
Proof.
  intros H. unfold calc_share. destruct (dc_all_positive c).
  - apply dc_mul_trunc_spec; assumption.
  - split; [exact I|reflexivity].
Qed.

Lemma dc_all_positive_amt c : dc_all_positive c = true -> forall d, 0 <= dc_amt d c.
Proof.
  unfold dc_all_positive. intros H d. apply andb_true_iff in H. destruct H as [_ H].
  induction c as [|[d0 v] t IH]; simpl in *; [lia|]. apply andb_true_iff in H. destruct H as [H1 H2].
  destruct (d =? d0); [lia|apply IH; assumption].
Qed.

(* a truncated share never exceeds what it is a share of, for shares in [0,1] *)
Lemma dec_mul_trunc_range x share : 0 <= x -> 0 <= share <= P -> 0 <= dec_mul_trunc x share <= x.
Proof.
  intros Hx Hs. unfold dec_mul_trunc. pose proof P_pos as HP.
  rewrite chop_trunc_nonneg by nia. split; [apply Z.div_pos; nia|].
  apply Z.div_le_upper_bound; nia.
Qed.

(* ---------------------------------------------------------------- sums over states -------- *)
Definition states_wf (sts : list dstate) : Prop := Forall (fun s => dc_wf (st_rem s)) sts.

Lemma rem_sum_spec sts : states_wf sts ->
  forall acc, dc_wf acc ->
  dc_wf (fold_left (fun a s => dc_add a (st_rem s)) sts acc) /\
  forall d, dc_amt d (fold_left (fun a s => dc_add a (st_rem s)) sts acc) = dc_amt d acc + zsum (map (fun s => dc_amt d (st_rem s)) sts).
Proof.
  intros H. induction H as [|s t Hs Ht IH]; intros acc Hacc; simpl; [split; [assumption|intros; lia]|].
  destruct (IH (dc_add acc (st_rem s)) (dc_add_wf _ _ Hacc Hs)) as [H1 H2]. split; [assumption|].
  intros d. rewrite H2, dc_add_amt by assumption. lia.
Qed.

Definition remsum (d : Z) (sts : list dstate) : Z := zsum (map (fun s => dc_amt d (st_rem s)) sts).

Lemma rem_sum_amt sts d : states_wf sts -> dc_amt d (rem_sum sts) = remsum d sts.
Proof. intros H. unfold rem_sum. destruct (rem_sum_spec sts H [] I) as [_ H2]. rewrite H2. simpl. unfold remsum. lia. Qed.
Lemma rem_sum_wf sts : states_wf sts -> dc_wf (rem_sum sts).
Proof. intros H. apply (rem_sum_spec sts H [] I). Qed.

Lemma remsum_app d a b : remsum d (a ++ b) = remsum d a + remsum d b.
Proof. unfold remsum. rewrite map_app, zsum_app. reflexivity. Qed.

Lemma remsum_upd d sts : forall pos f, (pos < length sts)%nat ->
  remsum d (upd_state sts pos f) = remsum d sts - dc_amt d (st_rem (nth pos sts {| st_acc := None; st_burn := false; st_key := 0; st_rem := [] |}))
                                   + dc_amt d (st_rem (f (nth pos sts {| st_acc := None; st_burn := false; st_key := 0; st_rem := [] |}))).
Proof.
  induction sts as [|s t IH]; intros pos f H; [simpl in H; lia|].
  destruct pos as [|k]; unfold remsum in *; simpl in *; [lia|]. rewrite IH by lia. lia.
Qed.

Lemma states_wf_upd sts : forall pos f, states_wf sts -> (forall s, dc_wf (st_rem s) -> dc_wf (st_rem (f s))) -> states_wf (upd_state sts pos f).
Proof.
  induction sts as [|s t IH]; intros pos f H Hf; [exact H|]. inversion H; subst.
  destruct pos; simpl; constructor; auto. apply IH; assumption.
Qed.
