(* DistrNz.v — the canonical form of the distributor's coin lists has no zero entries (DecCoins / Coins drop them), and all
   operations of the model keep it.  Consequences: two canonical lists with the same amount in every denomination are the same
   list, and a non-empty canonical list of non-negative amounts is "all positive" — the case calculatePercentage needs. *)
From C4E Require Import Base Minter Distributor DistrCoins DistrProofs.
From Coq Require Import Lia ZifyBool.
Open Scope Z_scope.

Definition dc_nz (c : dcoins) : Prop := Forall (fun e => snd e <> 0) c.

Lemma dc_nz_nil : dc_nz []. Proof. constructor. Qed.

Lemma dc_add_nz a : forall b, dc_nz a -> dc_nz b -> dc_nz (dc_add a b).
Proof.
  induction a as [|[da va] ta IHa]; intros b Ha Hb.
  - destruct b; exact Hb.
  - induction b as [|[db vb] tb IHb].
    + rewrite dc_add_nil_r. exact Ha.
    + rewrite dc_add_cons. inversion Ha as [|? ? Ha1 Ha2]; inversion Hb as [|? ? Hb1 Hb2]; subst. cbn [snd] in *.
      destruct (da <? db).
      * constructor; [exact Ha1|]. apply IHa; assumption.
      * destruct (db <? da).
        -- constructor; [exact Hb1|]. apply IHb. exact Hb2.
        -- destruct (va + vb =? 0) eqn:E; [apply IHa; assumption|].
           constructor; [cbn [snd]; lia|apply IHa; assumption].
Qed.

Lemma dc_neg_nz c : dc_nz c -> dc_nz (dc_neg c).
Proof. unfold dc_nz, dc_neg. intros H. apply Forall_map. eapply Forall_impl; [|exact H]. intros [d v] Hv; cbn [snd] in *. lia. Qed.

Lemma dc_of_coins_nz c : dc_nz c -> dc_nz (dc_of_coins c).
Proof.
  unfold dc_nz, dc_of_coins. intros H. apply Forall_map. eapply Forall_impl; [|exact H]. intros [d v] Hv; cbn [snd] in *.
  pose proof P_pos. nia.
Qed.

Lemma dc_map0_nz g c : dc_nz (dc_map0 g c).
Proof.
  unfold dc_nz, dc_map0. induction c as [|[d v] t IH]; cbn [flat_map fst snd]; [constructor|].
  destruct (g v =? 0) eqn:E; cbn [app]; [exact IH|]. constructor; [cbn [snd]; lia|exact IH].
Qed.

Lemma dc_mul_trunc_nz c share : dc_nz (dc_mul_trunc c share).
Proof. exact (dc_map0_nz (fun v => dec_mul_trunc v share) c). Qed.

Lemma calc_share_nz share c : dc_nz (calc_share share c).
Proof. unfold calc_share. destruct (dc_all_positive c); [apply dc_mul_trunc_nz|constructor]. Qed.

Lemma dc_trunc_nz c : dc_nz (fst (dc_trunc c)) /\ dc_nz (snd (dc_trunc c)).
Proof. split; [exact (dc_map0_nz chop_trunc c) | exact (dc_map0_nz (fun v => v - chop_trunc v * P) c)]. Qed.

Lemma dc_sub_nz a b r : dc_nz a -> dc_nz b -> dc_sub a b = Ok r -> dc_nz r.
Proof.
  unfold dc_sub. intros Ha Hb. destruct (dc_any_neg _); [discriminate|]. intros H; inversion H; subst.
  apply dc_add_nz; [exact Ha|apply dc_neg_nz; exact Hb].
Qed.

(* canonical lists are determined by their amounts *)
Lemma dc_ext a : forall b lo, dc_sorted lo a -> dc_sorted lo b -> dc_nz a -> dc_nz b ->
  (forall d, dc_amt d a = dc_amt d b) -> a = b.
Proof.
  induction a as [|[da va] ta IH]; intros b lo Ha Hb Hna Hnb Heq.
  - destruct b as [|[db vb] tb]; [reflexivity|]. exfalso. inversion Hnb as [|? ? H1 _]; subst. cbn [snd] in H1.
    specialize (Heq db). cbn [dc_amt] in Heq. rewrite Z.eqb_refl in Heq. lia.
  - inversion Hna as [|? ? Hva Hnta]; subst. cbn [snd] in Hva. cbn [dc_sorted] in Ha. destruct Ha as [Ha1 Ha2].
    destruct b as [|[db vb] tb].
    + exfalso. specialize (Heq da). cbn [dc_amt] in Heq. rewrite Z.eqb_refl in Heq. lia.
    + inversion Hnb as [|? ? Hvb Hntb]; subst. cbn [snd] in Hvb. cbn [dc_sorted] in Hb. destruct Hb as [Hb1 Hb2].
      assert (Ed : da = db).
      { destruct (Z.lt_trichotomy da db) as [L|[E|G]]; [|exact E|].
        - exfalso. pose proof (Heq da) as H. cbn [dc_amt] in H. rewrite Z.eqb_refl in H.
          replace (da =? db) with false in H by lia. rewrite (dc_amt_above tb db da Hb2) in H by lia. lia.
        - exfalso. pose proof (Heq db) as H. cbn [dc_amt] in H. rewrite Z.eqb_refl in H.
          replace (db =? da) with false in H by lia. rewrite (dc_amt_above ta da db Ha2) in H by lia. lia. }
      subst db.
      assert (Ev : va = vb). { pose proof (Heq da) as H. cbn [dc_amt] in H. rewrite Z.eqb_refl in H. exact H. }
      subst vb. f_equal. apply (IH tb da); try assumption.
      intros d. pose proof (Heq d) as H. cbn [dc_amt] in H. destruct (d =? da) eqn:E; [|exact H].
      assert (d = da) by lia. subst d. rewrite (dc_amt_above ta da da Ha2), (dc_amt_above tb da da Hb2) by lia. reflexivity.
Qed.

Lemma dc_wf_ext a b : dc_wf a -> dc_wf b -> dc_nz a -> dc_nz b -> (forall d, dc_amt d a = dc_amt d b) -> a = b.
Proof. intros. apply (dc_ext a b (-1)); assumption. Qed.

(* a non-empty canonical list of non-negative amounts is all positive *)
Lemma dc_all_positive_intro c : dc_wf c -> dc_nz c -> (forall d, 0 <= dc_amt d c) -> dc_is_zero c = false -> dc_all_positive c = true.
Proof.
  intros Hw Hn Hnn Hz. unfold dc_all_positive. rewrite Hz. cbn [negb andb].
  unfold dc_wf in Hw. revert Hw Hn Hnn. generalize (-1). clear Hz.
  induction c as [|[d0 v] t IH]; intros lo Hw Hn Hnn; [reflexivity|].
  cbn [dc_sorted] in Hw. destruct Hw as [H1 H2]. inversion Hn as [|? ? Hv Ht]; subst. cbn [snd] in Hv.
  cbn [forallb snd]. apply andb_true_iff. split.
  - pose proof (Hnn d0) as H. cbn [dc_amt] in H. rewrite Z.eqb_refl in H. lia.
  - apply (IH d0 H2 Ht). intros d. pose proof (Hnn d) as H. cbn [dc_amt] in H. destruct (d =? d0) eqn:E; [|exact H].
    assert (d = d0) by lia. subst d. rewrite (dc_amt_above t d0 d0 H2) by lia. lia.
Qed.

Lemma dc_is_zero_amt c : dc_is_zero c = true -> forall d, dc_amt d c = 0.
Proof. destruct c; [reflexivity|discriminate]. Qed.

Lemma dc_zero_amt_is_zero c : dc_nz c -> dc_wf c -> (forall d, dc_amt d c = 0) -> c = [].
Proof. intros Hn Hw H. apply (dc_wf_ext c []); try assumption; [exact I|constructor]. Qed.
