(* SummaryProofs.v — C17: what the two vesting summary queries report, against sums recomputed
   directly from the bank / account state of the recorded accounts. *)
From C4E Require Import Base Vest VestFrame VestProofs SolventProofs.
From Coq Require Import ZifyBool.
Open Scope Z_scope.

(* the recorded accounts a summary ranges over *)
Definition summary_accounts (w : world) (genesis_only : bool) : list Z :=
  map fst (filter (fun e => if genesis_only then tr_derived (snd e) else true) (w_traces w)).

(* delegated vesting coins of one account as x/auth tracks them: min(still vesting, delegated vesting) *)
Definition delegated_vesting_of (w : world) (a : Z) : Z :=
  match aget a (w_acc w) with
  | Some x => if a_kind x =? 2
              then Z.min (vesting_amt (a_start x) (a_end x) (unix (w_now w)) (camt (w_denom w) (a_ov x))) (camt (w_denom w) (a_dv x))
              else 0
  | None => 0
  end.

Lemma zsum_map_sub {A} (f g : A -> Z) l : zsum (map f l) - zsum (map g l) = zsum (map (fun x => f x - g x) l).
Proof. induction l as [|x l IH]; simpl; lia. Qed.

Lemma zsum_map_ext {A} (f g : A -> Z) l : (forall x, f x = g x) -> zsum (map f l) = zsum (map g l).
Proof. intros H. induction l as [|x l IH]; simpl; [reflexivity|rewrite H, IH; reflexivity]. Qed.

Lemma vesting_minus_locked w a : vesting_of w a - locked w a (w_denom w) = delegated_vesting_of w a.
Proof.
  unfold vesting_of, locked, delegated_vesting_of, acct_vesting, acct_locked, locked_amt.
  destruct (aget a (w_acc w)) as [x|]; [|reflexivity].
  destruct (a_kind x =? 2); lia.
Qed.

Theorem summary_spec w g :
  summary w g =
    let accs := summary_accounts w g in
    let v := zsum (map (vesting_of w) accs) in
    let p := if g then genesis_pools_amount w else bal w MODULE (w_denom w) in
    [v + p; p; v; zsum (map (delegated_vesting_of w) accs)].
Proof.
  unfold summary, summary_accounts. cbn zeta. rewrite !map_map.
  set (l := filter _ (w_traces w)).
  f_equal. f_equal. f_equal. f_equal.
  rewrite zsum_map_sub. apply zsum_map_ext. intros x. apply vesting_minus_locked.
Qed.

(* all = pools + accounts; delegated = accounts - locked, as the property words it *)
Theorem summary_identities w g :
  match summary w g with
  | [all; pools; accounts; delegated] =>
      all = pools + accounts /\
      accounts = zsum (map (vesting_of w) (summary_accounts w g)) /\
      delegated = accounts - zsum (map (fun a => locked w a (w_denom w)) (summary_accounts w g)) /\
      pools = (if g then genesis_pools_amount w else bal w MODULE (w_denom w))
  | _ => False
  end.
Proof.
  unfold summary, summary_accounts. cbn zeta. rewrite !map_map. repeat split; lia.
Qed.

(* in a solvent world "in pools" is exactly what the pool ledger says is still locked *)
Theorem summary_pools_backed w : Solvent w ->
  nth 1 (summary w false) 0 = all_pools_sum (w_pools w).
Proof. intros H. unfold summary; simpl. apply (sv_backed _ H). Qed.

Lemma genesis_pools_le l : pools_ok l ->
  0 <= zsum (map (fun e => zsum (map (fun p => if p_genesis p then pool_currently_locked p else 0) (snd e))) l) <= all_pools_sum l.
Proof.
  intros H. induction H as [|e l He Hl IH]; simpl; [unfold all_pools_sum; simpl; lia|].
  unfold all_pools_sum in *; simpl.
  assert (0 <= zsum (map (fun p => if p_genesis p then pool_currently_locked p else 0) (snd e)) <= pools_sum (snd e)).
  { unfold pools_sum. induction He as [|p ps Hp Hps IHp]; simpl; [lia|].
    pose proof (pool_ok_locked_nonneg _ Hp). destruct (p_genesis p); lia. }
  lia.
Qed.

(* the genesis summary never reports more in pools than the module account holds *)
Theorem genesis_summary_within_module_balance w : Solvent w ->
  0 <= nth 1 (summary w true) 0 <= nth 1 (summary w false) 0.
Proof.
  intros H. unfold summary; simpl. rewrite (sv_backed _ H). unfold genesis_pools_amount.
  apply genesis_pools_le. apply (sv_ok _ H).
Qed.

(* C18: withdrawal events add up to the coins paid (pools within their bounds, as C05 guarantees) *)
Lemma withdraw_events_sum_ok now ps : Forall pool_ok ps ->
  zsum (map snd (withdraw_events now ps)) = total_withdrawable now ps.
Proof.
  unfold total_withdrawable. intros H. induction H as [|p t Hp Ht IH]; simpl; [reflexivity|].
  pose proof (withdrawable_nonneg now p Hp) as Hnn.
  destruct (0 <? withdrawable now p) eqn:E; simpl; rewrite IH; lia.
Qed.
