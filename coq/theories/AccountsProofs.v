(* AccountsProofs.v — C09 (custom messages never replace or alter an existing account) and
   C17 (genesis lineage) over the vesting-world model. *)
From C4E Require Import Base Vest VestFrame VestProofs SolventProofs SendProofs.
From Coq Require Import ZifyBool.
Open Scope Z_scope.

(* ================================================================ split unfolding ========== *)
Lemma split_coins_unfold w from to c w' :
  split_vesting_coins w from to c = Some w' ->
  exists x w3,
    c <> [] /\ blocked w to = false /\ aget to (w_acc w) = None /\ coins_valid c = true /\
    aget from (w_acc w) = Some x /\ a_kind x = 2 /\ all_lte_locked x (unix (w_now w)) c = true /\
    let x' := {| a_kind := 2; a_ov := unlock_all (a_start x) (a_end x) (unix (w_now w)) (a_ov x) c;
                 a_dv := a_dv x; a_df := a_df x; a_start := a_start x; a_end := a_end x |} in
    send_coins (new_cva (set_acc w from x') to c (Z.max (unix (w_now w)) (a_start x)) (a_end x)) from to c = Some w3 /\
    w' = match aget from (w_traces w3) with
         | None => w3
         | Some tr => set_trace w3 to {| t_genesis := false; t_from_pool := t_from_pool tr;
                                         t_from_acct := t_genesis tr || t_from_acct tr |}
         end.
Proof.
  unfold split_vesting_coins. destruct c as [|c0 ct]; [discriminate|]. set (c := c0 :: ct) in *.
  destruct (blocked w to) eqn:Eb; [discriminate|]. destruct (aget to (w_acc w)) eqn:Eto; [discriminate|].
  destruct (coins_valid c) eqn:Ev; [|discriminate]. cbn [negb].
  destruct (aget from (w_acc w)) as [x|] eqn:Ex; [|discriminate].
  destruct (a_kind x =? 2) eqn:Ek; [|discriminate]. cbn [negb].
  destruct (all_lte_locked x (unix (w_now w)) c) eqn:El; [|discriminate]. cbn [negb].
  match goal with |- context [send_coins ?W ?F ?T ?C] => destruct (send_coins W F T C) as [w3|] eqn:Es; [|discriminate] end.
  intros H. exists x, w3.
  split; [subst c; discriminate|]. split; [first [reflexivity|assumption]|]. split; [first [reflexivity|assumption]|].
  split; [first [reflexivity|assumption]|].
  split; [first [reflexivity|assumption]|]. split; [lia|]. split; [first [reflexivity|assumption]|]. cbn zeta. split; [exact Es|].
  destruct (aget from (w_traces w3)); inversion H; reflexivity.
Qed.

(* every message that ends in split_vesting_coins *)
Definition split_like (w : world) (o : op) : option (Z * Z * coins) :=
  match o with
  | OSplit from to c => if negb (coins_valid c) || (from <? 0) || (to <? 0) then None else Some (from, to, c)
  | OMove from to ds => if (from <? 0) || (to <? 0) then None else Some (from, to, locked_coins w from ds)
  | OMoveDenoms from to ds =>
      if (from <? 0) || (to <? 0) then None
      else match ds with
           | [] => None
           | _ => if has_dup ds then None
                  else Some (from, to, fold_left (fun acc d => let v := locked w from d in
                                                               if 0 <? v then insert_coin d v acc else acc) ds [])
           end
  | _ => None
  end.

Lemma split_like_step w o from to c : split_like w o = Some (from, to, c) ->
  step w o = match split_vesting_coins w from to c with Some w' => (w', (1, 0, [])) | None => (w, (0, 0, [])) end.
Proof.
  destruct o; simpl; try discriminate.
  - unfold split_vesting. destruct (negb (coins_valid c0)); [discriminate|].
    destruct (from0 <? 0); [discriminate|]. destruct (to0 <? 0); [discriminate|]. simpl.
    intros H; inversion H; subst. reflexivity.
  - unfold move_available. destruct (from0 <? 0); [discriminate|]. destruct (to0 <? 0); [discriminate|]. simpl.
    intros H; inversion H; subst. reflexivity.
  - unfold move_by_denoms. destruct (from0 <? 0); [discriminate|]. destruct (to0 <? 0); [discriminate|]. simpl.
    destruct denoms; [discriminate|]. destruct (has_dup (z :: denoms)); [discriminate|].
    intros H; inversion H; subst. reflexivity.
Qed.

Lemma split_like_none_step w o : (forall f t c, o <> OSplit f t c) -> (forall f t d, o <> OMove f t d) ->
  (forall f t d, o <> OMoveDenoms f t d) -> split_like w o = None.
Proof. destruct o; simpl; intros H1 H2 H3; try reflexivity; exfalso; [eapply H1|eapply H2|eapply H3]; reflexivity. Qed.

Lemma split_like_fail w o : (exists f t c, o = OSplit f t c) \/ (exists f t d, o = OMove f t d) \/ (exists f t d, o = OMoveDenoms f t d) ->
  split_like w o = None -> fst (step w o) = w.
Proof.
  intros [(f & t & c & ->)|[(f & t & d & ->)|(f & t & d & ->)]]; simpl.
  - unfold split_vesting. destruct (negb (coins_valid c)); [reflexivity|].
    destruct (f <? 0); [reflexivity|]. destruct (t <? 0); [reflexivity|]. discriminate.
  - unfold move_available. destruct (f <? 0); [reflexivity|]. destruct (t <? 0); [reflexivity|]. discriminate.
  - unfold move_by_denoms. destruct (f <? 0); [reflexivity|]. destruct (t <? 0); [reflexivity|]. simpl.
    destruct d; [reflexivity|]. destruct (has_dup (z :: d)); [reflexivity|]. discriminate.
Qed.

(* ================================================================ C09 ======================= *)
(* the only difference allowed: the original vesting of the account *)
Definition same_but_ov (x x' : acct) : Prop :=
  a_kind x' = a_kind x /\ a_dv x' = a_dv x /\ a_df x' = a_df x /\ a_start x' = a_start x /\ a_end x' = a_end x.

Lemma acc_after_split w from to c w' a acc :
  split_vesting_coins w from to c = Some w' -> aget a (w_acc w) = Some acc ->
  exists acc', aget a (w_acc w') = Some acc' /\ (acc' = acc \/ (a = from /\ same_but_ov acc acc')).
Proof.
  intros H Ha. destruct (split_coins_unfold _ _ _ _ _ H) as (x & w3 & _ & _ & Hto & _ & Hx & Hk & _ & Hs & Hw').
  cbn zeta in Hs.
  assert (Hacc : w_acc w' = w_acc w3) by (subst w'; destruct (aget from (w_traces w3)); reflexivity).
  rewrite Hacc, (send_coins_acc _ _ _ _ _ Hs a). unfold new_cva, set_acc; cbn [w_acc].
  assert (a <> to) by congruence.
  rewrite aget_aset_other by assumption.
  destruct (Z.eq_dec a from) as [->|Hne].
  - rewrite aget_aset_same. eexists; split; [reflexivity|]. right. split; [reflexivity|].
    rewrite Hx in Ha. inversion Ha; subst acc. unfold same_but_ov; simpl. auto.
  - rewrite aget_aset_other by assumption. rewrite Ha. eexists; split; [reflexivity|]. left; reflexivity.
Qed.

Theorem existing_account_unchanged w o a acc :
  (forall x b amt, o <> ODelegate x b amt) ->
  aget a (w_acc w) = Some acc ->
  exists acc', aget a (w_acc (fst (step w o))) = Some acc' /\
    (acc' = acc \/
     (exists to c, split_like w o = Some (a, to, c) /\ same_but_ov acc acc')).
Proof.
  intros Hnd Ha.
  assert (Hsame : forall w', w_acc w' = w_acc w -> exists acc', aget a (w_acc w') = Some acc' /\ (acc' = acc \/ (exists to c, split_like w o = Some (a, to, c) /\ same_but_ov acc acc'))).
  { intros w' ->. exists acc. auto. }
  assert (Hsplit : forall from to c, split_like w o = Some (from, to, c) ->
            exists acc', aget a (w_acc (fst (step w o))) = Some acc' /\ (acc' = acc \/ (exists to c, split_like w o = Some (a, to, c) /\ same_but_ov acc acc'))).
  { intros from to c Hsl. rewrite (split_like_step _ _ _ _ _ Hsl).
    destruct (split_vesting_coins w from to c) as [w'|] eqn:E; simpl; [|apply Hsame; reflexivity].
    destruct (acc_after_split _ _ _ _ _ _ _ E Ha) as (acc' & H1 & [->|[-> H2]]).
    - exists acc; auto.
    - exists acc'. split; [assumption|]. right. exists to, c. auto. }
  destruct o.
  - apply Hsame. reflexivity.
  - simpl. destruct (create_pool w owner name amount duration vt) as [w'|] eqn:E; simpl; [|apply Hsame; reflexivity].
    unfold create_pool in E.
    destruct (aget vt (w_vtypes w)); [|discriminate].
    destruct (name =? 0); [discriminate|]. destruct (amount <? 0); [discriminate|].
    destruct (duration <=? 0); [discriminate|]. destruct (owner <? 0); [discriminate|].
    destruct (bal w owner (w_denom w) <? amount); [discriminate|]. destruct (existsb _ _); [discriminate|].
    destruct (send_coins w owner MODULE (one_coin (w_denom w) amount)) as [w1|] eqn:Es; [|discriminate].
    inversion E; subst; clear E. unfold set_pools; cbn [w_acc].
    rewrite (send_coins_acc _ _ _ _ _ Es a), Ha. exists acc; auto.
  - simpl. destruct (withdraw_all w owner) as [r|] eqn:E; simpl; [|apply Hsame; reflexivity].
    destruct (withdraw_all_spec _ _ _ E) as (_ & _ & _ & _ & _ & _ & _ & _ & _ & _ & _ & _ & _ & _ & Hacc).
    rewrite Hacc, Ha. exists acc; auto.
  - simpl. destruct (send_to_vesting_account w owner to name amount restart) as [r|] eqn:E; simpl; [|apply Hsame; reflexivity].
    destruct (send_unfold _ _ _ _ _ _ _ E) as (r0 & ps & p0 & vt & w2 & _ & _ & _ & Hw & _ & _ & _ & _ & Hnv & Hrw & _).
    destruct (withdraw_all_spec _ _ _ Hw) as (_ & _ & _ & _ & _ & _ & _ & _ & _ & _ & _ & _ & _ & _ & Hacc).
    destruct (new_vesting_account_spec _ _ _ _ _ _ _ Hnv) as (_ & Habs & _ & _ & Hoth & _).
    rewrite Hrw. unfold set_trace, set_pools; cbn [w_acc].
    assert (a <> to). { intros ->. rewrite Hacc, Ha in Habs. discriminate. }
    rewrite Hoth by assumption. rewrite Hacc, Ha. exists acc; auto.
  - simpl. destruct (create_vesting_account w from to c start end_) as [w'|] eqn:E; simpl; [|apply Hsame; reflexivity].
    destruct (create_vesting_account_spec _ _ _ _ _ _ _ E) as (_ & Habs & _ & _ & _ & Hoth & _).
    assert (a <> to) by congruence. rewrite Hoth by assumption. exists acc; auto.
  - destruct (split_like w (OSplit from to c)) as [[[f t] c']|] eqn:Esl; [eapply Hsplit; reflexivity|].
    rewrite split_like_fail; [apply Hsame; reflexivity|left; eauto|assumption].
  - destruct (split_like w (OMove from to denoms_all)) as [[[f t] c']|] eqn:Esl; [eapply Hsplit; reflexivity|].
    rewrite split_like_fail; [apply Hsame; reflexivity|right; left; eauto|assumption].
  - destruct (split_like w (OMoveDenoms from to denoms)) as [[[f t] c']|] eqn:Esl; [eapply Hsplit; reflexivity|].
    rewrite split_like_fail; [apply Hsame; reflexivity|right; right; eauto|assumption].
  - exfalso. eapply Hnd; reflexivity.
Qed.

(* ================================================================ C17 lineage =============== *)
Definition recorded_derived (w : world) (a : Z) : Prop :=
  exists t, aget a (w_traces w) = Some t /\ tr_derived t = true.

(* traces exist only for existing accounts *)
Definition traces_have_accounts (w : world) : Prop :=
  forall a t, aget a (w_traces w) = Some t -> exists x, aget a (w_acc w) = Some x.

(* what one operation adds to the genesis-derived set: the recipient of a successful send out of a
   genesis pool, or the recipient of a successful split / move whose sender is genesis-derived *)
Definition newly_derived (w : world) (o : op) (a : Z) : Prop :=
  match o with
  | OSend owner to name amount restart =>
      a = to /\ exists r ps p, send_to_vesting_account w owner to name amount restart = Some r /\
                              get_pools w owner = Some ps /\
                              find_pool name (map (pool_withdraw (w_now w)) ps) = Some p /\ p_genesis p = true
  | _ => exists from c w', split_like w o = Some (from, a, c) /\ split_vesting_coins w from a c = Some w' /\
                           recorded_derived w from
  end.

Lemma traces_static w w' : same_static w w' -> w_traces w' = w_traces w.
Proof. intros (_ & _ & _ & _ & H & _). exact H. Qed.

Lemma lineage_split w from to c w' :
  traces_have_accounts w -> split_vesting_coins w from to c = Some w' ->
  traces_have_accounts w' /\
  forall a, recorded_derived w' a <-> recorded_derived w a \/ (a = to /\ recorded_derived w from).
Proof.
  intros Hinv H. destruct (split_coins_unfold _ _ _ _ _ H) as (x & w3 & _ & _ & Hto & _ & Hx & _ & _ & Hs & Hw').
  cbn zeta in Hs.
  pose proof (traces_static _ _ (send_coins_static _ _ _ _ _ Hs)) as Htr. unfold new_cva, set_acc in Htr; cbn [w_traces] in Htr.
  assert (Hnt : aget to (w_traces w) = None).
  { destruct (aget to (w_traces w)) eqn:E; [|reflexivity]. destruct (Hinv _ _ E) as (y & Hy). congruence. }
  assert (Hacc3 : forall a, (exists y, aget a (w_acc w) = Some y) \/ a = to -> exists y, aget a (w_acc w3) = Some y).
  { intros a Ha. rewrite (send_coins_acc _ _ _ _ _ Hs a). unfold new_cva, set_acc; cbn [w_acc].
    destruct (Z.eq_dec a to) as [->|Hne]; [rewrite aget_aset_same; eauto|].
    rewrite aget_aset_other by assumption.
    destruct (Z.eq_dec a from) as [->|Hnf]; [rewrite aget_aset_same; eauto|].
    rewrite aget_aset_other by assumption. destruct Ha as [(y & Hy)|]; [rewrite Hy; eauto|contradiction]. }
  destruct (aget from (w_traces w3)) as [tr|] eqn:Etr; subst w'.
  - split.
    + intros a t. unfold set_trace; cbn [w_traces w_acc]. rewrite Htr.
      destruct (Z.eq_dec a to) as [->|Hne].
      * intros _. apply Hacc3. right; reflexivity.
      * rewrite aget_aset_other by assumption. intros Ht. apply Hacc3. left. eapply Hinv; eassumption.
    + intros a. unfold recorded_derived, set_trace; cbn [w_traces]. rewrite Htr. rewrite Htr in Etr.
      destruct (Z.eq_dec a to) as [->|Hne].
      * rewrite aget_aset_same, Hnt. split.
        -- intros (t & Ht & Hd). inversion Ht; subst t. right. split; [reflexivity|].
           exists tr. split; [assumption|]. unfold tr_derived in *; simpl in Hd.
           destruct (t_genesis tr), (t_from_pool tr), (t_from_acct tr); simpl in *; congruence.
        -- intros [(t & Ht & _)|(_ & t & Ht & Hd)]; [discriminate|].
           rewrite Etr in Ht. inversion Ht; subst t. eexists; split; [reflexivity|].
           unfold tr_derived in *; simpl.
           destruct (t_genesis tr), (t_from_pool tr), (t_from_acct tr); simpl in *; congruence.
      * rewrite aget_aset_other by assumption. split; [intros Hd; left; exact Hd|].
        intros [Hd|(Hc & _)]; [exact Hd|contradiction].
  - split.
    + intros a t. rewrite Htr. intros Ht. apply Hacc3. left. eapply Hinv; eassumption.
    + intros a. unfold recorded_derived. rewrite Htr. rewrite Htr in Etr. split; [intros Hd; left; exact Hd|].
      intros [Hd|(_ & t & Ht & _)]; [exact Hd|congruence].
Qed.

Lemma lineage_frame w w' :
  traces_have_accounts w -> w_traces w' = w_traces w ->
  (forall a x, aget a (w_acc w) = Some x -> exists y, aget a (w_acc w') = Some y) ->
  traces_have_accounts w' /\ forall a, recorded_derived w' a <-> recorded_derived w a.
Proof.
  intros Hinv Htr Hacc. split.
  - intros a t. rewrite Htr. intros Ht. destruct (Hinv _ _ Ht) as (x & Hx). eapply Hacc; eassumption.
  - intros a. unfold recorded_derived. rewrite Htr. tauto.
Qed.

Theorem lineage_step w o :
  traces_have_accounts w ->
  traces_have_accounts (fst (step w o)) /\
  forall a, recorded_derived (fst (step w o)) a <-> recorded_derived w a \/ newly_derived w o a.
Proof.
  intros Hinv.
  assert (Hnone : forall w', w_traces w' = w_traces w ->
            (forall a x, aget a (w_acc w) = Some x -> exists y, aget a (w_acc w') = Some y) ->
            (forall a, ~ newly_derived w o a) ->
            traces_have_accounts w' /\ forall a, recorded_derived w' a <-> recorded_derived w a \/ newly_derived w o a).
  { intros w' Htr Hacc Hnew. destruct (lineage_frame w w' Hinv Htr Hacc) as [H1 H2]. split; [assumption|].
    intros a. rewrite H2. split; [auto|]. intros [H|H]; [assumption|]. exfalso. eapply Hnew; eassumption. }
  assert (Hkeep : forall a x, aget a (w_acc w) = Some x -> exists y, aget a (w_acc w) = Some y) by eauto.
  assert (Hsl : forall from to c, split_like w o = Some (from, to, c) -> (forall ow t n am rs, o <> OSend ow t n am rs) ->
            traces_have_accounts (fst (step w o)) /\
            forall a, recorded_derived (fst (step w o)) a <-> recorded_derived w a \/ newly_derived w o a).
  { intros from to c Hs Hns. rewrite (split_like_step _ _ _ _ _ Hs).
    assert (Hnd : forall a, newly_derived w o a <-> exists w', a = to /\ split_vesting_coins w from to c = Some w' /\ recorded_derived w from).
    { intros a. destruct o; try (simpl in Hs; discriminate); try (exfalso; eapply Hns; reflexivity);
      unfold newly_derived; rewrite Hs;
      (split; [intros (f & c' & wx & He & Hsp & Hd); inversion He; subst; exists wx; auto
              |intros (wx & -> & Hsp & Hd); exists from, c, wx; auto]). }
    destruct (split_vesting_coins w from to c) as [w'|] eqn:E; simpl.
    - destruct (lineage_split _ _ _ _ _ Hinv E) as [H1 H2]. split; [assumption|].
      intros a. rewrite H2, Hnd. split.
      + intros [H|[-> H]]; [auto|]. right. eauto.
      + intros [H|(w'' & -> & _ & H)]; auto.
    - split; [assumption|]. intros a. rewrite Hnd. split; [auto|]. intros [H|(w'' & _ & Hc & _)]; [assumption|discriminate]. }
  destruct o.
  - (* time *) apply Hnone; try reflexivity; [exact Hkeep|]. intros a (f & c & w' & H & _). discriminate.
  - (* create pool *)
    simpl. destruct (create_pool w owner name amount duration vt) as [w'|] eqn:E; simpl.
    2:{ apply Hnone; try reflexivity; [exact Hkeep|]. intros a (f & c & w'' & H & _). discriminate. }
    unfold create_pool in E.
    destruct (aget vt (w_vtypes w)); [|discriminate].
    destruct (name =? 0); [discriminate|]. destruct (amount <? 0); [discriminate|].
    destruct (duration <=? 0); [discriminate|]. destruct (owner <? 0); [discriminate|].
    destruct (bal w owner (w_denom w) <? amount); [discriminate|]. destruct (existsb _ _); [discriminate|].
    destruct (send_coins w owner MODULE (one_coin (w_denom w) amount)) as [w1|] eqn:Es; [|discriminate].
    inversion E; subst; clear E.
    apply Hnone.
    + unfold set_pools; cbn [w_traces]. apply traces_static. eapply send_coins_static; eassumption.
    + intros a x Hx. unfold set_pools; cbn [w_acc]. rewrite (send_coins_acc _ _ _ _ _ Es a), Hx. eauto.
    + intros a (f & c & w'' & H & _). discriminate.
  - (* withdraw *)
    simpl. destruct (withdraw_all w owner) as [r|] eqn:E; simpl.
    2:{ apply Hnone; try reflexivity; [exact Hkeep|]. intros a (f & c & w'' & H & _). discriminate. }
    destruct (withdraw_all_spec _ _ _ E) as (_ & _ & _ & _ & _ & _ & _ & _ & _ & _ & _ & Htr & _ & _ & Hacc).
    apply Hnone; [assumption| |].
    + intros a x Hx. rewrite Hacc, Hx. eauto.
    + intros a (f & c & w'' & H & _). discriminate.
  - (* send *)
    replace (step w (OSend owner to name amount restart)) with
      (match send_to_vesting_account w owner to name amount restart with
       | Some r => (r_world r, (1, 0, r_events r)) | None => (w, (0, 0, [])) end) by reflexivity.
    destruct (send_to_vesting_account w owner to name amount restart) as [r|] eqn:E; cbn [fst].
    2:{ apply Hnone; try reflexivity; [exact Hkeep|]. intros a (_ & r & ps & p & H & _). congruence. }
    destruct (send_unfold _ _ _ _ _ _ _ E) as (r0 & ps & p0 & vt & w2 & _ & _ & _ & Hw & Hps & Hf & _ & _ & Hnv & Hrw & _).
    destruct (withdraw_all_spec _ _ _ Hw) as (_ & _ & _ & _ & _ & _ & _ & _ & _ & _ & _ & Htr0 & _ & _ & Hacc0).
    destruct (new_vesting_account_spec _ _ _ _ _ _ _ Hnv) as (Hst & Habs & _ & (y & Hy & _) & Hoth & _).
    pose proof (traces_static _ _ Hst) as Htr2.
    assert (Habsw : aget to (w_acc w) = None). { rewrite Hacc0 in Habs. destruct (aget to (w_acc w)); [discriminate|reflexivity]. }
    assert (Hnt : aget to (w_traces w) = None).
    { destruct (aget to (w_traces w)) eqn:Et; [|reflexivity]. destruct (Hinv _ _ Et) as (z & Hz). congruence. }
    rewrite Hrw. split.
    + intros a t. unfold set_trace, set_pools; cbn [w_traces w_acc].
      destruct (Z.eq_dec a to) as [->|Hne]; [eauto|].
      rewrite aget_aset_other by assumption. rewrite Htr2, Htr0. intros Ht.
      destruct (Hinv _ _ Ht) as (z & Hz). rewrite Hoth by assumption. rewrite Hacc0, Hz. eauto.
    + intros a. unfold recorded_derived, set_trace, set_pools; cbn [w_traces]. rewrite Htr2, Htr0.
      destruct (Z.eq_dec a to) as [->|Hne].
      * rewrite aget_aset_same, Hnt. split.
        -- intros (t & Ht & Hd). inversion Ht; subst t. right. split; [reflexivity|].
           exists r, ps, p0. repeat (split; [assumption|]). unfold tr_derived in Hd; simpl in Hd.
           destruct (p_genesis p0); simpl in *; congruence.
        -- intros [(t & Ht & _)|(_ & r' & ps' & p' & Hr' & Hps' & Hf' & Hg)]; [discriminate|].
           rewrite Hps in Hps'. inversion Hps'; subst ps'. rewrite Hf in Hf'. inversion Hf'; subst p'.
           eexists; split; [reflexivity|]. unfold tr_derived; simpl. rewrite Hg. reflexivity.
      * rewrite aget_aset_other by assumption. split; [auto|]. intros [H|(Hc & _)]; [assumption|contradiction].
  - (* create vesting account *)
    simpl. destruct (create_vesting_account w from to c start end_) as [w'|] eqn:E; simpl.
    2:{ apply Hnone; try reflexivity; [exact Hkeep|]. intros a (f & c' & w'' & H & _). discriminate. }
    destruct (create_vesting_account_spec _ _ _ _ _ _ _ E) as (_ & Habs & _ & _ & Hnew & Hoth & _).
    apply Hnone.
    + unfold create_vesting_account in E.
      destruct (existsb _ c); [discriminate|]. destruct (end_ <? start); [discriminate|].
      destruct (from <? 0); [discriminate|]. destruct (to <? 0); [discriminate|].
      destruct (blocked w to); [discriminate|]. destruct (aget to (w_acc w)); [discriminate|].
      apply (traces_static _ _ (send_coins_static _ _ _ _ _ E)).
    + intros a x Hx. assert (a <> to) by congruence. rewrite Hoth by assumption. eauto.
    + intros a (f & c' & w'' & H & _). discriminate.
  - (* split *)
    destruct (split_like w (OSplit from to c)) as [[[f t] c']|] eqn:Esl.
    + eapply Hsl; [reflexivity|]. intros; discriminate.
    + rewrite split_like_fail; [|left; eauto|assumption].
      apply Hnone; try reflexivity; [exact Hkeep|]. intros a (f & c' & w'' & H & _). congruence.
  - destruct (split_like w (OMove from to denoms_all)) as [[[f t] c']|] eqn:Esl.
    + eapply Hsl; [reflexivity|]. intros; discriminate.
    + rewrite split_like_fail; [|right; left; eauto|assumption].
      apply Hnone; try reflexivity; [exact Hkeep|]. intros a (f & c' & w'' & H & _). congruence.
  - destruct (split_like w (OMoveDenoms from to denoms)) as [[[f t] c']|] eqn:Esl.
    + eapply Hsl; [reflexivity|]. intros; discriminate.
    + rewrite split_like_fail; [|right; right; eauto|assumption].
      apply Hnone; try reflexivity; [exact Hkeep|]. intros a (f & c' & w'' & H & _). congruence.
  - (* delegate *)
    simpl. destruct (delegate w a bonded amt) as [w'|] eqn:E; simpl.
    2:{ apply Hnone; try reflexivity; [exact Hkeep|]. intros a' (f & c & w'' & H & _). discriminate. }
    unfold delegate in E. destruct (amt <=? 0); [discriminate|]. destruct (bal w a 0 <? amt); [discriminate|].
    inversion E; subst; clear E.
    apply Hnone.
    + cbn [set_bal w_traces]. destruct (aget a (w_acc w)) as [x|]; [|reflexivity]. destruct (a_kind x =? 2); reflexivity.
    + intros a' x Hx. cbn [set_bal w_acc].
      destruct (aget a (w_acc w)) as [xa|] eqn:Ea; [|cbn [set_bal w_acc]; eauto].
      destruct (a_kind xa =? 2); [|cbn [set_bal w_acc]; eauto].
      unfold set_acc; cbn [w_acc]. destruct (Z.eq_dec a' a) as [->|Hne]; [rewrite aget_aset_same; eauto|].
      rewrite aget_aset_other by assumption. eauto.
    + intros a' (f & c & w'' & H & _). discriminate.
Qed.

(* the inductive notion of the property, over a whole history *)
Inductive Derived (w0 : world) : list op -> Z -> Prop :=
| D_recorded a : recorded_derived w0 a -> Derived w0 [] a        (* recorded at the start (genesis accounts) *)
| D_keep ops o a : Derived w0 ops a -> Derived w0 (ops ++ [o]) a
| D_send ops owner to name amount restart r ps p :                (* created out of a genesis pool *)
    send_to_vesting_account (run w0 ops) owner to name amount restart = Some r ->
    get_pools (run w0 ops) owner = Some ps ->
    find_pool name (map (pool_withdraw (w_now (run w0 ops))) ps) = Some p -> p_genesis p = true ->
    Derived w0 (ops ++ [OSend owner to name amount restart]) to
| D_split ops o from a c w' :                                     (* split / moved from a Derived account *)
    split_like (run w0 ops) o = Some (from, a, c) ->
    split_vesting_coins (run w0 ops) from a c = Some w' -> Derived w0 ops from ->
    Derived w0 (ops ++ [o]) a.

Lemma run_snoc w ops o : run w (ops ++ [o]) = fst (step (run w ops) o).
Proof. unfold run. rewrite fold_left_app. reflexivity. Qed.

Theorem lineage_history w0 ops :
  traces_have_accounts w0 ->
  traces_have_accounts (run w0 ops) /\ forall a, recorded_derived (run w0 ops) a <-> Derived w0 ops a.
Proof.
  intros Hinv. induction ops as [|o ops IH] using rev_ind.
  - split; [assumption|]. intros a. split; [apply D_recorded|].
    intros H. inversion H; subst; try assumption; exfalso;
      match goal with Hx : _ ++ [_] = [] |- _ => symmetry in Hx; eapply app_cons_not_nil; exact Hx end.
  - destruct IH as [IH1 IH2]. rewrite run_snoc.
    destruct (lineage_step (run w0 ops) o IH1) as [H1 H2]. split; [assumption|].
    intros a. rewrite H2. split.
    + intros [H|H]; [apply D_keep, IH2; assumption|].
      destruct o; try (destruct H as (f & c' & w' & Ha & Hb & Hc); eapply D_split; [exact Ha|exact Hb|apply IH2; exact Hc]).
      destruct H as (-> & r & ps & p & Hr & Hps & Hf & Hg). eapply D_send; eassumption.
    + intros H. inversion H as [a' Hr Hops|ops' o' a' Hd Hops|ops' ow t n am rs r ps p Hr Hps Hf Hg Hops|ops' o' f a' c' w' Hsl Hsp Hd Hops]; subst.
      * exfalso. eapply app_cons_not_nil; exact Hops.
      * apply app_inj_tail in Hops. destruct Hops; subst. left. apply IH2; assumption.
      * apply app_inj_tail in Hops. destruct Hops; subst. right. split; [reflexivity|]. exists r, ps, p. auto.
      * apply app_inj_tail in Hops. destruct Hops; subst. right.
        assert (Hd' : recorded_derived (run w0 ops) f) by (apply IH2; assumption).
        destruct o; try (simpl in Hsl; discriminate); exists f, c', w'; auto.
Qed.
