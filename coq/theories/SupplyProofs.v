(* SupplyProofs.v — C01: coins are created only by the minter's BeginBlock, destroyed only by the
   distributor's burn; everything else moves coins between accounts. *)
From C4E Require Import Base Minter Distributor DistrCoins DistrProofs.
From Coq Require Import ZifyBool.
Open Scope Z_scope.

(* total of one denomination over all bank accounts of the distributor's bank *)
Definition btotal (d : Z) (bal : list (Z * dcoins)) : Z := zsum (map (fun e => dc_amt d (snd e)) bal).

Lemma btotal_aset d a v bal : btotal d (aset a v bal) = btotal d bal - dc_amt d (bal_of bal a) + dc_amt d v.
Proof.
  unfold btotal, bal_of. induction bal as [|[k c] t IH]; simpl.
  - lia.
  - destruct (a =? k) eqn:E; simpl; [lia|]. rewrite IH. destruct (aget a t); lia.
Qed.

Definition bank_wf (bal : list (Z * dcoins)) : Prop := forall a, dc_wf (bal_of bal a).

Lemma bank_wf_aset a v bal : bank_wf bal -> dc_wf v -> bank_wf (aset a v bal).
Proof.
  intros H Hv a'. destruct (Z.eq_dec a' a) as [->|Hne]; [rewrite bal_of_aset_same; assumption|].
  rewrite bal_of_aset_other by assumption. apply H.
Qed.

(* what a bank operation may do to the totals: conserve coins + burned *)
Definition conserves (b b' : bank) : Prop :=
  bank_wf (bk_bal b') /\ dc_wf (bk_burned b') /\ bk_faults b' = [] /\
  forall d, btotal d (bk_bal b') + dc_amt d (bk_burned b') = btotal d (bk_bal b) + dc_amt d (bk_burned b).

Definition bank_ok (b : bank) : Prop := bank_wf (bk_bal b) /\ dc_wf (bk_burned b) /\ bk_faults b = [].

Lemma conserves_refl b : bank_ok b -> conserves b b.
Proof. intros (A & B & C). repeat split; auto. Qed.

Lemma conserves_trans a b c : conserves a b -> conserves b c -> conserves a c.
Proof. intros (_ & _ & _ & H1) (A & B & C & H2). repeat split; auto. intros d. rewrite H2, H1. reflexivity. Qed.

Lemma conserves_ok a b : conserves a b -> bank_ok b.
Proof. intros (A & B & C & _). repeat split; assumption. Qed.

Lemma next_fault_nil b : bk_faults b = [] -> fst (next_fault b) = false /\ bk_bal (snd (next_fault b)) = bk_bal b /\
  bk_burned (snd (next_fault b)) = bk_burned b /\ bk_faults (snd (next_fault b)) = [].
Proof. intros H. unfold next_fault. rewrite H. simpl. auto. Qed.

Lemma transfer_conserves b from to c ok b' : bank_ok b -> dc_wf c -> transfer b from to c = (ok, b') -> conserves b b'.
Proof.
  intros (Hw & Hb & Hf) Hc H. unfold transfer in H. cbv zeta in H.
  destruct (next_fault_nil b Hf) as (F1 & F2 & F3 & F4). destruct (next_fault b) as [f b1]. simpl in *. subst f.
  inversion H; subst; clear H. cbn [bk_bal bk_burned bk_faults]. rewrite F2, F3.
  assert (Hneg : dc_wf (dc_neg c)) by (apply dc_neg_sorted; assumption).
  assert (Hw1 : bank_wf (aset from (dc_add (bal_of (bk_bal b) from) (dc_neg c)) (bk_bal b))).
  { apply bank_wf_aset; [assumption|apply dc_add_wf; [apply Hw|assumption]]. }
  split; [apply bank_wf_aset; [assumption|apply dc_add_wf; [apply Hw1|assumption]]|].
  split; [assumption|]. split; [assumption|]. intros d. cbn [bk_bal bk_burned].
  rewrite !btotal_aset. rewrite !dc_add_amt, dc_neg_amt; try assumption; try apply Hw; try apply Hw1.
  destruct (Z.eq_dec to from) as [->|Hne].
  - rewrite bal_of_aset_same, dc_add_amt, dc_neg_amt by (try assumption; apply Hw). lia.
  - rewrite bal_of_aset_other by assumption. lia.
Qed.

Lemma burn_conserves b from c ok b' : bank_ok b -> dc_wf c -> burn b from c = (ok, b') -> conserves b b'.
Proof.
  intros (Hw & Hb & Hf) Hc H. unfold burn in H.
  destruct (next_fault_nil b Hf) as (F1 & F2 & F3 & F4). destruct (next_fault b) as [f b1]. simpl in *. subst f.
  inversion H; subst; clear H. cbn [bk_bal bk_burned bk_faults]. rewrite F2, F3.
  assert (Hneg : dc_wf (dc_neg c)) by (apply dc_neg_sorted; assumption).
  split; [apply bank_wf_aset; [assumption|apply dc_add_wf; [apply Hw|assumption]]|].
  split; [apply dc_add_wf; assumption|]. split; [assumption|]. intros d. cbn [bk_bal bk_burned].
  rewrite btotal_aset, !dc_add_amt, dc_neg_amt; try assumption; try apply Hw. lia.
Qed.

(* ---- through the block ---- *)
Lemma prepare_source_conserves src sts b c sts' b' :
  prepare_source src sts b = Ok (c, sts', b') -> bank_ok b -> conserves b b'.
Proof.
  intros H Hb. unfold prepare_source in H. destruct (da_type src =? T_MAIN).
  - destruct (dc_is_zero _); [inversion H; subst; apply conserves_refl; assumption|].
    destruct (dc_sub _ _); inversion H; subst. apply conserves_refl; assumption.
  - destruct (da_type src =? T_INTERNAL).
    { cbn [fst snd] in H. destruct (prepare_left [] src sts) as [[c0 s0]| |]; inversion H; subst. apply conserves_refl; assumption. }
    destruct (dc_is_zero (bal_of (bk_bal b) (da_addr src))).
    { cbn [fst snd] in H. destruct (prepare_left [] src sts) as [[c0 s0]| |]; inversion H; subst. apply conserves_refl; assumption. }
    destruct (transfer b (da_addr src) MAINADDR (bal_of (bk_bal b) (da_addr src))) as [ok b1] eqn:Et.
    pose proof (transfer_conserves _ _ _ _ _ _ Hb (proj1 Hb (da_addr src)) Et) as Hc.
    destruct ok; cbn [fst snd] in H;
      match type of H with context [prepare_left ?C src sts] => destruct (prepare_left C src sts) as [[c0 s0]| |] end;
      inversion H; subst; exact Hc.
Qed.

Lemma prepare_all_conserves srcs : forall sts b acc c sts' b',
  prepare_all srcs sts b acc = Ok (c, sts', b') -> bank_ok b -> conserves b b'.
Proof.
  induction srcs as [|s t IH]; intros sts b acc c sts' b' H Hb; simpl in H.
  - inversion H; subst. apply conserves_refl; assumption.
  - destruct (prepare_source s sts b) as [[[c0 s0] b0]| |] eqn:E; try discriminate.
    pose proof (prepare_source_conserves _ _ _ _ _ _ E Hb) as H1.
    eapply conserves_trans; [exact H1|]. eapply IH; [exact H|]. eapply conserves_ok; exact H1.
Qed.

Lemma run_subs_conserves subs : forall sts b bk evs sts' b' evs',
  run_subs subs sts b bk evs = Ok (sts', b', evs') -> bank_ok b -> conserves b b'.
Proof.
  induction subs as [|sd t IH]; intros sts b bk evs sts' b' evs' H Hb; simpl in H.
  - inversion H; subst. apply conserves_refl; assumption.
  - destruct (prepare_all (sd_sources sd) sts b []) as [[[inflow s1] b1]| |] eqn:E; try discriminate.
    pose proof (prepare_all_conserves _ _ _ _ _ _ _ E Hb) as H1.
    eapply conserves_trans; [exact H1|]. pose proof (conserves_ok _ _ H1) as Hb1.
    destruct (dc_is_zero inflow); [eapply IH; eassumption|].
    destruct (start_distribution sd inflow s1 bk) as [[s2 e]| |]; try discriminate. eapply IH; eassumption.
Qed.

Definition states_rem_wf (sts : list dstate) : Prop := states_wf sts.

Lemma payout_conserves s b s' b' : payout s b = Ok (s', b') -> bank_ok b -> dc_wf (st_rem s) -> conserves b b' /\ dc_wf (st_rem s').
Proof.
  intros H Hb Hr. unfold payout in H. destruct (st_acc s) as [a|]; [|discriminate].
  destruct (negb (da_type a =? T_INTERNAL) && dc_any_gte1 (st_rem s)).
  - destruct (dc_trunc (st_rem s)) as [to_send change] eqn:Et.
    destruct (dc_trunc_spec _ Hr) as (Hsw & Hcw & _). rewrite Et in Hsw, Hcw. cbn [fst snd] in *.
    destruct (st_burn s).
    + destruct (burn b MAINADDR to_send) as [ok b1] eqn:Eb. inversion H; subst.
      split; [exact (burn_conserves _ _ _ _ _ Hb Hsw Eb)|]. destruct ok; [exact Hcw|exact Hr].
    + destruct (transfer b MAINADDR (da_addr a) to_send) as [ok b1] eqn:Eb. inversion H; subst.
      split; [exact (transfer_conserves _ _ _ _ _ _ Hb Hsw Eb)|]. destruct ok; [exact Hcw|exact Hr].
  - inversion H; subst. split; [apply conserves_refl; assumption|assumption].
Qed.

Lemma payout_all_conserves sts : forall b sts' b', payout_all sts b = Ok (sts', b') -> bank_ok b -> states_wf sts -> conserves b b'.
Proof.
  induction sts as [|s t IH]; intros b sts' b' H Hb Hw; simpl in H.
  - inversion H; subst. apply conserves_refl; assumption.
  - inversion Hw; subst. destruct (payout s b) as [[s1 b1]| |] eqn:E; try discriminate.
    destruct (payout_conserves _ _ _ _ E Hb H2) as [H1 _].
    destruct (payout_all t b1) as [[t1 b2]| |] eqn:E2; try discriminate. inversion H; subst.
    eapply conserves_trans; [exact H1|]. eapply IH; [exact E2| |assumption]. eapply conserves_ok; exact H1.
Qed.

(* ---- well-formedness of the books through the block (no sign assumptions) ---- *)
Lemma distribute_shares_wf shares inflow : dc_wf inflow ->
  forall sts dflt evs sts' dflt' evs',
  distribute_shares shares inflow sts dflt evs = Ok (sts', dflt', evs') -> states_wf sts -> dc_wf dflt ->
  states_wf sts' /\ dc_wf dflt'.
Proof.
  intros Hin. induction shares as [|sh t IH]; intros sts dflt evs sts' dflt' evs' H Hw Hd.
  - simpl in H. inversion H; subst. auto.
  - cbn [distribute_shares] in H. destruct (da_type (sh_dest sh) =? T_MAIN); [eapply IH; eassumption|].
    destruct (calc_share_spec (sh_share sh) inflow Hin) as [Hcw _].
    destruct (dc_sub dflt (calc_share (sh_share sh) inflow)) as [dflt1| |] eqn:Es; try discriminate.
    destruct (dc_sub_spec _ _ _ Hd Hcw Es) as [Hd1 _].
    destruct (dc_is_zero (calc_share (sh_share sh) inflow)); [eapply IH; eassumption|].
    destruct (add_share_to_account sts (sh_dest sh) (calc_share (sh_share sh) inflow)) as [sts1| |] eqn:Ea; try discriminate.
    destruct (add_share_to_account_spec _ _ _ _ Ea Hw Hcw) as [Hw1 _]. eapply IH; eassumption.
Qed.

Lemma start_distribution_wf sd inflow sts bk sts' evs :
  start_distribution sd inflow sts bk = Ok (sts', evs) -> states_wf sts -> dc_wf inflow -> states_wf sts'.
Proof.
  unfold start_distribution. intros H Hw Hin.
  destruct (distribute_shares (sd_shares sd) inflow sts inflow []) as [[[sts1 dflt1] evs1]| |] eqn:Ed; try discriminate.
  destruct (distribute_shares_wf _ _ Hin _ _ _ _ _ _ Ed Hw Hin) as [Hw1 Hd1].
  destruct (calc_share_spec (sd_burn sd) inflow Hin) as [Hbw _].
  destruct (dc_sub dflt1 (calc_share (sd_burn sd) inflow)) as [dflt2| |] eqn:Es; try discriminate.
  destruct (dc_sub_spec _ _ _ Hd1 Hbw Es) as [Hd2 _].
  destruct (dc_is_zero (calc_share (sd_burn sd) inflow)).
  - destruct (da_type (sd_primary sd) =? T_MAIN); [inversion H; subst; assumption|].
    destruct (add_share_to_account sts1 (sd_primary sd) dflt2) as [sts3| |] eqn:Ea; try discriminate.
    inversion H; subst. apply (add_share_to_account_spec _ _ _ _ Ea Hw1 Hd2).
  - pose proof (proj1 (add_share_to_burn_spec sts1 bk _ Hw1 Hbw)) as Hw2.
    destruct (da_type (sd_primary sd) =? T_MAIN); [inversion H; subst; assumption|].
    destruct (add_share_to_account (add_share_to_burn sts1 bk (calc_share (sd_burn sd) inflow)) (sd_primary sd) dflt2) as [sts3| |] eqn:Ea; try discriminate.
    inversion H; subst. apply (add_share_to_account_spec _ _ _ _ Ea Hw2 Hd2).
Qed.

Lemma prepare_source_wf src sts b c sts' b' :
  prepare_source src sts b = Ok (c, sts', b') -> bank_ok b -> states_wf sts -> states_wf sts' /\ dc_wf c.
Proof.
  intros H Hb Hw. unfold prepare_source in H. destruct (da_type src =? T_MAIN).
  - destruct (dc_of_coins_spec _ (proj1 Hb MAINADDR)) as [Hcw _].
    destruct (dc_is_zero _); [inversion H; subst; split; [assumption|exact I]|].
    destruct (dc_sub _ _) as [r| |] eqn:Es; inversion H; subst.
    split; [assumption|]. apply (dc_sub_spec _ _ _ Hcw (rem_sum_wf _ Hw) Es).
  - assert (Hgen : forall c0 b0, dc_wf c0 ->
              match prepare_left c0 src sts with Ok (c1, s1) => Ok (c1, s1, b0) | Err => Err | Panic => Panic end = Ok (c, sts', b') ->
              states_wf sts' /\ dc_wf c).
    { intros c0 b0 Hc0 H0. destruct (prepare_left c0 src sts) as [[c1 s1]| |] eqn:E; inversion H0; subst.
      destruct (prepare_left_spec _ _ _ _ _ E Hw Hc0) as (A & B & _). auto. }
    destruct (da_type src =? T_INTERNAL); [apply (Hgen [] b I H)|].
    destruct (dc_is_zero (bal_of (bk_bal b) (da_addr src))); [apply (Hgen [] b I H)|].
    destruct (transfer b (da_addr src) MAINADDR (bal_of (bk_bal b) (da_addr src))) as [ok b1].
    destruct ok; cbn [fst snd] in H.
    + apply (Hgen _ b1 (proj1 (dc_of_coins_spec _ (proj1 Hb (da_addr src)))) H).
    + apply (Hgen [] b1 I H).
Qed.

Lemma prepare_all_wf srcs : forall sts b acc c sts' b',
  prepare_all srcs sts b acc = Ok (c, sts', b') -> bank_ok b -> states_wf sts -> dc_wf acc -> states_wf sts' /\ dc_wf c.
Proof.
  induction srcs as [|s t IH]; intros sts b acc c sts' b' H Hb Hw Ha; simpl in H.
  - inversion H; subst. auto.
  - destruct (prepare_source s sts b) as [[[c0 s0] b0]| |] eqn:E; try discriminate.
    destruct (prepare_source_wf _ _ _ _ _ _ E Hb Hw) as [Hw0 Hc0].
    pose proof (conserves_ok _ _ (prepare_source_conserves _ _ _ _ _ _ E Hb)) as Hb0.
    eapply IH; [exact H|assumption|assumption|]. destruct (dc_is_zero c0); [assumption|apply dc_add_wf; assumption].
Qed.

Lemma run_subs_wf subs : forall sts b bk evs sts' b' evs',
  run_subs subs sts b bk evs = Ok (sts', b', evs') -> bank_ok b -> states_wf sts -> states_wf sts'.
Proof.
  induction subs as [|sd t IH]; intros sts b bk evs sts' b' evs' H Hb Hw; simpl in H.
  - inversion H; subst. assumption.
  - destruct (prepare_all (sd_sources sd) sts b []) as [[[inflow s1] b1]| |] eqn:E; try discriminate.
    destruct (prepare_all_wf _ _ _ _ _ _ _ E Hb Hw I) as [Hw1 Hin].
    pose proof (conserves_ok _ _ (prepare_all_conserves _ _ _ _ _ _ _ E Hb)) as Hb1.
    destruct (dc_is_zero inflow); [eapply IH; eassumption|].
    destruct (start_distribution sd inflow s1 bk) as [[s2 e]| |] eqn:Es; try discriminate.
    eapply IH; [exact H|assumption|]. eapply start_distribution_wf; eassumption.
Qed.

(* C01, distributor part: over one whole BeginBlock of the distributor (every sweep, payout and burn
   succeeding), coins are neither created nor destroyed except by the recorded burn: the sum of all
   balances plus everything burned so far is unchanged, per denomination *)
Theorem dist_block_conserves_coins w w' evs calls :
  dist_begin_block w [] = Ok (w', evs, calls) ->
  bank_wf (dw_bal w) -> dc_wf (dw_burned w) -> states_wf (dw_states w) ->
  forall d, btotal d (dw_bal w') + dc_amt d (dw_burned w') = btotal d (dw_bal w) + dc_amt d (dw_burned w).
Proof.
  unfold dist_begin_block. intros H Hb Hbu Hw.
  set (b0 := {| bk_bal := dw_bal w; bk_burned := dw_burned w; bk_faults := []; bk_calls := 0 |}) in *.
  assert (Hb0 : bank_ok b0) by (repeat split; assumption).
  destruct (run_subs (dw_subs w) (dw_states w) b0 (dw_burnkey w) []) as [[[sts b1] e]| |] eqn:E; try discriminate.
  pose proof (run_subs_conserves _ _ _ _ _ _ _ _ E Hb0) as H1.
  pose proof (run_subs_wf _ _ _ _ _ _ _ _ E Hb0 Hw) as Hw1.
  destruct (payout_all sts b1) as [[sts2 b2]| |] eqn:E2; try discriminate.
  pose proof (payout_all_conserves _ _ _ _ E2 (conserves_ok _ _ H1) Hw1) as H2.
  inversion H; subst. cbn [dw_bal dw_burned].
  destruct (conserves_trans _ _ _ H1 H2) as (_ & _ & _ & Hc). exact Hc.
Qed.

(* and whatever is burned only grows: supply can only shrink through the burn state *)
Theorem burn_only_increases_burned b from c ok b' : burn b from c = (ok, b') ->
  (ok = true -> bk_burned b' = dc_add (bk_burned b) c) /\ (ok = false -> bk_burned b' = bk_burned b).
Proof.
  unfold burn. destruct (next_fault b) as [f b1] eqn:E.
  assert (Hbb : bk_burned b1 = bk_burned b) by (unfold next_fault in E; destruct (bk_faults b); inversion E; reflexivity).
  destruct f; intros H; inversion H; subst.
  - split; [discriminate|]. intros _. unfold failed_debit. destruct (partial_debit _ _) as [h okk]. destruct okk; simpl; assumption.
  - split; [intros _; simpl; rewrite Hbb; reflexivity|discriminate].
Qed.
