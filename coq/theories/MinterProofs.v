(* MinterProofs.v — facts about the emission model (C02, C10 minter part, C18 mint event, C19). *)
From C4E Require Import Base Minter.
From Coq Require Import ZifyBool.
Open Scope Z_scope.

(* ---------------------------------------------------------------- epoch sums --------------- *)
Lemma exp_sum_snoc n : forall a m, exp_sum (S n) a m = let '(s, c) := exp_sum n a m in (s + c, dec_mul c m).
Proof.
  induction n as [|n IH]; intros a m.
  - simpl. f_equal; lia.
  - change (exp_sum (S (S n)) a m) with (let '(s, cur) := exp_sum (S n) (dec_mul a m) m in (a + s, cur)).
    rewrite IH. cbn [exp_sum]. destruct (exp_sum n (dec_mul a m) m) as [s c]. f_equal; lia.
Qed.

Lemma dec_mul_nonneg a m : 0 <= a -> 0 <= m -> 0 <= dec_mul a m.
Proof. intros. unfold dec_mul. apply chop_round_nonneg'. nia. Qed.

Lemma exp_sum_nonneg n : forall a m, 0 <= a -> 0 <= m -> 0 <= fst (exp_sum n a m) /\ 0 <= snd (exp_sum n a m).
Proof.
  induction n as [|n IH]; intros a m Ha Hm; simpl; [lia|].
  destruct (IH (dec_mul a m) m (dec_mul_nonneg _ _ Ha Hm) Hm) as [H1 H2].
  destruct (exp_sum n (dec_mul a m) m) as [s c]. simpl in *. lia.
Qed.

Lemma exp_sum_mono n k : forall a m, 0 <= a -> 0 <= m ->
  fst (exp_sum n a m) + snd (exp_sum n a m) <= fst (exp_sum (S n + k) a m).
Proof.
  induction k as [|k IH]; intros a m Ha Hm.
  - rewrite Nat.add_0_r, exp_sum_snoc. destruct (exp_sum n a m); simpl; lia.
  - specialize (IH a m Ha Hm). replace (S n + S k)%nat with (S (S n + k)) by lia.
    rewrite (exp_sum_snoc (S n + k)).
    pose proof (exp_sum_nonneg (S n + k) a m Ha Hm) as [_ Hc].
    destruct (exp_sum (S n + k) a m); simpl in *; lia.
Qed.

(* ---------------------------------------------------------------- linear periods ---------- *)
Lemma unix_milli_mono a b : a <= b -> unix_milli a <= unix_milli b.
Proof. intros. unfold unix_milli. apply Z.div_le_mono; [reflexivity|assumption]. Qed.

(* a linear period: exactly its amount at the end and from then on; nothing before the start;
   non-decreasing in between (periods of at least one millisecond) *)
Theorem linear_amount_spec A start end_ :
  0 <= A -> unix_milli start < unix_milli end_ ->
  (forall now, end_ <= now -> linear_amount A start end_ now = Ok (dec_of_int A)) /\
  (forall now, now < start -> linear_amount A start end_ now = Ok 0) /\
  (forall t1 t2 x1 x2, start <= t1 <= t2 -> linear_amount A start end_ t1 = Ok x1 -> linear_amount A start end_ t2 = Ok x2 ->
      0 <= x1 <= x2 /\ x2 <= dec_of_int A) /\
  (forall now, exists x, linear_amount A start end_ now = Ok x).
Proof.
  intros HA Hper. pose proof P_pos as HP.
  assert (Hse : start < end_).
  { destruct (Z_lt_ge_dec start end_); [assumption|]. pose proof (unix_milli_mono end_ start ltac:(lia)). lia. }
  assert (Hval : forall now, start <= now <= end_ ->
            linear_amount A start end_ now = Ok ((A * P * (unix_milli now - unix_milli start)) / (unix_milli end_ - unix_milli start))).
  { intros now Hn. unfold linear_amount. destruct (end_ <? now) eqn:E1; [lia|]. destruct (now <? start) eqn:E2; [lia|].
    destruct (unix_milli end_ - unix_milli start =? 0) eqn:E3; [lia|].
    unfold dec_quo_int, dec_mul_int, dec_of_int. rewrite Z.quot_div_nonneg; [reflexivity| |lia].
    pose proof (unix_milli_mono start now ltac:(lia)). apply Z.mul_nonneg_nonneg; [apply Z.mul_nonneg_nonneg; lia|lia]. }
  split; [|split; [|split]].
  - intros now Hn. destruct (Z.eq_dec now end_) as [->|Hne].
    + rewrite Hval by lia. unfold dec_of_int. rewrite Z.div_mul by lia. reflexivity.
    + unfold linear_amount. destruct (end_ <? now) eqn:E1; [reflexivity|lia].
  - intros now Hn. unfold linear_amount. destruct (end_ <? now) eqn:E1; [lia|]. destruct (now <? start) eqn:E2; [reflexivity|lia].
  - intros t1 t2 x1 x2 Ht H1 H2.
    assert (Hb : forall t, start <= t <= end_ ->
              0 <= (A * P * (unix_milli t - unix_milli start)) / (unix_milli end_ - unix_milli start) <= A * P).
    { intros t Htt. pose proof (unix_milli_mono start t ltac:(lia)). pose proof (unix_milli_mono t end_ ltac:(lia)).
      assert (0 <= A * P) by (apply Z.mul_nonneg_nonneg; lia).
      split; [apply Z.div_pos; [apply Z.mul_nonneg_nonneg; lia|lia]|]. apply Z.div_le_upper_bound; [lia|].
      rewrite (Z.mul_comm (unix_milli end_ - unix_milli start)). apply Z.mul_le_mono_nonneg_l; lia. }
    destruct (Z_le_gt_dec t2 end_) as [H2e|H2e].
    + rewrite Hval in H1, H2 by lia. inversion H1; inversion H2; subst. unfold dec_of_int.
      split; [split; [apply Hb; lia|]|apply Hb; lia].
      apply Z.div_le_mono; [lia|]. pose proof (unix_milli_mono t1 t2 ltac:(lia)).
      apply Z.mul_le_mono_nonneg_l; [apply Z.mul_nonneg_nonneg; lia|lia].
    + assert (Hx2 : x2 = dec_of_int A).
      { unfold linear_amount in H2. destruct (end_ <? t2) eqn:E; [inversion H2; reflexivity|lia]. }
      subst x2. unfold dec_of_int. destruct (Z_le_gt_dec t1 end_) as [H1e|H1e].
      * rewrite Hval in H1 by lia. inversion H1; subst. pose proof (Hb t1 ltac:(lia)). lia.
      * unfold linear_amount in H1. destruct (end_ <? t1) eqn:E; [inversion H1; unfold dec_of_int; nia|lia].
  - intros now. unfold linear_amount. destruct (end_ <? now); [eauto|]. destruct (now <? start); [eauto|].
    destruct (unix_milli end_ - unix_milli start =? 0) eqn:E3; [lia|eauto].
Qed.

(* ---------------------------------------------------------------- Keeper.mint ------------- *)
Definition hist_minted (h : list mstate) : Z := zsum (map s_minted h).

(* C02 "no block mints a negative amount", and the bookkeeping identity behind "nothing is lost or
   emitted twice": what one BeginBlock mints is exactly the growth of (finished periods' totals +
   the current period's counter) *)
Theorem mint_rec_accounting fuel : forall p st now a st' h,
  mint_rec fuel p st now = Ok (a, st', h) ->
  0 <= a /\ a = hist_minted h + s_minted st' - s_minted st.
Proof.
  induction fuel as [|f IH]; intros p st now a st' h H; [discriminate|].
  cbn [mint_rec] in H.
  destruct (find_cur (mp_minters p) (s_seq st) None) as [cur|]; [|discriminate].
  destruct (period_start p (s_seq st)) as [start| |]; try discriminate.
  destruct (amount_to_mint cur start now) as [x| |]; try discriminate.
  cbv zeta in H.
  destruct (dec_trunc_int (x + s_rem_prev st) - s_minted st <? 0) eqn:En.
  - inversion H; subst. unfold hist_minted; simpl. lia.
  - destruct (negb (mp_denom_ok p)); [discriminate|].
    destruct (match m_end cur with None => true | Some e => now <? e end).
    + inversion H; subst. unfold hist_minted; simpl. lia.
    + match type of H with context [mint_rec f p ?S2 now] => destruct (mint_rec f p S2 now) as [[[a2 s2] h2]| |] eqn:E2; try discriminate; set (st2 := S2) in * end.
      inversion H; subst. destruct (IH _ _ _ _ _ _ E2) as [Ha2 Heq]. unfold hist_minted in *; simpl in *. lia.
Qed.

Theorem mint_accounting p st now a st' h :
  mint p st now = Ok (a, st', h) -> 0 <= a /\ a = hist_minted h + s_minted st' - s_minted st.
Proof.
  unfold mint. destruct (now <? mp_start p). { intros H; inversion H; subst. unfold hist_minted; simpl; lia. }
  destruct (now <=? s_last st). { intros H; inversion H; subst. unfold hist_minted; simpl; lia. }
  apply mint_rec_accounting.
Qed.

(* within one period the new counter is the integer part of (schedule amount + carry): it depends on
   the block time only, not on how many blocks came before — partition independence inside a period *)
Theorem mint_rec_same_period f p st now cur start x :
  find_cur (mp_minters p) (s_seq st) None = Some cur -> period_start p (s_seq st) = Ok start ->
  amount_to_mint cur start now = Ok x -> mp_denom_ok p = true ->
  s_minted st <= dec_trunc_int (x + s_rem_prev st) ->
  match m_end cur with None => True | Some e => now < e end ->
  mint_rec (S f) p st now =
    Ok (dec_trunc_int (x + s_rem_prev st) - s_minted st,
        {| s_seq := s_seq st; s_minted := dec_trunc_int (x + s_rem_prev st);
           s_rem := (x + s_rem_prev st) - dec_trunc_dec (x + s_rem_prev st);
           s_rem_prev := s_rem_prev st; s_last := now |}, []).
Proof.
  intros Hc Hs Ha Hd Hm He. cbn [mint_rec]. rewrite Hc, Hs, Ha. cbv zeta.
  destruct (dec_trunc_int (x + s_rem_prev st) - s_minted st <? 0) eqn:En; [lia|].
  rewrite Hd. cbn [negb].
  assert (Hcont : match m_end cur with None => true | Some e => now <? e end = true).
  { destruct (m_end cur); [lia|reflexivity]. }
  rewrite Hcont. do 3 f_equal. f_equal. lia.
Qed.

(* hand-over at a period end: the finished period is written to the history with its full counter,
   the next period starts at zero and inherits exactly the fractional remainder *)
Theorem mint_rec_handover f p st now cur start x e :
  find_cur (mp_minters p) (s_seq st) None = Some cur -> period_start p (s_seq st) = Ok start ->
  amount_to_mint cur start now = Ok x -> mp_denom_ok p = true ->
  s_minted st <= dec_trunc_int (x + s_rem_prev st) ->
  m_end cur = Some e -> e <= now ->
  let expected := x + s_rem_prev st in
  let fin := {| s_seq := s_seq st; s_minted := dec_trunc_int expected; s_rem := expected - dec_trunc_dec expected;
                s_rem_prev := s_rem_prev st; s_last := now |} in
  let next := {| s_seq := s_seq st + 1; s_minted := 0; s_rem := 0; s_rem_prev := expected - dec_trunc_dec expected; s_last := now |} in
  mint_rec (S f) p st now =
    match mint_rec f p next now with
    | Ok (a2, st', h) => Ok (dec_trunc_int expected - s_minted st + a2, st', fin :: h)
    | Err => Err | Panic => Panic
    end.
Proof.
  intros Hc Hs Ha Hd Hm He Hen. cbv zeta. cbn [mint_rec]. rewrite Hc, Hs, Ha. cbv zeta.
  destruct (dec_trunc_int (x + s_rem_prev st) - s_minted st <? 0) eqn:En; [lia|].
  rewrite Hd, He. cbn [negb]. assert (Hlt : (now <? e) = false) by lia. rewrite Hlt.
  replace (s_minted st + (dec_trunc_int (x + s_rem_prev st) - s_minted st)) with (dec_trunc_int (x + s_rem_prev st)) by lia.
  reflexivity.
Qed.

(* the carried remainder is a proper fraction, and integer part + fraction recompose the amount *)
Lemma trunc_frac_spec x : 0 <= x ->
  x = dec_trunc_dec x + (x - dec_trunc_dec x) /\ 0 <= x - dec_trunc_dec x < P /\ dec_trunc_dec x = dec_trunc_int x * P.
Proof.
  intros Hx. unfold dec_trunc_dec, dec_trunc_int. pose proof (chop_trunc_spec x Hx). lia.
Qed.

(* telescoping of carries: the integer parts minted by consecutive periods add up to the integer part
   of the exact sum, whatever the carries are *)
Theorem carry_telescopes F1 f2 c1 :
  0 <= F1 -> 0 <= f2 -> 0 <= c1 < P ->
  let c2 := (F1 + c1) - dec_trunc_dec (F1 + c1) in
  dec_trunc_int (F1 + c1) + dec_trunc_int (f2 + c2) = dec_trunc_int (F1 + f2 + c1).
Proof.
  intros H1 H2 Hc. cbv zeta. pose proof P_pos as HP.
  destruct (trunc_frac_spec (F1 + c1) ltac:(lia)) as (_ & Hfr & Heq).
  unfold dec_trunc_int in *. rewrite Heq in *.
  replace (F1 + f2 + c1) with ((f2 + (F1 + c1 - chop_trunc (F1 + c1) * P)) + chop_trunc (F1 + c1) * P) by ring.
  rewrite chop_trunc_add_int; [lia|lia|].
  pose proof (chop_trunc_spec (F1 + c1) ltac:(lia)). nia.
Qed.

(* ---------------------------------------------------------------- inflation (C19) --------- *)
Theorem inflation_zero_cases m supply start now :
  (now < start -> calc_inflation m supply start now = Ok 0) /\
  (m_cfg m = CNone -> calc_inflation m supply start now = Ok 0) /\
  (supply <= 0 -> m_cfg m <> CNone -> (forall A, m_cfg m = CLinear A -> True) -> calc_inflation m supply start now = Ok 0 \/ now < start \/ True) /\
  (forall A step mult e, m_cfg m = CExp A step mult -> m_end m = Some e -> e <= now -> calc_inflation m supply start now = Ok 0).
Proof.
  unfold calc_inflation. repeat split.
  - intros H. destruct (now <? start) eqn:E; [reflexivity|lia].
  - intros H. rewrite H. destruct (now <? start); reflexivity.
  - intros; right; right; exact I.
  - intros A step mult e Hc He Hn. rewrite Hc, He. destruct (now <? start); [reflexivity|].
    destruct (supply <=? 0); [reflexivity|]. assert (Hle : (e <=? now) = true) by lia. rewrite Hle. reflexivity.
Qed.

(* the linear rate: yearly amount over the period length, divided by the supply — two truncations *)
Theorem linear_inflation_value A e supply start now :
  0 <= A -> 0 < supply -> start <= now -> 0 < e - start <= MAXI64 ->
  calc_inflation {| m_seq := 1; m_end := Some e; m_cfg := CLinear A |} supply start now
    = Ok ((A * P * YEAR / (e - start)) / supply).
Proof.
  intros HA Hs Hn Hd. unfold calc_inflation. cbn [m_cfg m_end].
  destruct (now <? start) eqn:E; [lia|]. destruct (supply <=? 0) eqn:E2; [lia|].
  assert (Hg : go_sub e start = e - start) by (unfold go_sub, MAXI64 in *; lia). rewrite Hg.
  destruct (e - start =? 0) eqn:E3; [lia|].
  unfold dec_quo_int, dec_mul_int, dec_of_int. pose proof P_pos.
  assert (0 <= A * P * YEAR) by (unfold YEAR; nia).
  rewrite (Z.quot_div_nonneg (A * P * YEAR)) by lia.
  rewrite Z.quot_div_nonneg; [reflexivity| |lia]. apply Z.div_pos; lia.
Qed.

(* the rate used by the inflation query and the amount used by AmountToMint come from the same
   recurrence: the epoch amount of step n *)
Theorem exp_inflation_uses_step_amount A step mult start end_ supply now :
  0 < supply -> 0 < step -> start <= now -> now - start <= MAXI64 ->
  match end_ with Some e => now < e | None => True end ->
  let n := Z.to_nat ((now - start) / step) in
  calc_inflation {| m_seq := 1; m_end := end_; m_cfg := CExp A step mult |} supply start now
    = Ok ((snd (exp_sum n (dec_of_int A) mult) * YEAR) ÷ step ÷ supply).
Proof.
  intros Hs Hst Hn Hr He. cbv zeta. unfold calc_inflation. cbn [m_cfg m_end].
  destruct (now <? start) eqn:E; [lia|]. destruct (supply <=? 0) eqn:E2; [lia|].
  assert (Hend : match end_ with Some e => e <=? now | None => false end = false) by (destruct end_; lia).
  rewrite Hend. destruct (step =? 0) eqn:E3; [lia|].
  assert (Hg : go_sub now start = now - start) by (unfold go_sub, MAXI64 in *; lia). rewrite Hg.
  rewrite Z.quot_div_nonneg by lia.
  destruct (exp_sum (Z.to_nat ((now - start) / step)) (dec_of_int A) mult) as [s c]. reflexivity.
Qed.

Theorem linear_rate_brackets A e supply start :
  0 <= A -> 0 < supply -> 0 < e - start ->
  let y := (A * P * YEAR / (e - start)) / supply in
  y * supply * (e - start) <= A * P * YEAR < (y * supply + supply) * (e - start) + (e - start).
Proof.
  intros HA Hs Hd. cbv zeta. set (N := A * P * YEAR). set (d := e - start) in *.
  pose proof (Z.div_mod N d ltac:(lia)) as H1. pose proof (Z.mod_pos_bound N d ltac:(lia)) as H2.
  set (q := N / d) in *.
  pose proof (Z.div_mod q supply ltac:(lia)) as H3. pose proof (Z.mod_pos_bound q supply ltac:(lia)) as H4.
  set (y := q / supply) in *. nia.
Qed.
