(* LedgerCheck.v — runs the credited-amounts machine of Ledger.v next to the distributor model on the harness's cases:
   after every block the machine's state must equal the projection (balance * 10^18 + remains per account, burn, unbooked)
   of the world the model — and, by the correspondence check, the implementation — reached.  The theorem of LedgerProofs.v
   says they agree whenever its hypotheses hold; this evaluation shows on how many generated histories that is the case and
   ties Ledger.v itself to the implementation's observed states.  Definitions only. *)
From C4E Require Export Distributor Ledger.
Open Scope Z_scope.

Definition unbooked_z (sts : list dstate) (bal : list (Z * dcoins)) (d : Z) : Z :=
  dc_amt d (bal_of bal MAINADDR) * P - zsum (map (fun s => dc_amt d (st_rem s)) sts).

Definition sd_accounts (sd : subdist) : list dacct :=
  filter (fun a => negb (da_type a =? T_MAIN)) (sd_sources sd ++ sd_primary sd :: map sh_dest (sd_shares sd)).

Fixpoint dedup_key (l : list dacct) (seen : list Z) : list dacct :=
  match l with
  | [] => []
  | a :: t => if existsb (Z.eqb (da_key a)) seen then dedup_key t seen else a :: dedup_key t (da_key a :: seen)
  end.
Definition cfg_accounts (subs : list subdist) : list dacct := dedup_key (flat_map sd_accounts subs) [].

Definition wbank_of (w : dworld) : bank := {| bk_bal := dw_bal w; bk_burned := dw_burned w; bk_faults := []; bk_calls := 0 |}.

Definition proj_world (accts : list dacct) (w : dworld) (d : Z) : list Z :=
  map (fun a => ledA a (dw_states w) (wbank_of w) d) accts
  ++ [ledB (dw_burnkey w) (dw_states w) (wbank_of w) d; unbooked_z (dw_states w) (dw_bal w) d].
Definition proj_aled (accts : list dacct) (st : aled) : list Z := map (fun a => aL st (da_key a)) accts ++ [aB st; aU st].

Definition init_aled (accts : list dacct) (w : dworld) (d : Z) : aled :=
  {| aL := fun k => match find (fun a => da_key a =? k) accts with Some a => ledA a (dw_states w) (wbank_of w) d | None => 0 end;
     aB := ledB (dw_burnkey w) (dw_states w) (wbank_of w) d;
     aU := unbooked_z (dw_states w) (dw_bal w) d |}.

Definition extend_aled (known all : list dacct) (w : dworld) (d : Z) (st : aled) : aled :=
  {| aL := fun k => if existsb (fun a => da_key a =? k) known then aL st k
                    else match find (fun a => da_key a =? k) all with Some a => ledA a (dw_states w) (wbank_of w) d | None => aL st k end;
     aB := aB st; aU := aU st |}.

(* coins arriving at an address: the main account, an account of the configuration, or somebody else *)
Definition a_inflow_addr (accts : list dacct) (x : Z) (amount : Z) (st : aled) : aled :=
  if x =? MAINADDR then a_inflow_main amount st
  else match find (fun a => negb (da_type a =? T_INTERNAL) && (da_addr a =? x)) accts with
       | Some a => a_inflow_acct a amount st
       | None => st
       end.

(* None: the machine and the world agree after every block; Some i: first operation after which they differ *)
Fixpoint ledger_walk (accts : list dacct) (denoms : list Z) (w : dworld) (sts : list aled) (ops : list (dop * list Z)) (i : Z) : option Z :=
  match ops with
  | [] => None
  | (DInflow a c, _) :: t =>
      ledger_walk accts denoms (dist_inflow w a c) (map (fun p => a_inflow_addr accts a (dc_amt (fst p) c) (snd p)) (combine denoms sts)) t (i + 1)
  | (DSetSubs subs, _) :: t =>
      (* a parameter update (LedgerUpdates.v): the machine goes on with what it has credited so far; accounts the history had
         not mentioned before enter with what the world holds for them (the theorem's account universe has them from the start) *)
      let w' := dist_set_subs w subs in
      let accts' := dedup_key (accts ++ flat_map sd_accounts subs) [] in
      ledger_walk accts' denoms w' (map (fun p => extend_aled accts accts' w' (fst p) (snd p)) (combine denoms sts)) t (i + 1)
  | (DBlock faults, _) :: t =>
      match dist_begin_block w faults with
      | Ok (w', _, _) =>
          let sts' := map (a_block (dw_subs w)) sts in
          if forallb (fun p => zlist_eqb (proj_world accts w' (fst p)) (proj_aled accts (snd p))) (combine denoms sts')
          then ledger_walk accts denoms w' sts' t (i + 1) else Some i
      | _ => Some i
      end
  end.

Definition ledger_case (c : dcase) : option Z :=
  let accts := cfg_accounts (dw_subs (dc_world c)) in
  ledger_walk accts (dc_denoms c) (dc_world c) (map (init_aled accts (dc_world c)) (dc_denoms c)) (dc_ops c) 0.

(* the cases on which the machine leaves the world's credited amounts: (case, first differing operation) *)
Definition ledger_disagreements (cs : list dcase) : list (Z * Z) :=
  flat_map (fun c => match ledger_case c with None => [] | Some i => [(dc_id c, i)] end) cs.
