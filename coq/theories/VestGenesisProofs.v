(* VestGenesisProofs.v — the vesting genesis: a genesis that validates and that InitGenesis accepts leaves the module
   account exactly backed by the stored pools (C05 at the first state of a chain), an unbacked module account is always
   refused — also when the genesis lists no pools at all —, and export / import of the pool store is the identity (C12). *)
From C4E Require Import Base Vest VestFrame VestProofs SolventProofs VestGenesis.
From Coq Require Import Lia ZifyBool Sorting.Sorted.
Open Scope Z_scope.

(* ------------------------------------------------------------------ uniqueness as the code counts it *)
Lemma count_eq_nonneg x l : 0 <= count_eq x l.
Proof. unfold count_eq. lia. Qed.

Lemma count_eq_cons x y l : count_eq x (y :: l) = (if x =? y then 1 else 0) + count_eq x l.
Proof. unfold count_eq. cbn [filter]. destruct (x =? y); cbn [length]; lia. Qed.

Lemma count_eq_zero_notin x l : count_eq x l = 0 -> ~ In x l.
Proof.
  induction l as [|y t IH]; [intros _ []|]. rewrite count_eq_cons. intros H [E|I].
  - subst y. rewrite Z.eqb_refl in H. pose proof (count_eq_nonneg x t). lia.
  - apply IH; [|exact I]. destruct (x =? y); pose proof (count_eq_nonneg x t); lia.
Qed.

Lemma all_unique_nodup l : all_unique l = true -> NoDup l.
Proof.
  unfold all_unique.
  assert (G : forall l0 l, (forall x, In x l -> count_eq x (l0 ++ l) <= 1) -> NoDup l).
  { intros l0 l1; revert l0; induction l1 as [|y t IH]; intros l0 H; [constructor|]. constructor.
    - apply count_eq_zero_notin. specialize (H y (or_introl eq_refl)).
      assert (E : count_eq y (l0 ++ y :: t) = count_eq y l0 + 1 + count_eq y t).
      { unfold count_eq. rewrite filter_app, app_length. cbn [filter]. rewrite Z.eqb_refl. cbn [length]. lia. }
      pose proof (count_eq_nonneg y l0). pose proof (count_eq_nonneg y t). lia.
    - apply (IH (l0 ++ [y])). intros x Hx. rewrite <- app_assoc. cbn [app]. apply H. right; exact Hx. }
  intros H. apply (G [] l). intros x Hx. cbn [app]. rewrite forallb_forall in H. specialize (H x Hx). lia.
Qed.

(* ------------------------------------------------------------------ the ordered store *)
Definition keys {A} (l : list (Z * A)) : list Z := map fst l.
Definition ksorted {A} (l : list (Z * A)) : Prop := StronglySorted Z.lt (keys l).

Lemma kset_keys_in {A} k (v : A) l x : In x (keys (kset k v l)) <-> x = k \/ In x (keys l).
Proof.
  unfold keys. induction l as [|[k' v'] t IH]; cbn [kset map fst In]; [intuition congruence|].
  destruct (k <? k') eqn:E1; cbn [map fst In]; [intuition congruence|].
  destruct (k =? k') eqn:E2; cbn [map fst In].
  - assert (k = k') by lia. subst. intuition congruence.
  - rewrite IH. intuition congruence.
Qed.

Lemma kset_sorted {A} k (v : A) l : ksorted l -> ksorted (kset k v l).
Proof.
  unfold ksorted, keys. induction l as [|[k' v'] t IH]; cbn [kset map fst]; intros H.
  - constructor; constructor.
  - inversion H as [|? ? Ht Hall]; subst.
    destruct (k <? k') eqn:E1; cbn [map fst].
    + constructor; [exact H|]. constructor; [lia|]. rewrite Forall_forall in *. intros x Hx. specialize (Hall x Hx). lia.
    + destruct (k =? k') eqn:E2; cbn [map fst].
      * assert (k = k') by lia. subst. constructor; assumption.
      * constructor; [apply IH; exact Ht|]. rewrite Forall_forall in *. intros x Hx.
        apply (kset_keys_in k v t x) in Hx. destruct Hx as [->|Hx]; [lia|apply Hall; exact Hx].
Qed.

Lemma ksorted_nodup {A} (l : list (Z * A)) : ksorted l -> NoDup (keys l).
Proof.
  unfold ksorted. induction (keys l) as [|x t IH]; intros H; [constructor|].
  inversion H as [|? ? Ht Hall]; subst. constructor; [|apply IH; exact Ht].
  intros Hin. rewrite Forall_forall in Hall. specialize (Hall x Hin). lia.
Qed.

Definition ksum {A} (f : A -> Z) (l : list (Z * A)) : Z := zsum (map (fun e => f (snd e)) l).

Lemma kset_sum_fresh {A} (f : A -> Z) k v l : ~ In k (keys l) -> ksum f (kset k v l) = f v + ksum f l.
Proof.
  unfold ksum, keys. induction l as [|[k' v'] t IH]; cbn [kset map fst snd zsum In]; intros H; [lia|].
  destruct (k <? k') eqn:E1; cbn [map snd zsum]; [lia|].
  destruct (k =? k') eqn:E2; [exfalso; apply H; left; lia|].
  cbn [map snd zsum]. rewrite IH; [lia|tauto].
Qed.

Lemma kset_forall_fresh {A} (Q : A -> Prop) k v l : Q v -> Forall (fun e => Q (snd e)) l -> Forall (fun e => Q (snd e)) (kset k v l).
Proof.
  intros Hv. induction l as [|[k' v'] t IH]; cbn [kset]; intros H.
  - constructor; [exact Hv|constructor].
  - inversion H; subst. destruct (k <? k'); [constructor; [exact Hv|exact H]|].
    destruct (k =? k'); [constructor; [exact Hv|assumption]|]. constructor; [assumption|apply IH; assumption].
Qed.

(* importing owners with pairwise different addresses: nothing is merged, the sum is the sum *)
Lemma import_owners_sum (f : list pool -> Z) os acc :
  NoDup (map go_owner os) -> (forall o, In o os -> ~ In (go_owner o) (keys acc)) ->
  ksum f (fold_left (fun s o => kset (go_owner o) (go_pools o) s) os acc) = zsum (map (fun o => f (go_pools o)) os) + ksum f acc.
Proof.
  revert acc; induction os as [|o t IH]; intros acc Hnd Hfresh; cbn [fold_left map zsum]; [lia|].
  inversion Hnd as [|? ? Hnotin Hnd']; subst.
  rewrite IH; [|exact Hnd'|].
  - rewrite kset_sum_fresh; [lia|]. apply Hfresh. left; reflexivity.
  - intros o' Ho' Hin. apply kset_keys_in in Hin. destruct Hin as [E|Hin].
    + apply Hnotin. rewrite <- E. apply in_map. exact Ho'.
    + apply (Hfresh o'); [right; exact Ho'|exact Hin].
Qed.

Lemma import_owners_sorted os acc : ksorted acc -> ksorted (fold_left (fun s o => kset (go_owner o) (go_pools o) s) os acc).
Proof. revert acc; induction os as [|o t IH]; intros acc H; cbn [fold_left]; [exact H|]. apply IH. apply kset_sorted. exact H. Qed.

Lemma import_owners_forall (Q : list pool -> Prop) os acc :
  Forall (fun o => Q (go_pools o)) os -> Forall (fun e => Q (snd e)) acc ->
  Forall (fun e => Q (snd e)) (fold_left (fun s o => kset (go_owner o) (go_pools o) s) os acc).
Proof.
  revert acc; induction os as [|o t IH]; intros acc H Ha; cbn [fold_left]; [exact Ha|].
  inversion H; subst. apply IH; [assumption|]. apply kset_forall_fresh; assumption.
Qed.

(* ------------------------------------------------------------------ validity gives the pool bounds *)
Lemma gpool_valid_ok p : gpool_valid p = true -> pool_ok p.
Proof. unfold gpool_valid, pool_ok, pool_currently_locked. intros H. lia. Qed.

Lemma gowner_valid_pools_ok vts o : gowner_valid vts o = true -> Forall pool_ok (go_pools o).
Proof.
  unfold gowner_valid. intros H.
  apply andb_true_iff in H as [H _]. apply andb_true_iff in H as [H _]. apply andb_true_iff in H as [_ H].
  rewrite forallb_forall in H. apply Forall_forall. intros p Hp. apply gpool_valid_ok. apply H. exact Hp.
Qed.

Lemma vgenesis_valid_parts g : vgenesis_valid g = true ->
  NoDup (map go_owner (vg_owners g)) /\ Forall (fun o => Forall pool_ok (go_pools o)) (vg_owners g).
Proof.
  unfold vgenesis_valid. intros H.
  apply andb_true_iff in H as [H _]. apply andb_true_iff in H as [H _].
  apply andb_true_iff in H as [H Hu]. apply andb_true_iff in H as [_ Ho].
  split; [apply all_unique_nodup; exact Hu|].
  rewrite forallb_forall in Ho. apply Forall_forall. intros o Hin. eapply gowner_valid_pools_ok. apply Ho. exact Hin.
Qed.

(* ------------------------------------------------------------------ C05 at genesis *)
Theorem init_refuses_unbacked_module_account g B :
  B <> genesis_locked g -> vgenesis_init g B = None.
Proof.
  intros H. unfold vgenesis_init. destruct (vg_denom_nonempty g && vg_denom_ok g); cbn [negb]; [|reflexivity].
  destruct (genesis_locked g =? B) eqn:E; [lia|reflexivity].
Qed.

Corollary init_refuses_funded_module_account_without_pools g B :
  vg_owners g = [] -> B <> 0 -> vgenesis_init g B = None.
Proof. intros H0 HB. apply init_refuses_unbacked_module_account. unfold genesis_locked. rewrite H0. cbn. lia. Qed.

Theorem accepted_genesis_is_backed g B s :
  vgenesis_valid g = true -> vgenesis_init g B = Some s ->
  B = all_pools_sum (vs_pools s) /\ pools_ok (vs_pools s) /\ NoDup (map fst (vs_pools s)).
Proof.
  intros V. destruct (vgenesis_valid_parts g V) as [Hnd Hok].
  unfold vgenesis_init. destruct (vg_denom_nonempty g && vg_denom_ok g); cbn [negb]; [|discriminate].
  destruct (genesis_locked g =? B) eqn:E; cbn [negb]; [|discriminate].
  destruct (existsb (fun t => gv_name t =? 0) (vg_vtypes g)); [discriminate|].
  match goal with |- (if ?b then _ else _) = _ -> _ => destruct b end; [discriminate|].
  intros H. injection H as <-. cbn [vs_pools]. repeat split.
  - assert (S := import_owners_sum (fun ps => zsum (map pool_currently_locked ps)) (vg_owners g) [] Hnd (fun _ _ F => F)).
    unfold ksum in S. cbn [map zsum] in S. unfold all_pools_sum, pools_sum. unfold genesis_locked in E. lia.
  - unfold pools_ok. apply (import_owners_forall (fun ps => Forall pool_ok ps)); [exact Hok|constructor].
  - apply (ksorted_nodup (fold_left (fun s o => kset (go_owner o) (go_pools o) s) (vg_owners g) [])).
    apply import_owners_sorted. constructor.
Qed.

(* ------------------------------------------------------------------ C12: the pool store survives export / import *)
Lemma kset_beyond {A} k (v : A) l : Forall (fun x => x < k) (keys l) -> kset k v l = l ++ [(k, v)].
Proof.
  unfold keys. induction l as [|[k' v'] t IH]; cbn [kset map fst app]; intros H; [reflexivity|].
  inversion H; subst. destruct (k <? k') eqn:E1; [lia|]. destruct (k =? k') eqn:E2; [lia|]. rewrite IH; [reflexivity|assumption].
Qed.

Lemma import_sorted_is_append (l : list (Z * list pool)) acc :
  ksorted (acc ++ l) ->
  fold_left (fun s o => kset (go_owner o) (go_pools o) s)
            (map (fun e => {| go_owner := fst e; go_addr_ok := true; go_pools := snd e |}) l) acc = acc ++ l.
Proof.
  revert acc; induction l as [|[k v] t IH]; intros acc H; cbn [map fold_left]; [rewrite app_nil_r; reflexivity|].
  cbn [go_owner go_pools fst snd].
  rewrite kset_beyond.
  - replace (acc ++ (k, v) :: t) with ((acc ++ [(k, v)]) ++ t) by (rewrite <- app_assoc; reflexivity).
    apply IH. rewrite <- app_assoc. exact H.
  - unfold ksorted, keys in H. rewrite map_app in H. cbn [map fst] in H.
    clear IH. induction acc as [|[k0 v0] a IHa]; cbn [map fst app] in *; [constructor|].
    inversion H as [|? ? Ht Hall]; subst. constructor; [|apply IHa; exact Ht].
    rewrite Forall_forall in Hall. apply Hall. apply in_or_app. right. left. reflexivity.
Qed.

Theorem pool_store_export_import_identity s :
  ksorted (vs_pools s) ->
  fold_left (fun st o => kset (go_owner o) (go_pools o) st) (vstore_export_owners s) [] = vs_pools s.
Proof. intros H. unfold vstore_export_owners. apply (import_sorted_is_append (vs_pools s) []). exact H. Qed.

(* what InitGenesis stores is in key order, so the theorem above applies to every state a genesis produced *)
Theorem init_store_is_sorted g B s : vgenesis_init g B = Some s -> ksorted (vs_pools s).
Proof.
  unfold vgenesis_init. destruct (vg_denom_nonempty g && vg_denom_ok g); cbn [negb]; [|discriminate].
  destruct (genesis_locked g =? B); cbn [negb]; [|discriminate].
  destruct (existsb (fun t => gv_name t =? 0) (vg_vtypes g)); [discriminate|].
  match goal with |- (if ?b then _ else _) = _ -> _ => destruct b end; [discriminate|].
  intros H. injection H as <-. cbn [vs_pools]. apply import_owners_sorted. constructor.
Qed.

(* ------------------------------------------------------------------ non-vacuity *)
Example vgenesis_example :
  let p1 := {| p_name := 1; p_vtype := 5; p_lock_start := 10; p_lock_end := 50; p_locked := 100; p_withdrawn := 20; p_sent := 30; p_genesis := true |} in
  let p2 := {| p_name := 2; p_vtype := 5; p_lock_start := 10; p_lock_end := 50; p_locked := 7; p_withdrawn := 0; p_sent := 0; p_genesis := false |} in
  let g := {| vg_denom := 1; vg_denom_nonempty := true; vg_denom_ok := true;
              vg_vtypes := [{| gv_name := 5; gv_lock_unit := 0; gv_lock := 3; gv_vest_unit := 1; gv_vest := 4; gv_free := 0 |}];
              vg_owners := [{| go_owner := 2; go_addr_ok := true; go_pools := [p1] |}; {| go_owner := 1; go_addr_ok := true; go_pools := [p2] |}];
              vg_traces := []; vg_trace_count := 0 |} in
  vgenesis_valid g = true /\
  (exists s, vgenesis_init g 57 = Some s /\ map fst (vs_pools s) = [1; 2]) /\
  vgenesis_init g 58 = None /\
  vgenesis_init {| vg_denom := 1; vg_denom_nonempty := true; vg_denom_ok := true; vg_vtypes := []; vg_owners := []; vg_traces := []; vg_trace_count := 0 |} 100 = None.
Proof. vm_compute. repeat split. eexists; split; reflexivity. Qed.

(* ------------------------------------------------------------------ C12: lineage traces and vesting types *)
(* every keyed part of the store behaves like the pool part: importing, in any order, what an export lists in key order gives
   the exported store back *)
Theorem trace_store_export_import_identity s :
  ksorted (vs_traces s) -> (forall e, In e (vs_traces s) -> gt_addr (snd e) = fst e) ->
  fold_left (fun st t => kset (gt_addr t) t st) (vstore_export_traces s) [] = vs_traces s.
Proof.
  intros Hs Hk. unfold vstore_export_traces.
  assert (G : forall l acc, (forall e, In e l -> gt_addr (snd e) = fst e) -> ksorted (acc ++ l) ->
              fold_left (fun st t => kset (gt_addr t) t st) (map snd l) acc = acc ++ l).
  { induction l as [|[k v] t IH]; intros acc Hin H; cbn [map fold_left snd]; [rewrite app_nil_r; reflexivity|].
    assert (Ek : gt_addr v = k) by (apply (Hin (k, v)); left; reflexivity). rewrite Ek.
    rewrite kset_beyond.
    - replace (acc ++ (k, v) :: t) with ((acc ++ [(k, v)]) ++ t) by (rewrite <- app_assoc; reflexivity).
      apply IH; [intros e He; apply Hin; right; exact He|rewrite <- app_assoc; exact H].
    - unfold ksorted, keys in H. rewrite map_app in H. cbn [map fst] in H.
      clear IH. induction acc as [|[k0 v0] a IHa]; cbn [map fst app] in *; [constructor|].
      inversion H as [|? ? Ht Hall]; subst. constructor; [|apply IHa; exact Ht].
      rewrite Forall_forall in Hall. apply Hall. apply in_or_app. right. left. reflexivity. }
  apply (G (vs_traces s) []); assumption.
Qed.

(* what InitGenesis stores for the traces is in key order and every entry sits under its own address *)
Lemma kset_in {A} k (v : A) l e : In e (kset k v l) -> e = (k, v) \/ In e l.
Proof.
  induction l as [|[k' v'] t IH]; cbn [kset In]; [intros [H|[]]; left; symmetry; exact H|].
  destruct (k <? k'); cbn [In].
  - intros [H|H]; [left; symmetry; exact H|right; exact H].
  - destruct (k =? k'); cbn [In].
    + intros [H|H]; [left; symmetry; exact H|right; right; exact H].
    + intros [H|H]; [right; left; exact H|]. destruct (IH H) as [E|I]; [left; exact E|right; right; exact I].
Qed.

Theorem init_trace_store_well_keyed g B s : vgenesis_init g B = Some s ->
  ksorted (vs_traces s) /\ forall e, In e (vs_traces s) -> gt_addr (snd e) = fst e.
Proof.
  unfold vgenesis_init. destruct (vg_denom_nonempty g && vg_denom_ok g); cbn [negb]; [|discriminate].
  destruct (genesis_locked g =? B); cbn [negb]; [|discriminate].
  destruct (existsb (fun t => gv_name t =? 0) (vg_vtypes g)); [discriminate|].
  match goal with |- (if ?b then _ else _) = _ -> _ => destruct b end; [discriminate|].
  intros H. injection H as <-. cbn [vs_traces].
  assert (G : forall l acc, ksorted acc -> (forall e, In e acc -> gt_addr (snd e) = fst e) ->
              ksorted (fold_left (fun s t => kset (gt_addr t) t s) l acc) /\
              forall e, In e (fold_left (fun s t => kset (gt_addr t) t s) l acc) -> gt_addr (snd e) = fst e).
  { induction l as [|t r IH]; intros acc Hs Hk; cbn [fold_left]; [split; assumption|].
    apply IH; [apply kset_sorted; exact Hs|]. intros e He. destruct (kset_in _ _ _ _ He) as [->|Hin]; [reflexivity|apply Hk; exact Hin]. }
  apply G; [constructor|intros e []].
Qed.

(* ------------------------------------------------------------------ C12: vesting types *)
From C4E Require Import Genesis.

Lemma g_units_eq d : g_units_from_duration d = units_from_duration d.
Proof. reflexivity. Qed.

Lemma units_duration_of_export d : Z.rem d SEC = 0 ->
  units_duration (fst (g_units_from_duration d)) (snd (g_units_from_duration d)) = Some d.
Proof.
  intros H. rewrite g_units_eq. unfold units_from_duration.
  destruct (Z.rem d DAY =? 0) eqn:E1; cbn [fst snd].
  - unfold units_duration. cbn [Z.eqb]. f_equal. pose proof (Z.quot_rem' d DAY). unfold DAY, HOUR, MINUTE, SEC, G_SEC in *. lia.
  - destruct (Z.rem d HOUR =? 0) eqn:E2; cbn [fst snd].
    + unfold units_duration. cbn [Z.eqb Pos.eqb]. f_equal. pose proof (Z.quot_rem' d HOUR). unfold HOUR, MINUTE, SEC, G_SEC in *. lia.
    + destruct (Z.rem d MINUTE =? 0) eqn:E3; cbn [fst snd].
      * unfold units_duration. cbn [Z.eqb Pos.eqb]. f_equal. pose proof (Z.quot_rem' d MINUTE). unfold MINUTE, SEC, G_SEC in *. lia.
      * unfold units_duration. cbn [Z.eqb Pos.eqb]. f_equal. pose proof (Z.quot_rem' d SEC). unfold SEC, G_SEC in *. lia.
Qed.

Definition whole_seconds (e : Z * (Z * Z * Z)) : Prop := match snd e with (a, b, _) => Z.rem a SEC = 0 /\ Z.rem b SEC = 0 end.

Lemma entry_of_export e : whole_seconds e -> gvtype_entry (export_vtype e) = Some e.
Proof.
  destruct e as [k [[a b] f]]. unfold whole_seconds, export_vtype, gvtype_entry. cbn [snd fst gv_lock_unit gv_lock gv_vest_unit gv_vest gv_name gv_free].
  intros [Ha Hb]. rewrite (units_duration_of_export a Ha), (units_duration_of_export b Hb). reflexivity.
Qed.

(* exporting the vesting types of a store (kept in name order, periods in whole seconds) and importing the export gives the
   store back: names, both periods in nanoseconds and the free fraction *)
Theorem vtype_store_export_import_identity s :
  ksorted (vs_vtypes s) -> Forall whole_seconds (vs_vtypes s) ->
  vtypes_store (map gvtype_entry (vstore_export_vtypes s)) = vs_vtypes s.
Proof.
  intros Hs Hw. unfold vtypes_store, vstore_export_vtypes. rewrite map_map.
  assert (G : forall l acc, Forall whole_seconds l -> ksorted (acc ++ l) ->
              fold_left (fun st x => match x with Some e => kset (fst e) (snd e) st | None => st end)
                (map (fun e => gvtype_entry (export_vtype e)) l) acc = acc ++ l).
  { induction l as [|e t IH]; intros acc Hl H; cbn [map fold_left]; [rewrite app_nil_r; reflexivity|].
    inversion Hl as [|? ? Hws Ht]; subst. rewrite (entry_of_export e Hws). destruct e as [k v]. cbn [fst snd].
    rewrite kset_beyond.
    - replace (acc ++ (k, v) :: t) with ((acc ++ [(k, v)]) ++ t) by (rewrite <- app_assoc; reflexivity).
      apply IH; [exact Ht|rewrite <- app_assoc; exact H].
    - unfold ksorted, keys in H. rewrite map_app in H. cbn [map fst] in H.
      clear IH. induction acc as [|[k0 v0] a0 IHa]; cbn [map fst app] in *; [constructor|].
      inversion H as [|? ? Ht0 Hall]; subst. constructor; [|apply IHa; exact Ht0].
      rewrite Forall_forall in Hall. apply Hall. apply in_or_app. right. left. reflexivity. }
  apply (G (vs_vtypes s) []); assumption.
Qed.

(* and what InitGenesis stores always has whole-second periods, so the hypothesis holds of every store that came from a genesis *)
Lemma some_inj (x y : Z) : Some x = Some y -> x = y.
Proof. intros H. congruence. Qed.

Lemma units_duration_whole u v d : units_duration u v = Some d -> Z.rem d SEC = 0.
Proof.
  assert (Hs : SEC <> 0) by (unfold SEC; lia).
  assert (M : forall c, Z.rem (c * SEC) SEC = 0) by (intros c; apply Z.rem_mul; exact Hs).
  unfold units_duration. intros H.
  destruct (u =? 0); [apply some_inj in H; rewrite <- H; replace (24 * 3600 * G_SEC * v) with ((24 * 3600 * v) * SEC) by (unfold G_SEC, SEC; ring); apply M|].
  destruct (u =? 1); [apply some_inj in H; rewrite <- H; replace (3600 * G_SEC * v) with ((3600 * v) * SEC) by (unfold G_SEC, SEC; ring); apply M|].
  destruct (u =? 2); [apply some_inj in H; rewrite <- H; replace (60 * G_SEC * v) with ((60 * v) * SEC) by (unfold G_SEC, SEC; ring); apply M|].
  destruct (u =? 3); [apply some_inj in H; rewrite <- H; replace (G_SEC * v) with (v * SEC) by (unfold G_SEC, SEC; ring); apply M|discriminate].
Qed.

Lemma vtypes_store_whole es : Forall (fun x => match x with Some e => whole_seconds e | None => True end) es ->
  Forall whole_seconds (vtypes_store es).
Proof.
  unfold vtypes_store. assert (G : forall es acc, Forall (fun x => match x with Some e => whole_seconds e | None => True end) es ->
    Forall whole_seconds acc -> Forall whole_seconds (fold_left (fun s x => match x with Some e => kset (fst e) (snd e) s | None => s end) es acc)).
  { clear es. induction es as [|[e|] t IH]; intros acc He Ha; cbn [fold_left]; [exact Ha| |].
    - inversion He as [|? ? H1 H2]; subst. apply IH; [exact H2|].
      rewrite Forall_forall. intros x Hx. destruct (kset_in _ _ _ _ Hx) as [->|Hin]; [destruct e; exact H1|].
      rewrite Forall_forall in Ha. apply Ha; exact Hin.
    - inversion He; subst. apply IH; assumption. }
  intros H. apply G; [exact H|constructor].
Qed.

Theorem init_vtype_store_whole_seconds g B s : vgenesis_init g B = Some s -> Forall whole_seconds (vs_vtypes s).
Proof.
  unfold vgenesis_init. destruct (negb (vg_denom_nonempty g && vg_denom_ok g)); [discriminate|].
  destruct (negb (genesis_locked g =? B)); [discriminate|]. destruct (existsb (fun t => gv_name t =? 0) (vg_vtypes g)); [discriminate|].
  destruct (existsb _ (map gvtype_entry (vg_vtypes g))); [discriminate|]. intros H. injection H as <-. cbn [vs_vtypes].
  apply vtypes_store_whole. rewrite Forall_forall. intros x Hx. apply in_map_iff in Hx. destruct Hx as (t & <- & _).
  unfold gvtype_entry. destruct (units_duration (gv_lock_unit t) (gv_lock t)) as [a|] eqn:Ea; [|exact I].
  destruct (units_duration (gv_vest_unit t) (gv_vest t)) as [b|] eqn:Eb; [|exact I].
  unfold whole_seconds. cbn [snd]. split; eapply units_duration_whole; eassumption.
Qed.

Lemma vtypes_store_sorted es : ksorted (vtypes_store es).
Proof.
  unfold vtypes_store. assert (G : forall es (acc : list (Z * (Z * Z * Z))), ksorted acc ->
    ksorted (fold_left (fun s x => match x with Some e => kset (fst e) (snd e) s | None => s end) es acc)).
  { clear es. induction es as [|[e|] t IH]; intros acc Ha; cbn [fold_left]; [exact Ha| |apply IH; exact Ha].
    apply IH. apply kset_sorted. exact Ha. }
  apply G. constructor.
Qed.

Theorem init_vtype_store_sorted g B s : vgenesis_init g B = Some s -> ksorted (vs_vtypes s).
Proof.
  unfold vgenesis_init. destruct (negb (vg_denom_nonempty g && vg_denom_ok g)); [discriminate|].
  destruct (negb (genesis_locked g =? B)); [discriminate|]. destruct (existsb (fun t => gv_name t =? 0) (vg_vtypes g)); [discriminate|].
  destruct (existsb _ (map gvtype_entry (vg_vtypes g))); [discriminate|]. intros H. injection H as <-. cbn [vs_vtypes].
  apply vtypes_store_sorted.
Qed.

(* the denomination: InitGenesis stores the parameters of the genesis and ExportGenesis writes the stored ones — an exported
   genesis names the denomination the chain was started with *)
Theorem init_keeps_the_denomination g B s : vgenesis_init g B = Some s -> vs_denom s = vg_denom g.
Proof.
  unfold vgenesis_init. destruct (negb (vg_denom_nonempty g && vg_denom_ok g)); [discriminate|].
  destruct (negb (genesis_locked g =? B)); [discriminate|].
  destruct (existsb (fun t => gv_name t =? 0) (vg_vtypes g)); [discriminate|].
  destruct (existsb _ (map gvtype_entry (vg_vtypes g))); [discriminate|].
  intros H. inversion H. reflexivity.
Qed.
