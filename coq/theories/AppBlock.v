(* AppBlock.v — one block of the two begin-blockers in the order the application runs them (app.go SetOrderBeginBlockers:
   cfeminter, then cfedistributor): the minter mints the block's amount and sends it to distributor_main_account
   (Keeper.MintCoins + SendMintedCoins with collectorName = DistributorMainAccount), then the distributor routes what its
   sources hold.  C01 across the two modules: per denomination, the sum of all balances changes by exactly what the schedule
   mints minus what the distribution burns. *)
From C4E Require Import Base Minter MinterProofs Distributor DistrCoins DistrProofs SupplyProofs.
From Coq Require Import Lia ZifyBool.
Open Scope Z_scope.

Record aworld := { aw_minter : mworld; aw_distr : dworld; aw_mint_denom : Z }.

Definition minted_coins (denom amount : Z) : dcoins := if amount =? 0 then [] else [(denom, amount)].

Definition app_begin_block (w : aworld) (now : Z) : outcome (Z * aworld) :=
  match begin_block (aw_minter w) now with
  | Ok (a, m') =>
      let d1 := dist_inflow (aw_distr w) MAINADDR (minted_coins (aw_mint_denom w) a) in
      match dist_begin_block d1 [] with
      | Ok (d', _, _) => Ok (a, {| aw_minter := m'; aw_distr := d'; aw_mint_denom := aw_mint_denom w |})
      | Err => Err | Panic => Panic
      end
  | Err => Err | Panic => Panic
  end.

Lemma minted_coins_wf denom a : 0 <= denom -> dc_wf (minted_coins denom a).
Proof. intros H. unfold minted_coins. destruct (a =? 0); [exact I|]. split; [lia|exact I]. Qed.

Lemma minted_coins_amt denom a d : dc_amt d (minted_coins denom a) = if d =? denom then a else 0.
Proof. unfold minted_coins. destruct (a =? 0) eqn:E; cbn [dc_amt]; destruct (d =? denom); lia. Qed.

Theorem app_block_supply w now a w' :
  app_begin_block w now = Ok (a, w') -> 0 <= aw_mint_denom w ->
  bank_wf (dw_bal (aw_distr w)) -> dc_wf (dw_burned (aw_distr w)) -> states_wf (dw_states (aw_distr w)) ->
  0 <= a /\ mw_supply (aw_minter w') = mw_supply (aw_minter w) + a /\
  forall d, btotal d (dw_bal (aw_distr w')) - btotal d (dw_bal (aw_distr w)) =
            (if d =? aw_mint_denom w then a else 0) - (dc_amt d (dw_burned (aw_distr w')) - dc_amt d (dw_burned (aw_distr w))).
Proof.
  intros H Hd Hb Hbu Hs. unfold app_begin_block in H.
  destruct (begin_block (aw_minter w) now) as [[a0 m']| |] eqn:Em; try discriminate.
  set (d1 := dist_inflow (aw_distr w) MAINADDR (minted_coins (aw_mint_denom w) a0)) in H.
  destruct (dist_begin_block d1 []) as [[[d' evs] calls]| |] eqn:Ed; try discriminate.
  injection H as <- <-. cbn [aw_minter aw_distr].
  unfold begin_block in Em. destruct (mint (mw_params (aw_minter w)) (mw_state (aw_minter w)) now) as [[[a1 st] h]| |] eqn:Emint; try discriminate.
  injection Em as <- <-. destruct (mint_accounting _ _ _ _ _ _ Emint) as [Hnn _].
  split; [exact Hnn|]. split; [reflexivity|]. intros d.
  pose proof (minted_coins_wf (aw_mint_denom w) a1 Hd) as Hcw.
  assert (Hb1 : bank_wf (dw_bal d1)).
  { subst d1. unfold dist_inflow. cbn [dw_bal]. apply bank_wf_aset; [exact Hb|]. apply dc_add_wf; [apply Hb|exact Hcw]. }
  pose proof (dist_block_conserves_coins d1 d' evs calls Ed Hb1 Hbu Hs d) as Hc.
  subst d1. unfold dist_inflow in Hc. cbn [dw_bal dw_burned] in Hc. rewrite btotal_aset in Hc.
  rewrite dc_add_amt in Hc by (try apply Hb; exact Hcw). rewrite minted_coins_amt in Hc. lia.
Qed.

(* ---------------------------------------------------------------- whole histories ---------- *)
Lemma payout_all_wf sts : forall b sts' b', payout_all sts b = Ok (sts', b') -> bank_ok b -> states_wf sts -> states_wf sts'.
Proof.
  induction sts as [|s t IH]; intros b sts' b' H Hb Hw; cbn [payout_all] in H.
  - injection H as <- <-. constructor.
  - inversion Hw as [|? ? Hs Ht]; subst. destruct (payout s b) as [[s1 b1]| |] eqn:E; try discriminate.
    destruct (payout_conserves _ _ _ _ E Hb Hs) as [H1 Hs1].
    destruct (payout_all t b1) as [[t1 b2]| |] eqn:E2; try discriminate. injection H as <- <-.
    constructor; [exact Hs1|]. eapply IH; [exact E2|eapply conserves_ok; exact H1|exact Ht].
Qed.

Lemma store_insert_wf s : forall l, dc_wf (st_rem s) -> states_wf l -> states_wf (store_insert s l).
Proof.
  induction l as [|x t IH]; intros Hs Hl; cbn [store_insert]; [constructor; [exact Hs|constructor]|].
  inversion Hl as [|? ? Hx Ht]; subst. destruct (st_key s <? st_key x); [constructor; assumption|].
  destruct (st_key s =? st_key x); [constructor; assumption|]. constructor; [exact Hx|apply IH; assumption].
Qed.

Lemma store_all_wf sts : forall store, states_wf sts -> states_wf store -> states_wf (store_all sts store).
Proof.
  unfold store_all. induction sts as [|s t IH]; intros store Hs Hst; cbn [fold_left]; [exact Hst|].
  inversion Hs as [|? ? H1 H2]; subst. apply IH; [exact H2|apply store_insert_wf; assumption].
Qed.

(* the well-formedness the conservation theorem needs is itself kept by a block *)
Lemma dist_block_keeps_wf w w' evs calls :
  dist_begin_block w [] = Ok (w', evs, calls) ->
  bank_wf (dw_bal w) -> dc_wf (dw_burned w) -> states_wf (dw_states w) ->
  bank_wf (dw_bal w') /\ dc_wf (dw_burned w') /\ states_wf (dw_states w').
Proof.
  unfold dist_begin_block. intros H Hb Hbu Hw.
  set (b0 := {| bk_bal := dw_bal w; bk_burned := dw_burned w; bk_faults := []; bk_calls := 0 |}) in *.
  assert (Hb0 : bank_ok b0) by (repeat split; assumption).
  destruct (run_subs (dw_subs w) (dw_states w) b0 (dw_burnkey w) []) as [[[sts b1] e]| |] eqn:E; try discriminate.
  pose proof (run_subs_conserves _ _ _ _ _ _ _ _ E Hb0) as H1.
  pose proof (run_subs_wf _ _ _ _ _ _ _ _ E Hb0 Hw) as Hw1.
  destruct (payout_all sts b1) as [[sts2 b2]| |] eqn:E2; try discriminate.
  pose proof (payout_all_conserves _ _ _ _ E2 (conserves_ok _ _ H1) Hw1) as H2.
  pose proof (payout_all_wf _ _ _ _ E2 (conserves_ok _ _ H1) Hw1) as Hw2.
  injection H as <- _ _. cbn [dw_bal dw_burned dw_states].
  destruct H2 as (A & B & _ & _). split; [exact A|]. split; [exact B|]. apply store_all_wf; assumption.
Qed.

(* a history of blocks at the given times; returns the total the schedule minted *)
Fixpoint app_run (w : aworld) (times : list Z) : outcome (Z * aworld) :=
  match times with
  | [] => Ok (0, w)
  | now :: t =>
      match app_begin_block w now with
      | Ok (a, w1) => match app_run w1 t with Ok (tot, w2) => Ok (a + tot, w2) | Err => Err | Panic => Panic end
      | Err => Err | Panic => Panic
      end
  end.

Lemma app_block_keeps_denom w now a w' : app_begin_block w now = Ok (a, w') -> aw_mint_denom w' = aw_mint_denom w.
Proof.
  unfold app_begin_block. destruct (begin_block (aw_minter w) now) as [[a0 m']| |]; try discriminate.
  destruct (dist_begin_block _ []) as [[[d' evs] calls]| |]; try discriminate. intros H. injection H as _ <-. reflexivity.
Qed.

Lemma app_block_keeps_wf w now a w' :
  app_begin_block w now = Ok (a, w') -> 0 <= aw_mint_denom w ->
  bank_wf (dw_bal (aw_distr w)) -> dc_wf (dw_burned (aw_distr w)) -> states_wf (dw_states (aw_distr w)) ->
  bank_wf (dw_bal (aw_distr w')) /\ dc_wf (dw_burned (aw_distr w')) /\ states_wf (dw_states (aw_distr w')).
Proof.
  unfold app_begin_block. intros H Hd Hb Hbu Hs.
  destruct (begin_block (aw_minter w) now) as [[a0 m']| |]; try discriminate.
  set (d1 := dist_inflow (aw_distr w) MAINADDR (minted_coins (aw_mint_denom w) a0)) in H.
  destruct (dist_begin_block d1 []) as [[[d' evs] calls]| |] eqn:Ed; try discriminate. injection H as _ <-. cbn [aw_distr].
  apply (dist_block_keeps_wf d1 d' evs calls Ed); subst d1; unfold dist_inflow; cbn [dw_bal dw_burned dw_states]; try assumption.
  apply bank_wf_aset; [exact Hb|]. apply dc_add_wf; [apply Hb|apply minted_coins_wf; exact Hd].
Qed.

(* C01 over whole histories of the two begin-blockers: per denomination, the sum of all balances plus everything burned grows
   by exactly what the schedule minted (in the mint denomination; nothing in any other), and the supply counter by the same *)
Theorem app_history_supply times : forall w tot w',
  app_run w times = Ok (tot, w') -> 0 <= aw_mint_denom w ->
  bank_wf (dw_bal (aw_distr w)) -> dc_wf (dw_burned (aw_distr w)) -> states_wf (dw_states (aw_distr w)) ->
  0 <= tot /\ mw_supply (aw_minter w') = mw_supply (aw_minter w) + tot /\
  forall d, btotal d (dw_bal (aw_distr w')) + dc_amt d (dw_burned (aw_distr w')) =
            btotal d (dw_bal (aw_distr w)) + dc_amt d (dw_burned (aw_distr w)) + (if d =? aw_mint_denom w then tot else 0).
Proof.
  induction times as [|now t IH]; intros w tot w' H Hd Hb Hbu Hs; cbn [app_run] in H.
  - injection H as <- <-. split; [lia|]. split; [lia|]. intros d. destruct (d =? aw_mint_denom w); lia.
  - destruct (app_begin_block w now) as [[a w1]| |] eqn:E1; try discriminate.
    destruct (app_run w1 t) as [[tot1 w2]| |] eqn:E2; try discriminate. injection H as <- <-.
    destruct (app_block_supply w now a w1 E1 Hd Hb Hbu Hs) as (Ha & Hsup & Hbal).
    destruct (app_block_keeps_wf w now a w1 E1 Hd Hb Hbu Hs) as (Hb1 & Hbu1 & Hs1).
    pose proof (app_block_keeps_denom w now a w1 E1) as Hden.
    destruct (IH w1 tot1 w2 E2 ltac:(rewrite Hden; exact Hd) Hb1 Hbu1 Hs1) as (Ht & Hsup2 & Hbal2).
    split; [lia|]. split; [lia|]. intros d. specialize (Hbal d). specialize (Hbal2 d). rewrite Hden in Hbal2.
    destruct (d =? aw_mint_denom w); lia.
Qed.

(* the minter's part of an application history is the minter's own block sequence (MinterWalk.run_blocks), so C02's closed form
   applies to the total the history mints *)
From C4E Require Import MinterWalk.

Lemma app_block_minter w now a w' : app_begin_block w now = Ok (a, w') ->
  mw_params (aw_minter w') = mw_params (aw_minter w) /\
  exists h, mint (mw_params (aw_minter w)) (mw_state (aw_minter w)) now = Ok (a, mw_state (aw_minter w'), h).
Proof.
  unfold app_begin_block. destruct (begin_block (aw_minter w) now) as [[a0 m']| |] eqn:Em; try discriminate.
  destruct (dist_begin_block _ []) as [[[d' evs] calls]| |]; try discriminate. intros H. injection H as <- <-. cbn [aw_minter].
  unfold begin_block in Em. destruct (mint (mw_params (aw_minter w)) (mw_state (aw_minter w)) now) as [[[a1 st] h]| |]; try discriminate.
  injection Em as <- <-. cbn [mw_params mw_state]. split; [reflexivity|]. exists h. reflexivity.
Qed.

Lemma app_run_minter times : forall w tot w', app_run w times = Ok (tot, w') ->
  run_blocks (mw_params (aw_minter w)) (mw_state (aw_minter w)) times = Ok (tot, mw_state (aw_minter w')).
Proof.
  induction times as [|now t IH]; intros w tot w' H; cbn [app_run run_blocks] in *.
  - injection H as <- <-. reflexivity.
  - destruct (app_begin_block w now) as [[a w1]| |] eqn:E1; try discriminate.
    destruct (app_run w1 t) as [[tot1 w2]| |] eqn:E2; try discriminate. injection H as <- <-.
    destruct (app_block_minter w now a w1 E1) as (Hp & h & Hm). rewrite Hm. rewrite <- Hp. rewrite (IH w1 tot1 w2 E2). reflexivity.
Qed.

(* C01 + C02: from a genesis with zero counters, after any strictly increasing sequence of block times, everything that exists
   (all balances plus everything burned, in the mint denomination) has grown by exactly the integer part of the schedule's
   cumulative emission at the last block time — whatever the block cadence, whatever the distributor configuration did with it *)
Theorem app_history_supply_is_schedule times : forall w tot w' Tl,
  app_run w times = Ok (tot, w') -> 0 <= aw_mint_denom w ->
  bank_wf (dw_bal (aw_distr w)) -> dc_wf (dw_burned (aw_distr w)) -> states_wf (dw_states (aw_distr w)) ->
  let p := mw_params (aw_minter w) in let g := mw_state (aw_minter w) in
  params_valid p = true -> periods_sane_from (mp_start p) (mp_minters p) -> mp_denom_ok p = true -> 0 <= mp_start p ->
  match mp_minters p with cur :: _ => s_seq g = m_seq cur | [] => True end -> s_minted g = 0 -> s_rem_prev g = 0 ->
  s_last g <= Tl -> increasing Tl times -> Forall (fun t => t <= MAXI64) times -> times <> [] ->
  tot = (if last times Tl <? mp_start p then 0 else dec_trunc_int (exact_sum (mp_start p) (mp_minters p) (last times Tl))) /\
  forall d, btotal d (dw_bal (aw_distr w')) + dc_amt d (dw_burned (aw_distr w')) =
            btotal d (dw_bal (aw_distr w)) + dc_amt d (dw_burned (aw_distr w)) + (if d =? aw_mint_denom w then tot else 0).
Proof.
  intros w tot w' Tl H Hd Hb Hbu Hs p g Hv Hsane Hdn H0 Hg1 Hg2 Hg3 H1 H2 H3 H4.
  pose proof (app_run_minter times w tot w' H) as Hr. fold p g in Hr.
  destruct (partition_independence p (valid_chain _ _ _ Hv Hsane) Hdn H0 g Hg1 Hg2 Hg3 times Tl H1 H2 H3 H4) as (st' & Hc).
  rewrite Hc in Hr. injection Hr as Ht _. split; [symmetry; exact Ht|].
  exact (proj2 (proj2 (app_history_supply times w tot w' H Hd Hb Hbu Hs))).
Qed.

(* ---------------------------------------------------------------- C10 over both modules ---- *)
(* the two begin-blockers never stop a history: whenever the minter's own block sequence succeeds (it does for every validated
   schedule from genesis, C10_minter_blocks_never_fail_from_genesis) and the distributor world satisfies the invariant of C03,
   every block of the history returns, the invariant is kept, and after every block the distributor's books equal the main
   account's balance *)
From C4E Require Import Books.

Section Halt.
  Variable bk : Z.
  Variable Known : dacct -> Prop.
  Hypothesis Known_bk : forall a, Known a -> da_key a <> bk.
  Hypothesis key_inj : forall a a', Known a -> Known a' -> da_key a = da_key a' -> da_id a = da_id a'.

  Lemma minted_coins_good denom a : 0 <= denom -> 0 <= a -> good_inflow (minted_coins denom a).
  Proof.
    intros Hd Ha. split; [apply minted_coins_wf; exact Hd|]. intros d. rewrite minted_coins_amt. destruct (d =? denom); lia.
  Qed.

  Theorem app_history_never_halts times : forall w,
    (exists r, run_blocks (mw_params (aw_minter w)) (mw_state (aw_minter w)) times = Ok r) ->
    winv bk Known (aw_distr w) -> 0 <= aw_mint_denom w ->
    exists tot w', app_run w times = Ok (tot, w') /\ winv bk Known (aw_distr w').
  Proof.
    induction times as [|now t IH]; intros w [r Hr] Hw Hd; cbn [app_run run_blocks] in *.
    - exists 0, w. split; [reflexivity|exact Hw].
    - destruct (mint (mw_params (aw_minter w)) (mw_state (aw_minter w)) now) as [[[a st'] h]| |] eqn:Em; try discriminate.
      destruct (run_blocks (mw_params (aw_minter w)) st' t) as [[b st'']| |] eqn:Er; try discriminate.
      destruct (mint_accounting _ _ _ _ _ _ Em) as [Ha _].
      unfold app_begin_block, begin_block. rewrite Em.
      set (d1 := dist_inflow (aw_distr w) MAINADDR (minted_coins (aw_mint_denom w) a)).
      assert (Hw1 : winv bk Known d1) by (apply inflow_keeps_winv; [exact Hw|apply minted_coins_good; assumption]).
      destruct (block_keeps_books bk Known Known_bk key_inj d1 [] Hw1) as (d' & evs & n & Ed & Hw' & _ & _). rewrite Ed.
      set (w1 := {| aw_minter := _; aw_distr := d'; aw_mint_denom := aw_mint_denom w |}).
      destruct (IH w1) as (tot & w2 & E2 & Hw2).
      + exists (b, st''). exact Er.
      + exact Hw'.
      + exact Hd.
      + rewrite E2. exists (a + tot), w2. split; [reflexivity|exact Hw2].
  Qed.
End Halt.
