(* AppBlock.v — one block of the two begin-blockers in the order the application runs them (app.go SetOrderBeginBlockers:
   cfeminter, then cfedistributor): the minter mints the block's amount and sends it to distributor_main_account
   (Keeper.MintCoins + SendMintedCoins with collectorName = DistributorMainAccount), then the distributor routes what its
   sources hold.  C01 across the two modules: per denomination, the sum of all balances changes by exactly what the schedule
   mints minus what the distribution burns. *)
From C4E Require Import Base Minter MinterProofs Distributor DistrCoins DistrProofs SupplyProofs.
From Coq Require Import Lia ZifyBool.
Open Scope Z_scope.

Record aworld := { aw_minter : mworld; aw_distr : dworld; aw_mint_denom : Z }.

Definition minted_coins (denom amount : Z) : dcoins := if amount =? 0 then [] else [(denom, amount)].

Definition app_begin_block (w : aworld) (now : Z) : outcome (Z * aworld) :=
  match begin_block (aw_minter w) now with
  | Ok (a, m') =>
      let d1 := dist_inflow (aw_distr w) MAINADDR (minted_coins (aw_mint_denom w) a) in
      match dist_begin_block d1 [] with
      | Ok (d', _, _) => Ok (a, {| aw_minter := m'; aw_distr := d'; aw_mint_denom := aw_mint_denom w |})
      | Err => Err | Panic => Panic
      end
  | Err => Err | Panic => Panic
  end.

Lemma minted_coins_wf denom a : 0 <= denom -> dc_wf (minted_coins denom a).
Proof. intros H. unfold minted_coins. destruct (a =? 0); [exact I|]. split; [lia|exact I]. Qed.

Lemma minted_coins_amt denom a d : dc_amt d (minted_coins denom a) = if d =? denom then a else 0.
Proof. unfold minted_coins. destruct (a =? 0) eqn:E; cbn [dc_amt]; destruct (d =? denom); lia. Qed.

Theorem app_block_supply w now a w' :
  app_begin_block w now = Ok (a, w') -> 0 <= aw_mint_denom w ->
  bank_wf (dw_bal (aw_distr w)) -> dc_wf (dw_burned (aw_distr w)) -> states_wf (dw_states (aw_distr w)) ->
  0 <= a /\ mw_supply (aw_minter w') = mw_supply (aw_minter w) + a /\
  forall d, btotal d (dw_bal (aw_distr w')) - btotal d (dw_bal (aw_distr w)) =
            (if d =? aw_mint_denom w then a else 0) - (dc_amt d (dw_burned (aw_distr w')) - dc_amt d (dw_burned (aw_distr w))).
Proof.
  intros H Hd Hb Hbu Hs. unfold app_begin_block in H.
  destruct (begin_block (aw_minter w) now) as [[a0 m']| |] eqn:Em; try discriminate.
  set (d1 := dist_inflow (aw_distr w) MAINADDR (minted_coins (aw_mint_denom w) a0)) in H.
  destruct (dist_begin_block d1 []) as [[[d' evs] calls]| |] eqn:Ed; try discriminate.
  injection H as <- <-. cbn [aw_minter aw_distr].
  unfold begin_block in Em. destruct (mint (mw_params (aw_minter w)) (mw_state (aw_minter w)) now) as [[[a1 st] h]| |] eqn:Emint; try discriminate.
  injection Em as <- <-. destruct (mint_accounting _ _ _ _ _ _ Emint) as [Hnn _].
  split; [exact Hnn|]. split; [reflexivity|]. intros d.
  pose proof (minted_coins_wf (aw_mint_denom w) a1 Hd) as Hcw.
  assert (Hb1 : bank_wf (dw_bal d1)).
  { subst d1. unfold dist_inflow. cbn [dw_bal]. apply bank_wf_aset; [exact Hb|]. apply dc_add_wf; [apply Hb|exact Hcw]. }
  pose proof (dist_block_conserves_coins d1 d' evs calls Ed Hb1 Hbu Hs d) as Hc.
  subst d1. unfold dist_inflow in Hc. cbn [dw_bal dw_burned] in Hc. rewrite btotal_aset in Hc.
  rewrite dc_add_amt in Hc by (try apply Hb; exact Hcw). rewrite minted_coins_amt in Hc. lia.
Qed.
