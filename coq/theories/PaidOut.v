(* PaidOut.v — receipts, not only books (C04, C01): in a block in which no bank call fails, every whole unit recorded for a
   module or base account, or for burning, is paid out (burned) in that block: what the stored states of payable accounts keep
   afterwards is the fractional part, at least zero and below one unit per denomination.  Together with the credited-amounts
   theorems (balance * 10^18 + remains follows the share machine) this bounds what a destination has *received*: it trails what
   it has been credited by less than one base unit. *)
From C4E Require Import Base Minter Distributor DistrCoins DistrProofs SupplyProofs Books LedgerProofs.
From Coq Require Import Lia ZifyBool Sorting.Permutation.
Open Scope Z_scope.

Definition settled (s : dstate) : Prop :=
  match st_acc s with
  | Some a => da_type a <> T_INTERNAL -> forall d, 0 <= dc_amt d (st_rem s) < P
  | None => True
  end.

Lemma not_any_gte1 c : dc_any_gte1 c = false -> forall d, dc_amt d c < P.
Proof.
  unfold dc_any_gte1. induction c as [|[d' v] t IH]; cbn [existsb dc_amt snd]; intros H d; [apply P_pos|].
  apply Bool.orb_false_iff in H as [H1 H2]. destruct (d =? d'); [lia|apply IH; exact H2].
Qed.

Lemma burn_nofault b from c : bk_faults b = [] -> fst (burn b from c) = true /\ bk_faults (snd (burn b from c)) = [].
Proof.
  intros H. unfold burn. destruct (next_fault b) as [f b1] eqn:E. pose proof (next_fault_nil b H) as [H1 H2].
  rewrite E in H1, H2. cbn [fst snd] in H1, H2. subst f. cbn [fst snd bk_faults]. split; [reflexivity|exact H2].
Qed.

Lemma payout_settles s b s' b' :
  payout s b = Ok (s', b') -> bk_faults b = [] -> dc_wf (st_rem s) -> (forall d, 0 <= dc_amt d (st_rem s)) ->
  settled s' /\ bk_faults b' = [].
Proof.
  unfold payout, settled. intros H Hf Hw Hn. destruct (st_acc s) as [a|] eqn:Ea; [|discriminate].
  destruct (negb (da_type a =? T_INTERNAL) && dc_any_gte1 (st_rem s)) eqn:Eg.
  - destruct (dc_trunc (st_rem s)) as [to_send change] eqn:Et.
    destruct (dc_trunc_spec _ Hw) as (_ & _ & Hamt). rewrite Et in Hamt. cbn [fst snd] in Hamt.
    assert (Hch : forall d, 0 <= dc_amt d change < P).
    { intros d. destruct (Hamt d) as [_ ->]. pose proof (chop_trunc_spec (dc_amt d (st_rem s)) (Hn d)). lia. }
    destruct (st_burn s).
    + pose proof (burn_nofault b MAINADDR to_send Hf) as [Hok Hf']. destruct (burn b MAINADDR to_send) as [ok b1].
      cbn [fst snd] in Hok, Hf'. subst ok. injection H as <- <-. cbn [set_rem st_acc st_rem]. rewrite Ea. split; [intros _; exact Hch|exact Hf'].
    + pose proof (transfer_nofault b MAINADDR (da_addr a) to_send Hf) as [Hok Hf']. destruct (transfer b MAINADDR (da_addr a) to_send) as [ok b1].
      cbn [fst snd] in Hok, Hf'. subst ok. injection H as <- <-. cbn [set_rem st_acc st_rem]. rewrite Ea. split; [intros _; exact Hch|exact Hf'].
  - injection H as <- <-. rewrite Ea. split; [|exact Hf]. intros Hty d.
    apply Bool.andb_false_iff in Eg as [Eg|Eg]; [exfalso; apply Hty; lia|]. split; [apply Hn|apply not_any_gte1; exact Eg].
Qed.

Lemma payout_all_settles sts : forall b sts' b',
  payout_all sts b = Ok (sts', b') -> bk_faults b = [] -> states_wf sts -> rem_nonneg sts -> Forall settled sts'.
Proof.
  induction sts as [|s t IH]; intros b sts' b' H Hf Hw Hn; cbn [payout_all] in H.
  - injection H as <- <-. constructor.
  - inversion Hw as [|? ? Hws Hwt]; subst. inversion Hn as [|? ? Hns Hnt]; subst.
    destruct (payout s b) as [[s1 b1]| |] eqn:E; try discriminate.
    destruct (payout_settles s b s1 b1 E Hf Hws Hns) as [Hs1 Hf1].
    destruct (payout_all t b1) as [[t1 b2]| |] eqn:E2; try discriminate. injection H as <- <-.
    constructor; [exact Hs1|]. eapply IH; eassumption.
Qed.

Section World.
  Variable bk : Z.
  Variable Known : dacct -> Prop.
  Hypothesis Known_bk : forall a, Known a -> da_key a <> bk.
  Hypothesis key_inj : forall a a', Known a -> Known a' -> da_key a = da_key a' -> da_id a = da_id a'.

  (* one fault-free block in a world satisfying the invariant of C03: every stored state of a payable account is settled *)
  Theorem fault_free_block_pays_whole_units w :
    winv bk Known w ->
    exists w' evs n, dist_begin_block w [] = Ok (w', evs, n) /\ winv bk Known w' /\ Forall settled (dw_states w').
  Proof.
    intros Hw. destruct (block_keeps_books bk Known Known_bk key_inj w [] Hw) as (w' & evs & n & E & Hw' & _ & _).
    exists w', evs, n. split; [exact E|]. split; [exact Hw'|].
    destruct Hw as [Hi Hp Hk Hs Hbk [Hc1 Hc2] Hd Hu]. unfold dist_begin_block in E.
    set (b0 := {| bk_bal := dw_bal w; bk_burned := dw_burned w; bk_faults := []; bk_calls := 0 |}) in E.
    assert (Hi0 : inv (dw_states w) b0) by (eapply inv_any_bank; [| |exact Hi]; reflexivity).
    destruct (block_books (dw_subs w) (dw_states w) b0 (dw_burnkey w) Hi0 Hp (conj Hc1 Hc2) Hu)
      as (sts1 & b1 & evs1 & sts2 & b2 & E1 & E2 & Hi2 & Hp2 & Hsig & Hu2 & Hz2).
    rewrite E1, E2 in E. injection E as <- _ _. cbn [dw_states].
    (* no pending failures after the source / distribution phase *)
    assert (Hb0 : bank_ok b0).
    { destruct Hi0 as [A B C D0 E0 F]. split; [|split; [exact F|reflexivity]]. intros a. apply D0. }
    pose proof (run_subs_conserves _ _ _ _ _ _ _ _ E1 Hb0) as (_ & _ & Hf1 & _).
    pose proof (run_subs_wf _ _ _ _ _ _ _ _ E1 Hb0 (i_wf _ _ Hi0)) as Hw1.
    (* remains are non-negative after the first phase: part of the block's working invariant *)
    assert (Hn1 : rem_nonneg sts1).
    { destruct (run_subs_books (dw_subs w) (dw_states w) b0 (dw_burnkey w) [] false Hi0 Hc1 Hu (fun H => match Bool.diff_false_true H with end))
        as (s1' & b1' & e1' & E1' & Hi1' & _). rewrite E1 in E1'. injection E1' as <- <- <-. exact (i_nn _ _ Hi1'). }
    pose proof (payout_all_settles sts1 b1 sts2 b2 E2 Hf1 Hw1 Hn1) as Hset.
    (* the store afterwards is a permutation of the working list *)
    rewrite Hbk in E1.
    pose proof (evolves_run_subs Known bk _ _ _ _ _ _ _ E1 Hd) as Hev.
    destruct (evolves_keys Known bk Known Known_bk key_inj (fun a H => H) _ _ Hev Hk (ksorted_NoDup _ Hs)) as (Hk1 & Hn1' & nk & Hpre).
    pose proof (same_sig_keys _ _ Hsig) as Hkeys2.
    destruct (store_all_perm sts2 (dw_states w) nk Hs) as [_ Hperm]; [rewrite Hkeys2; exact Hpre | rewrite Hkeys2; exact Hn1'|].
    eapply Permutation_Forall; [apply Permutation_sym; exact Hperm|exact Hset].
  Qed.
End World.
