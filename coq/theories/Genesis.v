(* Genesis.v — C12: export / import of the custom modules' genesis, transcribed from
   x/cfeminter/genesis.go, x/cfedistributor/genesis.go (after fix F4), x/cfevesting/genesis.go and
   types/vesting_type_utils.go, x/cfesignature/genesis.go.  Model and proofs. *)
From C4E Require Import Base Minter Distributor Sig.
From Coq Require Import ZifyBool.
Open Scope list_scope.
Open Scope Z_scope.

(* ---------------------------------------------------------------- minter ------------------ *)
Record mgenesis := { mg_params : mparams; mg_state : mstate; mg_hist : list mstate }.

Definition minter_export (w : mworld) : mgenesis :=
  {| mg_params := mw_params w; mg_state := mw_state w; mg_hist := map snd (mw_hist w) |}.

Definition minter_import (g : mgenesis) (supply : Z) : mworld :=
  {| mw_params := mg_params g; mw_state := mg_state g; mw_hist := fold_left hist_set (mg_hist g) []; mw_supply := supply |}.

Definition hist_keys_ok (h : list (Z * mstate)) : Prop := NoDup (map fst h) /\ Forall (fun e => fst e = s_seq (snd e)) h.

Lemma hist_set_app_new h s : ~ In (s_seq s) (map fst h) -> hist_set h s = h ++ [(s_seq s, s)].
Proof.
  induction h as [|[k v] t IH]; simpl; intros Hn; [reflexivity|].
  destruct (k =? s_seq s) eqn:E; [exfalso; apply Hn; left; lia|]. rewrite IH; [reflexivity|]. intros Hc. apply Hn. right. exact Hc.
Qed.

Lemma fold_hist_set_rebuild h : hist_keys_ok h -> forall acc, (forall k, In k (map fst acc) -> ~ In k (map fst h)) ->
  fold_left hist_set (map snd h) acc = acc ++ h.
Proof.
  intros [Hnd Hk]. induction h as [|[k v] t IH]; intros acc Hdis; simpl; [rewrite app_nil_r; reflexivity|].
  inversion Hnd as [|? ? Hnot Hnd']; subst. inversion Hk as [|? ? Hkv Hk']; subst. simpl in Hkv. subst k.
  rewrite hist_set_app_new.
  - rewrite IH; [rewrite <- app_assoc; reflexivity|assumption|assumption|].
    intros k Hin. rewrite map_app in Hin. apply in_app_or in Hin. destruct Hin as [Hin|Hin].
    + intros Hc. apply (Hdis k Hin). right. exact Hc.
    + simpl in Hin. destruct Hin as [<-|[]]. exact Hnot.
  - intros Hc. apply (Hdis _ Hc). left. reflexivity.
Qed.

(* importing the exported minter genesis gives back exactly the same parameters, state and history *)
Theorem minter_export_import w : hist_keys_ok (mw_hist w) -> minter_import (minter_export w) (mw_supply w) = w.
Proof.
  intros H. unfold minter_import, minter_export. cbn [mg_params mg_state mg_hist].
  rewrite (fold_hist_set_rebuild _ H []); [destruct w; reflexivity|]. intros k [].
Qed.

(* the history kept by BeginBlock always has the shape the theorem needs *)
Lemma hist_set_keys_ok h s : hist_keys_ok h -> hist_keys_ok (hist_set h s).
Proof.
  intros [Hnd Hk]. induction h as [|[k v] t IH]; simpl.
  - split; [repeat constructor; simpl; tauto|repeat constructor].
  - inversion Hnd as [|? ? Hnot Hnd']; subst. inversion Hk as [|? ? Hkv Hk']; subst.
    destruct (k =? s_seq s) eqn:E.
    + assert (k = s_seq s) by lia. subst k. split; [simpl; constructor; assumption|constructor; [reflexivity|assumption]].
    + destruct (IH Hnd' Hk') as [A B]. split; [|constructor; assumption]. simpl. constructor; [|assumption].
      intros Hc. clear -Hc Hnot E. induction t as [|[k1 v1] t IH]; simpl in *; [destruct Hc as [Hc|[]]; lia|].
      destruct (k1 =? s_seq s) eqn:E1; simpl in Hc.
      * destruct Hc as [Hc|Hc]; [lia|]. apply Hnot. right. exact Hc.
      * destruct Hc as [Hc|Hc]; [apply Hnot; left; exact Hc|]. apply IH; [|exact Hc]. intros H. apply Hnot. right. exact H.
Qed.

Theorem begin_block_keeps_hist_ok w now a w' : begin_block w now = Ok (a, w') -> hist_keys_ok (mw_hist w) -> hist_keys_ok (mw_hist w').
Proof.
  unfold begin_block. destruct (mint (mw_params w) (mw_state w) now) as [[[a0 st] h]| |]; try discriminate.
  intros H Hk; inversion H; subst; simpl. clear H. revert Hk. generalize (mw_hist w). induction h as [|s t IH]; intros l Hl; simpl; [assumption|].
  apply IH. apply hist_set_keys_ok. assumption.
Qed.

(* ---------------------------------------------------------------- distributor ------------- *)
(* ExportGenesis clears the account of burn states; InitGenesis (after fix F4) restores the empty one *)
Definition export_state (s : dstate) : dstate :=
  if st_burn s then {| st_acc := None; st_burn := true; st_key := st_key s; st_rem := st_rem s |} else s.
Definition import_state (s : dstate) : dstate :=
  if st_burn s then match st_acc s with
                    | None => {| st_acc := Some EMPTY_ACCT; st_burn := true; st_key := st_key s; st_rem := st_rem s |}
                    | Some _ => s end
  else s.
(* the defective import kept the state as exported *)
Definition import_state_before_fix (s : dstate) : dstate := s.

Definition distr_export (w : dworld) : list subdist * list dstate := (dw_subs w, map export_state (dw_states w)).
Definition distr_import (g : list subdist * list dstate) (bal : list (Z * dcoins)) (burned : dcoins) (bk : Z) : dworld :=
  {| dw_subs := fst g; dw_states := map import_state (snd g); dw_bal := bal; dw_burned := burned; dw_burnkey := bk |}.

(* states as the keeper writes them: burn states carry the empty account *)
Definition state_canonical (s : dstate) : Prop := st_burn s = true -> st_acc s = Some EMPTY_ACCT.

Theorem distr_export_import w : Forall state_canonical (dw_states w) ->
  distr_import (distr_export w) (dw_bal w) (dw_burned w) (dw_burnkey w) = w.
Proof.
  intros H. unfold distr_import, distr_export. cbn [fst snd]. rewrite map_map.
  assert (Hm : map (fun s => import_state (export_state s)) (dw_states w) = dw_states w).
  { induction H as [|s t Hs Ht IH]; simpl; [reflexivity|]. rewrite IH. f_equal.
    unfold import_state, export_state. destruct (st_burn s) eqn:Eb; simpl; [|rewrite Eb; reflexivity].
    specialize (Hs Eb). destruct s; simpl in *. subst. reflexivity. }
  rewrite Hm. destruct w; reflexivity.
Qed.

(* the keeper only ever creates canonical states *)
Lemma add_share_to_burn_canonical sts bk share : Forall state_canonical sts -> Forall state_canonical (add_share_to_burn sts bk share).
Proof.
  intros H. unfold add_share_to_burn. destruct (find_burn_state sts 0) as [p|].
  - revert p. induction H as [|s t Hs Ht IH]; intros p; simpl; [constructor|].
    destruct p; simpl; constructor; auto; unfold state_canonical, add_rem, set_rem in *; simpl; exact Hs.
  - apply Forall_app. split; [assumption|]. repeat constructor.
Qed.

(* regression witness of F4: with the old import the first payout attempt after a restart dereferences nil *)
Theorem import_before_fix_panics :
  let s := {| st_acc := Some EMPTY_ACCT; st_burn := true; st_key := 9; st_rem := [(0, 5 * P)] |} in
  payout (import_state_before_fix (export_state s)) {| bk_bal := []; bk_burned := []; bk_faults := []; bk_calls := 0 |} = Panic /\
  exists r, payout (import_state (export_state s)) {| bk_bal := [(0, [(0, 5)])]; bk_burned := []; bk_faults := []; bk_calls := 0 |} = Ok r.
Proof. split; [reflexivity|eexists; vm_compute; reflexivity]. Qed.

(* ---------------------------------------------------------------- vesting types ----------- *)
Definition SEC : Z := 1000000000.  Definition MINUTE : Z := 60 * SEC.  Definition HOUR : Z := 60 * MINUTE.  Definition DAY : Z := 24 * HOUR.

(* UnitsFromDuration: 0 day, 1 hour, 2 minute, 3 second *)
Definition units_from_duration (d : Z) : Z * Z :=
  if Z.rem d DAY =? 0 then (0, Z.quot d DAY)
  else if Z.rem d HOUR =? 0 then (1, Z.quot d HOUR)
  else if Z.rem d MINUTE =? 0 then (2, Z.quot d MINUTE)
  else (3, Z.quot d SEC).
Definition duration_from_units (u : Z * Z) : Z :=
  match fst u with 0 => DAY * snd u | 1 => HOUR * snd u | 2 => MINUTE * snd u | _ => SEC * snd u end.

(* lock-up and vesting periods survive the export / import exactly when they are whole seconds —
   which they always are, because vesting types only ever enter the state through a genesis *)
Theorem vesting_period_roundtrip d : Z.rem d SEC = 0 -> duration_from_units (units_from_duration d) = d.
Proof.
  intros H. unfold units_from_duration, duration_from_units.
  destruct (Z.rem d DAY =? 0) eqn:E1; cbn [fst snd].
  - pose proof (Z.quot_rem' d DAY). lia.
  - destruct (Z.rem d HOUR =? 0) eqn:E2; cbn [fst snd].
    + pose proof (Z.quot_rem' d HOUR). lia.
    + destruct (Z.rem d MINUTE =? 0) eqn:E3; cbn [fst snd].
      * pose proof (Z.quot_rem' d MINUTE). lia.
      * pose proof (Z.quot_rem' d SEC). lia.
Qed.

Theorem imported_periods_are_whole_seconds u : Z.rem (duration_from_units u) SEC = 0.
Proof.
  assert (Hs : SEC <> 0) by (unfold SEC; lia).
  unfold duration_from_units, DAY, HOUR, MINUTE. destruct u as [k v]; cbn [fst snd].
  destruct k as [|p|p].
  - replace (24 * (60 * (60 * SEC)) * v) with ((24 * 60 * 60 * v) * SEC) by ring. apply Z.rem_mul; assumption.
  - destruct p as [p|p|].
    + replace (SEC * v) with (v * SEC) by ring. apply Z.rem_mul; assumption.
    + destruct p.
      * replace (SEC * v) with (v * SEC) by ring. apply Z.rem_mul; assumption.
      * replace (SEC * v) with (v * SEC) by ring. apply Z.rem_mul; assumption.
      * replace (60 * SEC * v) with ((60 * v) * SEC) by ring. apply Z.rem_mul; assumption.
    + replace (60 * (60 * SEC) * v) with ((60 * 60 * v) * SEC) by ring. apply Z.rem_mul; assumption.
  - replace (SEC * v) with (v * SEC) by ring. apply Z.rem_mul; assumption.
Qed.

Theorem subsecond_period_is_lost : exists d, duration_from_units (units_from_duration d) <> d.
Proof. exists 1500000000. vm_compute. discriminate. Qed.

(* ---------------------------------------------------------------- signature (finding K6) -- *)
(* the signature module's genesis holds parameters only: every stored link and signature is dropped *)
Definition sig_export (w : sworld) : unit := tt.
Definition sig_import (_ : unit) : sworld := {| sw_links := []; sw_sigs := [] |}.

Theorem sig_export_import_refuted_K6 :
  exists w, sig_import (sig_export w) <> w.
Proof. exists {| sw_links := [("k", "v")%string]; sw_sigs := [] |}. discriminate. Qed.
