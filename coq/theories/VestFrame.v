(* VestFrame.v — frame lemmas for the vesting-world model: which components of the world each
   primitive can touch, and how bank primitives move balances. *)
From C4E Require Import Base Vest.
From Coq Require Import ZifyBool.
Open Scope Z_scope.

(* ---------------------------------------------------------------- setters ------------------ *)
Lemma pools_set_bal w a d v : w_pools (set_bal w a d v) = w_pools w. Proof. reflexivity. Qed.
Lemma pools_set_acc w a x : w_pools (set_acc w a x) = w_pools w. Proof. reflexivity. Qed.
Lemma pools_set_trace w a t : w_pools (set_trace w a t) = w_pools w. Proof. reflexivity. Qed.
Lemma pools_set_now w t : w_pools (set_now w t) = w_pools w. Proof. reflexivity. Qed.
Lemma pools_set_pools w o ps : w_pools (set_pools w o ps) = aset o ps (w_pools w). Proof. reflexivity. Qed.

Lemma bal_set_bal_same w a d v : bal (set_bal w a d v) a d = v.
Proof. unfold bal, set_bal; simpl. rewrite aget_aset_same. unfold camt, cset. apply zget_aset_same. Qed.

Lemma bal_set_bal_other w a d v a' d' : (a', d') <> (a, d) -> bal (set_bal w a d v) a' d' = bal w a' d'.
Proof.
  intros Hne. unfold bal, set_bal; simpl.
  destruct (Z.eq_dec a' a) as [->|Ha].
  - rewrite aget_aset_same. unfold camt, cset.
    assert (d' <> d) by congruence.
    rewrite zget_aset_other by assumption.
    destruct (aget a (w_bal w)); reflexivity.
  - rewrite aget_aset_other by assumption. reflexivity.
Qed.

Lemma bal_set_acc w a x a' d : bal (set_acc w a x) a' d = bal w a' d. Proof. reflexivity. Qed.
Lemma bal_set_pools w o ps a d : bal (set_pools w o ps) a d = bal w a d. Proof. reflexivity. Qed.
Lemma bal_set_trace w a t a' d : bal (set_trace w a t) a' d = bal w a' d. Proof. reflexivity. Qed.
Lemma bal_set_now w t a d : bal (set_now w t) a d = bal w a d. Proof. reflexivity. Qed.

(* the components that bank / auth primitives never touch *)
Definition same_static (w w' : world) : Prop :=
  w_now w' = w_now w /\ w_denom w' = w_denom w /\ w_pools w' = w_pools w /\ w_vtypes w' = w_vtypes w /\
  w_traces w' = w_traces w /\ w_blocked w' = w_blocked w.

Lemma same_static_refl w : same_static w w. Proof. repeat split. Qed.
Lemma same_static_trans a b c : same_static a b -> same_static b c -> same_static a c.
Proof. unfold same_static. intuition congruence. Qed.

Lemma sub_unlocked_static c : forall w a w', sub_unlocked w a c = Some w' -> same_static w w'.
Proof.
  induction c as [|[d v] t IH]; simpl; intros w a w' H.
  - inversion H; subst. apply same_static_refl.
  - destruct (spendable w a d <? v); [discriminate|].
    apply IH in H. eapply same_static_trans; [|exact H]. repeat split.
Qed.

Lemma add_coins_static c : forall w a, same_static w (add_coins w a c).
Proof.
  induction c as [|[d v] t IH]; simpl; intros w a.
  - apply same_static_refl.
  - eapply same_static_trans; [|apply IH]. repeat split.
Qed.

Lemma ensure_account_static w a : same_static w (ensure_account w a).
Proof. unfold ensure_account. destruct (aget a (w_acc w)); repeat split. Qed.

Lemma send_coins_static w from to c w' : send_coins w from to c = Some w' -> same_static w w'.
Proof.
  unfold send_coins. destruct (negb (coins_valid c)); [discriminate|].
  destruct (sub_unlocked w from c) as [w1|] eqn:E; [|discriminate].
  intros H; inversion H; subst.
  eapply same_static_trans; [eapply sub_unlocked_static; eassumption|].
  eapply same_static_trans; [apply add_coins_static|apply ensure_account_static].
Qed.

(* ---------------------------------------------------------------- balances ---------------- *)
(* amount of denom d in a valid coins list *)
Lemma sub_unlocked_bal c : forall w a w', sub_unlocked w a c = Some w' ->
  forall a' d, bal w' a' d = if a' =? a then bal w a' d - zsum (map (fun dv => if fst dv =? d then snd dv else 0) c)
                             else bal w a' d.
Proof.
  induction c as [|[d0 v] t IH]; simpl; intros w a w' H a' d.
  - inversion H; subst. destruct (a' =? a); lia.
  - destruct (spendable w a d0 <? v); [discriminate|].
    rewrite (IH _ _ _ H a' d).
    destruct (a' =? a) eqn:Ea.
    + assert (a' = a) by lia. subst a'.
      destruct (d0 =? d) eqn:Ed.
      * assert (d0 = d) by lia. subst d0. rewrite bal_set_bal_same. lia.
      * rewrite bal_set_bal_other by (intros Hc; inversion Hc; lia). lia.
    + rewrite bal_set_bal_other by (intros Hc; inversion Hc; lia). reflexivity.
Qed.

Lemma add_coins_bal c : forall w a a' d,
  bal (add_coins w a c) a' d = if a' =? a then bal w a' d + zsum (map (fun dv => if fst dv =? d then snd dv else 0) c)
                               else bal w a' d.
Proof.
  induction c as [|[d0 v] t IH]; simpl; intros w a a' d.
  - destruct (a' =? a); lia.
  - rewrite IH. destruct (a' =? a) eqn:Ea.
    + assert (a' = a) by lia. subst a'.
      destruct (d0 =? d) eqn:Ed.
      * assert (d0 = d) by lia. subst d0. rewrite bal_set_bal_same. lia.
      * rewrite bal_set_bal_other by (intros Hc; inversion Hc; lia). lia.
    + rewrite bal_set_bal_other by (intros Hc; inversion Hc; lia). reflexivity.
Qed.

Lemma bal_ensure_account w a a' d : bal (ensure_account w a) a' d = bal w a' d.
Proof. unfold ensure_account. destruct (aget a (w_acc w)); reflexivity. Qed.

Definition coins_amt (d : Z) (c : coins) : Z := zsum (map (fun dv => if fst dv =? d then snd dv else 0) c).

Lemma send_coins_bal w from to c w' : send_coins w from to c = Some w' ->
  forall a d, bal w' a d = bal w a d - (if a =? from then coins_amt d c else 0) + (if a =? to then coins_amt d c else 0).
Proof.
  unfold send_coins. destruct (negb (coins_valid c)); [discriminate|].
  destruct (sub_unlocked w from c) as [w1|] eqn:E; [|discriminate].
  intros H a d; inversion H; subst.
  rewrite bal_ensure_account, add_coins_bal, (sub_unlocked_bal _ _ _ _ E).
  unfold coins_amt. destruct (a =? to), (a =? from); lia.
Qed.

Lemma coins_amt_one d v d' : coins_amt d' (one_coin d v) = if d =? d' then v else 0.
Proof.
  unfold one_coin, coins_amt. destruct (v =? 0) eqn:E; simpl.
  - destruct (d =? d'); lia.
  - destruct (d =? d'); lia.
Qed.

Lemma coins_valid_from_nonneg c : forall lo d, coins_valid_from lo c = true -> 0 <= coins_amt d c.
Proof.
  induction c as [|[d0 v] t IH]; intros lo d H; unfold coins_amt in *; simpl in *; [lia|].
  apply andb_true_iff in H. destruct H as [H1 H2]. apply andb_true_iff in H1. destruct H1 as [_ Hv].
  specialize (IH _ d H2). destruct (d0 =? d); lia.
Qed.

(* ---------------------------------------------------------------- accounts ---------------- *)
Lemma acc_set_bal w a d v : w_acc (set_bal w a d v) = w_acc w. Proof. reflexivity. Qed.

Lemma sub_unlocked_acc c : forall w a w', sub_unlocked w a c = Some w' -> w_acc w' = w_acc w.
Proof.
  induction c as [|[d v] t IH]; simpl; intros w a w' H.
  - inversion H; reflexivity.
  - destruct (spendable w a d <? v); [discriminate|]. apply IH in H. rewrite H. reflexivity.
Qed.

Lemma add_coins_acc c : forall w a, w_acc (add_coins w a c) = w_acc w.
Proof. induction c as [|[d v] t IH]; simpl; intros; [reflexivity|]. rewrite IH. reflexivity. Qed.

(* send_coins only ever adds a base account at an absent recipient address *)
Lemma send_coins_acc w from to c w' : send_coins w from to c = Some w' ->
  forall a, aget a (w_acc w') = match aget a (w_acc w) with
                                | Some x => Some x
                                | None => if a =? to then Some base_acct else None
                                end.
Proof.
  unfold send_coins. destruct (negb (coins_valid c)); [discriminate|].
  destruct (sub_unlocked w from c) as [w1|] eqn:E; [|discriminate].
  intros H a; inversion H; subst. unfold ensure_account.
  rewrite add_coins_acc, (sub_unlocked_acc _ _ _ _ E).
  destruct (aget to (w_acc w)) eqn:Eto.
  - rewrite add_coins_acc, (sub_unlocked_acc _ _ _ _ E).
    destruct (aget a (w_acc w)) eqn:Ea; [reflexivity|].
    destruct (a =? to) eqn:Eat; [|reflexivity]. assert (a = to) by lia. congruence.
  - unfold set_acc; simpl. rewrite add_coins_acc, (sub_unlocked_acc _ _ _ _ E).
    destruct (a =? to) eqn:Eat.
    + assert (a = to) by lia. subst a. rewrite aget_aset_same, Eto. reflexivity.
    + rewrite aget_aset_other by lia. destruct (aget a (w_acc w)); reflexivity.
Qed.
