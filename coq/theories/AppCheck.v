(* AppCheck.v — ties AppBlock.v to the implementation's whole BeginBlock in application mode (real ABCI: every module's begin-blocker
   runs).  The harness reads the distributor world from the committed state before the block (configuration, stored states, the
   balances of the configuration's accounts), takes the amount the Mint event reports, and reads states and balances again from
   the block's state right after BeginBlock; the model runs AppBlock's distributor half — the minted coins arrive at the main
   account, then dist_begin_block without failing bank calls — and must reach the same states and balances.  (Blocks in which a
   payout failed on the implementation — some payable state keeps a whole unit — are not emitted: the fault pattern is not
   observable through ABCI.)  Definitions only. *)
From C4E Require Export Distributor AppBlock.
Open Scope Z_scope.

Record abcase := { ab_id : Z; ab_block : Z; ab_world : dworld; ab_minted : Z; ab_addrs : list Z; ab_denoms : list Z; ab_expected : list Z }.

Definition ab_got (c : abcase) : list Z :=
  match dist_begin_block (dist_inflow (ab_world c) MAINADDR (minted_coins 0 (ab_minted c))) [] with
  | Ok (w', _, _) => 1 :: obs_dworld w' (ab_addrs c) (ab_denoms c)
  | _ => [-1]
  end.

Definition abmismatches (cs : list abcase) : list (Z * Z * list Z) :=
  flat_map (fun c => let got := ab_got c in if zlist_eqb got (ab_expected c) then [] else [(ab_id c, ab_block c, got)]) cs.
