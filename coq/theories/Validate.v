(* Validate.v — C11: the one decision of the custom modules that iterates a Go map
   (validateLastOccurrence in x/cfedistributor/types/sub_distributor.go) does not depend on the
   iteration order; the error text it reports does (defect F8 / repaired by sorting). *)
From C4E Require Import Base.
From Coq Require Import Permutation Lia ZifyBool.
Open Scope Z_scope.

(* entries of the lastOccurrence map: account id -> "last occurrence is a source" *)
Fixpoint first_bad (l : list (Z * bool)) : option Z :=
  match l with [] => None | (id, ok) :: t => if ok then first_bad t else Some id end.

(* the decision taken when the map is iterated in the order [l] *)
Definition accepts (main_is_source : bool) (l : list (Z * bool)) : bool :=
  main_is_source && match first_bad l with None => true | Some _ => false end.

Lemma first_bad_none l : first_bad l = None <-> Forall (fun e => snd e = true) l.
Proof.
  induction l as [|[id ok] t IH]; simpl; [split; [constructor|reflexivity]|].
  destruct ok; split; intros H.
  - constructor; [reflexivity|apply IH; assumption].
  - inversion H; subst. apply IH. assumption.
  - discriminate.
  - inversion H; subst. simpl in *. discriminate.
Qed.

Theorem decision_independent_of_map_order main l l' : Permutation l l' -> accepts main l = accepts main l'.
Proof.
  intros Hp. unfold accepts. f_equal.
  destruct (first_bad l) eqn:E1, (first_bad l') eqn:E2; try reflexivity.
  - apply first_bad_none in E2. assert (Hf : Forall (fun e => snd e = true) l) by (eapply Permutation_Forall; [apply Permutation_sym; exact Hp|exact E2]).
    apply first_bad_none in Hf. congruence.
  - apply first_bad_none in E1. assert (Hf : Forall (fun e => snd e = true) l') by (eapply Permutation_Forall; [exact Hp|exact E1]).
    apply first_bad_none in Hf. congruence.
Qed.

(* the reported account id does depend on the order: two iteration orders, two different messages *)
Theorem reported_id_depends_on_map_order :
  exists l l', Permutation l l' /\ first_bad l <> first_bad l'.
Proof.
  exists [(1, false); (2, false)], [(2, false); (1, false)]. split; [apply perm_swap|discriminate].
Qed.

(* iterating in sorted order (the repair) makes the report a function of the map's contents *)
Fixpoint insert_sorted (e : Z * bool) (l : list (Z * bool)) : list (Z * bool) :=
  match l with [] => [e] | x :: t => if fst e <=? fst x then e :: l else x :: insert_sorted e t end.
Definition sort_entries (l : list (Z * bool)) : list (Z * bool) := fold_right insert_sorted [] l.

(* strictly increasing keys *)
Fixpoint kstrict (l : list (Z * bool)) : Prop :=
  match l with [] => True | x :: t => Forall (fun y => fst x < fst y) t /\ kstrict t end.

Lemma insert_sorted_perm e l : Permutation (insert_sorted e l) (e :: l).
Proof.
  induction l as [|x t IH]; cbn [insert_sorted]; [apply Permutation_refl|].
  destruct (fst e <=? fst x); [apply Permutation_refl|]. eapply perm_trans; [apply perm_skip; exact IH | apply perm_swap].
Qed.
Lemma sort_entries_perm l : Permutation (sort_entries l) l.
Proof.
  induction l as [|x t IH]; cbn [sort_entries fold_right]; [apply Permutation_refl|]. fold (sort_entries t).
  eapply perm_trans; [apply insert_sorted_perm | apply perm_skip; exact IH].
Qed.

Lemma insert_sorted_strict e l : kstrict l -> ~ In (fst e) (map fst l) -> kstrict (insert_sorted e l).
Proof.
  induction l as [|x t IH]; intros Hs Hn; cbn [insert_sorted]; [cbn; split; [constructor | exact I]|].
  destruct Hs as [H1 H2]. cbn [map In] in Hn.
  destruct (fst e <=? fst x) eqn:E.
  - cbn [kstrict]. split; [|split; assumption]. assert (fst e <> fst x) by (intros Eq; apply Hn; left; symmetry; exact Eq).
    constructor; [lia|]. eapply Forall_impl; [|exact H1]. cbn. intros; lia.
  - cbn [kstrict]. split.
    + eapply Permutation_Forall; [apply Permutation_sym; apply insert_sorted_perm|]. constructor; [lia | exact H1].
    + apply IH; [exact H2 | intros Hin; apply Hn; right; exact Hin].
Qed.

Lemma sort_entries_strict l : NoDup (map fst l) -> kstrict (sort_entries l).
Proof.
  induction l as [|x t IH]; intros Hn; cbn [sort_entries fold_right]; [exact I|]. fold (sort_entries t).
  cbn [map] in Hn. inversion Hn as [|? ? Hx Ht]; subst. apply insert_sorted_strict; [apply IH; exact Ht|].
  intros Hin. apply Hx. eapply Permutation_in; [apply Permutation_map; apply sort_entries_perm | exact Hin].
Qed.

Lemma kstrict_perm_eq l : forall l', kstrict l -> kstrict l' -> Permutation l l' -> l = l'.
Proof.
  induction l as [|x t IH]; intros l' Hs Hs' Hp.
  - apply Permutation_nil in Hp. subst. reflexivity.
  - destruct l' as [|y t']; [apply Permutation_sym, Permutation_nil in Hp; discriminate|].
    destruct Hs as [H1 H2]. destruct Hs' as [H1' H2'].
    assert (Hxy : x = y).
    { assert (Hx : In x (y :: t')) by (eapply Permutation_in; [exact Hp | left; reflexivity]).
      assert (Hy : In y (x :: t)) by (eapply Permutation_in; [apply Permutation_sym; exact Hp | left; reflexivity]).
      destruct Hx as [Hx|Hx]; [symmetry; exact Hx|]. destruct Hy as [Hy|Hy]; [exact Hy|].
      pose proof (proj1 (Forall_forall _ _) H1' x Hx) as A. pose proof (proj1 (Forall_forall _ _) H1 y Hy) as B. cbn beta in A, B. lia. }
    subst y. f_equal. apply IH; [exact H2 | exact H2' | eapply Permutation_cons_inv; exact Hp].
Qed.

(* after the repair (iterate the account ids in sorted order): whatever order the Go map is ranged in,
   the same account id is reported *)
Theorem reported_id_after_fix_independent_of_map_order l l' :
  NoDup (map fst l) -> Permutation l l' -> first_bad (sort_entries l) = first_bad (sort_entries l').
Proof.
  intros Hn Hp. f_equal. apply kstrict_perm_eq.
  - apply sort_entries_strict; exact Hn.
  - apply sort_entries_strict. eapply Permutation_NoDup; [apply Permutation_map; exact Hp | exact Hn].
  - eapply perm_trans; [apply sort_entries_perm|]. eapply perm_trans; [exact Hp | apply Permutation_sym; apply sort_entries_perm].
Qed.
