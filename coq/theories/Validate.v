(* Validate.v — C11: the one decision of the custom modules that iterates a Go map
   (validateLastOccurrence in x/cfedistributor/types/sub_distributor.go) does not depend on the
   iteration order; the error text it reports does (defect F8 / repaired by sorting). *)
From C4E Require Import Base.
From Coq Require Import Permutation.
Open Scope Z_scope.

(* entries of the lastOccurrence map: account id -> "last occurrence is a source" *)
Fixpoint first_bad (l : list (Z * bool)) : option Z :=
  match l with [] => None | (id, ok) :: t => if ok then first_bad t else Some id end.

(* the decision taken when the map is iterated in the order [l] *)
Definition accepts (main_is_source : bool) (l : list (Z * bool)) : bool :=
  main_is_source && match first_bad l with None => true | Some _ => false end.

Lemma first_bad_none l : first_bad l = None <-> Forall (fun e => snd e = true) l.
Proof.
  induction l as [|[id ok] t IH]; simpl; [split; [constructor|reflexivity]|].
  destruct ok; split; intros H.
  - constructor; [reflexivity|apply IH; assumption].
  - inversion H; subst. apply IH. assumption.
  - discriminate.
  - inversion H; subst. simpl in *. discriminate.
Qed.

Theorem decision_independent_of_map_order main l l' : Permutation l l' -> accepts main l = accepts main l'.
Proof.
  intros Hp. unfold accepts. f_equal.
  destruct (first_bad l) eqn:E1, (first_bad l') eqn:E2; try reflexivity.
  - apply first_bad_none in E2. assert (Hf : Forall (fun e => snd e = true) l) by (eapply Permutation_Forall; [apply Permutation_sym; exact Hp|exact E2]).
    apply first_bad_none in Hf. congruence.
  - apply first_bad_none in E1. assert (Hf : Forall (fun e => snd e = true) l') by (eapply Permutation_Forall; [exact Hp|exact E1]).
    apply first_bad_none in Hf. congruence.
Qed.

(* the reported account id does depend on the order: two iteration orders, two different messages *)
Theorem reported_id_depends_on_map_order :
  exists l l', Permutation l l' /\ first_bad l <> first_bad l'.
Proof.
  exists [(1, false); (2, false)], [(2, false); (1, false)]. split; [apply perm_swap|discriminate].
Qed.

(* iterating in sorted order (the repair) makes the report a function of the map's contents *)
Fixpoint insert_sorted (e : Z * bool) (l : list (Z * bool)) : list (Z * bool) :=
  match l with [] => [e] | x :: t => if fst e <=? fst x then e :: l else x :: insert_sorted e t end.
Definition sort_entries (l : list (Z * bool)) : list (Z * bool) := fold_right insert_sorted [] l.
