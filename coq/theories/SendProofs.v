(* SendProofs.v — C08: what a send from a pool and a direct vesting-account creation produce. *)
From C4E Require Import Base Vest VestFrame VestProofs SolventProofs.
From Coq Require Import ZifyBool.
Open Scope Z_scope.

(* the documented amount subject to vesting: integer part of amount * (1 - free) *)
Definition documented_ov (amount free : Z) : Z := (amount * (P - free)) / P.

Lemma original_vesting_formula amount free : 0 <= amount -> 0 <= free <= P ->
  dec_trunc_int (dec_of_int amount - dec_mul (dec_of_int amount) free) = documented_ov amount free.
Proof.
  intros Ha Hf. unfold dec_trunc_int, dec_of_int, dec_mul, documented_ov.
  replace (amount * P * free) with ((amount * free) * P) by ring.
  rewrite chop_round_exact.
  pose proof P_pos.
  rewrite chop_trunc_nonneg by nia.
  f_equal. ring.
Qed.

(* master unfolding of a successful send *)
Lemma send_unfold w owner to name amount restart r :
  send_to_vesting_account w owner to name amount restart = Some r ->
  exists r0 ps p0 vt w2,
    name <> 0 /\ 0 <= amount /\ owner <> to /\
    withdraw_all w owner = Some r0 /\ get_pools w owner = Some ps /\
    find_pool name (map (pool_withdraw (w_now w)) ps) = Some p0 /\ amount <= pool_currently_locked p0 /\
    aget (p_vtype p0) (w_vtypes w) = Some vt /\
    new_vesting_account (r_world r0) to amount (vt_free vt)
       (if restart then w_now w + vt_lockup vt else p_lock_end p0)
       (if restart then w_now w + vt_lockup vt + vt_vesting vt else p_lock_end p0) = Some w2 /\
    r_world r = set_trace (set_pools w2 owner (replace_last_pool name (pool_add_sent p0 amount) (map (pool_withdraw (w_now w)) ps)))
                          to {| t_genesis := false; t_from_pool := p_genesis p0; t_from_acct := false |} /\
    r_amount r = r_amount r0 /\ r_events r = r_events r0.
Proof.
  unfold send_to_vesting_account.
  destruct (name =? 0) eqn:En; [discriminate|].
  destruct (amount <? 0) eqn:Eamt; [discriminate|].
  destruct (owner =? to) eqn:Eot; [discriminate|]. destruct (owner <? 0); [discriminate|]. destruct (to <? 0); [discriminate|].
  destruct (withdraw_all w owner) as [r0|] eqn:Ew; [|discriminate].
  destruct (withdraw_all_spec _ _ _ Ew) as (ps & Hps & _ & _ & _ & Hps1 & _ & Hnow & _ & _ & Hvt & _).
  rewrite Hps1.
  destruct (map (pool_withdraw (w_now w)) ps) as [|m0 mt] eqn:Em; [discriminate|].
  destruct (find_pool name (m0 :: mt)) as [p0|] eqn:Ef; [|discriminate].
  destruct (pool_currently_locked p0 <? amount) eqn:Ecl; [discriminate|].
  destruct (aget (p_vtype p0) (w_vtypes (r_world r0))) as [vt|] eqn:Evt; [|discriminate].
  rewrite Hnow.
  destruct restart.
  - destruct (new_vesting_account _ _ _ _ _ _) as [w2|] eqn:Ec; [|discriminate].
    intros H; inversion H; subst; clear H.
    exists r0, ps, p0, vt, w2. rewrite Hvt in Evt. rewrite Em. cbn [r_world r_amount r_events].
    repeat (split; [first [lia|reflexivity|assumption]|]). reflexivity.
  - destruct (new_vesting_account _ _ _ _ _ _) as [w2|] eqn:Ec; [|discriminate].
    intros H; inversion H; subst; clear H.
    exists r0, ps, p0, vt, w2. rewrite Hvt in Evt. rewrite Em. cbn [r_world r_amount r_events].
    repeat (split; [first [lia|reflexivity|assumption]|]). reflexivity.
Qed.

Lemma find_pool_map_withdraw name now ps p0 :
  find_pool name (map (pool_withdraw now) ps) = Some p0 -> exists p, In p ps /\ p0 = pool_withdraw now p /\ p_name p = name.
Proof.
  intros H. destruct (find_pool_in _ _ _ H) as [Hin Hn]. apply in_map_iff in Hin. destruct Hin as (p & Hp & Hin).
  exists p. subst p0. auto.
Qed.

(* C08, send part *)
Theorem send_creates_documented_account w owner to name amount restart r :
  send_to_vesting_account w owner to name amount restart = Some r ->
  exists ps p vt,
    get_pools w owner = Some ps /\ In p ps /\ p_name p = name /\ aget (p_vtype p) (w_vtypes w) = Some vt /\
    (* brand-new account *)
    aget to (w_acc w) = None /\
    (* it receives exactly the requested amount (and nothing else moves except the owner's own withdrawal) *)
    (forall a d, bal (r_world r) a d = bal w a d
        - (if (a =? MODULE) && (d =? w_denom w) then Z.max 0 (r_amount r) + amount else 0)
        + (if (a =? owner) && (d =? w_denom w) then Z.max 0 (r_amount r) else 0)
        + (if (a =? to) && (d =? w_denom w) then amount else 0)) /\
    (* the request does not exceed what is still locked in the pool *)
    0 <= amount <= pool_currently_locked (pool_withdraw (w_now w) p) /\
    (* account fields *)
    aget to (w_acc (r_world r)) =
      Some {| a_kind := 2;
              a_ov := one_coin (w_denom w) (dec_trunc_int (dec_of_int amount - dec_mul (dec_of_int amount) (vt_free vt)));
              a_dv := []; a_df := [];
              a_start := unix (let le := if restart then w_now w + vt_lockup vt else p_lock_end p in
                               if le <? w_now w then w_now w else le);
              a_end := unix (if restart then w_now w + vt_lockup vt + vt_vesting vt else p_lock_end p) |}.
Proof.
  intros H.
  destruct (send_unfold _ _ _ _ _ _ _ H) as (r0 & ps & p0 & vt & w2 & Hn & Ha & Hne & Hw & Hps & Hf & Hle & Hvt & Hnv & Hrw & Hra & _).
  destruct (find_pool_map_withdraw _ _ _ _ Hf) as (p & Hin & Hp0 & Hpn).
  destruct (send_spec _ _ _ _ _ _ _ H) as ([_ Habs _ _] & _ & _ & _ & _ & _ & Hbal & _).
  exists ps, p, vt. split; [assumption|]. split; [assumption|]. split; [assumption|].
  split; [subst p0; exact Hvt|]. split; [assumption|]. split; [exact Hbal|]. split; [subst p0; lia|].
  rewrite Hrw. unfold set_trace, set_pools; cbn [w_acc].
  destruct (withdraw_all_spec _ _ _ Hw) as (_ & _ & _ & _ & _ & _ & _ & Hnow & Hden & _).
  revert Hnv. unfold new_vesting_account. destruct (blocked (r_world r0) to); [discriminate|].
  destruct (aget to (w_acc (r_world r0))) eqn:Eto; [discriminate|].
  intros Hs. unfold send_module_to_account in Hs.
  match type of Hs with (if ?B then _ else _) = _ => destruct B; [discriminate|] end.
  rewrite (send_coins_acc _ _ _ _ _ Hs to). unfold new_cva, set_acc; cbn [w_acc]. rewrite aget_aset_same.
  rewrite Hnow, Hden. subst p0. destruct restart; reflexivity.
Qed.

(* for a positive amount the pool cannot have matured, so the no-restart schedule is the pool's lock end *)
Theorem send_positive_from_locked_pool now p amount :
  0 < amount <= pool_currently_locked (pool_withdraw now p) -> now < p_lock_end p.
Proof.
  intros H. destruct (Z_lt_le_dec now (p_lock_end p)) as [|Hge]; [assumption|].
  rewrite pool_withdraw_after_locked in H by assumption. lia.
Qed.

Theorem send_sent_counter_grows_by_amount w owner to name amount restart r :
  send_to_vesting_account w owner to name amount restart = Some r ->
  exists ps p0, get_pools w owner = Some ps /\
    find_pool name (map (pool_withdraw (w_now w)) ps) = Some p0 /\
    get_pools (r_world r) owner = Some (replace_last_pool name (pool_add_sent p0 amount) (map (pool_withdraw (w_now w)) ps)) /\
    pools_sum (replace_last_pool name (pool_add_sent p0 amount) (map (pool_withdraw (w_now w)) ps))
      = pools_sum (map (pool_withdraw (w_now w)) ps) - amount.
Proof.
  intros H. destruct (send_spec _ _ _ _ _ _ _ H) as ([_ _ _ (ps & p0 & Hps & Hf & _ & Hps')] & _).
  exists ps, p0. repeat (split; [assumption|]). apply replace_last_sum; assumption.
Qed.

Theorem send_above_locked_fails w owner to name amount restart ps p0 :
  get_pools w owner = Some ps -> find_pool name (map (pool_withdraw (w_now w)) ps) = Some p0 ->
  pool_currently_locked p0 < amount -> send_to_vesting_account w owner to name amount restart = None.
Proof.
  intros Hps Hf Hlt. destruct (send_to_vesting_account w owner to name amount restart) as [r|] eqn:E; [|reflexivity].
  destruct (send_unfold _ _ _ _ _ _ _ E) as (r0 & ps' & p0' & vt & w2 & _ & _ & _ & _ & Hps' & Hf' & Hle & _).
  rewrite Hps in Hps'. inversion Hps'; subst ps'. rewrite Hf in Hf'. inversion Hf'; subst p0'. lia.
Qed.

(* C08, direct creation *)
Theorem create_vesting_account_spec w from to c start end_ w' :
  create_vesting_account w from to c start end_ = Some w' ->
  start <= end_ /\ aget to (w_acc w) = None /\ blocked w to = false /\ coins_valid c = true /\
  aget to (w_acc w') = Some {| a_kind := 2; a_ov := c; a_dv := []; a_df := []; a_start := start; a_end := end_ |} /\
  (forall a, a <> to -> aget a (w_acc w') = aget a (w_acc w)) /\
  (forall a d, bal w' a d = bal w a d - (if a =? from then coins_amt d c else 0) + (if a =? to then coins_amt d c else 0)).
Proof.
  unfold create_vesting_account.
  destruct (existsb _ c); [discriminate|]. destruct (end_ <? start) eqn:Ese; [discriminate|].
  destruct (from <? 0); [discriminate|]. destruct (to <? 0); [discriminate|].
  destruct (blocked w to) eqn:Eb; [discriminate|]. destruct (aget to (w_acc w)) eqn:Eto; [discriminate|].
  intros H.
  split; [lia|]. split; [reflexivity|]. split; [reflexivity|].
  split. { revert H. unfold send_coins. destruct (coins_valid c); [reflexivity|discriminate]. }
  split. { rewrite (send_coins_acc _ _ _ _ _ H to). unfold new_cva, set_acc; cbn [w_acc]. rewrite aget_aset_same. reflexivity. }
  split. { intros a Ha. rewrite (send_coins_acc _ _ _ _ _ H a). unfold new_cva, set_acc; cbn [w_acc].
           rewrite aget_aset_other by assumption. destruct (aget a (w_acc w)); [reflexivity|].
           destruct (a =? to) eqn:E; [lia|reflexivity]. }
  intros a d. rewrite (send_coins_bal _ _ _ _ _ H a d). reflexivity.
Qed.

Theorem create_vesting_account_rejects w from to c start end_ :
  (end_ < start \/ (exists x, aget to (w_acc w) = Some x) \/ blocked w to = true) ->
  create_vesting_account w from to c start end_ = None.
Proof.
  intros H. destruct (create_vesting_account w from to c start end_) as [w'|] eqn:E; [|reflexivity].
  destruct (create_vesting_account_spec _ _ _ _ _ _ _ E) as (H1 & H2 & H3 & _).
  destruct H as [H|[[x H]|H]]; [lia|congruence|congruence].
Qed.

(* all of the coins vest linearly between start and end: vested_amt is 0 up to start, everything
   from end, and in between the rounded product of the SDK's 18-digit time fraction *)
Theorem continuous_vesting_endpoints start end_ ov :
  (forall t, t <= start -> vested_amt start end_ t ov = 0) /\
  (forall t, start < t -> end_ <= t -> vested_amt start end_ t ov = ov).
Proof.
  split; intros t H; unfold vested_amt.
  - destruct (t <=? start) eqn:E; [reflexivity|lia].
  - intros H2. destruct (t <=? start) eqn:E; [lia|]. destruct (end_ <=? t) eqn:E2; [reflexivity|lia].
Qed.
