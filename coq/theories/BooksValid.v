(* BooksValid.v — what the distributor's parameter validation (Params.dparams_valid) gives the books
   theorems of Books.v: share fractions in range, and "the last occurrence of MAIN is a source", which
   makes the whole main balance booked at the end of every block. *)
From C4E Require Import Base Minter Distributor DistrCoins DistrProofs Params Books.
From Coq Require Import Lia ZifyBool.
Open Scope Z_scope.

Definition is_main (a : dacct) : bool := da_type a =? T_MAIN.
(* store keys of real accounts are ranks >= 0; -1 is reserved for MAIN in the validation's tables *)
Definition uid_ok (a : dacct) : Prop := da_type a <> T_MAIN -> da_key a <> -1.

Definition mlast (v : vstate) : option bool := aget (-1) (v_last v).

Lemma set_occurrence_mlast v a pos src v' :
  set_occurrence v a pos src = Some v' -> uid_ok a ->
  mlast v' = if is_main a then Some src else mlast v.
Proof.
  unfold set_occurrence, mlast, is_main, uid_ok, acct_uid, positional. intros H Hu.
  destruct (zget _ (v_idx v) =? pos); [discriminate|]. inversion H; subst; clear H. cbn [v_last].
  destruct (da_type a =? T_MAIN) eqn:Em.
  - rewrite orb_true_r. rewrite aget_aset_same. reflexivity.
  - rewrite orb_false_r. destruct (da_type a =? T_INTERNAL); [|reflexivity].
    rewrite aget_aset_other; [reflexivity|]. intros E. apply Hu; [lia | symmetry; exact E].
Qed.

Lemma occ_all_mlast l : forall v pos src v', occ_all v l pos src = Some v' -> Forall uid_ok l ->
  mlast v' = if existsb is_main l then Some src else mlast v.
Proof.
  induction l as [|a t IH]; intros v pos src v' H Hu; cbn [occ_all existsb] in *; [inversion H; reflexivity|].
  inversion Hu as [|? ? Ha Ht]; subst.
  destruct (set_occurrence v a pos src) as [v1|] eqn:E; [|discriminate].
  rewrite (IH _ _ _ _ H Ht), (set_occurrence_mlast _ _ _ _ _ E Ha).
  destruct (is_main a); cbn [orb]; [destruct (existsb is_main t); reflexivity | reflexivity].
Qed.

Lemma occ_shares_mlast l : forall v pos v', occ_shares v l pos = Some v' -> Forall (fun sh => uid_ok (sh_dest sh)) l ->
  mlast v' = if existsb (fun sh => is_main (sh_dest sh)) l then Some false else mlast v.
Proof.
  induction l as [|sh t IH]; intros v pos v' H Hu; cbn [occ_shares existsb] in *; [inversion H; reflexivity|].
  inversion Hu as [|? ? Ha Ht]; subst.
  destruct (name_new (sh_name sh) (v_shnames v)); [|discriminate].
  match type of H with match ?x with _ => _ end = _ => destruct x as [v1|] eqn:E; [|discriminate] end.
  rewrite (IH _ _ _ H Ht), (set_occurrence_mlast _ _ _ _ _ E Ha). unfold mlast at 2. cbn [v_last].
  destruct (is_main (sh_dest sh)); cbn [orb]; [destruct (existsb _ t); reflexivity | reflexivity].
Qed.

Definition sd_uids_ok (sd : subdist) : Prop :=
  Forall uid_ok (sd_sources sd) /\ uid_ok (sd_primary sd) /\ Forall (fun sh => uid_ok (sh_dest sh)) (sd_shares sd).

Lemma validate_order_booked l : forall v pos v' z,
  validate_order v l pos = Some v' -> Forall (fun s => sd_uids_ok (ps_sd s)) l ->
  Forall (fun s => sources_in_order (sd_sources (ps_sd s))) l ->
  (mlast v = Some true -> z = true) ->
  mlast v' = Some true -> booked_after z (map ps_sd l) = true.
Proof.
  induction l as [|s t IH]; intros v pos v' z H Hu Ho Hz Hm; cbn [validate_order map booked_after] in *.
  - inversion H; subst. apply Hz; exact Hm.
  - inversion Hu as [|? ? (Hu1 & Hu2 & Hu3) Hut]; inversion Ho as [|? ? Ho1 Hot]; subst.
    destruct (negb (name_new (sd_name (ps_sd s)) (v_sdnames v))); [discriminate|].
    match type of H with match ?x with _ => _ end = _ => destruct x as [v1|] eqn:E1; [|discriminate] end.
    destruct (set_occurrence v1 (sd_primary (ps_sd s)) pos false) as [v2|] eqn:E2; [|discriminate].
    destruct (negb (name_new (ps_pname s) (v_shnames v2))); [discriminate|].
    match type of H with match ?x with _ => _ end = _ => destruct x as [v3|] eqn:E3; [|discriminate] end.
    apply (IH v3 (pos + 1) v' (booked_step z (ps_sd s)) H Hut Hot); [|exact Hm].
    intros Hm3. rewrite (occ_shares_mlast _ _ _ _ E3 Hu3) in Hm3. unfold mlast at 1 in Hm3. cbn [v_last] in Hm3. fold (mlast v2) in Hm3.
    destruct (existsb (fun sh => is_main (sh_dest sh)) (sd_shares (ps_sd s))); [discriminate|].
    rewrite (set_occurrence_mlast _ _ _ _ _ E2 Hu2) in Hm3.
    unfold booked_step. unfold is_main in Hm3. destruct (da_type (sd_primary (ps_sd s)) =? T_MAIN); [discriminate|]. cbn [negb]. rewrite andb_true_r.
    rewrite (occ_all_mlast _ _ _ _ _ E1 Hu1) in Hm3. unfold mlast at 1 in Hm3. cbn [v_last] in Hm3. fold (mlast v) in Hm3.
    (* MAIN among the sources <-> it is the first source, since the sources are in order *)
    destruct (sd_sources (ps_sd s)) as [|a0 srcs] eqn:Es; cbn [existsb main_is_source] in *.
    + cbn [orb]. apply Hz; exact Hm3.
    + destruct Ho1 as [Hhead Htail]. unfold is_main in Hm3 at 1. destruct (da_type a0 =? T_MAIN); cbn [orb] in *; [reflexivity|].
      assert (Hno : existsb is_main srcs = false).
      { clear - Htail. induction srcs as [|x xs IHx]; [reflexivity|]. inversion Htail as [|? ? [Hx _] Hxs]; subst. cbn [existsb]. unfold is_main at 1.
        replace (da_type x =? T_MAIN) with false by lia. apply IHx; exact Hxs. }
      rewrite Hno in Hm3. apply Hz; exact Hm3.
Qed.

Lemma forallb_snd_aget (l : list (Z * bool)) k b : aget k l = Some b -> forallb snd l = true -> b = true.
Proof.
  induction l as [|[k0 b0] t IH]; cbn [aget forallb snd]; [discriminate|]. intros H Hf. apply andb_true_iff in Hf as [H1 H2].
  destruct (k =? k0); [inversion H; subst; reflexivity | apply IH; assumption].
Qed.

Lemma sub_valid_shares_ok s : sub_valid s = true -> sd_shares_ok (ps_sd s).
Proof.
  unfold sub_valid, sd_shares_ok, shares_ok, shares_total. intros H.
  repeat match type of H with _ && _ = true => apply andb_true_iff in H as [H ?] end.
  match goal with Hs : forallb (share_valid _) _ = true |- _ => rename Hs into Hsh end.
  split.
  - apply Forall_forall. intros sh Hin. pose proof (proj1 (forallb_forall _ _) Hsh sh Hin) as Hv. unfold share_valid in Hv.
    repeat match type of Hv with _ && _ = true => apply andb_true_iff in Hv as [Hv ?] end. lia.
  - split; [lia|]. match goal with Ht : (_ <=? _) && (_ <? _) = true |- _ => apply andb_true_iff in Ht as [? ?] end. lia.
Qed.

(* a configuration accepted by Params.Validate, with sources in order (not K1): shares in range and
   the whole main balance booked after every block *)
Theorem valid_config_books l :
  dparams_valid l = true ->
  Forall (fun s => sd_uids_ok (ps_sd s)) l ->
  Forall (fun s => sources_in_order (sd_sources (ps_sd s))) l ->
  Forall sd_shares_ok (map ps_sd l) /\ booked_after false (map ps_sd l) = true.
Proof.
  unfold dparams_valid. intros H Hu Ho. apply andb_true_iff in H as [Hs Hv]. split.
  - apply Forall_forall. intros sd Hin. apply in_map_iff in Hin as (s & <- & Hs'). apply sub_valid_shares_ok. exact (proj1 (forallb_forall _ _) Hs s Hs').
  - destruct (validate_order _ l 1) as [v|] eqn:E; [|discriminate]. unfold last_occurrence_ok in Hv.
    destruct (aget (-1) (v_last v)) as [b|] eqn:Ea; [|discriminate].
    pose proof (forallb_snd_aget _ _ _ Ea Hv) as ->.
    eapply validate_order_booked; [exact E | exact Hu | exact Ho | cbn; discriminate | exact Ea].
Qed.

(* a parameter update that validation accepts is a good update for the books (Books.good_subs) as soon as it stays outside the two
   known-finding shapes (sources in order: not K1; destinations plain and among the known accounts: not K2 / key discipline) *)
Theorem validated_update_is_good (Known : dacct -> Prop) l :
  dparams_valid l = true ->
  Forall (fun s => sd_uids_ok (ps_sd s)) l ->
  Forall (fun s => sources_in_order (sd_sources (ps_sd s))) l ->
  Forall (dests_shaped plainR) (map ps_sd l) -> Forall (dests_in Known) (map ps_sd l) ->
  good_subs Known (map ps_sd l).
Proof.
  intros Hv Hu Ho Hsh Hin. destruct (valid_config_books l Hv Hu Ho) as [Hs Hb].
  split; [|split; [exact Hin|exact Hb]]. split; [|exact Hsh].
  rewrite Forall_forall in *. intros sd Hsd. split; [|apply Hs; exact Hsd].
  apply in_map_iff in Hsd as (s & <- & Hs'). apply Ho. exact Hs'.
Qed.
